import AmVerif.Proofs.Anon
/-
  C31 — "Anonymization preserves document shape: anonymize returns a document with an isomorphic
  change graph (the same changes, dependency structure and op counts per change). It has the same
  object types, keys structure, sequence lengths, text widths and conflict structure at every
  heads. It saves and reloads cleanly."

  Model (`AmVerif.Model.Anon`): `Anonymization::anonymize` (rust/automerge/src/anonymize.rs) rewrites
  every expanded change by a renaming `ρ` (actors, map keys, mark names; values and increments re-drawn
  per operation) and a hash table `η`, and rebuilds the document by `apply_changes`; its state at any
  heads is therefore the `Spec` reading of the renamed operations of the ancestors of those heads.

  Theorems
  * `interp_commutes_with_renaming`  every `Spec` observable commutes with `mapOp ρ` when the actor map
      preserves and reflects byte order on the actors that occur (`ActorMono`), the key map is injective
      on the keys of each object (`KeyInj`) and values keep their constructor (`KindPres`);
  * `C31_shape`, `C31_shape_at`      hence the shape is equal, now and at every heads;
  * `actor_map_monotone`             the code's `actor_map` construction satisfies `ActorMono`;
  * `graph_iso`                      renaming hashes injectively keeps heads, ancestors, deps, op counts;
  * `structReplace_injective`, `structString_injective`, `keyInj_ascii`, `C31_shape_ascii_keys`
      the key / mark-name substitution of the code (after fix 7934046c1; before it a control character
      and a printable character were both mapped to U+0020 — finding `sig=key-collision`) is injective
      when every table is a bijection of `0..count`, so `KeyInj` holds for the code's key map;
  * `C31_counters`                   what is (which increments apply) and is not (values) kept of counters;
  * `C31_shape_enc_partial`          widths: code points, UTF-8 and UTF-16 units only (`gc` excluded).
  "Saves and reloads cleanly" is decided by the direct oracle of the `anon` engine (save → load of the
  real result), not by a theorem.  Helper lemmas: `AmVerif.Proofs.Anon`.
-/
namespace AmVerif.Props.C31
open AmVerif AmVerif.Crdt

/-! ### the example history: three actors, a conflict, a counter, a text with a tombstone -/

def aA : Bytes := [1]
def aB : Bytes := [1, 0]     -- extends `aA`: byte order is not length order
def aC : Bytes := [0, 255]
def txt : ObjId := .id ⟨2, aA⟩

def exOps : List Op :=
  [ ⟨⟨1, aA⟩, .root, .map [97], false, .put (.str [104, 105]), []⟩,          -- a := "hi"
    ⟨⟨1, aB⟩, .root, .map [97], false, .put (.int 5), []⟩,                    -- a := 5 (conflict)
    ⟨⟨2, aA⟩, .root, .map [98], false, .make .text, []⟩,                      -- b := Text
    ⟨⟨3, aA⟩, txt, .head, true, .put (.str [195, 169]), []⟩,                  -- "é" at head
    ⟨⟨3, aC⟩, txt, .head, true, .put (.str [120]), []⟩,                       -- "x" at head, concurrently
    ⟨⟨4, aB⟩, .root, .map [99], false, .put (.counter 1), []⟩,                -- c := counter 1
    ⟨⟨5, aA⟩, .root, .map [99], false, .inc 2, [⟨4, aB⟩]⟩,                     -- c += 2
    ⟨⟨6, aA⟩, txt, .elem ⟨3, aC⟩, false, .del, [⟨3, aC⟩]⟩ ]                    -- delete "x"

/-- rank-preserving actors (`aC < aA < aB`), order-reversing keys, same-kind / same-width values -/
def exρ : Ren where
  actor := fun a => if a == aC then [9, 0] else if a == aA then [9, 1] else if a == aB then [9, 2] else a
  key := fun k => if k == [97] then [122] else if k == [98] then [121] else if k == [99] then [120] else k
  mark := fun m => m
  val := fun _ v => match v with
    | .str [104, 105] => .str [113, 113]
    | .str [195, 169] => .str [195, 168]
    | .str [120] => .str [121]
    | .int _ => .int 77
    | .counter _ => .counter 0
    | v => v
  inc := fun _ _ => 9

theorem ex_hyps : ActorMono exρ exOps ∧ KeyInj exρ exOps ∧ KindPres exρ exOps ∧ TagPres tagOf exρ exOps ∧
    WidthPres (opWidth .utf16 true) exρ exOps :=
  ⟨by decide, keyInj_of_B (by decide), kindPres_of_B (by decide), tagPres_of_B (by decide), by decide⟩

/-! ### every observable commutes with the renaming -/

/-- "It has the same object types, keys structure, sequence lengths … and conflict structure":
    under the three hypotheses, for the renamed op set `ops.map (mapOp ρ)`
    (1) visibility and being overwritten are those of the original operation;
    (2) the increments applying to a counter are the images of the original ones (their *amounts*
        are re-drawn by the code, so counter values are NOT preserved — only which increments apply);
    (3) the register of key `ρ k` of `ρ obj` holds the images of the register of `k`, in the same
        (id) order — same conflict count, same winner position;
    (4) the key list of `ρ obj` is a permutation of the image of the key list (key ORDER changes);
    (5) sibling lists, the RGA order and the visible elements with their registers are the images, in
        the same order (sibling order depends only on id order);
    (6) object types are the same. -/
theorem interp_commutes_with_renaming (ρ : Ren) (ops : List Op)
    (hact : ActorMono ρ ops) (hkey : KeyInj ρ ops) (hkind : KindPres ρ ops) :
    (∀ o ∈ ops, visible (ops.map (mapOp ρ)) (mapOp ρ o) = visible ops o ∧
        overwritten (ops.map (mapOp ρ)) (mapOp ρ o) = overwritten ops o) ∧
    (∀ o ∈ ops, (ops.map (mapOp ρ)).filter (fun p => p.isInc && p.pred.contains (mapOp ρ o).id) =
        (ops.filter (fun p => p.isInc && p.pred.contains o.id)).map (mapOp ρ)) ∧
    (∀ obj, ObjOcc ops obj → ∀ k, (∃ w ∈ ops, w.obj = obj ∧ w.key = .map k) →
        mapRegOps (ops.map (mapOp ρ)) (ρ.obj obj) (ρ.key k) = (mapRegOps ops obj k).map (mapOp ρ) ∧
        (mapRegister (ops.map (mapOp ρ)) (ρ.obj obj) (ρ.key k)).map (·.id) =
          (mapRegister ops obj k).map (fun e => ρ.id e.id)) ∧
    (∀ obj, ObjOcc ops obj →
        (mapKeys (ops.map (mapOp ρ)) (ρ.obj obj)).Perm ((mapKeys ops obj).map ρ.key)) ∧
    (∀ obj, ObjOcc ops obj →
        (∀ parent, SeqKeyOcc ops parent →
          children (ops.map (mapOp ρ)) (ρ.obj obj) (ρ.keyOf parent) = (children ops obj parent).map (mapOp ρ)) ∧
        rgaOrder (ops.map (mapOp ρ)) (ρ.obj obj) = (rgaOrder ops obj).map (mapOp ρ) ∧
        seqRegs (ops.map (mapOp ρ)) (ρ.obj obj) =
          (seqRegs ops obj).map (fun p => (ρ.id p.1, p.2.map (mapOp ρ))) ∧
        (∀ e ∈ idsOf ops, elemRegOps (ops.map (mapOp ρ)) (ρ.obj obj) (ρ.id e) =
          (elemRegOps ops obj e).map (mapOp ρ))) ∧
    (∀ obj, ObjOcc ops obj → objType (ops.map (mapOp ρ)) (ρ.obj obj) = objType ops obj) := by
  have hm := hact.idMono
  refine ⟨fun o ho => ⟨visible_map hm hkind ho, overwritten_map hm hkind ho⟩,
    fun o ho => counterIncs_map hm ho, ?_, fun obj hobj => mapKeys_map_perm hm hkey hkind hobj,
    fun obj hobj => ⟨fun parent hp => children_map hm hobj hp, rgaOrder_map hm hobj,
      seqRegs_map hm hkind hobj, fun e he => elemRegOps_map hm hkind hobj he⟩,
    fun obj hobj => objType_map hm hobj⟩
  intro obj hobj k hk
  have h := mapRegOps_map hm hkey hkind hobj hk
  refine ⟨h, ?_⟩
  rw [mapRegister_eq, mapRegister_eq, h, List.map_map, List.map_map, List.map_map]
  apply List.map_congr_left
  intro o _
  simp only [Function.comp, entryOf_id, mapOp_id]

/-- non-vacuity: the hypotheses hold for a renaming that really renames (keys in reversed order,
    every actor, every value), on a history with a conflict, a counter and a tombstone -/
example : ActorMono exρ exOps ∧ KeyInj exρ exOps ∧ KindPres exρ exOps ∧
    exOps.map (mapOp exρ) ≠ exOps ∧
    mapKeys exOps .root = [[97], [98], [99]] ∧
    mapKeys (exOps.map (mapOp exρ)) .root = [[120], [121], [122]] ∧
    (mapRegister exOps .root [97]).length = 2 ∧
    (seqRegs exOps txt).map (·.1) = [⟨3, aA⟩] :=
  ⟨ex_hyps.1, ex_hyps.2.1, ex_hyps.2.2.1, by decide, by decide, by decide, by decide, by decide⟩

/-- counter *values* are not preserved (increments and initial values are re-drawn): what commutes is
    clause (2) above, not `counterValue` -/
example : counterValue exOps (exOps[5]!) 1 = 3 ∧
    counterValue (exOps.map (mapOp exρ)) (mapOp exρ (exOps[5]!)) 0 = 9 := by decide

/-! ### shape -/

/-- "the same object types, keys structure, sequence lengths, text widths and conflict structure":
    the shape of every object that occurs — type; number of keys and, as a multiset, each key's
    conflict set; sequence length, each element's conflict set in order, text width; recursively —
    is unchanged, provided additionally values keep their tag and elements their width. -/
theorem C31_shape_obj (ρ : Ren) (ops : List Op) (tag : Scalar → Bytes) (W : Op → Nat)
    (hact : ActorMono ρ ops) (hkey : KeyInj ρ ops) (hkind : KindPres ρ ops)
    (htag : TagPres tag ρ ops) (hW : WidthPres W ρ ops)
    (fuel : Nat) (obj : ObjId) (ty : ObjType) (hobj : ObjOcc ops obj) :
    shapeObj tag W (ops.map (mapOp ρ)) fuel (ρ.obj obj) ty = shapeObj tag W ops fuel obj ty :=
  shapeObj_map hact.idMono hkey hkind htag hW fuel obj ty hobj

/-- the whole document -/
theorem C31_shape (ρ : Ren) (ops : List Op) (tag : Scalar → Bytes) (W : Op → Nat)
    (hact : ActorMono ρ ops) (hkey : KeyInj ρ ops) (hkind : KindPres ρ ops)
    (htag : TagPres tag ρ ops) (hW : WidthPres W ρ ops) :
    shapeOf tag W (ops.map (mapOp ρ)) = shapeOf tag W ops :=
  shapeOf_map hact.idMono hkey hkind htag hW

example : shapeOf tagOf (opWidth .utf16 true) (exOps.map (mapOp exρ)) = shapeOf tagOf (opWidth .utf16 true) exOps :=
  C31_shape _ _ _ _ ex_hyps.1 ex_hyps.2.1 ex_hyps.2.2.1 ex_hyps.2.2.2.1 ex_hyps.2.2.2.2

/-- the shape of the example, evaluated: `M{T1[s2];c;s11|i}` -/
example : shapeOf tagOf (opWidth .utf16 true) exOps = asciiB "M{T1[s2];c;s11|i}" := by decide

/-- "… at every heads": the shape of the anonymised history at the image of any set of heads is the
    shape of the original history at those heads (`η` = `change_hashes`, injective on the hashes that
    occur; the hypotheses are stated once for the operations of the whole history). -/
theorem C31_shape_at (ρ : Ren) (η : Hash → Hash) (d : Doc) (heads : List Hash)
    (tag : Scalar → Bytes) (W : Op → Nat)
    (hη : InjOn η (hashesOf d.applied ++ heads))
    (hact : ActorMono ρ d.ops) (hkey : KeyInj ρ d.ops) (hkind : KindPres ρ d.ops)
    (htag : TagPres tag ρ d.ops) (hW : WidthPres W ρ d.ops) :
    shapeAt tag W (mapDoc ρ η d) (heads.map η) = shapeAt tag W d heads := by
  unfold shapeAt
  rw [at_ops_map hη]
  have hs := at_ops_subset (d := d) (heads := heads)
  exact C31_shape ρ _ tag W (hact.mono hs) (hkey.mono hs) (hkind.mono hs) (htag.mono hs) (hW.mono hs)

/-- the same through `restrict`: the part of the op set covered by a clock -/
theorem C31_shape_restrict (ρ : Ren) (ops : List Op) (covered covered' : OpId → Bool)
    (tag : Scalar → Bytes) (W : Op → Nat)
    (hcov : ∀ o ∈ ops, covered' (ρ.id o.id) = covered o.id)
    (hact : ActorMono ρ ops) (hkey : KeyInj ρ ops) (hkind : KindPres ρ ops)
    (htag : TagPres tag ρ ops) (hW : WidthPres W ρ ops) :
    shapeOf tag W (restrict (ops.map (mapOp ρ)) covered') = shapeOf tag W (restrict ops covered) := by
  have : restrict (ops.map (mapOp ρ)) covered' = (restrict ops covered).map (mapOp ρ) :=
    filter_map_comm (f := mapOp ρ) (p' := fun o => covered' o.id) (p := fun o => covered o.id) hcov
  rw [this]
  have hs : ∀ o ∈ restrict ops covered, o ∈ ops := fun o ho => (List.mem_filter.mp ho).1
  exact C31_shape ρ _ tag W (hact.mono hs) (hkey.mono hs) (hkind.mono hs) (htag.mono hs) (hW.mono hs)

/-! ### the example as a history: two changes, read at the first -/

def h1 : Hash := [0xaa]
def h2 : Hash := [0xbb]
def exDoc : Doc := ⟨[⟨h1, aA, 1, 1, [], exOps.take 3⟩, ⟨h2, aA, 2, 3, [h1], exOps.drop 3⟩], []⟩
def exη : Hash → Hash := fun h => if h == h1 then [0x11] else if h == h2 then [0x10] else h

example : shapeAt tagOf (opWidth .utf16 true) (mapDoc exρ exη exDoc) ([h1].map exη) =
      shapeAt tagOf (opWidth .utf16 true) exDoc [h1] ∧
    shapeAt tagOf (opWidth .utf16 true) exDoc [h1] = asciiB "M{T0[];s11|i}" ∧
    shapeAt tagOf (opWidth .utf16 true) exDoc [h2] = asciiB "M{T1[s2];c;s11|i}" := by
  refine ⟨C31_shape_at exρ exη exDoc [h1] _ _ (by decide) ?_ ?_ ?_ ?_ ?_, by decide, by decide⟩
  · exact ex_hyps.1
  · exact ex_hyps.2.1
  · exact ex_hyps.2.2.1
  · exact ex_hyps.2.2.2.1
  · exact ex_hyps.2.2.2.2

/-! ### the actor map of the code -/

/-- `Anonymization::actor_map`: the actors that occur, sorted and deduplicated (`BTreeSet`), are sent to
    `prefix ‖ (rank as u64).to_be_bytes()`.  That map preserves and reflects byte order on those
    actors, i.e. it satisfies the first hypothesis of `interp_commutes_with_renaming` (for fewer than
    2^64 actors).  The proof uses only that the rank is the position in the *sorted* table and that the
    encoding is fixed-width big-endian: it breaks if actors are replaced by independent random ids. -/
theorem actor_map_monotone (ρ : Ren) (ops : List Op) (pre : Bytes)
    (hρ : ∀ a, ρ.actor a = codeActorMap pre (actorsOf ops) a)
    (hlen : (actorTable (actorsOf ops)).length ≤ 2 ^ 64) : ActorMono ρ ops := by
  intro a ha b hb
  rw [hρ a, hρ b]
  exact codeActorMap_mono pre (actorsOf ops) hlen ha hb

/-- on the example: three actors of different lengths get ranks 0, 1, 2 after the prefix -/
example : codeActorMap [7, 7] [aA, aB, aC, aA] aC = [7, 7, 0, 0, 0, 0, 0, 0, 0, 0] ∧
    codeActorMap [7, 7] [aA, aB, aC, aA] aA = [7, 7, 0, 0, 0, 0, 0, 0, 0, 1] ∧
    codeActorMap [7, 7] [aA, aB, aC, aA] aB = [7, 7, 0, 0, 0, 0, 0, 0, 0, 2] := by decide

/-- a random actor per id does NOT satisfy the hypothesis: swapping two actors flips a conflict winner -/
example : ¬ ActorMono { exρ with actor := fun a => if a == aA then [9, 2] else if a == aB then [9, 1] else a } exOps := by
  decide

/-! ### change graph -/

/-- "an isomorphic change graph (the same changes, dependency structure and op counts per change)":
    the rewritten history has as many changes, each with the same seq, start op and number of
    operations and with the images of its dependencies; its heads are the images of the heads and the
    ancestors of the image of any set of heads are the images of the ancestors. -/
theorem graph_iso (ρ : Ren) (η : Hash → Hash) (d : Doc) (heads : List Hash)
    (hη : InjOn η (hashesOf d.applied ++ heads)) :
    (mapDoc ρ η d).applied.length = d.applied.length ∧
    (∀ c ∈ d.applied, (mapChange ρ η c).deps = c.deps.map η ∧ (mapChange ρ η c).seq = c.seq ∧
        (mapChange ρ η c).startOp = c.startOp ∧ (mapChange ρ η c).ops.length = c.ops.length ∧
        (mapChange ρ η c).actor = ρ.actor c.actor) ∧
    headsOf (mapDoc ρ η d).applied = (headsOf d.applied).map η ∧
    (mapDoc ρ η d).ancestors (heads.map η) = (d.ancestors heads).map η ∧
    ((mapDoc ρ η d).at (heads.map η)).applied = (d.at heads).applied.map (mapChange ρ η) := by
  refine ⟨List.length_map _, fun c _ => ⟨rfl, rfl, rfl, List.length_map _, rfl⟩, ?_, ancestors_map hη, at_map hη⟩
  exact headsOf_map (fun x hx y hy => hη x (List.mem_append_left _ hx) y (List.mem_append_left _ hy))

example : headsOf (mapDoc exρ exη exDoc).applied = [[0x10]] ∧ headsOf exDoc.applied = [h2] ∧
    (mapDoc exρ exη exDoc).ancestors [[0x10]] = [[0x11], [0x10]] := by decide

/-! ### the key map of the code is injective (after fix 7934046c1) -/

/-- example tables: a cyclic shift of every alphabet (a bijection of `0..count` without fixed point).
    The control shift sends U+001D to rank 0x20 and the printable shift sends "b" to rank 0 — the
    situation in which the code before the fix renamed both keys to " ". -/
def exπ : Alpha → Nat → Nat
  | .printable, r => (r + 29) % 95
  | .control, r => (r + 3) % 0x21
  | .two, r => (r + 1) % 0x780
  | .three, r => (r + 0xcfff) % 0xf000
  | .four, r => (r + 7) % 0x100000

theorem exπ_perm : PermTables exπ := by
  intro a
  cases a <;> simp only [exπ, alphaCount] <;>
    exact ⟨fun r h => by omega, fun r s hr hs h => by omega⟩

/-- "keys structure": `StructuralPermutations::replace` — rank inside the alphabet, table lookup,
    back to a character of the same alphabet — is injective on Unicode scalar values, and keeps the
    alphabet (hence the UTF-8 and UTF-16 width) of every character.  Assumed of the tables: each
    `π a` maps `0..count a` into itself and is injective there (`PermTables`, a bijection of
    `0..count`; what `shuffle` of `(0..count)` produces).  All five alphabets, including the surrogate
    gap of the three-byte alphabet. -/
theorem structReplace_injective (π : Alpha → Nat → Nat) (hπ : PermTables π) :
    (∀ c d, ValidCp c → ValidCp d → structReplace π c = structReplace π d → c = d) ∧
    (∀ c, ValidCp c → alphaOf (structReplace π c) = alphaOf c ∧ ValidCp (structReplace π c)) :=
  ⟨fun _ _ hc hd h => structReplace_inj hπ hc hd h, fun _ hc => structReplace_alpha hπ hc⟩

/-- … therefore `anonymize_structural_string` is injective on strings (sequences of scalar values):
    two distinct keys or mark names never get the same new name. -/
theorem structString_injective (π : Alpha → Nat → Nat) (hπ : PermTables π) (cs ds : List Nat)
    (hc : ∀ c ∈ cs, ValidCp c) (hd : ∀ c ∈ ds, ValidCp c) (h : structString π cs = structString π ds) :
    cs = ds :=
  structString_inj hπ hc hd h

/-- the harness witness (keys U+001D and "b"): the code before the fix sent both to " "; the fixed
    code sends them to DEL and " "; a three-byte character next to the surrogate gap stays valid -/
example : structReplaceOld exπ 0x1d = 0x20 ∧ structReplaceOld exπ 0x62 = 0x20 ∧
    structReplace exπ 0x1d = 0x7f ∧ structReplace exπ 0x62 = 0x20 ∧
    structReplace exπ 0x800 = 0xd7ff ∧ structReplace exπ 0x801 = 0xe000 ∧
    asciiKeyMap exπ [0x1d] = [0x7f] ∧ asciiKeyMap exπ [0x62] = [0x20] := by decide

/-- `KeyInj` — the second hypothesis of `interp_commutes_with_renaming` — holds for the key map of
    the code on ASCII keys (one byte = one character; the UTF-8 decoding of non-ASCII keys is not
    modelled at the byte level, for them the statement is `structString_injective`). -/
theorem keyInj_ascii (ρ : Ren) (ops : List Op) (π : Alpha → Nat → Nat) (hπ : PermTables π)
    (hascii : ∀ o ∈ ops, ∀ k, o.key = .map k → IsAscii k)
    (hρ : ∀ k, IsAscii k → ρ.key k = asciiKeyMap π k) : KeyInj ρ ops :=
  keyInj_of_asciiKeyMap hπ hascii hρ

/-- the shape theorem for documents with ASCII keys, with the key map and the actor map of the code:
    no hypothesis on keys or actors is left, only that values keep their tag and width. -/
theorem C31_shape_ascii_keys (ρ : Ren) (ops : List Op) (π : Alpha → Nat → Nat) (pre : Bytes)
    (tag : Scalar → Bytes) (W : Op → Nat) (hπ : PermTables π)
    (hascii : ∀ o ∈ ops, ∀ k, o.key = .map k → IsAscii k)
    (hkeymap : ∀ k, IsAscii k → ρ.key k = asciiKeyMap π k)
    (hactormap : ∀ a, ρ.actor a = codeActorMap pre (actorsOf ops) a)
    (hlen : (actorTable (actorsOf ops)).length ≤ 2 ^ 64)
    (hkind : KindPres ρ ops) (htag : TagPres tag ρ ops) (hW : WidthPres W ρ ops) :
    shapeOf tag W (ops.map (mapOp ρ)) = shapeOf tag W ops :=
  C31_shape ρ ops tag W (actor_map_monotone ρ ops pre hactormap hlen)
    (keyInj_ascii ρ ops π hπ hascii hkeymap) hkind htag hW

/-- non-vacuity: the example history under the code's key and actor maps -/
def codeρ : Ren := { exρ with key := asciiKeyMap exπ, actor := codeActorMap [7, 7] (actorsOf exOps) }

example : shapeOf tagOf (opWidth .utf16 true) (exOps.map (mapOp codeρ)) = shapeOf tagOf (opWidth .utf16 true) exOps ∧
    mapKeys (exOps.map (mapOp codeρ)) .root = [[0x20], [0x21], [0x7e]] :=
  ⟨C31_shape_ascii_keys codeρ exOps exπ [7, 7] _ _ exπ_perm (asciiKeys_of_B (by decide)) (fun _ _ => rfl) (fun _ => rfl)
    (by decide) (kindPres_of_B (by decide)) (tagPres_of_B (by decide)) (by decide), by decide⟩

/-- `KeyInj` is a necessary hypothesis: the key renaming the code produced BEFORE the fix (root keys
    U+001D and "b" both renamed to " ") violates it and changes the shape — two keys with one value
    each become one key with a two-value conflict.  (This was finding `sig=key-collision`.) -/
def collOps : List Op :=
  [ ⟨⟨1, aA⟩, .root, .map [0x1d], false, .put (.int 1), []⟩,
    ⟨⟨2, aA⟩, .root, .map [0x62], false, .put (.str [120]), []⟩ ]
def collρ : Ren := { exρ with key := fun k => if k == [0x1d] then [0x20] else if k == [0x62] then [0x20] else k }

example : shapeOf tagOf (opWidth .cp true) (collOps.map (mapOp collρ)) ≠ shapeOf tagOf (opWidth .cp true) collOps ∧
    shapeOf tagOf (opWidth .cp true) collOps = asciiB "M{i;s1}" ∧
    shapeOf tagOf (opWidth .cp true) (collOps.map (mapOp collρ)) = asciiB "M{i|s1}" ∧
    shapeOf tagOf (opWidth .cp true) (collOps.map (mapOp { collρ with key := asciiKeyMap exπ })) = asciiB "M{i;s1}" := by
  decide

/-! ### counters -/

/-- what is and what is not preserved for counters.  The code re-draws the initial value of every
    counter and the amount of every increment, so counter VALUES are not preserved.  Preserved:
    (1) a counter put stays a counter put and stays visible exactly when it was (clause (1) of
    `interp_commutes_with_renaming` with `KindPres`); (2) the increments that apply to it are exactly
    the images of the increments that applied — same number, same ids up to `ρ`; (3) hence the new
    value is the new initial value plus the re-drawn amounts of those increments. -/
theorem C31_counters (ρ : Ren) (ops : List Op) (hact : ActorMono ρ ops) (hkind : KindPres ρ ops)
    (o : Op) (ho : o ∈ ops) (init' : Int) :
    (mapOp ρ o).isCounterPut = o.isCounterPut ∧
    visible (ops.map (mapOp ρ)) (mapOp ρ o) = visible ops o ∧
    (ops.map (mapOp ρ)).filter (fun p => p.isInc && p.pred.contains (mapOp ρ o).id) =
      (ops.filter (fun p => p.isInc && p.pred.contains o.id)).map (mapOp ρ) ∧
    counterValue (ops.map (mapOp ρ)) (mapOp ρ o) init' =
      init' + ((ops.filter (fun p => p.isInc && p.pred.contains o.id)).map
        (fun p => match p.action with | .inc n => ρ.inc p.id n | _ => 0)).sum :=
  ⟨mapOp_isCounterPut hkind ho, visible_map hact.idMono hkind ho, counterIncs_map hact.idMono ho,
    counterValue_map hact.idMono ho init'⟩

/-- on the example: the counter `c` (1, one increment of 2, value 3) becomes 0 with one increment of 9 -/
example : (exOps.filter (fun p => p.isInc && p.pred.contains (exOps[5]!).id)).length = 1 ∧
    ((exOps.map (mapOp exρ)).filter (fun p => p.isInc && p.pred.contains (mapOp exρ (exOps[5]!)).id)).length = 1 ∧
    counterValue exOps (exOps[5]!) 1 = 3 ∧
    counterValue (exOps.map (mapOp exρ)) (mapOp exρ (exOps[5]!)) 0 = 9 := by decide

/-! ### widths -/

/-- "text widths": PARTIAL.  For the encodings whose width is a function of the UTF-8 bytes (code
    points, UTF-8 units, UTF-16 units) the shape theorem holds with `W := opWidth e true`, the width
    `length` / `splice_text` use.  Missing: `TextEncoding::GraphemeCluster`.  The code keeps the UTF-8
    (hence UTF-16) width of every *character*, which does not determine grapheme-cluster boundaries
    (e.g. a base letter followed by U+0301 may be renamed to two letters that do not combine), the
    model's `width .gc` is only a code-point fallback, and the `anon` engine does not generate `gc`
    documents: nothing is claimed for `e = .gc`. -/
theorem C31_shape_enc_partial (e : Enc) (_he : e ≠ .gc) (ρ : Ren) (ops : List Op)
    (hact : ActorMono ρ ops) (hkey : KeyInj ρ ops) (hkind : KindPres ρ ops)
    (htag : TagPres tagOf ρ ops) (hW : WidthPres (opWidth e true) ρ ops) :
    shapeOf tagOf (opWidth e true) (ops.map (mapOp ρ)) = shapeOf tagOf (opWidth e true) ops :=
  C31_shape ρ ops tagOf (opWidth e true) hact hkey hkind htag hW

example : WidthPres (opWidth .cp true) exρ exOps ∧ WidthPres (opWidth .utf8 true) exρ exOps ∧
    WidthPres (opWidth .utf16 true) exρ exOps := by decide

end AmVerif.Props.C31
