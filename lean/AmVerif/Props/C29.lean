import AmVerif.Proofs.History
import AmVerif.Proofs.Spec
/-
  C29 — "Isolated transactions act on the chosen heads: Inside isolate(heads) or a
  transaction_at(heads), reads show exactly the state at those heads plus the transaction's own
  edits. Committed changes depend only on those heads and the isolated chain. After integrate, the
  document equals the merge of the isolated changes into the current state."

  Setting (driver `Driver/Crdt.lean` `edit`, `crdt.state`, `crdt.commit`, `crdt.local`,
  `Driver/CrdtX.lean` `crdt.x.isolate / integrate`, 0 disagreements with the real code):
    * an isolated transaction is opened with `d.beginTx (d.isolateActor actor heads)`;
    * its calls and reads are evaluated on `isolatedView d heads t = (d.at heads).ops ++ t.pending`;
    * its commit is predicted with `deps = heads`, `seq = seqForActor + 1`; afterwards the
      isolation heads become the hash of the new change;
    * `integrate` only drops the isolation: reads are `showDoc d.ops` again.
  Property theorems only; helpers in `Proofs/History.lean` §6.
-/
namespace AmVerif.Props.C29
open AmVerif AmVerif.Crdt

/-- the diamond a1 → {b1, c1} → b2 plus the concurrent m0 -/
def doc : Doc := ⟨[Ex.a1, Ex.m0, Ex.b1, Ex.c1, Ex.b2], []⟩

/-! ### the isolated actor -/

/-- `isolate_actor`: the chosen actor is the first of base, with_concurrency(1),
    with_concurrency(2), … that has no applied change or whose last applied change is an
    ancestor of the isolation heads; the search ends within `#applied + 1` candidates (each
    rejected candidate is the actor of an applied change and the candidates are pairwise
    distinct), so the fuel of the model is never exhausted. -/
theorem C29_isolate_actor (d : Doc) (base : Bytes) (heads : List Hash) :
    ∃ k, k ≤ d.applied.length ∧ d.isolateActor base heads = isoCand base k ∧
      isoFree d (d.ancestors heads) (isoCand base k) = true ∧
      ∀ j, j < k → isoFree d (d.ancestors heads) (isoCand base j) = false :=
  isolateActor_spec d base heads

/-- isolating at {c1}: actor B's last change b2 is not an ancestor of c1, so B moves to
    with_concurrency(1); actor A's last change a1 is an ancestor, A keeps its id; a new actor too -/
example : doc.isolateActor [0xB] [[3]] = [19, 178, 35, 9, 1, 0xB] ∧
    doc.isolateActor [0xA] [[3]] = [0xA] ∧ doc.isolateActor [0x77] [[3]] = [0x77] ∧
    isoFree doc (doc.ancestors [[3]]) [0xB] = false := by
  have h1 : isoCand [0xB] 1 = [19, 178, 35, 9, 1, 0xB] := by
    simp [isoCand, withConcurrency, Leb.ulebEncode_lt, Consts.CONCURRENCY_MAGIC_BYTES]
  refine ⟨?_, by decide, by decide, by decide⟩
  rw [← h1]
  unfold Doc.isolateActor
  apply isolateActorLoop_spec _ _ _ _ 0 1 (by decide) (by decide)
  · rw [h1]; decide
  · intro j _ hj
    have : j = 0 := by omega
    subst this; decide

/-- The code performs the acceptance test on the clock (`max_op == 0 ||
    clock_at(heads).covers(OpId(max_op_for_actor, actor))`), the model on the ancestor set; under
    the history invariants of C07 they agree for every actor whose last change has an op. -/
theorem C29_isolate_test_is_clock_test (d : Doc) (hch : Chain d.applied) (hop : OpOrder d.applied)
    (heads : List Hash) (a : Bytes) (last : Change)
    (hl : (d.applied.filter (fun c => c.actor == a)).getLast? = some last) (hne : 1 ≤ last.ops.length) :
    1 ≤ maxOpOf last ∧
    (covers (clockAt d heads) ⟨maxOpOf last, a⟩ = true ↔ isoFree d (d.ancestors heads) a = true) := by
  have hm := List.mem_of_getLast? hl
  simp only [List.mem_filter, beq_iff_eq] at hm
  have hs := hop.startPos last hm.1
  unfold isoFree
  rw [hl, ← hm.2]
  simp only [List.contains_iff_mem]
  refine ⟨by unfold maxOpOf; omega, ?_⟩
  exact clockAt_covers_ctr hch hop heads hm.1 (by unfold maxOpOf; omega) (by unfold maxOpOf; omega)

example : (doc.applied.filter (fun c => c.actor == [0xB])).getLast? = some Ex.b2 ∧ maxOpOf Ex.b2 = 3 ∧
    covers (clockAt doc [[3]]) ⟨3, [0xB]⟩ = false ∧ covers (clockAt doc [[4]]) ⟨3, [0xB]⟩ = true := by decide

/-- distinct levels give distinct actors, a derived actor differs from its base, and (for levels
    below 2^64, what the code can write) the derived actor determines both level and base -/
theorem C29_with_concurrency_distinct (base : Bytes) :
    (∀ i j, withConcurrency base i = withConcurrency base j → i = j) ∧
    (∀ i, withConcurrency base i ≠ base) ∧
    (∀ i j, isoCand base i = isoCand base j → i = j) ∧
    (∀ b₂ i j, i < 2 ^ 64 → j < 2 ^ 64 → withConcurrency base i = withConcurrency b₂ j → i = j ∧ base = b₂) :=
  ⟨withConcurrency_injective base, withConcurrency_ne_base base, fun _ _ h => isoCand_injective base h,
    fun _ _ _ hi hj h => withConcurrency_injective₂ hi hj h⟩

example : withConcurrency [0xB] 1 = [19, 178, 35, 9, 1, 0xB] ∧
    withConcurrency [0xB] 300 = [19, 178, 35, 9, 172, 2, 0xB] := by
  constructor
  · simp [withConcurrency, Leb.ulebEncode_lt, Consts.CONCURRENCY_MAGIC_BYTES]
  · simp [withConcurrency, Leb.ulebEncode_ge, Leb.ulebEncode_lt, Consts.CONCURRENCY_MAGIC_BYTES]

/-! ### reads -/

/-- "reads show exactly the state at those heads plus the transaction's own edits": the op list an
    isolated call or read is evaluated on is the ops of the document at the isolation heads followed
    by the pending ops (definition of the driver), and — under the history invariants of C07 — this
    is what the implementation's scope clock selects: the ops covered by `clock_at(heads)`, then
    the transaction's own. -/
theorem C29_isolated_reads (d : Doc) (heads : List Hash) (t : Tx) (hch : Chain d.applied)
    (hop : OpOrder d.applied) :
    isolatedView d heads t = (d.at heads).ops ++ t.pending ∧
    isolatedView d heads t = restrict d.ops (covers (clockAt d heads)) ++ t.pending ∧
    showDoc (isolatedView d heads t) = showDoc ((d.at heads).ops ++ t.pending) := by
  refine ⟨rfl, ?_, rfl⟩
  rw [restrict_clockAt hch hop heads]; rfl

example : Chain doc.applied ∧ OpOrder doc.applied ∧
    isolatedView doc [[3]] ⟨[0xA], 4, [Ex.putOp 4 [0xA] 7 [⟨2, [0xC]⟩]]⟩ =
      [Ex.putOp 1 [0xA] 10 [], Ex.putOp 2 [0xC] 30 [⟨1, [0xA]⟩], Ex.putOp 4 [0xA] 7 [⟨2, [0xC]⟩]] := by
  decide

/-- … and nothing else: changes the document receives or makes AFTER the isolation heads existed
    (concurrent merges, the isolated commits of other chains) do not show in isolated reads. -/
theorem C29_isolated_reads_ignore_other_changes (d : Doc) (more q : List Change) (heads : List Hash)
    (t : Tx) (hc : DepsClosed d.applied) (hn : (hashes (d.applied ++ more)).Nodup)
    (happ : ∀ x ∈ heads, x ∈ hashes d.applied) :
    isolatedView ⟨d.applied ++ more, q⟩ heads t = isolatedView d heads t := by
  unfold isolatedView Doc.ops
  rw [at_append_stable (q := q) (q' := d.queue) hc hn happ]

example : isolatedView ⟨[Ex.a1, Ex.b1] ++ [Ex.c1, Ex.b2], []⟩ [[2]] ⟨[0xA], 4, []⟩ =
    isolatedView ⟨[Ex.a1, Ex.b1], []⟩ [[2]] ⟨[0xA], 4, []⟩ := by decide

/-! ### the committed change -/

/-- "Committed changes depend only on those heads and the isolated chain": the change an isolated
    transaction commits (deps = the isolation heads) has as ancestors itself and the ancestors of
    those heads — nothing else of the document.  The next isolated change is made on heads = this
    change's hash, so the same holds along the chain. -/
theorem C29_committed_change_depends_only_on_heads (d : Doc) (c : Change) (heads : List Hash)
    (hinv : d.Inv) (hdeps : c.deps = heads) (happ : ∀ x ∈ heads, x ∈ hashes d.applied)
    (hfresh : c.hash ∉ hashes d.applied) (x : Hash) :
    x ∈ (⟨d.applied ++ [c], []⟩ : Doc).ancestors [c.hash] ↔ x = c.hash ∨ x ∈ d.ancestors heads := by
  have hn : (hashes (d.applied ++ [c])).Nodup := by
    rw [hashes_append, List.nodup_append]
    refine ⟨hinv.inv0.applied_nodup, by simp [hashes], ?_⟩
    intro a ha b hb hab
    simp only [hashes, List.map_cons, List.map_nil, List.mem_singleton] at hb
    subst hb; subst hab
    exact hfresh ha
  rw [ancestors_of_commit hinv.depsClosed hn (by rw [hdeps]; exact happ), hdeps]
  rfl

/-- The per-actor chain invariant (every clock computation of C07 / C10 rests on it) survives an
    isolated commit: the change made by the actor `isolate_actor` chose, with that actor's next
    sequence number and deps = the isolation heads, has the actor's previous change among its
    ancestors — although, unlike a non-isolated change, it need not NAME it as a dependency. -/
theorem C29_isolated_commit_keeps_chain (d : Doc) (base : Bytes) (heads : List Hash) (c : Change)
    (hch : Chain d.applied) (hactor : c.actor = d.isolateActor base heads)
    (hseq : c.seq = d.seqForActor c.actor + 1) (hdeps : c.deps = heads)
    (happ : ∀ x ∈ heads, x ∈ hashes d.applied) (hfresh : c.hash ∉ hashes d.applied) :
    Chain (d.applied ++ [c]) :=
  chain_snoc_isolated hch (by rw [hactor]; exact isolateActor_free d base heads) hseq hdeps happ hfresh

/-- actor A isolated at {c1} commits its change 2: deps {c1} only, a1 is not named — the universe
    is not `WF` in the sense of C01 (`seqChain` asks for a direct dependency) but the chain holds -/
example :
    let x : Change := ⟨[9], [0xA], 2, 4, [[3]], [Ex.putOp 4 [0xA] 7 [⟨2, [0xC]⟩]]⟩
    x.actor = doc.isolateActor [0xA] [[3]] ∧ x.seq = doc.seqForActor x.actor + 1 ∧
    Chain doc.applied ∧ Chain (doc.applied ++ [x]) ∧ [1] ∉ x.deps ∧
    (⟨doc.applied ++ [x], []⟩ : Doc).ancestors [[9]] = [[1], [3], [9]] := by decide

/-! ### integrate -/

/-- "After integrate, the document equals the merge of the isolated changes into the current
    state."  In the model `integrate` leaves the history untouched (the isolated commits are
    already applied; only reads were scoped), so the claim is about that history: split the
    applied changes by any predicate `p` ("made under isolation") such that no other change
    depends on an isolated one and an actor's isolated changes carry greater sequence numbers
    than its other changes.  Then `apply_changes` of the isolated changes into the document
    consisting of the rest succeeds, holds nothing back, and gives the same set of applied
    changes, the same heads and — ids being distinct — the same visible document as `d`. -/
theorem C29_integrate_is_merge (d : Doc) (hinv : d.Inv) (p : Change → Bool)
    (hclosed : DepsClosed (d.applied.filter (fun c => !p c)))
    (hpos : ∀ c ∈ d.applied, 1 ≤ c.seq)
    (hseq : ∀ c ∈ d.applied, p c = true → ∀ x ∈ d.applied, p x = false → x.actor = c.actor → x.seq < c.seq)
    (hd : DistinctIds d.ops) :
    let m := applyBatch ⟨d.applied.filter (fun c => !p c), []⟩ (d.applied.filter p)
    m.2 = .ok () ∧ m.1.applied.Perm d.applied ∧ m.1.queue = [] ∧ m.1.heads = d.heads ∧
      m.1.ops.Perm d.ops ∧ showDoc m.1.ops = showDoc d.ops := by
  intro m
  obtain ⟨h1, h2, h3⟩ := integrate_merge hinv p hclosed hpos hseq
  have hinv₁ : (⟨d.applied.filter (fun c => !p c), []⟩ : Doc).Inv := by
    have hs : (d.applied.filter (fun c => !p c)).Sublist d.applied := List.filter_sublist
    have hsn : (actorSeqs d.applied).Nodup := by
      have := hinv.seqNodup
      rw [actorSeqs_append, List.nodup_append] at this
      exact this.1
    refine ⟨?_, hclosed, by simp, ?_⟩
    · show (hashes (d.applied.filter (fun c => !p c) ++ [])).Nodup
      rw [List.append_nil]
      exact List.Nodup.sublist (hs.map _) hinv.inv0.applied_nodup
    · show (actorSeqs (d.applied.filter (fun c => !p c) ++ [])).Nodup
      rw [List.append_nil]
      exact List.Nodup.sublist (hs.map _) hsn
  have hinvm : m.1.Inv := applyBatch_inv _ _ hinv₁
  have hops : m.1.ops.Perm d.ops := h2.flatMap_right _
  exact ⟨h1, h2, h3, heads_eq_of_perm hinvm.inv0 hinv.inv0 h2, hops,
    showDoc_perm _ _ hops (hd.perm hops.symm)⟩

/-- c1 made under isolation at {a1} while m0 and b1 arrived: merging c1 into [a1, m0, b1] -/
example :
    let d : Doc := ⟨[Ex.a1, Ex.c1, Ex.m0, Ex.b1], []⟩
    let p : Change → Bool := fun c => c.actor == [0xC]
    d.Inv ∧ DepsClosed (d.applied.filter (fun c => !p c)) ∧ (∀ c ∈ d.applied, 1 ≤ c.seq) ∧
    (∀ c ∈ d.applied, p c = true → ∀ x ∈ d.applied, p x = false → x.actor = c.actor → x.seq < c.seq) ∧
    DistinctIds d.ops ∧
    (applyBatch ⟨d.applied.filter (fun c => !p c), []⟩ (d.applied.filter p)).1.applied =
      [Ex.a1, Ex.m0, Ex.b1, Ex.c1] := by decide

end AmVerif.Props.C29
