import AmVerif.Proofs.LocalSplice
/-
  C03 — "Local edits have their documented sequential effect: Each editing call (put, put_object,
  insert, insert_object, delete, increment, splice, splice_text, mark/unmark, split/join block)
  changes the visible document exactly as documented and leaves everything else unchanged. This is
  visible inside the open transaction and after commit. An invalid call (unknown object, wrong key
  kind, index out of range, increment of a non-counter) returns an error and changes nothing."

  Setting.  `AmVerif.Model.Local` says which operations a call appends to the open transaction
  (tied to the Rust by the differential run: the ops of every local change are predicted exactly);
  `AmVerif.Model.Spec` says what an op set shows.  Here `ops` is the op list the call sees
  (applied ++ pending), `t` the open transaction, `t.nextId` the id the next op gets.  The
  well-formedness hypotheses are stated explicitly in every theorem:
    `StrictIds ops`                          ids are pairwise distinct,
    `∀ x ∈ ops, x.id.lt t.nextId = true`     the next id is above every id (C04: start op),
    `∀ x ∈ ops, t.nextId ∉ x.pred`           nobody names the next id as predecessor,
    `RefsSmaller ops`                        an element's reference element has a smaller id
                                             (needed for everything that mentions `rgaOrder`,
                                             whose fuel grows with the op list).
  Property theorems only; helper lemmas are in `AmVerif.Proofs.Local`.
  Not modelled (hence not covered): mark/unmark, split/join block, `splice` on lists with
  several values (it is `insert` repeated).
-/
namespace AmVerif.Props.C03
open AmVerif AmVerif.Crdt

/-! ### the example state -/

/-- root: "l" = list 1@01, "a" = conflict {1 (2@01), 2 (2@02)}, "c" = counter 10 incremented by 3,
    "m" = conflict {counter 5 (9@01), "x" (9@02)};
    list 1@01 = [x, (y deleted), z] with z and y concurrent siblings after x -/
def mkL : Op := ⟨⟨1, [1]⟩, .root, .map [108], false, .make .list, []⟩
def lst : ObjId := .id ⟨1, [1]⟩
def putA1 : Op := ⟨⟨2, [1]⟩, .root, .map [97], false, .put (.int 1), []⟩
def putA2 : Op := ⟨⟨2, [2]⟩, .root, .map [97], false, .put (.int 2), []⟩
def ctr : Op := ⟨⟨3, [1]⟩, .root, .map [99], false, .put (.counter 10), []⟩
def inc3 : Op := ⟨⟨4, [1]⟩, .root, .map [99], false, .inc 3, [⟨3, [1]⟩]⟩
def insX : Op := ⟨⟨5, [1]⟩, lst, .head, true, .put (.str [120]), []⟩
def insY : Op := ⟨⟨6, [1]⟩, lst, .elem ⟨5, [1]⟩, true, .put (.str [121]), []⟩
def insZ : Op := ⟨⟨6, [2]⟩, lst, .elem ⟨5, [1]⟩, true, .put (.str [122]), []⟩
def delY : Op := ⟨⟨7, [1]⟩, lst, .elem ⟨6, [1]⟩, false, .del, [⟨6, [1]⟩]⟩
def mixC : Op := ⟨⟨9, [1]⟩, .root, .map [109], false, .put (.counter 5), []⟩
def mixS : Op := ⟨⟨9, [2]⟩, .root, .map [109], false, .put (.str [120]), []⟩
def ops0 : List Op := [mkL, putA1, putA2, ctr, inc3, insX, insY, insZ, delY, mixC, mixS]
/-- the open transaction of actor 01: next id 10@01 -/
def t0 : Tx := ⟨[1], 10, []⟩

/-- the example state satisfies the well-formedness hypotheses used below -/
example : StrictIds ops0 ∧ (∀ x ∈ ops0, x.id.lt t0.nextId = true) ∧ (∀ x ∈ ops0, t0.nextId ∉ x.pred) ∧
    RefsSmaller ops0 ∧ (∀ x ∈ ops0, x.obj ≠ .id t0.nextId) := by decide

/-! ## (1) invalid calls: when each call fails, and that a failure changes nothing -/

/-- "An invalid call … returns an error and changes nothing": a call that returns an error hands
    no operation to the transaction; the transaction, hence the op list every read is computed
    from, is literally the one before the call. -/
theorem C03_error_changes_nothing (applied : List Op) (t : Tx) (res : Except EditErr (List Op))
    (err : EditErr) (h : res = .error err) :
    t.after res = t ∧ showDoc (applied ++ (t.after res).pending) = showDoc (applied ++ t.pending) := by
  subst h; exact ⟨rfl, rfl⟩

example : (t0.after (localPut .utf8 ops0 t0 (.id ⟨77, [1]⟩) (.inl [97]) (.put (.int 5)) true)).pending =
    t0.pending := by decide

/-- "This is visible inside the open transaction and after commit": committing moves the pending
    ops, unchanged and in order, behind the applied ones — the op list read after commit is the
    op list read inside the transaction. -/
theorem C03_commit_same_ops (d : Doc) (c : Change) (t : Tx) (h : c.ops = t.pending) :
    ({ d with applied := d.applied ++ [c] } : Doc).ops = d.ops ++ t.pending := by
  simp [Doc.ops, h]

example : ({ applied := [⟨[1], [1], 1, 1, [], ops0⟩, ⟨[2], [1], 2, 10, [[1]], [putA1]⟩], queue := [] } : Doc).ops =
    (⟨[⟨[1], [1], 1, 1, [], ops0⟩], []⟩ : Doc).ops ++ [putA1] := by decide

/-- "unknown object": put / put_object / delete / increment fail with `objid` exactly when the
    object does not exist. -/
theorem C03_put_error_unknown_object (e : Enc) (ops : List Op) (t : Tx) (obj : ObjId)
    (prop : Sum Bytes Nat) (a : Action) (ck : Bool) :
    localPut e ops t obj prop a ck = .error .objid ↔ objType ops obj = none :=
  localPut_error_objid

example : localPut .utf8 ops0 t0 (.id ⟨77, [1]⟩) (.inl [97]) (.put (.int 5)) true = .error .objid ∧
    objType ops0 (.id ⟨77, [1]⟩) = none := by decide

/-- "wrong key kind": the call fails with `invalidOp` exactly when the object exists and a map
    key is used on a non-map (checked by put / put_object, `ck = true`) or an index on a
    non-sequence (always). -/
theorem C03_put_error_wrong_key_kind (e : Enc) (ops : List Op) (t : Tx) (obj : ObjId)
    (prop : Sum Bytes Nat) (a : Action) (ck : Bool) :
    localPut e ops t obj prop a ck = .error .invalidOp ↔
      ∃ ty, objType ops obj = some ty ∧
        match prop with
        | .inl _ => ck = true ∧ ty ≠ .map
        | .inr _ => isSeq ty = false :=
  localPut_error_invalidOp

example : localPut .utf8 ops0 t0 lst (.inl [97]) (.put (.int 5)) true = .error .invalidOp ∧
    localPut .utf8 ops0 t0 .root (.inr 0) (.put (.int 5)) true = .error .invalidOp := by decide

/-- "index out of range": an indexed put / delete / increment fails with `index` exactly when the
    object is a sequence and the index is not below its length in units … -/
theorem C03_put_error_index (e : Enc) (ops : List Op) (t : Tx) (obj : ObjId)
    (prop : Sum Bytes Nat) (a : Action) (ck : Bool) :
    localPut e ops t obj prop a ck = .error .index ↔
      ∃ ty i, objType ops obj = some ty ∧ prop = .inr i ∧ isSeq ty = true ∧
        unitsLen e (ty == .text) (seqRegs ops obj) ≤ i :=
  localPut_error_index

/-- … and in a list the length in units is the number of visible elements. -/
theorem C03_list_units_are_elements (e : Enc) (ops : List Op) (obj : ObjId) :
    unitsLen e false (seqRegs ops obj) = (seqElems ops obj).length :=
  unitsLen_list_seqElems e ops obj

example : (seqElems ops0 lst).length = 2 ∧
    localPut .utf8 ops0 t0 lst (.inr 2) (.put (.int 5)) true = .error .index ∧
    localPut .utf8 ops0 t0 lst (.inr 1) (.put (.int 5)) true =
      .ok [⟨⟨10, [1]⟩, lst, .elem ⟨6, [2]⟩, false, .put (.int 5), [⟨6, [2]⟩]⟩] := by decide

/-- "increment of a non-counter": the call fails with `missingCounter` exactly when it is an
    increment on an existing object with the right key kind and no visible value of the target
    register is a counter (an absent key / empty register included). -/
theorem C03_increment_error_non_counter (e : Enc) (ops : List Op) (t : Tx) (obj : ObjId)
    (prop : Sum Bytes Nat) (a : Action) (ck : Bool) :
    localPut e ops t obj prop a ck = .error .missingCounter ↔
      (∃ n, a = .inc n) ∧ ∃ ty, objType ops obj = some ty ∧
        match prop with
        | .inl k => (ck = true → ty = .map) ∧ ∀ x ∈ mapRegOps ops obj k, x.isCounterPut = false
        | .inr i => isSeq ty = true ∧
            ∃ eid reg st, seekByIndex e (ty == .text) (seqRegs ops obj) i 0 = some (eid, reg, st) ∧
              ∀ x ∈ reg, x.isCounterPut = false :=
  localPut_error_missingCounter

example : localPut .utf8 ops0 t0 .root (.inl [97]) (.inc 1) false = .error .missingCounter ∧
    localPut .utf8 ops0 t0 .root (.inl [98]) (.inc 1) false = .error .missingCounter ∧
    localPut .utf8 ops0 t0 lst (.inr 0) (.inc 1) false = .error .missingCounter := by decide

/-- these are the only ways put / put_object / delete / increment fail -/
theorem C03_put_error_only (e : Enc) (ops : List Op) (t : Tx) (obj : ObjId)
    (prop : Sum Bytes Nat) (a : Action) (ck : Bool) (err : EditErr)
    (h : localPut e ops t obj prop a ck = .error err) :
    err = .objid ∨ err = .invalidOp ∨ err = .index ∨ err = .missingCounter := by
  cases err
  · exact .inr (.inr (.inl rfl))
  · exact .inl rfl
  · exact .inr (.inl rfl)
  · exact .inr (.inr (.inr rfl))
  · exact absurd h localPut_error_other

/-- insert / insert_object fail exactly for an unknown object (`objid`), a non-sequence
    (`invalidOp`), or an index beyond the length in units (`index`; inserting AT the length is
    allowed). -/
theorem C03_insert_error (e : Enc) (ops : List Op) (t : Tx) (obj : ObjId) (index : Nat) (a : Action)
    (err : EditErr) :
    localInsert e ops t obj index a = .error err ↔
      (err = .objid ∧ objType ops obj = none) ∨
      ∃ ty, objType ops obj = some ty ∧
        ((err = .invalidOp ∧ isSeq ty = false) ∨
         (err = .index ∧ isSeq ty = true ∧ unitsLen e (ty == .text) (seqRegs ops obj) < index)) :=
  localInsert_error_iff

example : localInsert .utf8 ops0 t0 lst 3 (.put (.int 5)) = .error .index ∧
    localInsert .utf8 ops0 t0 .root 0 (.put (.int 5)) = .error .invalidOp ∧
    localInsert .utf8 ops0 t0 (.id ⟨77, [1]⟩) 0 (.put (.int 5)) = .error .objid ∧
    localInsert .utf8 ops0 t0 lst 2 (.put (.int 5)) =
      .ok [⟨⟨10, [1]⟩, lst, .elem ⟨6, [2]⟩, true, .put (.int 5), []⟩] := by decide

/-- splice_text fails exactly for an unknown object, a non-text object, or — when there is text
    to insert — a position beyond the length.  (With nothing to insert a position beyond the
    length is NOT an error in the code: the delete loop finds nothing and the call succeeds
    with no op; see `C03_splice_text_empty_out_of_range`.) -/
theorem C03_splice_text_error (e : Enc) (ops : List Op) (t : Tx) (obj : ObjId) (index del : Nat)
    (text : Bytes) (err : EditErr) :
    localSpliceText e ops t obj index del text = .error err ↔
      (err = .objid ∧ objType ops obj = none) ∨
      ∃ ty, objType ops obj = some ty ∧
        ((err = .invalidOp ∧ ty ≠ .text) ∨
         (err = .index ∧ ty = .text ∧ text ≠ [] ∧ unitsLen e true (seqRegs ops obj) < index)) :=
  localSpliceText_error_iff

/-- a text object 1@01 holding "ab" -/
def mkT : Op := ⟨⟨1, [1]⟩, .root, .map [116], false, .make .text, []⟩
def txt : ObjId := .id ⟨1, [1]⟩
def chA : Op := ⟨⟨2, [1]⟩, txt, .head, true, .put (.str [97]), []⟩
def chB : Op := ⟨⟨3, [1]⟩, txt, .elem ⟨2, [1]⟩, true, .put (.str [98]), []⟩
def opsT : List Op := [mkT, chA, chB]
def tT : Tx := ⟨[1], 4, []⟩

example : localSpliceText .utf8 opsT tT txt 3 0 [99] = .error .index ∧
    localSpliceText .utf8 opsT tT .root 0 0 [99] = .error .invalidOp := by
  rw [localSpliceText_eq, localSpliceText_eq, utf8Chars_ascii [99] (by decide)]; decide

/-- the exception noted above, on the model: deleting at an out-of-range position of a text
    succeeds and does nothing -/
theorem C03_splice_text_empty_out_of_range :
    localSpliceText .utf8 opsT tT txt 7 1 [] = .ok [] := by
  rw [localSpliceText_eq, utf8Chars_nil]; decide

/-- FINDING (negated form of "wrong key kind … returns an error", witness on the model, which the
    differential run ties to the code): `delete` does not check the key kind — `local_op`
    dispatches on the kind of the *prop* only (transaction/inner.rs `delete` → `local_op` →
    `local_map_op`), so deleting a string key of a LIST object finds an empty register and
    returns Ok with no op; `increment` with a string key on a list fails with `missingCounter`,
    not `invalidOp`. -/
theorem C03_delete_wrong_key_kind_not_an_error :
    objType ops0 lst = some .list ∧
    localPut .utf8 ops0 t0 lst (.inl [97]) .del false = .ok [] ∧
    localPut .utf8 ops0 t0 lst (.inl [97]) (.inc 1) false = .error .missingCounter := by decide

/-- FINDING (negated form of "index out of range … returns an error", witness on the model):
    `splice_text(pos, del, "")` — which is also what `delete(text, pos)` runs — with `pos`
    beyond the end returns Ok and does nothing: the delete loop of `inner_splice` `break`s when
    `seek_ops_by_index` finds no element (inner.rs, `let step = if let Some(op) = … else { break }`);
    likewise a `del` reaching beyond the end deletes what is there and reports success. -/
theorem C03_text_delete_out_of_range_not_an_error :
    unitsLen .utf8 true (seqRegs opsT txt) = 2 ∧
    localSpliceText .utf8 opsT tT txt 7 1 [] = .ok [] ∧
    localSpliceText .utf8 opsT tT txt 1 5 [] =
      .ok [⟨⟨4, [1]⟩, txt, .elem ⟨3, [1]⟩, false, .del, [⟨3, [1]⟩]⟩] := by
  rw [localSpliceText_eq, localSpliceText_eq, utf8Chars_nil]; decide

/-! ## (2) put on a map key -/

section MapPut
variable {e : Enc} {ops : List Op} {t : Tx} {obj : ObjId} {k : Bytes} {o : Op}

/-- put returns no op, one delete, or one put; nothing else -/
theorem C03_map_put_cases {v : Scalar} {l : List Op}
    (h : localPut e ops t obj (.inl k) (.put v) true = .ok l) :
    objType ops obj = some .map ∧
      (l = [] ∨ ∃ o, l = [o] ∧ o.id = t.nextId ∧ (o.action = .put v ∨ o.action = .del)) := by
  obtain ⟨ty, hty, hck, _⟩ := localPut_map_ok h
  refine ⟨by rw [hty, hck rfl], ?_⟩
  rcases localPut_map_ok_cases h with rfl | ⟨o, rfl⟩
  · exact .inl rfl
  · obtain ⟨act, preds, rfl, _, hc⟩ := localPut_map_shape h
    refine .inr ⟨_, rfl, rfl, ?_⟩
    rcases hc with ⟨rfl, _⟩ | ⟨_, _, _, rfl, _⟩
    · exact .inl rfl
    · exact .inr rfl

/-- "put … changes the visible document exactly as documented": after a put that produced a put
    op the key holds exactly the new value — one entry, no conflict, whatever was there before
    (all previously visible values are named as predecessors). -/
theorem C03_map_put_value {v : Scalar} (hs : StrictIds ops) (hlt : ∀ x ∈ ops, x.id.lt t.nextId = true)
    (hnp : ∀ x ∈ ops, t.nextId ∉ x.pred)
    (h : localPut e ops t obj (.inl k) (.put v) true = .ok [o]) (ha : o.action = .put v) :
    mapRegister (ops ++ [o]) obj k = [⟨t.nextId, Val.ofScalar v⟩] :=
  map_value_effect hs hlt hnp h (by simp [Op.isValue, ha])

/-- the conflict on "a" is replaced by the single new value; a counter reads as its initial value -/
example : localPut .utf8 ops0 t0 .root (.inl [97]) (.put (.int 5)) true =
      .ok [⟨⟨10, [1]⟩, .root, .map [97], false, .put (.int 5), [⟨2, [1]⟩, ⟨2, [2]⟩]⟩] ∧
    mapRegister (ops0 ++ [⟨⟨10, [1]⟩, .root, .map [97], false, .put (.int 5), [⟨2, [1]⟩, ⟨2, [2]⟩]⟩]) .root [97] =
      [⟨⟨10, [1]⟩, .scalar (.int 5)⟩] ∧
    Val.ofScalar (.counter 4) = .counter 4 := by decide

/-- "the key set": after such a put the object's keys are the old ones plus `k`. -/
theorem C03_map_put_keys {v : Scalar} (hs : StrictIds ops) (hlt : ∀ x ∈ ops, x.id.lt t.nextId = true)
    (hnp : ∀ x ∈ ops, t.nextId ∉ x.pred)
    (h : localPut e ops t obj (.inl k) (.put v) true = .ok [o]) (ha : o.action = .put v) :
    mapKeys (ops ++ [o]) obj = insertKey k (mapKeys ops obj) := by
  obtain ⟨htx, _, ho, hk, _⟩ := localPut_map_txOp hs hlt hnp h
  refine mapKeys_of_nonempty (fun k' hne => htx.map_other_register ho hk (.inr hne)) ?_
  rw [C03_map_put_value hs hlt hnp h ha]
  exact List.cons_ne_nil _ _

example : mapKeys ops0 .root = [[97], [99], [108], [109]] ∧
    mapKeys (ops0 ++ [⟨⟨10, [1]⟩, .root, .map [98], false, .put (.int 5), []⟩]) .root =
      [[97], [98], [99], [108], [109]] ∧
    localPut .utf8 ops0 t0 .root (.inl [98]) (.put (.int 5)) true =
      .ok [⟨⟨10, [1]⟩, .root, .map [98], false, .put (.int 5), []⟩] := by decide

/-- "put of the value already there" (single value): the call produces no op exactly when the key
    holds exactly one value and it equals the new one (a counter compared by its current value) —
    and then nothing at all changes (`ops ++ [] = ops`). -/
theorem C03_map_put_same_value_noop {v : Scalar} :
    localPut e ops t obj (.inl k) (.put v) true = .ok [] ↔
      objType ops obj = some .map ∧ ∃ w, mapRegister ops obj k = [w] ∧ w.val = Val.ofScalar v := by
  rw [localPut_map_put_nil_iff]
  constructor
  · rintro ⟨⟨ty, hty, hck⟩, h⟩; exact ⟨by rw [hty, hck rfl], h⟩
  · rintro ⟨hty, h⟩; exact ⟨⟨_, hty, fun _ => rfl⟩, h⟩

example : localPut .utf8 ops0 t0 .root (.inl [99]) (.put (.counter 13)) true = .ok [] ∧
    mapRegister ops0 .root [99] = [⟨⟨3, [1]⟩, .counter 13⟩] := by decide

/-- "put equal to the winner of a conflicted register": the call emits a delete of the losers and
    the key then holds exactly the old winner. -/
theorem C03_map_put_resolves_conflict {v : Scalar} (hs : StrictIds ops)
    (hlt : ∀ x ∈ ops, x.id.lt t.nextId = true) (hnp : ∀ x ∈ ops, t.nextId ∉ x.pred)
    (h : localPut e ops t obj (.inl k) (.put v) true = .ok [o]) (ha : o.action = .del) :
    ∃ w, (mapRegister ops obj k).getLast? = some w ∧ w.val = Val.ofScalar v ∧
      2 ≤ (mapRegister ops obj k).length ∧ mapRegister (ops ++ [o]) obj k = [w] :=
  map_put_conflict_effect hs hlt hnp h ha

example : localPut .utf8 ops0 t0 .root (.inl [97]) (.put (.int 2)) true =
      .ok [⟨⟨10, [1]⟩, .root, .map [97], false, .del, [⟨2, [1]⟩]⟩] ∧
    mapRegister ops0 .root [97] = [⟨⟨2, [1]⟩, .scalar (.int 1)⟩, ⟨⟨2, [2]⟩, .scalar (.int 2)⟩] ∧
    mapRegister (ops0 ++ [⟨⟨10, [1]⟩, .root, .map [97], false, .del, [⟨2, [1]⟩]⟩]) .root [97] =
      [⟨⟨2, [2]⟩, .scalar (.int 2)⟩] := by decide

end MapPut

/-! ### "… and leaves everything else unchanged": any single-op call on a map key -/

section MapOther
variable {e : Enc} {ops : List Op} {t : Tx} {obj : ObjId} {k : Bytes} {a : Action} {ck : Bool} {o : Op}

/-- every other key of the same object reads as before -/
theorem C03_map_op_other_keys (hs : StrictIds ops) (hlt : ∀ x ∈ ops, x.id.lt t.nextId = true)
    (hnp : ∀ x ∈ ops, t.nextId ∉ x.pred) (h : localPut e ops t obj (.inl k) a ck = .ok [o])
    (k' : Bytes) (hne : k' ≠ k) : mapRegister (ops ++ [o]) obj k' = mapRegister ops obj k' := by
  obtain ⟨htx, _, ho, hk, _⟩ := localPut_map_txOp hs hlt hnp h
  exact htx.map_other_register ho hk (.inr hne)

/-- every other object reads as before: its map registers, key set, element registers and
    visible element list -/
theorem C03_map_op_other_objects (hs : StrictIds ops) (hlt : ∀ x ∈ ops, x.id.lt t.nextId = true)
    (hnp : ∀ x ∈ ops, t.nextId ∉ x.pred) (hr : RefsSmaller ops)
    (h : localPut e ops t obj (.inl k) a ck = .ok [o]) (obj' : ObjId) (hne : obj' ≠ obj) :
    (∀ k', mapRegister (ops ++ [o]) obj' k' = mapRegister ops obj' k') ∧
    mapKeys (ops ++ [o]) obj' = mapKeys ops obj' ∧
    (∀ el, elemRegister (ops ++ [o]) obj' el = elemRegister ops obj' el) ∧
    seqElems (ops ++ [o]) obj' = seqElems ops obj' := by
  obtain ⟨htx, _, ho, hk, hi⟩ := localPut_map_txOp hs hlt hnp h
  exact ⟨fun k' => htx.map_other_register ho hk (.inl hne), htx.map_other_keys ho hk hne,
    fun el => htx.map_other_elemRegister ho el hne, (htx.map_other_seq hr ho hi obj').2 hne⟩

/-- the element order of every sequence is as before, and every object other than the one the
    op may create keeps its type -/
theorem C03_map_op_order_and_types (hs : StrictIds ops) (hlt : ∀ x ∈ ops, x.id.lt t.nextId = true)
    (hnp : ∀ x ∈ ops, t.nextId ∉ x.pred) (hr : RefsSmaller ops)
    (h : localPut e ops t obj (.inl k) a ck = .ok [o]) (obj' : ObjId) :
    rgaOrder (ops ++ [o]) obj' = rgaOrder ops obj' ∧
    (obj' ≠ .id t.nextId → objType (ops ++ [o]) obj' = objType ops obj') := by
  obtain ⟨htx, hid, ho, _, hi⟩ := localPut_map_txOp hs hlt hnp h
  exact ⟨(htx.map_other_seq hr ho hi obj').1, fun hne => objType_append_old (hid ▸ hne)⟩

example : let o : Op := ⟨⟨10, [1]⟩, .root, .map [97], false, .put (.int 5), [⟨2, [1]⟩, ⟨2, [2]⟩]⟩
    mapRegister (ops0 ++ [o]) .root [99] = mapRegister ops0 .root [99] ∧
    seqElems (ops0 ++ [o]) lst = seqElems ops0 lst ∧ seqElems ops0 lst ≠ [] ∧
    rgaOrder (ops0 ++ [o]) lst = [insX, insZ, insY] := by decide

end MapOther

/-! ## (3) delete of a map key, put_object -/

section MapDelete
variable {e : Enc} {ops : List Op} {t : Tx} {obj : ObjId} {k : Bytes} {ck : Bool} {o : Op}

/-- "delete": afterwards the key has no value and is gone from the key set (everything else:
    `C03_map_op_other_keys`, `C03_map_op_other_objects`). -/
theorem C03_map_delete (hs : StrictIds ops) (hlt : ∀ x ∈ ops, x.id.lt t.nextId = true)
    (hnp : ∀ x ∈ ops, t.nextId ∉ x.pred) (h : localPut e ops t obj (.inl k) .del ck = .ok [o]) :
    mapRegister (ops ++ [o]) obj k = [] ∧
    mapKeys (ops ++ [o]) obj = (mapKeys ops obj).filter (fun x => x != k) := by
  have h1 := map_delete_effect hs hlt hnp h
  obtain ⟨htx, _, ho, hk, _⟩ := localPut_map_txOp hs hlt hnp h
  exact ⟨h1, mapKeys_of_empty (fun k' hne => htx.map_other_register ho hk (.inr hne)) h1⟩

example : localPut .utf8 ops0 t0 .root (.inl [97]) .del false =
      .ok [⟨⟨10, [1]⟩, .root, .map [97], false, .del, [⟨2, [1]⟩, ⟨2, [2]⟩]⟩] ∧
    mapKeys (ops0 ++ [⟨⟨10, [1]⟩, .root, .map [97], false, .del, [⟨2, [1]⟩, ⟨2, [2]⟩]⟩]) .root =
      [[99], [108], [109]] := by decide

/-- "delete of an absent key = no op": the call produces nothing exactly when the key has no
    value. -/
theorem C03_map_delete_absent :
    localPut e ops t obj (.inl k) .del ck = .ok [] ↔
      (∃ ty, objType ops obj = some ty ∧ (ck = true → ty = .map)) ∧ mapRegister ops obj k = [] :=
  localPut_map_del_nil_iff

example : localPut .utf8 ops0 t0 .root (.inl [98]) .del false = .ok [] ∧
    mapRegister ops0 .root [98] = [] := by decide

/-- "put_object": the key holds exactly the new object, which has the requested type and is
    empty — given that no op refers to the not-yet-existing object. -/
theorem C03_map_put_object {ty : ObjType} (hs : StrictIds ops) (hlt : ∀ x ∈ ops, x.id.lt t.nextId = true)
    (hnp : ∀ x ∈ ops, t.nextId ∉ x.pred) (hobj : ∀ x ∈ ops, x.obj ≠ .id t.nextId)
    (h : localPut e ops t obj (.inl k) (.make ty) true = .ok [o]) :
    mapRegister (ops ++ [o]) obj k = [⟨t.nextId, .obj ty⟩] ∧
    objType (ops ++ [o]) (.id t.nextId) = some ty ∧
    mapKeys (ops ++ [o]) (.id t.nextId) = [] ∧ seqElems (ops ++ [o]) (.id t.nextId) = [] := by
  obtain ⟨tyo, htyo, _, _⟩ := localPut_map_ok h
  obtain ⟨act, preds, rfl, _, hc⟩ := localPut_map_shape h
  have hact : act = .make ty := by
    rcases hc with ⟨rfl, _⟩ | ⟨_, _, hv, _⟩
    · rfl
    · cases hv
  subst hact
  refine ⟨map_value_effect hs hlt hnp h (by simp [mkMapOp, Op.isValue]), ?_⟩
  exact new_object_empty (o := mkMapOp t obj k (.make ty) preds) hlt hobj
    (obj_ne_next_of_objType hlt htyo) rfl

example : localPut .utf8 ops0 t0 .root (.inl [97]) (.make .text) true =
      .ok [⟨⟨10, [1]⟩, .root, .map [97], false, .make .text, [⟨2, [1]⟩, ⟨2, [2]⟩]⟩] ∧
    mapRegister (ops0 ++ [⟨⟨10, [1]⟩, .root, .map [97], false, .make .text, [⟨2, [1]⟩, ⟨2, [2]⟩]⟩]) .root [97] =
      [⟨⟨10, [1]⟩, .obj .text⟩] := by decide

end MapDelete

/-! ## (4) increment -/

section Increment
variable {e : Enc} {ops : List Op} {t : Tx} {obj : ObjId} {k : Bytes} {ck : Bool} {o : Op} {n : Int}

/-- "increment": afterwards the register of the key is the old one with every counter grown by
    `n` and every non-counter value gone (`Entry.bump`); other registers:
    `C03_map_op_other_keys`, `C03_map_op_other_objects`. -/
theorem C03_map_increment (hs : StrictIds ops) (hlt : ∀ x ∈ ops, x.id.lt t.nextId = true)
    (hnp : ∀ x ∈ ops, t.nextId ∉ x.pred) (h : localPut e ops t obj (.inl k) (.inc n) ck = .ok [o]) :
    mapRegister (ops ++ [o]) obj k = (mapRegister ops obj k).filterMap (Entry.bump n) :=
  map_increment_effect hs hlt hnp h

/-- the counter 10+3 grows to 10+3+4; in the mixed register the counter grows and the string goes -/
example : localPut .utf8 ops0 t0 .root (.inl [99]) (.inc 4) false =
      .ok [⟨⟨10, [1]⟩, .root, .map [99], false, .inc 4, [⟨3, [1]⟩]⟩] ∧
    mapRegister (ops0 ++ [⟨⟨10, [1]⟩, .root, .map [99], false, .inc 4, [⟨3, [1]⟩]⟩]) .root [99] =
      [⟨⟨3, [1]⟩, .counter 17⟩] ∧
    mapRegister ops0 .root [109] = [⟨⟨9, [1]⟩, .counter 5⟩, ⟨⟨9, [2]⟩, .scalar (.str [120])⟩] ∧
    (mapRegister ops0 .root [109]).filterMap (Entry.bump 2) = [⟨⟨9, [1]⟩, .counter 7⟩] := by decide

/-- the same per value: a visible counter of the register is named as predecessor, stays visible
    and its value grows by exactly `n`; a visible non-counter value of the register disappears. -/
theorem C03_map_increment_pointwise (h : localPut e ops t obj (.inl k) (.inc n) ck = .ok [o])
    (c : Op) (hc : c ∈ mapRegOps ops obj k) :
    c.id ∈ o.pred ∧
    (c.isCounterPut = true →
      visible (ops ++ [o]) c = true ∧ ∀ init, counterValue (ops ++ [o]) c init = counterValue ops c init + n) ∧
    (c.isCounterPut = false → visible (ops ++ [o]) c = false) := by
  obtain ⟨act, preds, rfl, _, hcs⟩ := localPut_map_shape h
  rcases hcs with ⟨rfl, rfl⟩ | ⟨_, _, hv, _⟩
  · have hm : c.id ∈ (mkMapOp t obj k (.inc n) (mapRegOps ops obj k)).pred := List.mem_map.mpr ⟨c, hc, rfl⟩
    have hvis : visible ops c = true := (mem_regOps.mp (mapRegOps_eq ops obj k ▸ hc)).2.2
    have hm' : (mkMapOp t obj k (.inc n) (mapRegOps ops obj k)).pred.contains c.id = true := by
      simpa using hm
    have hinc : (mkMapOp t obj k (.inc n) (mapRegOps ops obj k)).isInc = true := rfl
    have hamt : (mkMapOp t obj k (.inc n) (mapRegOps ops obj k)).incAmount = n := rfl
    refine ⟨hm, fun hcp => ⟨?_, fun init => ?_⟩, fun hcp => ?_⟩
    · rw [visible_append, hvis]; simp [overwrites, hcp, hinc]
    · rw [counterValue_append, hinc, hm', hamt]; simp
    · rw [visible_append, hvis]; simp [overwrites, hcp, hm]
  · cases hv

example : mixC ∈ mapRegOps ops0 .root [109] ∧ mixS ∈ mapRegOps ops0 .root [109] ∧
    mixC.isCounterPut = true ∧ mixS.isCounterPut = false := by decide

end Increment

/-! ## (5) lists and text: update, delete, increment of an element; insert -/

section ListOps
variable {e : Enc} {ops : List Op} {t : Tx} {obj : ObjId} {i : Nat} {ck : Bool} {o : Op} {el : OpId}

/-- "put (list index)": the op targets the visible element `el` containing unit `i`; afterwards
    that element holds exactly the new value — one entry, no conflict. -/
theorem C03_list_put_value {v : Scalar} (hs : StrictIds ops) (hlt : ∀ x ∈ ops, x.id.lt t.nextId = true)
    (hnp : ∀ x ∈ ops, t.nextId ∉ x.pred)
    (h : localPut e ops t obj (.inr i) (.put v) true = .ok [o]) (hk : o.key = .elem el)
    (ha : o.action = .put v) :
    elemRegister (ops ++ [o]) obj el = [⟨t.nextId, Val.ofScalar v⟩] :=
  list_value_effect hs hlt hnp h hk (by simp [Op.isValue, ha])

/-- the special cases of `resolve_action` on a list element: put equal to the winner of a
    conflicted element deletes the losers and leaves exactly the winner -/
theorem C03_list_put_resolves_conflict {v : Scalar} (hs : StrictIds ops)
    (hlt : ∀ x ∈ ops, x.id.lt t.nextId = true) (hnp : ∀ x ∈ ops, t.nextId ∉ x.pred)
    (h : localPut e ops t obj (.inr i) (.put v) true = .ok [o]) (hk : o.key = .elem el)
    (ha : o.action = .del) :
    ∃ w, (elemRegister ops obj el).getLast? = some w ∧ w.val = Val.ofScalar v ∧
      2 ≤ (elemRegister ops obj el).length ∧ elemRegister (ops ++ [o]) obj el = [w] :=
  list_put_conflict_effect hs hlt hnp h hk ha

/-- "delete (list index)": the element's register becomes empty. -/
theorem C03_list_delete_register (hs : StrictIds ops) (hlt : ∀ x ∈ ops, x.id.lt t.nextId = true)
    (hnp : ∀ x ∈ ops, t.nextId ∉ x.pred) (h : localPut e ops t obj (.inr i) .del ck = .ok [o])
    (hk : o.key = .elem el) : elemRegister (ops ++ [o]) obj el = [] :=
  list_delete_effect hs hlt hnp h hk

/-- "increment (list index)": the element's counters grow by `n`, its other values leave. -/
theorem C03_list_increment {n : Int} (hs : StrictIds ops) (hlt : ∀ x ∈ ops, x.id.lt t.nextId = true)
    (hnp : ∀ x ∈ ops, t.nextId ∉ x.pred) (h : localPut e ops t obj (.inr i) (.inc n) ck = .ok [o])
    (hk : o.key = .elem el) :
    elemRegister (ops ++ [o]) obj el = (elemRegister ops obj el).filterMap (Entry.bump n) :=
  list_increment_effect hs hlt hnp h hk

/-- "… and leaves everything else unchanged": an indexed put / delete / increment leaves the
    element order of every object, every other element of the object, and all registers, keys and
    visible elements of every other object as they were. -/
theorem C03_list_op_others {a : Action} (hs : StrictIds ops) (hlt : ∀ x ∈ ops, x.id.lt t.nextId = true)
    (hnp : ∀ x ∈ ops, t.nextId ∉ x.pred) (hr : RefsSmaller ops)
    (h : localPut e ops t obj (.inr i) a ck = .ok [o]) (hk : o.key = .elem el) :
    (∀ obj', rgaOrder (ops ++ [o]) obj' = rgaOrder ops obj') ∧
    (∀ el', el' ≠ el → elemRegister (ops ++ [o]) obj el' = elemRegister ops obj el') ∧
    (∀ obj', obj' ≠ obj →
      (∀ el', elemRegister (ops ++ [o]) obj' el' = elemRegister ops obj' el') ∧
      (∀ k', mapRegister (ops ++ [o]) obj' k' = mapRegister ops obj' k') ∧
      mapKeys (ops ++ [o]) obj' = mapKeys ops obj' ∧
      seqElems (ops ++ [o]) obj' = seqElems ops obj') := by
  obtain ⟨htx, _, ho, hi⟩ := localPut_list_txOp hs hlt hnp h hk
  refine ⟨fun obj' => rgaOrder_append_noninsert hr hi obj',
    fun el' hne => htx.elem_other_elemRegister ho hk hi (.inr hne), fun obj' hne => ?_⟩
  exact ⟨fun el' => htx.elem_other_elemRegister ho hk hi (.inl hne),
    fun k' => htx.elem_other_mapRegister ho k' hne, htx.elem_other_keys ho hne,
    seqElems_congr (rgaOrder_append_noninsert hr hi obj')
      (fun c _ => htx.elem_other_elemRegister ho hk hi (.inl hne))⟩

/-- positions are meaningful: under distinct ids and well-founded references the element order
    (hence the visible element list) names no element twice -/
theorem C03_order_lists_no_id_twice (hs : StrictIds ops) (hr : RefsSmaller ops) (obj : ObjId) :
    ((rgaOrder ops obj).map (·.id)).Nodup ∧ ((seqElems ops obj).map (·.1)).Nodup :=
  ⟨rgaOrder_ids_nodup hs hr obj, seqElems_ids_nodup (rgaOrder_ids_nodup hs hr obj)⟩

example : (rgaOrder ops0 lst).map (·.id) = [⟨5, [1]⟩, ⟨6, [2]⟩, ⟨6, [1]⟩] := by decide

/-- "the list of visible elements is the old one with position `i` changed / removed": in a list
    object the call acts on the element at position `i`; afterwards the visible element list is
    the old one with position `i` showing the element's new register, or — when that is empty
    (delete) — with position `i` removed.  (Uses `C03_order_lists_no_id_twice`.) -/
theorem C03_list_op_at_index {a : Action} (hs : StrictIds ops) (hlt : ∀ x ∈ ops, x.id.lt t.nextId = true)
    (hnp : ∀ x ∈ ops, t.nextId ∉ x.pred) (hr : RefsSmaller ops)
    (hty : objType ops obj = some .list)
    (h : localPut e ops t obj (.inr i) a ck = .ok [o]) :
    ∃ el, o.key = .elem el ∧ (seqElems ops obj)[i]? = some (el, elemRegister ops obj el) ∧
      seqElems (ops ++ [o]) obj =
        (seqElems ops obj).take i ++
          (match elemRegister (ops ++ [o]) obj el with | [] => none | r => some (el, r)).toList ++
          (seqElems ops obj).drop (i + 1) := by
  obtain ⟨el, h1, h2, _, h4⟩ := list_op_at_list hs hlt hnp hr (rgaOrder_ids_nodup hs hr obj) hty h
  exact ⟨el, h1, h2, h4⟩

/-- the same for text, in units: the call acts on the visible element covering unit `i`
    (position `j`, starting at the total width of the `j` elements before it). -/
theorem C03_seq_op_at_unit {a : Action} (hs : StrictIds ops) (hlt : ∀ x ∈ ops, x.id.lt t.nextId = true)
    (hnp : ∀ x ∈ ops, t.nextId ∉ x.pred) (hr : RefsSmaller ops)
    (h : localPut e ops t obj (.inr i) a ck = .ok [o]) :
    ∃ ty el j, objType ops obj = some ty ∧ o.key = .elem el ∧
      (seqElems ops obj)[j]? = some (el, elemRegister ops obj el) ∧
      unitsLen e (ty == .text) ((seqRegs ops obj).take j) ≤ i ∧
      i < unitsLen e (ty == .text) ((seqRegs ops obj).take j) + regWidth e (ty == .text) (elemRegOps ops obj el) ∧
      seqElems (ops ++ [o]) obj =
        (seqElems ops obj).take j ++
          (match elemRegister (ops ++ [o]) obj el with | [] => none | r => some (el, r)).toList ++
          (seqElems ops obj).drop (j + 1) := by
  obtain ⟨ty, el, j, h1, h2, _, h4, h5, h6, _, h8⟩ := list_op_at hs hlt hnp hr (rgaOrder_ids_nodup hs hr obj) h
  exact ⟨ty, el, j, h1, h2, h4, h5, h6, h8⟩

/-- delete of index 1 of [x, z]: the visible list loses exactly that element; put at index 0
    replaces the value of x -/
example : objType ops0 lst = some .list ∧
    localPut .utf8 ops0 t0 lst (.inr 1) .del false =
      .ok [⟨⟨10, [1]⟩, lst, .elem ⟨6, [2]⟩, false, .del, [⟨6, [2]⟩]⟩] ∧
    seqElems ops0 lst = [(⟨5, [1]⟩, [⟨⟨5, [1]⟩, .scalar (.str [120])⟩]), (⟨6, [2]⟩, [⟨⟨6, [2]⟩, .scalar (.str [122])⟩])] ∧
    seqElems (ops0 ++ [⟨⟨10, [1]⟩, lst, .elem ⟨6, [2]⟩, false, .del, [⟨6, [2]⟩]⟩]) lst =
      [(⟨5, [1]⟩, [⟨⟨5, [1]⟩, .scalar (.str [120])⟩])] ∧
    localPut .utf8 ops0 t0 lst (.inr 0) (.put (.int 7)) true =
      .ok [⟨⟨10, [1]⟩, lst, .elem ⟨5, [1]⟩, false, .put (.int 7), [⟨5, [1]⟩]⟩] ∧
    seqElems (ops0 ++ [⟨⟨10, [1]⟩, lst, .elem ⟨5, [1]⟩, false, .put (.int 7), [⟨5, [1]⟩]⟩]) lst =
      [(⟨5, [1]⟩, [⟨⟨10, [1]⟩, .scalar (.int 7)⟩]), (⟨6, [2]⟩, [⟨⟨6, [2]⟩, .scalar (.str [122])⟩])] := by
  decide

end ListOps

section Insert
variable {e : Enc} {ops : List Op} {t : Tx} {obj : ObjId} {i : Nat} {a : Action} {o : Op}

/-- "insert / insert_object": the op is an insert with no predecessors, keyed on HEAD or on a
    visible element of the sequence. -/
theorem C03_insert_op (h : localInsert e ops t obj i a = .ok [o]) :
    o.id = t.nextId ∧ o.obj = obj ∧ o.insert = true ∧ o.action = a ∧ o.pred = [] ∧
    (o.key = .head ∨ ∃ c ∈ rgaOrder ops obj, o.key = .elem c.id ∧ c.isMark = false ∧
      elemRegister ops obj c.id ≠ []) :=
  localInsert_ref h

/-- **The RGA lemma.**  After the insert the element order (tombstones included) is the old order
    with the new element immediately after its reference element — in front of all concurrent
    siblings and their subtrees, because its id is the greatest — or at the very front for HEAD;
    the new element holds exactly the inserted value; and the visible element list is the old one
    with the new element immediately after the (visible) reference element. -/
theorem C03_insert_order (hs : StrictIds ops) (hlt : ∀ x ∈ ops, x.id.lt t.nextId = true)
    (hnp : ∀ x ∈ ops, t.nextId ∉ x.pred) (hnk : ∀ x ∈ ops, x.key ≠ .elem t.nextId) (hr : RefsSmaller ops)
    (h : localInsert e ops t obj i a = .ok [o]) (hv : o.isValue = true) :
    rgaOrder (ops ++ [o]) obj = (if o.key = .head then [o] else []) ++ insAfter o.key o (rgaOrder ops obj) ∧
    elemRegister (ops ++ [o]) obj t.nextId = [⟨t.nextId, Val.ofAction a⟩] ∧
    seqElems (ops ++ [o]) obj =
      (if o.key = .head then [(t.nextId, [⟨t.nextId, Val.ofAction a⟩])] else []) ++
        insAfterE o.key (t.nextId, [⟨t.nextId, Val.ofAction a⟩]) (seqElems ops obj) :=
  insert_effect hs hlt hnp hnk hr h hv

/-- insert at index 1 of [x, z] (order x, z, y† with y deleted): the new element goes right
    after x, before the concurrent siblings z and y -/
example : localInsert .utf8 ops0 t0 lst 1 (.put (.int 5)) =
      .ok [⟨⟨10, [1]⟩, lst, .elem ⟨5, [1]⟩, true, .put (.int 5), []⟩] ∧
    rgaOrder ops0 lst = [insX, insZ, insY] ∧
    rgaOrder (ops0 ++ [⟨⟨10, [1]⟩, lst, .elem ⟨5, [1]⟩, true, .put (.int 5), []⟩]) lst =
      [insX, ⟨⟨10, [1]⟩, lst, .elem ⟨5, [1]⟩, true, .put (.int 5), []⟩, insZ, insY] ∧
    (∀ x ∈ ops0, x.key ≠ .elem t0.nextId) := by decide

/-- "… at index `i`": in a list object the visible element list after the insert is the old one
    with the new element at position `i` (`i ≤ length`). -/
theorem C03_list_insert_at_index (hs : StrictIds ops) (hlt : ∀ x ∈ ops, x.id.lt t.nextId = true)
    (hnp : ∀ x ∈ ops, t.nextId ∉ x.pred) (hnk : ∀ x ∈ ops, x.key ≠ .elem t.nextId) (hr : RefsSmaller ops)
    (hty : objType ops obj = some .list)
    (h : localInsert e ops t obj i a = .ok [o]) (hv : o.isValue = true) :
    i ≤ (seqElems ops obj).length ∧
    seqElems (ops ++ [o]) obj =
      (seqElems ops obj).take i ++ [(t.nextId, [⟨t.nextId, Val.ofAction a⟩])] ++ (seqElems ops obj).drop i :=
  insert_at_list hs hlt hnp hnk hr (rgaOrder_ids_nodup hs hr obj) hty h hv

/-- in units (text): the new element lands behind the shortest run of visible elements whose
    width reaches the index — at unit position `i` when `i` is an element boundary. -/
theorem C03_seq_insert_at_unit (hs : StrictIds ops) (hlt : ∀ x ∈ ops, x.id.lt t.nextId = true)
    (hnp : ∀ x ∈ ops, t.nextId ∉ x.pred) (hnk : ∀ x ∈ ops, x.key ≠ .elem t.nextId) (hr : RefsSmaller ops)
    (h : localInsert e ops t obj i a = .ok [o]) (hv : o.isValue = true) :
    ∃ ty j, objType ops obj = some ty ∧ j ≤ (seqElems ops obj).length ∧
      i ≤ unitsLen e (ty == .text) ((seqRegs ops obj).take j) ∧
      (0 < j → unitsLen e (ty == .text) ((seqRegs ops obj).take (j - 1)) < i) ∧
      seqElems (ops ++ [o]) obj =
        (seqElems ops obj).take j ++ [(t.nextId, [⟨t.nextId, Val.ofAction a⟩])] ++ (seqElems ops obj).drop j :=
  insert_at hs hlt hnp hnk hr (rgaOrder_ids_nodup hs hr obj) h hv

example : (seqElems (ops0 ++ [⟨⟨10, [1]⟩, lst, .elem ⟨5, [1]⟩, true, .put (.int 5), []⟩]) lst).map (·.1) =
    [⟨5, [1]⟩, ⟨10, [1]⟩, ⟨6, [2]⟩] := by decide

/-- "… and leaves everything else unchanged": an insert leaves every map register and key set,
    every other element register, and the element order and visible elements of every other
    object as they were. -/
theorem C03_insert_others (hlt : ∀ x ∈ ops, x.id.lt t.nextId = true) (hr : RefsSmaller ops)
    (h : localInsert e ops t obj i a = .ok [o]) :
    (∀ obj' k', mapRegister (ops ++ [o]) obj' k' = mapRegister ops obj' k') ∧
    (∀ obj', mapKeys (ops ++ [o]) obj' = mapKeys ops obj') ∧
    (∀ obj' el', obj' ≠ obj ∨ el' ≠ t.nextId →
      elemRegister (ops ++ [o]) obj' el' = elemRegister ops obj' el') ∧
    (∀ obj', obj' ≠ obj →
      rgaOrder (ops ++ [o]) obj' = rgaOrder ops obj' ∧ seqElems (ops ++ [o]) obj' = seqElems ops obj') := by
  obtain ⟨hid, hobj, hi, _, hp, hkey⟩ := localInsert_ref h
  have hk : ∀ k, o.key ≠ .map k := by
    intro k hk
    rcases hkey with h0 | ⟨_, _, h0, _⟩ <;> rw [h0] at hk <;> cases hk
  rw [← hid] at hlt ⊢
  subst hobj
  refine ⟨fun obj' k' => insert_mapRegister hp hk obj' k', fun obj' => insert_mapKeys hp hk obj',
    fun obj' el' hne => insert_elemRegister_other hp hi hne, fun obj' hne => ?_⟩
  have ho := rgaOrder_insert_other hlt hr hne
  exact ⟨ho, seqElems_congr ho (fun c _ => insert_elemRegister_other hp hi (.inl hne))⟩

end Insert

/-! ## (6) splice_text -/

section Splice
variable {e : Enc} {ops : List Op} {t : Tx} {obj : ObjId} {index : Nat} {text : Bytes} {l : List Op}

/-- "splice_text" without deletion, element level: the call appends one insert op per scalar
    value of the text, the first keyed on the reference element of the position and each next one
    on the previous; the visible element list is the old one with the pieces, in order, at
    position `j` — behind the shortest run of visible elements whose width in units reaches
    `index` (exactly at unit `index` when that is an element boundary).
    Freshness is stated on counters (`CtrBelow`): every id, predecessor and reference element in
    `ops` has a counter below the transaction's next counter — what C04's start op gives.

    PARTIAL: `del = 0` only.  SUPERSEDED by `AmVerif.Props.C03Splice.C03_splice_text_elements`
    (Props/C03Splice.lean), which proves the full statement for every `del`: with `del > 0` the
    delete loop (`deleteLoop`) then removes whole elements from unit `idx + inserted width` on
    until `del` units are gone;  textOf (after) = textOf (take j) ++ text ++ textOf (drop (j + m))
    where `m` is the least number of elements after position `j` whose width reaches `del` (all
    remaining elements if there are fewer) — `C03_splice_text_content`, ops: `C03_splice_text_ops`.
    Kept as the `del = 0` special case. -/
theorem C03_splice_text_elements_partial (hs : StrictIds ops)
    (hb : CtrBelow ops (t.startOp + t.pending.length)) (hr : RefsSmaller ops)
    (h : localSpliceText e ops t obj index 0 text = .ok l) (hne : text ≠ []) :
    objType ops obj = some .text ∧
    ∃ key j, l = chainInserts t obj (utf8Chars text) key 0 ∧ j ≤ (seqElems ops obj).length ∧
      index ≤ unitsLen e true ((seqRegs ops obj).take j) ∧
      (0 < j → unitsLen e true ((seqRegs ops obj).take (j - 1)) < index) ∧
      seqElems (ops ++ l) obj =
        (seqElems ops obj).take j ++ chainEntries t (utf8Chars text) 0 ++ (seqElems ops obj).drop j :=
  splice_insert_at hs hb hr h hne

/-- … text level: the resulting text is the old text with the new text inserted at that
    position.  PARTIAL: `del = 0` only; SUPERSEDED by
    `AmVerif.Props.C03Splice.C03_splice_text_content` (every `del`). -/
theorem C03_splice_text_content_partial (hs : StrictIds ops)
    (hb : CtrBelow ops (t.startOp + t.pending.length)) (hr : RefsSmaller ops)
    (h : localSpliceText e ops t obj index 0 text = .ok l) (hne : text ≠ []) :
    ∃ j, j ≤ (seqElems ops obj).length ∧
      index ≤ unitsLen e true ((seqRegs ops obj).take j) ∧
      (0 < j → unitsLen e true ((seqRegs ops obj).take (j - 1)) < index) ∧
      textOf (seqElems (ops ++ l) obj) =
        textOf ((seqElems ops obj).take j) ++ text ++ textOf ((seqElems ops obj).drop j) :=
  splice_text_content hs hb hr h hne

/-- splice_text(pos, 0, "") does nothing -/
theorem C03_splice_text_nothing (h : localSpliceText e ops t obj index 0 [] = .ok l) : l = [] :=
  splice_text_empty h

/-- "ab" with "XY" spliced in at 1 reads "aXYb"; the two ops form a chain -/
example : StrictIds opsT ∧ CtrBelow opsT (tT.startOp + tT.pending.length) ∧ RefsSmaller opsT ∧
    chainInserts tT txt [[88], [89]] (.elem ⟨2, [1]⟩) 0 =
      [⟨⟨4, [1]⟩, txt, .elem ⟨2, [1]⟩, true, .put (.str [88]), []⟩,
       ⟨⟨5, [1]⟩, txt, .elem ⟨4, [1]⟩, true, .put (.str [89]), []⟩] ∧
    textOf (seqElems opsT txt) = [97, 98] ∧
    textOf (seqElems (opsT ++ chainInserts tT txt [[88], [89]] (.elem ⟨2, [1]⟩) 0) txt) = [97, 88, 89, 98] := by
  decide

example : localSpliceText .utf8 opsT tT txt 1 0 [88, 89] =
    .ok (chainInserts tT txt [[88], [89]] (.elem ⟨2, [1]⟩) 0) := by
  rw [localSpliceText_eq, utf8Chars_ascii [88, 89] (by decide)]; decide

end Splice

end AmVerif.Props.C03
