import AmVerif.Proofs.Local
/-
  C03 — "Local edits have their documented sequential effect: Each editing call (put, put_object,
  insert, insert_object, delete, increment, splice, splice_text, mark/unmark, split/join block)
  changes the visible document exactly as documented and leaves everything else unchanged. This is
  visible inside the open transaction and after commit. An invalid call (unknown object, wrong key
  kind, index out of range, increment of a non-counter) returns an error and changes nothing."

  Setting.  `AmVerif.Model.Local` says which operations a call appends to the open transaction
  (tied to the Rust by the differential run: the ops of every local change are predicted exactly);
  `AmVerif.Model.Spec` says what an op set shows.  Here `ops` is the op list the call sees
  (applied ++ pending), `t` the open transaction, `t.nextId` the id the next op gets.  The
  well-formedness hypotheses are stated explicitly in every theorem:
    `StrictIds ops`                          ids are pairwise distinct,
    `∀ x ∈ ops, x.id.lt t.nextId = true`     the next id is above every id (C04: start op),
    `∀ x ∈ ops, t.nextId ∉ x.pred`           nobody names the next id as predecessor,
    `RefsSmaller ops`                        an element's reference element has a smaller id
                                             (needed for everything that mentions `rgaOrder`,
                                             whose fuel grows with the op list).
  Property theorems only; helper lemmas are in `AmVerif.Proofs.Local`.
  Not modelled (hence not covered): mark/unmark, split/join block, `splice` on lists with
  several values (it is `insert` repeated).
-/
namespace AmVerif.Props.C03
open AmVerif AmVerif.Crdt

/-! ### the example state -/

/-- root: "l" = list 1@01, "a" = conflict {1 (2@01), 2 (2@02)}, "c" = counter 10 incremented by 3,
    "m" = conflict {counter 5 (9@01), "x" (9@02)};
    list 1@01 = [x, (y deleted), z] with z and y concurrent siblings after x -/
def mkL : Op := ⟨⟨1, [1]⟩, .root, .map [108], false, .make .list, []⟩
def lst : ObjId := .id ⟨1, [1]⟩
def putA1 : Op := ⟨⟨2, [1]⟩, .root, .map [97], false, .put (.int 1), []⟩
def putA2 : Op := ⟨⟨2, [2]⟩, .root, .map [97], false, .put (.int 2), []⟩
def ctr : Op := ⟨⟨3, [1]⟩, .root, .map [99], false, .put (.counter 10), []⟩
def inc3 : Op := ⟨⟨4, [1]⟩, .root, .map [99], false, .inc 3, [⟨3, [1]⟩]⟩
def insX : Op := ⟨⟨5, [1]⟩, lst, .head, true, .put (.str [120]), []⟩
def insY : Op := ⟨⟨6, [1]⟩, lst, .elem ⟨5, [1]⟩, true, .put (.str [121]), []⟩
def insZ : Op := ⟨⟨6, [2]⟩, lst, .elem ⟨5, [1]⟩, true, .put (.str [122]), []⟩
def delY : Op := ⟨⟨7, [1]⟩, lst, .elem ⟨6, [1]⟩, false, .del, [⟨6, [1]⟩]⟩
def mixC : Op := ⟨⟨9, [1]⟩, .root, .map [109], false, .put (.counter 5), []⟩
def mixS : Op := ⟨⟨9, [2]⟩, .root, .map [109], false, .put (.str [120]), []⟩
def ops0 : List Op := [mkL, putA1, putA2, ctr, inc3, insX, insY, insZ, delY, mixC, mixS]
/-- the open transaction of actor 01: next id 10@01 -/
def t0 : Tx := ⟨[1], 10, []⟩

/-- the example state satisfies the well-formedness hypotheses used below -/
example : StrictIds ops0 ∧ (∀ x ∈ ops0, x.id.lt t0.nextId = true) ∧ (∀ x ∈ ops0, t0.nextId ∉ x.pred) ∧
    RefsSmaller ops0 ∧ (∀ x ∈ ops0, x.obj ≠ .id t0.nextId) := by decide

/-! ## (1) invalid calls: when each call fails, and that a failure changes nothing -/

/-- "An invalid call … returns an error and changes nothing": a call that returns an error hands
    no operation to the transaction; the transaction, hence the op list every read is computed
    from, is literally the one before the call. -/
theorem C03_error_changes_nothing (applied : List Op) (t : Tx) (res : Except EditErr (List Op))
    (err : EditErr) (h : res = .error err) :
    t.after res = t ∧ showDoc (applied ++ (t.after res).pending) = showDoc (applied ++ t.pending) := by
  subst h; exact ⟨rfl, rfl⟩

example : (t0.after (localPut .utf8 ops0 t0 (.id ⟨77, [1]⟩) (.inl [97]) (.put (.int 5)) true)).pending =
    t0.pending := by decide

/-- "This is visible inside the open transaction and after commit": committing moves the pending
    ops, unchanged and in order, behind the applied ones — the op list read after commit is the
    op list read inside the transaction. -/
theorem C03_commit_same_ops (d : Doc) (c : Change) (t : Tx) (h : c.ops = t.pending) :
    ({ d with applied := d.applied ++ [c] } : Doc).ops = d.ops ++ t.pending := by
  simp [Doc.ops, h]

example : ({ applied := [⟨[1], [1], 1, 1, [], ops0⟩, ⟨[2], [1], 2, 10, [[1]], [putA1]⟩], queue := [] } : Doc).ops =
    (⟨[⟨[1], [1], 1, 1, [], ops0⟩], []⟩ : Doc).ops ++ [putA1] := by decide

/-- "unknown object": put / put_object / delete / increment fail with `objid` exactly when the
    object does not exist. -/
theorem C03_put_error_unknown_object (e : Enc) (ops : List Op) (t : Tx) (obj : ObjId)
    (prop : Sum Bytes Nat) (a : Action) (ck : Bool) :
    localPut e ops t obj prop a ck = .error .objid ↔ objType ops obj = none :=
  localPut_error_objid

example : localPut .utf8 ops0 t0 (.id ⟨77, [1]⟩) (.inl [97]) (.put (.int 5)) true = .error .objid ∧
    objType ops0 (.id ⟨77, [1]⟩) = none := by decide

/-- "wrong key kind": the call fails with `invalidOp` exactly when the object exists and a map
    key is used on a non-map (checked by put / put_object, `ck = true`) or an index on a
    non-sequence (always). -/
theorem C03_put_error_wrong_key_kind (e : Enc) (ops : List Op) (t : Tx) (obj : ObjId)
    (prop : Sum Bytes Nat) (a : Action) (ck : Bool) :
    localPut e ops t obj prop a ck = .error .invalidOp ↔
      ∃ ty, objType ops obj = some ty ∧
        match prop with
        | .inl _ => ck = true ∧ ty ≠ .map
        | .inr _ => isSeq ty = false :=
  localPut_error_invalidOp

example : localPut .utf8 ops0 t0 lst (.inl [97]) (.put (.int 5)) true = .error .invalidOp ∧
    localPut .utf8 ops0 t0 .root (.inr 0) (.put (.int 5)) true = .error .invalidOp := by decide

/-- "index out of range": an indexed put / delete / increment fails with `index` exactly when the
    object is a sequence and the index is not below its length in units … -/
theorem C03_put_error_index (e : Enc) (ops : List Op) (t : Tx) (obj : ObjId)
    (prop : Sum Bytes Nat) (a : Action) (ck : Bool) :
    localPut e ops t obj prop a ck = .error .index ↔
      ∃ ty i, objType ops obj = some ty ∧ prop = .inr i ∧ isSeq ty = true ∧
        unitsLen e (ty == .text) (seqRegs ops obj) ≤ i :=
  localPut_error_index

/-- … and in a list the length in units is the number of visible elements. -/
theorem C03_list_units_are_elements (e : Enc) (ops : List Op) (obj : ObjId) :
    unitsLen e false (seqRegs ops obj) = (seqElems ops obj).length :=
  unitsLen_list_seqElems e ops obj

example : (seqElems ops0 lst).length = 2 ∧
    localPut .utf8 ops0 t0 lst (.inr 2) (.put (.int 5)) true = .error .index ∧
    localPut .utf8 ops0 t0 lst (.inr 1) (.put (.int 5)) true =
      .ok [⟨⟨10, [1]⟩, lst, .elem ⟨6, [2]⟩, false, .put (.int 5), [⟨6, [2]⟩]⟩] := by decide

/-- "increment of a non-counter": the call fails with `missingCounter` exactly when it is an
    increment on an existing object with the right key kind and no visible value of the target
    register is a counter (an absent key / empty register included). -/
theorem C03_increment_error_non_counter (e : Enc) (ops : List Op) (t : Tx) (obj : ObjId)
    (prop : Sum Bytes Nat) (a : Action) (ck : Bool) :
    localPut e ops t obj prop a ck = .error .missingCounter ↔
      (∃ n, a = .inc n) ∧ ∃ ty, objType ops obj = some ty ∧
        match prop with
        | .inl k => (ck = true → ty = .map) ∧ ∀ x ∈ mapRegOps ops obj k, x.isCounterPut = false
        | .inr i => isSeq ty = true ∧
            ∃ eid reg st, seekByIndex e (ty == .text) (seqRegs ops obj) i 0 = some (eid, reg, st) ∧
              ∀ x ∈ reg, x.isCounterPut = false :=
  localPut_error_missingCounter

example : localPut .utf8 ops0 t0 .root (.inl [97]) (.inc 1) false = .error .missingCounter ∧
    localPut .utf8 ops0 t0 .root (.inl [98]) (.inc 1) false = .error .missingCounter ∧
    localPut .utf8 ops0 t0 lst (.inr 0) (.inc 1) false = .error .missingCounter := by decide

/-- these are the only ways put / put_object / delete / increment fail -/
theorem C03_put_error_only (e : Enc) (ops : List Op) (t : Tx) (obj : ObjId)
    (prop : Sum Bytes Nat) (a : Action) (ck : Bool) (err : EditErr)
    (h : localPut e ops t obj prop a ck = .error err) :
    err = .objid ∨ err = .invalidOp ∨ err = .index ∨ err = .missingCounter := by
  cases err
  · exact .inr (.inr (.inl rfl))
  · exact .inl rfl
  · exact .inr (.inl rfl)
  · exact .inr (.inr (.inr rfl))
  · exact absurd h localPut_error_other

/-- insert / insert_object fail exactly for an unknown object (`objid`), a non-sequence
    (`invalidOp`), or an index beyond the length in units (`index`; inserting AT the length is
    allowed). -/
theorem C03_insert_error (e : Enc) (ops : List Op) (t : Tx) (obj : ObjId) (index : Nat) (a : Action)
    (err : EditErr) :
    localInsert e ops t obj index a = .error err ↔
      (err = .objid ∧ objType ops obj = none) ∨
      ∃ ty, objType ops obj = some ty ∧
        ((err = .invalidOp ∧ isSeq ty = false) ∨
         (err = .index ∧ isSeq ty = true ∧ unitsLen e (ty == .text) (seqRegs ops obj) < index)) :=
  localInsert_error_iff

example : localInsert .utf8 ops0 t0 lst 3 (.put (.int 5)) = .error .index ∧
    localInsert .utf8 ops0 t0 .root 0 (.put (.int 5)) = .error .invalidOp ∧
    localInsert .utf8 ops0 t0 (.id ⟨77, [1]⟩) 0 (.put (.int 5)) = .error .objid ∧
    localInsert .utf8 ops0 t0 lst 2 (.put (.int 5)) =
      .ok [⟨⟨10, [1]⟩, lst, .elem ⟨6, [2]⟩, true, .put (.int 5), []⟩] := by decide

/-- splice_text fails exactly for an unknown object, a non-text object, or — when there is text
    to insert — a position beyond the length.  (With nothing to insert a position beyond the
    length is NOT an error in the code: the delete loop finds nothing and the call succeeds
    with no op; see `C03_splice_text_empty_out_of_range`.) -/
theorem C03_splice_text_error (e : Enc) (ops : List Op) (t : Tx) (obj : ObjId) (index del : Nat)
    (text : Bytes) (err : EditErr) :
    localSpliceText e ops t obj index del text = .error err ↔
      (err = .objid ∧ objType ops obj = none) ∨
      ∃ ty, objType ops obj = some ty ∧
        ((err = .invalidOp ∧ ty ≠ .text) ∨
         (err = .index ∧ ty = .text ∧ text ≠ [] ∧ unitsLen e true (seqRegs ops obj) < index)) :=
  localSpliceText_error_iff

/-- a text object 1@01 holding "ab" -/
def mkT : Op := ⟨⟨1, [1]⟩, .root, .map [116], false, .make .text, []⟩
def txt : ObjId := .id ⟨1, [1]⟩
def chA : Op := ⟨⟨2, [1]⟩, txt, .head, true, .put (.str [97]), []⟩
def chB : Op := ⟨⟨3, [1]⟩, txt, .elem ⟨2, [1]⟩, true, .put (.str [98]), []⟩
def opsT : List Op := [mkT, chA, chB]
def tT : Tx := ⟨[1], 4, []⟩

example : localSpliceText .utf8 opsT tT txt 3 0 [99] = .error .index ∧
    localSpliceText .utf8 opsT tT .root 0 0 [99] = .error .invalidOp := by
  rw [localSpliceText_eq, localSpliceText_eq, utf8Chars_ascii [99] (by decide)]; decide

/-- the exception noted above, on the model: deleting at an out-of-range position of a text
    succeeds and does nothing -/
theorem C03_splice_text_empty_out_of_range :
    localSpliceText .utf8 opsT tT txt 7 1 [] = .ok [] := by
  rw [localSpliceText_eq, utf8Chars_nil]; decide

/-! ## (2) put on a map key -/

section MapPut
variable {e : Enc} {ops : List Op} {t : Tx} {obj : ObjId} {k : Bytes} {o : Op}

/-- put returns no op, one delete, or one put; nothing else -/
theorem C03_map_put_cases {v : Scalar} {l : List Op}
    (h : localPut e ops t obj (.inl k) (.put v) true = .ok l) :
    objType ops obj = some .map ∧
      (l = [] ∨ ∃ o, l = [o] ∧ o.id = t.nextId ∧ (o.action = .put v ∨ o.action = .del)) := by
  obtain ⟨ty, hty, hck, _⟩ := localPut_map_ok h
  refine ⟨by rw [hty, hck rfl], ?_⟩
  rcases localPut_map_ok_cases h with rfl | ⟨o, rfl⟩
  · exact .inl rfl
  · obtain ⟨act, preds, rfl, _, hc⟩ := localPut_map_shape h
    refine .inr ⟨_, rfl, rfl, ?_⟩
    rcases hc with ⟨rfl, _⟩ | ⟨_, _, _, rfl, _⟩
    · exact .inl rfl
    · exact .inr rfl

/-- "put … changes the visible document exactly as documented": after a put that produced a put
    op the key holds exactly the new value — one entry, no conflict, whatever was there before
    (all previously visible values are named as predecessors). -/
theorem C03_map_put_value {v : Scalar} (hs : StrictIds ops) (hlt : ∀ x ∈ ops, x.id.lt t.nextId = true)
    (hnp : ∀ x ∈ ops, t.nextId ∉ x.pred)
    (h : localPut e ops t obj (.inl k) (.put v) true = .ok [o]) (ha : o.action = .put v) :
    mapRegister (ops ++ [o]) obj k = [⟨t.nextId, Val.ofScalar v⟩] :=
  map_value_effect hs hlt hnp h (by simp [Op.isValue, ha])

/-- the conflict on "a" is replaced by the single new value; a counter reads as its initial value -/
example : localPut .utf8 ops0 t0 .root (.inl [97]) (.put (.int 5)) true =
      .ok [⟨⟨10, [1]⟩, .root, .map [97], false, .put (.int 5), [⟨2, [1]⟩, ⟨2, [2]⟩]⟩] ∧
    mapRegister (ops0 ++ [⟨⟨10, [1]⟩, .root, .map [97], false, .put (.int 5), [⟨2, [1]⟩, ⟨2, [2]⟩]⟩]) .root [97] =
      [⟨⟨10, [1]⟩, .scalar (.int 5)⟩] ∧
    Val.ofScalar (.counter 4) = .counter 4 := by decide

/-- "the key set": after such a put the object's keys are the old ones plus `k`. -/
theorem C03_map_put_keys {v : Scalar} (hs : StrictIds ops) (hlt : ∀ x ∈ ops, x.id.lt t.nextId = true)
    (hnp : ∀ x ∈ ops, t.nextId ∉ x.pred)
    (h : localPut e ops t obj (.inl k) (.put v) true = .ok [o]) (ha : o.action = .put v) :
    mapKeys (ops ++ [o]) obj = insertKey k (mapKeys ops obj) := by
  obtain ⟨htx, _, ho, hk, _⟩ := localPut_map_txOp hs hlt hnp h
  refine mapKeys_of_nonempty (fun k' hne => htx.map_other_register ho hk (.inr hne)) ?_
  rw [C03_map_put_value hs hlt hnp h ha]
  exact List.cons_ne_nil _ _

example : mapKeys ops0 .root = [[97], [99], [108], [109]] ∧
    mapKeys (ops0 ++ [⟨⟨10, [1]⟩, .root, .map [98], false, .put (.int 5), []⟩]) .root =
      [[97], [98], [99], [108], [109]] ∧
    localPut .utf8 ops0 t0 .root (.inl [98]) (.put (.int 5)) true =
      .ok [⟨⟨10, [1]⟩, .root, .map [98], false, .put (.int 5), []⟩] := by decide

/-- "put of the value already there" (single value): the call produces no op exactly when the key
    holds exactly one value and it equals the new one (a counter compared by its current value) —
    and then nothing at all changes (`ops ++ [] = ops`). -/
theorem C03_map_put_same_value_noop {v : Scalar} :
    localPut e ops t obj (.inl k) (.put v) true = .ok [] ↔
      objType ops obj = some .map ∧ ∃ w, mapRegister ops obj k = [w] ∧ w.val = Val.ofScalar v := by
  rw [localPut_map_put_nil_iff]
  constructor
  · rintro ⟨⟨ty, hty, hck⟩, h⟩; exact ⟨by rw [hty, hck rfl], h⟩
  · rintro ⟨hty, h⟩; exact ⟨⟨_, hty, fun _ => rfl⟩, h⟩

example : localPut .utf8 ops0 t0 .root (.inl [99]) (.put (.counter 13)) true = .ok [] ∧
    mapRegister ops0 .root [99] = [⟨⟨3, [1]⟩, .counter 13⟩] := by decide

/-- "put equal to the winner of a conflicted register": the call emits a delete of the losers and
    the key then holds exactly the old winner. -/
theorem C03_map_put_resolves_conflict {v : Scalar} (hs : StrictIds ops)
    (hlt : ∀ x ∈ ops, x.id.lt t.nextId = true) (hnp : ∀ x ∈ ops, t.nextId ∉ x.pred)
    (h : localPut e ops t obj (.inl k) (.put v) true = .ok [o]) (ha : o.action = .del) :
    ∃ w, (mapRegister ops obj k).getLast? = some w ∧ w.val = Val.ofScalar v ∧
      2 ≤ (mapRegister ops obj k).length ∧ mapRegister (ops ++ [o]) obj k = [w] :=
  map_put_conflict_effect hs hlt hnp h ha

example : localPut .utf8 ops0 t0 .root (.inl [97]) (.put (.int 2)) true =
      .ok [⟨⟨10, [1]⟩, .root, .map [97], false, .del, [⟨2, [1]⟩]⟩] ∧
    mapRegister ops0 .root [97] = [⟨⟨2, [1]⟩, .scalar (.int 1)⟩, ⟨⟨2, [2]⟩, .scalar (.int 2)⟩] ∧
    mapRegister (ops0 ++ [⟨⟨10, [1]⟩, .root, .map [97], false, .del, [⟨2, [1]⟩]⟩]) .root [97] =
      [⟨⟨2, [2]⟩, .scalar (.int 2)⟩] := by decide

end MapPut

/-! ### "… and leaves everything else unchanged": any single-op call on a map key -/

section MapOther
variable {e : Enc} {ops : List Op} {t : Tx} {obj : ObjId} {k : Bytes} {a : Action} {ck : Bool} {o : Op}

/-- every other key of the same object reads as before -/
theorem C03_map_op_other_keys (hs : StrictIds ops) (hlt : ∀ x ∈ ops, x.id.lt t.nextId = true)
    (hnp : ∀ x ∈ ops, t.nextId ∉ x.pred) (h : localPut e ops t obj (.inl k) a ck = .ok [o])
    (k' : Bytes) (hne : k' ≠ k) : mapRegister (ops ++ [o]) obj k' = mapRegister ops obj k' := by
  obtain ⟨htx, _, ho, hk, _⟩ := localPut_map_txOp hs hlt hnp h
  exact htx.map_other_register ho hk (.inr hne)

/-- every other object reads as before: its map registers, key set, element registers and
    visible element list -/
theorem C03_map_op_other_objects (hs : StrictIds ops) (hlt : ∀ x ∈ ops, x.id.lt t.nextId = true)
    (hnp : ∀ x ∈ ops, t.nextId ∉ x.pred) (hr : RefsSmaller ops)
    (h : localPut e ops t obj (.inl k) a ck = .ok [o]) (obj' : ObjId) (hne : obj' ≠ obj) :
    (∀ k', mapRegister (ops ++ [o]) obj' k' = mapRegister ops obj' k') ∧
    mapKeys (ops ++ [o]) obj' = mapKeys ops obj' ∧
    (∀ el, elemRegister (ops ++ [o]) obj' el = elemRegister ops obj' el) ∧
    seqElems (ops ++ [o]) obj' = seqElems ops obj' := by
  obtain ⟨htx, _, ho, hk, hi⟩ := localPut_map_txOp hs hlt hnp h
  exact ⟨fun k' => htx.map_other_register ho hk (.inl hne), htx.map_other_keys ho hk hne,
    fun el => htx.map_other_elemRegister ho el hne, (htx.map_other_seq hr ho hi obj').2 hne⟩

/-- the element order of every sequence is as before, and every object other than the one the
    op may create keeps its type -/
theorem C03_map_op_order_and_types (hs : StrictIds ops) (hlt : ∀ x ∈ ops, x.id.lt t.nextId = true)
    (hnp : ∀ x ∈ ops, t.nextId ∉ x.pred) (hr : RefsSmaller ops)
    (h : localPut e ops t obj (.inl k) a ck = .ok [o]) (obj' : ObjId) :
    rgaOrder (ops ++ [o]) obj' = rgaOrder ops obj' ∧
    (obj' ≠ .id t.nextId → objType (ops ++ [o]) obj' = objType ops obj') := by
  obtain ⟨htx, hid, ho, _, hi⟩ := localPut_map_txOp hs hlt hnp h
  exact ⟨(htx.map_other_seq hr ho hi obj').1, fun hne => objType_append_old (hid ▸ hne)⟩

example : let o : Op := ⟨⟨10, [1]⟩, .root, .map [97], false, .put (.int 5), [⟨2, [1]⟩, ⟨2, [2]⟩]⟩
    mapRegister (ops0 ++ [o]) .root [99] = mapRegister ops0 .root [99] ∧
    seqElems (ops0 ++ [o]) lst = seqElems ops0 lst ∧ seqElems ops0 lst ≠ [] ∧
    rgaOrder (ops0 ++ [o]) lst = [insX, insZ, insY] := by decide

end MapOther

/-! ## (3) delete of a map key, put_object -/

section MapDelete
variable {e : Enc} {ops : List Op} {t : Tx} {obj : ObjId} {k : Bytes} {ck : Bool} {o : Op}

/-- "delete": afterwards the key has no value and is gone from the key set (everything else:
    `C03_map_op_other_keys`, `C03_map_op_other_objects`). -/
theorem C03_map_delete (hs : StrictIds ops) (hlt : ∀ x ∈ ops, x.id.lt t.nextId = true)
    (hnp : ∀ x ∈ ops, t.nextId ∉ x.pred) (h : localPut e ops t obj (.inl k) .del ck = .ok [o]) :
    mapRegister (ops ++ [o]) obj k = [] ∧
    mapKeys (ops ++ [o]) obj = (mapKeys ops obj).filter (fun x => x != k) := by
  have h1 := map_delete_effect hs hlt hnp h
  obtain ⟨htx, _, ho, hk, _⟩ := localPut_map_txOp hs hlt hnp h
  exact ⟨h1, mapKeys_of_empty (fun k' hne => htx.map_other_register ho hk (.inr hne)) h1⟩

example : localPut .utf8 ops0 t0 .root (.inl [97]) .del false =
      .ok [⟨⟨10, [1]⟩, .root, .map [97], false, .del, [⟨2, [1]⟩, ⟨2, [2]⟩]⟩] ∧
    mapKeys (ops0 ++ [⟨⟨10, [1]⟩, .root, .map [97], false, .del, [⟨2, [1]⟩, ⟨2, [2]⟩]⟩]) .root =
      [[99], [108], [109]] := by decide

/-- "delete of an absent key = no op": the call produces nothing exactly when the key has no
    value. -/
theorem C03_map_delete_absent :
    localPut e ops t obj (.inl k) .del ck = .ok [] ↔
      (∃ ty, objType ops obj = some ty ∧ (ck = true → ty = .map)) ∧ mapRegister ops obj k = [] :=
  localPut_map_del_nil_iff

example : localPut .utf8 ops0 t0 .root (.inl [98]) .del false = .ok [] ∧
    mapRegister ops0 .root [98] = [] := by decide

/-- "put_object": the key holds exactly the new object, which has the requested type and is
    empty — given that no op refers to the not-yet-existing object. -/
theorem C03_map_put_object {ty : ObjType} (hs : StrictIds ops) (hlt : ∀ x ∈ ops, x.id.lt t.nextId = true)
    (hnp : ∀ x ∈ ops, t.nextId ∉ x.pred) (hobj : ∀ x ∈ ops, x.obj ≠ .id t.nextId)
    (h : localPut e ops t obj (.inl k) (.make ty) true = .ok [o]) :
    mapRegister (ops ++ [o]) obj k = [⟨t.nextId, .obj ty⟩] ∧
    objType (ops ++ [o]) (.id t.nextId) = some ty ∧
    mapKeys (ops ++ [o]) (.id t.nextId) = [] ∧ seqElems (ops ++ [o]) (.id t.nextId) = [] := by
  obtain ⟨tyo, htyo, _, _⟩ := localPut_map_ok h
  obtain ⟨act, preds, rfl, _, hc⟩ := localPut_map_shape h
  have hact : act = .make ty := by
    rcases hc with ⟨rfl, _⟩ | ⟨_, _, hv, _⟩
    · rfl
    · cases hv
  subst hact
  refine ⟨map_value_effect hs hlt hnp h (by simp [mkMapOp, Op.isValue]), ?_⟩
  exact new_object_empty (o := mkMapOp t obj k (.make ty) preds) hlt hobj
    (obj_ne_next_of_objType hlt htyo) rfl

example : localPut .utf8 ops0 t0 .root (.inl [97]) (.make .text) true =
      .ok [⟨⟨10, [1]⟩, .root, .map [97], false, .make .text, [⟨2, [1]⟩, ⟨2, [2]⟩]⟩] ∧
    mapRegister (ops0 ++ [⟨⟨10, [1]⟩, .root, .map [97], false, .make .text, [⟨2, [1]⟩, ⟨2, [2]⟩]⟩]) .root [97] =
      [⟨⟨10, [1]⟩, .obj .text⟩] := by decide

end MapDelete

/-! ## (4) increment -/

section Increment
variable {e : Enc} {ops : List Op} {t : Tx} {obj : ObjId} {k : Bytes} {ck : Bool} {o : Op} {n : Int}

/-- "increment": afterwards the register of the key is the old one with every counter grown by
    `n` and every non-counter value gone (`Entry.bump`); other registers:
    `C03_map_op_other_keys`, `C03_map_op_other_objects`. -/
theorem C03_map_increment (hs : StrictIds ops) (hlt : ∀ x ∈ ops, x.id.lt t.nextId = true)
    (hnp : ∀ x ∈ ops, t.nextId ∉ x.pred) (h : localPut e ops t obj (.inl k) (.inc n) ck = .ok [o]) :
    mapRegister (ops ++ [o]) obj k = (mapRegister ops obj k).filterMap (Entry.bump n) :=
  map_increment_effect hs hlt hnp h

/-- the counter 10+3 grows to 10+3+4; in the mixed register the counter grows and the string goes -/
example : localPut .utf8 ops0 t0 .root (.inl [99]) (.inc 4) false =
      .ok [⟨⟨10, [1]⟩, .root, .map [99], false, .inc 4, [⟨3, [1]⟩]⟩] ∧
    mapRegister (ops0 ++ [⟨⟨10, [1]⟩, .root, .map [99], false, .inc 4, [⟨3, [1]⟩]⟩]) .root [99] =
      [⟨⟨3, [1]⟩, .counter 17⟩] ∧
    mapRegister ops0 .root [109] = [⟨⟨9, [1]⟩, .counter 5⟩, ⟨⟨9, [2]⟩, .scalar (.str [120])⟩] ∧
    (mapRegister ops0 .root [109]).filterMap (Entry.bump 2) = [⟨⟨9, [1]⟩, .counter 7⟩] := by decide

/-- the same per value: a visible counter of the register is named as predecessor, stays visible
    and its value grows by exactly `n`; a visible non-counter value of the register disappears. -/
theorem C03_map_increment_pointwise (h : localPut e ops t obj (.inl k) (.inc n) ck = .ok [o])
    (c : Op) (hc : c ∈ mapRegOps ops obj k) :
    c.id ∈ o.pred ∧
    (c.isCounterPut = true →
      visible (ops ++ [o]) c = true ∧ ∀ init, counterValue (ops ++ [o]) c init = counterValue ops c init + n) ∧
    (c.isCounterPut = false → visible (ops ++ [o]) c = false) := by
  obtain ⟨act, preds, rfl, _, hcs⟩ := localPut_map_shape h
  rcases hcs with ⟨rfl, rfl⟩ | ⟨_, _, hv, _⟩
  · have hm : c.id ∈ (mkMapOp t obj k (.inc n) (mapRegOps ops obj k)).pred := List.mem_map.mpr ⟨c, hc, rfl⟩
    have hvis : visible ops c = true := (mem_regOps.mp (mapRegOps_eq ops obj k ▸ hc)).2.2
    have hm' : (mkMapOp t obj k (.inc n) (mapRegOps ops obj k)).pred.contains c.id = true := by
      simpa using hm
    have hinc : (mkMapOp t obj k (.inc n) (mapRegOps ops obj k)).isInc = true := rfl
    have hamt : (mkMapOp t obj k (.inc n) (mapRegOps ops obj k)).incAmount = n := rfl
    refine ⟨hm, fun hcp => ⟨?_, fun init => ?_⟩, fun hcp => ?_⟩
    · rw [visible_append, hvis]; simp [overwrites, hcp, hinc]
    · rw [counterValue_append, hinc, hm', hamt]; simp
    · rw [visible_append, hvis]; simp [overwrites, hcp, hm]
  · cases hv

example : mixC ∈ mapRegOps ops0 .root [109] ∧ mixS ∈ mapRegOps ops0 .root [109] ∧
    mixC.isCounterPut = true ∧ mixS.isCounterPut = false := by decide

end Increment

end AmVerif.Props.C03
