import AmVerif.Proofs.PatchFullDec
/-
  C09 — "Incremental patches keep a materialized view equal to the document: … the emitted patches
  turn the previous state into the new state. Applied to a view of the previous state, they yield
  exactly the new state, including conflict flags and counter values."

  This file: the ingestion paths (`apply_changes`, `merge`, `load_incremental`, sync), ONE register
  receiving ANY list of incoming operations in one batch.  It supersedes
  `C09.C09_regPatch_single_sound_partial` (one incoming value on an unconflicted register).

  Model: `foldDoc` / `foldChange` / `regPatch` of `AmVerif.Model.PatchDiff` (= `ValueState::
  {process_doc_op, process_change_op, do_increment, map_process}`, batch.rs; re-read against the
  current Rust: arm for arm identical).  Reference reading: `regEntryAfter` (Proofs/PatchFullDoc):
  the register's visible operations after the batch are the document operations the batch does not
  delete (counters plus the incoming increments naming them) and the incoming visible values (plus
  the increments that follow and name them); winner = greatest id, conflict = more than one.

  Abstraction to know: `foldChange (foldDoc ds) cs` feeds all document operations of the register
  before all incoming ones, the real `MapWalker` interleaves the two by op id.  The two channels
  (`doc`, `change`) only meet in `do_increment`; the equivalence of the two orders is NOT proved here
  (the differential run of the `patches` engine covers it).
-/
namespace AmVerif.Props.C09Full
open AmVerif AmVerif.Crdt

/-- C09, ingestion paths, one register, any batch: `ds` are the register's visible document
    operations (ascending id, current values, `deleted` = the batch deletes/overwrites it), `cs` the
    incoming visible set/make operations and increments in op-id order.  Under the walker's
    guarantees `walkerOK` (fresh ids; an increment names the tracked document value only if it is a
    counter or deleted; values after an increment have ids above its predecessors) the patch
    `map_process` logs, applied to the view's entry before the batch, gives exactly the register's
    entry after the batch: winner, conflict flag, counter totals — `RegEvent.nothing` included (then
    the entry is unchanged). -/
theorem C09_regPatch_sound (ds : List DocOp) (cs : List ChgOp)
    (hw : walkerOK (foldDoc ds) cs = true) :
    applyEvent (docEntryBefore ds)
        (regPatch (foldChange (foldDoc ds) cs).1 (foldChange (foldDoc ds) cs).2) =
      .ok (regEntryAfter ds cs) :=
  regPatch_sound ds cs (chgOK_of_walkerOK _ cs hw)

/-- non-vacuity and the named scenarios (hypothesis true, event and entries as expected) -/
example :
    -- delete of the winner exposing a lower conflicting value: {1@01: 1, 1@02: 2 (deleted)}
    (let ds : List DocOp := [⟨⟨1, [1]⟩, .scalar (.int 1), false⟩, ⟨⟨1, [2]⟩, .scalar (.int 2), true⟩]
     let cs : List ChgOp := []
     walkerOK (foldDoc ds) cs = true ∧
     regPatch (foldChange (foldDoc ds) cs).1 (foldChange (foldDoc ds) cs).2 = .put (.scalar (.int 1)) false true ∧
     docEntryBefore ds = some (true, .scalar (.int 2)) ∧ regEntryAfter ds cs = some (false, .scalar (.int 1))) ∧
    -- two incoming puts with ids on both sides of the document's winner 2@02
    (let ds : List DocOp := [⟨⟨2, [2]⟩, .scalar (.int 5), false⟩]
     let cs : List ChgOp := [.value ⟨1, [9]⟩ (.scalar (.int 6)), .value ⟨3, [1]⟩ (.scalar (.int 7))]
     walkerOK (foldDoc ds) cs = true ∧
     regPatch (foldChange (foldDoc ds) cs).1 (foldChange (foldDoc ds) cs).2 = .put (.scalar (.int 7)) true false ∧
     regEntryAfter ds cs = some (true, .scalar (.int 7))) ∧
    -- increment of a counter that is not the winner: counter 1@01, winner str 1@02
    (let ds : List DocOp := [⟨⟨1, [1]⟩, .scalar (.counter 4), false⟩, ⟨⟨1, [2]⟩, .scalar (.str [120]), false⟩]
     let cs : List ChgOp := [.inc [⟨1, [1]⟩] 3]
     walkerOK (foldDoc ds) cs = true ∧
     regPatch (foldChange (foldDoc ds) cs).1 (foldChange (foldDoc ds) cs).2 = .nothing ∧
     docEntryBefore ds = some (true, .scalar (.str [120])) ∧ regEntryAfter ds cs = some (true, .scalar (.str [120]))) ∧
    -- D17 as a remote batch: increment naming two conflicting counters
    (let ds : List DocOp := [⟨⟨1, [1]⟩, .scalar (.counter 1), false⟩, ⟨⟨1, [2]⟩, .scalar (.counter 5), false⟩]
     let cs : List ChgOp := [.inc [⟨1, [1]⟩, ⟨1, [2]⟩] 2]
     walkerOK (foldDoc ds) cs = true ∧
     regPatch (foldChange (foldDoc ds) cs).1 (foldChange (foldDoc ds) cs).2 = .inc 2 ∧
     regEntryAfter ds cs = some (true, .scalar (.counter 7))) ∧
    -- D16 as a remote batch: the winner's value put again over both conflicting values
    (let ds : List DocOp := [⟨⟨1, [1]⟩, .scalar (.int 1), true⟩, ⟨⟨1, [2]⟩, .scalar (.int 2), true⟩]
     let cs : List ChgOp := [.value ⟨2, [1]⟩ (.scalar (.int 2))]
     walkerOK (foldDoc ds) cs = true ∧
     regPatch (foldChange (foldDoc ds) cs).1 (foldChange (foldDoc ds) cs).2 = .put (.scalar (.int 2)) false false ∧
     regEntryAfter ds cs = some (false, .scalar (.int 2))) ∧
    -- G1: winner counter 1 (1@22), batch = lower put of counter 0 (1@11) and increment -1 of the winner
    (let ds : List DocOp := [⟨⟨1, [0x22]⟩, .scalar (.counter 1), false⟩]
     let cs : List ChgOp := [.value ⟨1, [0x11]⟩ (.scalar (.counter 0)), .inc [⟨1, [0x22]⟩] (-1)]
     walkerOK (foldDoc ds) cs = true ∧
     regPatch (foldChange (foldDoc ds) cs).1 (foldChange (foldDoc ds) cs).2 = .put (.scalar (.counter 0)) true true ∧
     regEntryAfter ds cs = some (true, .scalar (.counter 0))) := by
  decide

end AmVerif.Props.C09Full
