import AmVerif.Proofs.Myers
import AmVerif.Proofs.MyersBounds
import AmVerif.Proofs.MyersFullReduce
import AmVerif.Proofs.MyersFullSmallB
import AmVerif.Proofs.MyersFullFwdInv
/-
  C27 (continuation of `AmVerif.Props.C27`) — totality of the Myers diff behind `update_text`.
  Property theorems only; helpers in `AmVerif.Proofs.MyersFullReduce` (the reduction
  "`middle_snake_in_range` ⇒ total") and `AmVerif.Proofs.MyersFullSmall` (kernel-evaluated exhaustive
  enumeration).

  Decided here:
  * `C27_diff_total_of_in_range_partial`: the clause "After update_text(obj, s) the text is s" at diff level
    holds TOTALLY (a script is returned and it rebuilds the target) for every pair of sequences for
    which `SnakeInRange` (= `middle_snake_in_range` with exactly the call-site conditions of
    `conquer`) holds.  `invalidSplit`, fuel exhaustion and panics are excluded.
  * `C27_diff_total_bool4`: the same, unconditionally, for all pairs of sequences of length ≤ 4 over a
    2-letter alphabet (kernel evaluation; larger bounds exceed the 90 s per-file budget).
  * `C27_snake_odd_lower_partial`: first half of `middle_snake_in_range` for `delta` odd.
  STILL MISSING for `C27_diff_total` on all inputs: `∀ old new, SnakeInRange old new`
  (see the comment before `C27_snake_odd_lower_partial` for the exact list of what remains).
-/
namespace AmVerif.Props.C27Full
open AmVerif AmVerif.Myers

section
variable {α : Type} [BEq α] [LawfulBEq α]

/-- "After update_text(obj, s) the text is s", diff level, total form, CONDITIONAL on
    `SnakeInRange a b` (named `_partial` for that reason; what is missing is the proof of
    `SnakeInRange a b` for all `a`, `b`, i.e. `middle_snake_in_range`): the diff returns a script —
    no `invalidSplit`, no fuel exhaustion, no panic — and the script rebuilds `b` from `a` and walks
    over `a` exactly once. -/
theorem C27_diff_total_of_in_range_partial (a b : List α) (H : SnakeInRange a b) :
    ∃ script, diff a b = .ok script ∧ applyScript a b script = b ∧ consumed a script = a := by
  cases h : diff a b with
  | ok s =>
    have hw := diffFuel_wf _ a b s h
    exact ⟨s, rfl, by simpa using hw.applyScript_eq, by simpa using hw.consumed_eq⟩
  | invalidSplit => exact absurd h (diff_ne_invalidSplit a b H)
  | outOfFuel => exact absurd h (diff_ne_outOfFuel a b)
  | panic p => exact absurd h (diff_ne_panic a b p)

/-- The only way the diff can fail is a split point outside the rectangle (or at a corner) at some
    call of `find_middle_snake` made under the call-site conditions: `invalidSplit` implies that
    `SnakeInRange` is violated for this very pair. -/
theorem C27_invalidSplit_needs_bad_snake (a b : List α) (h : diff a b = .invalidSplit) :
    ¬ SnakeInRange a b :=
  fun H => diff_ne_invalidSplit a b H h
end

/-- "After update_text(obj, s) the text is s", diff level, TOTAL, for all sequences of length ≤ 4 over
    two letters (kernel evaluation of the model on all 31 × 31 pairs). -/
theorem C27_diff_total_bool4 (a b : List Bool) (ha : a.length ≤ 4) (hb : b.length ≤ 4) :
    ∃ script, diff a b = .ok script ∧ applyScript a b script = b ∧ consumed a script = a := by
  obtain ⟨s, h⟩ := diff_ok_bool4 a b ha hb
  have hw := diffFuel_wf _ a b s h
  exact ⟨s, h, by simpa using hw.applyScript_eq, by simpa using hw.consumed_eq⟩

/-- PARTIAL, towards `middle_snake_in_range` (`SnakeInRange`): when `delta = n - m` is odd (the split
    point is then always answered by the FORWARD pass) the point lies right of / below the start
    corner of the rectangle and is not that corner — for arbitrary (stale) contents of both `V` arrays.
    Proved from the invariant `d + k ≤ 2 V[k] ≤ 2 min(n, m) + d + k` of the forward array
    (`Proofs.MyersFullFwdInv`: `G`, `fwdStep_keeps`, `dLoop_odd_QF`).
    What is missing for `SnakeInRange`: (a) for `delta` odd, `x ≤ oe`, `y ≤ ne` and
    `(x, y) ≠ (oe, ne)`; `V[k] ≤ n` is NOT an invariant of this implementation (second example
    below), so this needs, on the forward state of depth `D`: "no overlap yet" in the form
    `V[k] < n ∧ V[k] - k < m` for `|k - delta| ≤ D - 1` (from the failed checks and the backward
    lower bound `D - 1 + k' ≤ 2 Vb[k']`), and the two frontier-shape invariants
    `V[k+2] > n → V[k] + 1 ≥ V[k+2]` and `V[k-2] - (k-2) > m → V[k] ≥ V[k-2] + 1`; (b) the mirror
    image of all of it for the backward pass (`delta` even), where the point answered is the END of
    the backward snake. -/
theorem C27_snake_odd_lower_partial {α : Type} [BEq α] [LawfulBEq α]
    (old : List α) (os oe : Nat) (new : List α) (ns ne : Nat) (vf vb : V)
    (hos : os ≤ oe) (hns : ns ≤ ne)
    (hodd : (((oe - os : Nat) : Int) - ((ne - ns : Nat) : Int)) % 2 = 1)
    (x y : Int) (vf' vb' : V)
    (h : findMiddleSnake old os oe new ns ne vf vb = .found x y vf' vb') :
    (os : Int) ≤ x ∧ (ns : Int) ≤ y ∧ ¬ (x = os ∧ y = ns) :=
  findMiddleSnake_odd_lower old os oe new ns ne vf vb hos hns hodd h

/-- non-vacuity: `old = [A]`, `new = [B, A, C, D]` (`delta = -3`): the forward pass answers `(1, 3)`. -/
example :
    (match findMiddleSnake [true] 0 1 [false, true, false, false] 0 4 (V.new 4) (V.new 4) with
     | .found x y _ _ => x == 1 && y == 3
     | _ => false) = true := by
  decide

/-- non-vacuity: the classic example of Myers' paper and of the Rust unit test, `ABCABBA` → `CBABAC`:
    a script of 7 hook calls that rebuilds the target and consumes the source. -/
example :
    (match diff "ABCABBA".toList "CBABAC".toList with
     | .ok s => s.length == 7 && applyScript "ABCABBA".toList "CBABAC".toList s == "CBABAC".toList
                && consumed "ABCABBA".toList s == "ABCABBA".toList
     | _ => false) = true := by
  decide

/-- non-vacuity of the bounded theorems on an input where the forward `V` values LEAVE the rectangle
    (`old = [A]`, `new = [B, A, C, D]`: at `d = 2` the forward pass stores `x = 2 > n = 1` on
    diagonals 2 and 0), which is why "`V[k] ≤ N`" is not an invariant of this implementation: -/
example :
    (match diff [true] [false, true, false, false] with
     | .ok s => applyScript [true] [false, true, false, false] s == [false, true, false, false]
     | _ => false) = true := by
  decide

end AmVerif.Props.C27Full
