import AmVerif.Proofs.SyncReadOnly
/-
  C22 — Read-only sync never applies incoming changes.
  Property theorems only; helper lemmas are in `AmVerif.Proofs.SyncReadOnly`.
  Model: `AmVerif.Model.Sync` (`State.setReadOnly`, `State.newReadOnly`, `generate`, `receive`).

  FULL-STRENGTH STATEMENT (three sentences):
   (S1) while a peer's state is read-only, receiving messages never changes its document
                                              — proved: `C22_readonly_doc_unchanged`, `…_any_sequence`;
   (S2) the other peer still receives all of the read-only peer's changes
                                              — mechanism proved (`C22_readonly_still_serves`,
                                                `C22_nothing_sent_to_readonly_peer`, `C22_flag_advertised`);
                                                "all … eventually" is a liveness statement and rests on
                                                C20's progress part, which is not proved;
   (S3) after switching back to read-write the peer eventually receives every change it skipped
                                              — mechanism proved (`C22_switch_back_state`,
                                                `C22_switch_back_message`, `C22_reset_clears_sent`);
                                                the liveness statement itself is FALSE for the model, and
                                                for the implementation, when Bloom filters can have false
                                                positives: `C22_switch_back_not_live_under_false_positive`
                                                is a machine-checked counterexample (same schedule fails
                                                the direct oracle on the real code, see the report).
-/
namespace AmVerif.Props.C22
open AmVerif AmVerif.Sync

/-! ### (S1) -/

/-- `receive_sync_message` on a read-only state leaves the document exactly as it was, whatever
    the message contains -/
theorem C22_readonly_doc_unchanged (d : Doc) (s : State) (m : Message) (h : s.readOnly = true) :
    (receive d s m).1 = d :=
  receive_doc_readOnly d s m h

/-- … and the state stays read-only, so this holds for every sequence of messages -/
theorem C22_readonly_doc_unchanged_any_sequence (d : Doc) (s : State) (ms : List Message)
    (h : s.readOnly = true) :
    (receiveAll d s ms).1 = d ∧ (receiveAll d s ms).2.readOnly = true :=
  receiveAll_doc_readOnly ms d s h

/-! ### (S2) -/

/-- what a peer offers does not depend on its own read-only flag, and whenever it has something to
    offer and no message in flight, `generate_sync_message` sends exactly that — read-only or not;
    the message says whether the sender is read-only -/
theorem C22_readonly_still_serves (fp : Hash → Bool) (d : Doc) (s : State)
    (hreset : resetCond d s = false) (hflight : s.inFlight = false)
    (hne : (mkBuilder fp d s).hashes ≠ []) :
    mkBuilder fp d { s with readOnly := true } = mkBuilder fp d { s with readOnly := false } ∧
    ∃ m f, (generate fp d s).2 = some m ∧ m.changes = (mkBuilder fp d s).changes ∧
      m.flags = some f ∧ flagSet f FLAG_READ_ONLY = s.readOnly := by
  refine ⟨rfl, ?_⟩
  obtain ⟨m, h1, h2, _, h4⟩ := generate_serves fp d s hreset hflight hne
  exact ⟨m, _, h1, h2, h4, outFlags_readOnly s⟩

/-- the receiver of a message records whether its sender is read-only … -/
theorem C22_flag_advertised (d : Doc) (s : State) (m : Message) (f : Nat) (hf : m.flags = some f) :
    (receive d s m).2.peerReadOnly = flagSet f FLAG_READ_ONLY :=
  receive_peerReadOnly d s m f hf

/-- … and then sends it no changes (the `peer_read_only` shortcut) -/
theorem C22_nothing_sent_to_readonly_peer (fp : Hash → Bool) (d : Doc) (s : State) (m : Message)
    (h : s.peerReadOnly = true) (hg : (generate fp d s).2 = some m) :
    m.changes = [] ∧ m.chunks = 0 :=
  generate_to_readOnly_peer fp d s m h hg

/-! ### (S3) the switch-back mechanism -/

/-- `set_read_only(false)` on a read-only state: a fresh state that keeps the peer's capabilities
    and has `needs_reset` set -/
theorem C22_switch_back_state (s : State) (h : s.readOnly = true) :
    s.setReadOnly false = { theirCaps := s.theirCaps, readOnly := false, needsReset := true } :=
  setReadOnly_false s h

/-- the next `generate_sync_message` always produces a message; it carries SYNC_RESET and the
    real heads if the peer understands SYNC_RESET, empty heads otherwise -/
theorem C22_switch_back_message (fp : Hash → Bool) (d : Doc) (s : State) (h : s.readOnly = true) :
    ∃ m, (generate fp d (s.setReadOnly false)).2 = some m ∧
      (s.peerSupportsSyncReset = true →
        m.flags = some (FLAG_SUPPORTS_SYNC_RESET ||| 0 ||| FLAG_SYNC_RESET) ∧ m.heads = d.heads) ∧
      (s.peerSupportsSyncReset = false → m.heads = []) :=
  generate_after_switch_back fp d s h

/-- either signal makes the other side forget what it has already sent, so that it offers the
    skipped changes again -/
theorem C22_reset_clears_sent (d : Doc) (s : State) (m : Message) :
    (∀ f, m.flags = some f → flagSet f FLAG_SYNC_RESET = true → (receive d s m).2.sentHashes = []) ∧
    (m.heads = [] → (receive d s m).2.sentHashes = [] ∧ (receive d s m).2.lastSentHeads = []) :=
  ⟨fun f hf hr => receive_syncReset_clears d s m f hf hr, receive_emptyHeads_clears d s m⟩

/-! ### non-vacuity and the counterexample to (S3) as a liveness statement -/

namespace Example

def x : Change := ⟨[7], []⟩
def y : Change := ⟨[9], []⟩
/-- the writer (read-only towards its peer) has one change, the peer another one -/
def docW : Doc := ⟨[x], []⟩
def docP : Doc := ⟨[y], []⟩

/-- both sides start read-only; W sends, P receives, P switches back to read-write and sends
    (SYNC_RESET), W receives.  Returns the final (docW, stW, docP, stP). -/
def run (fp : Hash → Bool) : Option (Doc × State × Doc × State) :=
  let (sW1, m1) := generate fp docW State.newReadOnly
  match m1 with
  | none => none
  | some m1 =>
    let (dP1, sP1) := receive docP State.newReadOnly m1
    let sP2 := sP1.setReadOnly false
    let (sP3, m2) := generate fp dP1 sP2
    match m2 with
    | none => none
    | some m2 =>
      let (dW1, sW2) := receive docW sW1 m2
      some (dW1, sW2, dP1, sP3)

/-- a few more rounds of generate/receive in both directions from a state of `run` -/
def more (fp : Hash → Bool) : Nat → Doc × State × Doc × State → Doc × State × Doc × State
  | 0, r => r
  | n + 1, (dW, sW, dP, sP) =>
    let (sW', mw) := generate fp dW sW
    let (dP', sP') := match mw with
      | some m => receive dP sP m
      | none => (dP, sP)
    let (sP'', mp) := generate fp dP' sP'
    let (dW', sW'') := match mp with
      | some m => receive dW sW' m
      | none => (dW, sW')
    more fp n (dW', sW'', dP', sP'')

end Example

/-- non-vacuity of (S1)/(S2): the read-only peer P receives a message that carries… nothing,
    because W learnt nothing yet; after P's switch-back and without false positives the skipped
    change arrives: two more rounds and P has W's change, while W (still read-only) has not
    applied P's -/
example :
    (match Example.run (fun _ => false) with
     | some r =>
       let r' := Example.more (fun _ => false) 2 r
       r'.2.2.1.hashes.contains [7] && r'.2.2.1.hashes.contains [9] && r'.1 == Example.docW &&
       r'.2.1.readOnly && !r'.2.2.2.readOnly
     | none => false) = true := by
  decide

/-- **(S3) is not a theorem.**  If W's change is a Bloom-filter false positive (here forced; 1 % of
    changes in reality), then after P has switched back to read-write both sides return `None`
    from `generate_sync_message` for ever, and P never receives the change it skipped: W is
    read-only, so its quiet test `(heads_equal || read_only) && nothing-to-send` lets it stay
    silent although P has never been told W's heads (P forgot them in `set_read_only(false)`),
    and P waits for an answer to its SYNC_RESET message. -/
theorem C22_switch_back_not_live_under_false_positive :
    (match Example.run (fun h => h == [7]) with
     | some (dW, sW, dP, sP) =>
       -- both quiet, P is read-write, P lacks W's change, and nothing is in flight
       (generate (fun h => h == [7]) dW sW).2 == none && (generate (fun h => h == [7]) dP sP).2 == none &&
       !sP.readOnly && sW.readOnly && !dP.hashes.contains [7] && dW.hashes.contains [7]
     | none => false) = true := by
  decide

end AmVerif.Props.C22
