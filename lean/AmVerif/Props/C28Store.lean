import AmVerif.Proofs.StoreLocalFinal
/-
  C28 (op store) — "Rollback restores the exact prior document: rolling back a transaction leaves the
  document exactly as it was before the transaction began."

  `Props/C28.lean` decides the property for the history layer and the visible state.  This file
  decides it for the op store, where a defect can hide behind unchanged save bytes and heads (an
  index bit that `undo_succ` forgets to restore changes `keys()` / `length()` only): the model of the
  local path (`Model/StoreLocal.lean`: `insertLocal` = `splice` + `add_succ_with_undo` with its
  `SuccUndo` records, `undoAll` = `rollback` / `undo_op` / `undo_succ`) is tied to the real store
  row by row inside open transactions and after rollbacks by the `store` engine, and here rollback
  is proved exact.  Property theorems only.
-/
namespace AmVerif.Props.C28Store
open AmVerif AmVerif.Crdt

def A : Bytes := [1]
def B : Bytes := [2]
def w1 : Op → Nat := fun _ => 1
def lst : ObjId := .id ⟨2, A⟩

/-- the committed history: key "c" holds a counter (1@A) and a plain value (1@B, the winner);
    a list with two elements, the first one overwritten concurrently by a counter and a string -/
def ctrA : Op := ⟨⟨1, A⟩, .root, .map [99], false, .put (.counter 5), []⟩
def valB : Op := ⟨⟨1, B⟩, .root, .map [99], false, .put (.int 0), []⟩
def mkL : Op := ⟨⟨2, A⟩, .root, .map [108], false, .make .list, []⟩
def insX : Op := ⟨⟨3, A⟩, lst, .head, true, .put (.str [120]), []⟩
def insY : Op := ⟨⟨4, A⟩, lst, .elem ⟨3, A⟩, true, .put (.str [121]), []⟩
def setXs : Op := ⟨⟨5, A⟩, lst, .elem ⟨3, A⟩, false, .put (.str [122]), [⟨3, A⟩]⟩
def setXc : Op := ⟨⟨5, B⟩, lst, .elem ⟨3, A⟩, false, .put (.counter 1), [⟨3, A⟩]⟩
def base : List Op := [ctrA, valB, mkL, insX, insY, setXs, setXc]

/-- one transaction of actor A: an increment on the conflicted key (deletes the winner 1@B, exposes
    the counter 1@A), an increment on the conflicted list element (the counter 5@B is the winner and
    stays), an insert behind it, a delete of the second element, an overwrite of the key -/
def incC : Op := ⟨⟨6, A⟩, .root, .map [99], false, .inc 2, [⟨1, A⟩, ⟨1, B⟩]⟩
def incX : Op := ⟨⟨7, A⟩, lst, .elem ⟨3, A⟩, false, .inc 3, [⟨5, A⟩, ⟨5, B⟩]⟩
def insZ : Op := ⟨⟨8, A⟩, lst, .elem ⟨3, A⟩, true, .put (.str [119]), []⟩
def delY : Op := ⟨⟨9, A⟩, lst, .elem ⟨4, A⟩, false, .del, [⟨4, A⟩]⟩
def putC : Op := ⟨⟨10, A⟩, .root, .map [99], false, .put (.int 9), [⟨1, A⟩]⟩
def tx : List Op := [incC, incX, insZ, delY, putC]

def s0 : Store := buildStore w1 base

/-- **C28 for the op store.**  For EVERY store and EVERY list of local ops (no well-formedness is
    needed): putting the ops in through the local path, with the undo records `add_succ_with_undo`
    makes, and then undoing them in reverse with `undo_op` / `undo_succ` gives back exactly the
    store the transaction started from — the rows, their successor lists and the `visible`, `top`
    and `text` index columns. -/
theorem C28_store_rollback_exact (w : Op → Nat) (s : Store) (ops : List Op) :
    undoAll (insertLocalAll w s ops).2 (insertLocalAll w s ops).1 = s :=
  undoAll_insertLocalAll w ops s

/-- the step behind it: every field one `add_succ_with_undo` step changes on a row is recorded and
    restored — for all three kinds of step (row deleted, counter exposed, counter surviving) and
    whatever the walk has seen before (`st`) -/
theorem C28_undo_succ_restores_row (w : Op → Nat) (N : Op) (pos : Nat) (st : AddSt) (x : Row) :
    undoSuccRow (addSuccRow w N pos st x).2.2 (addSuccRow w N pos st x).1 = x :=
  undoSuccRow_addSuccRow w N pos st x

/-- one op: `undo_op` after `insert_local_op` -/
theorem C28_undo_op_exact (w : Op → Nat) (s : Store) (N : Op) :
    undoOp (insertLocal w s N).2 (insertLocal w s N).1 = s :=
  undoOp_insertLocal w s N

/-- the example transaction changes the store (the increment on the [counter, value] conflict clears
    the three index bits of the value 1@B and exposes the counter 1@A: `top`, width 1), records what
    it changed, and the rollback gives the store back -/
example : (insertLocalAll w1 s0 tx).1 ≠ s0 ∧
    undoAll (insertLocalAll w1 s0 tx).2 (insertLocalAll w1 s0 tx).1 = s0 ∧
    (insertLocal w1 s0 incC).2 =
      ⟨some 2, [⟨1, 0, some true, some (some 1), some true⟩, ⟨0, 0, none, some none, some false⟩]⟩ ∧
    ((insertLocal w1 s0 incC).1.take 3).map (fun r => (r.op.id, r.vis, r.top, r.width)) =
      [(⟨1, A⟩, true, true, some 1), (⟨1, B⟩, false, false, none), (⟨6, A⟩, false, false, none)] := by
  decide

end AmVerif.Props.C28Store
