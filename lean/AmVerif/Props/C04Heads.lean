import AmVerif.Proofs.Graph
/-
  C04 (heads part) — "At all times the heads are exactly the applied changes that no other applied
  change depends on."
  Property theorems only; helper lemmas are in `AmVerif.Proofs.Graph`.
  Model: `AmVerif.Model.Graph` (`headsOf` = `ChangeGraph::update_heads` folded over the applied
  changes in application order, `Doc.heads` = `get_heads`, sorted).  "At all times" = for every
  document reachable from the empty one by `apply_changes` calls with arbitrary change lists
  (successful or failing) and by local commits (`Reachable`).
-/
namespace AmVerif.Props.C04Heads
open AmVerif AmVerif.Crdt

/-- C04 (heads): "the heads are exactly the applied changes that no other applied change depends
    on" — for `update_heads` folded over any topologically ordered list of changes with distinct
    hashes. -/
theorem C04_headsOf_spec {applied : List Change} (hc : DepsClosed applied)
    (hn : (hashes applied).Nodup) (h : Hash) :
    h ∈ headsOf applied ↔ (∃ c ∈ applied, c.hash = h) ∧ ¬ ∃ c ∈ applied, h ∈ c.deps :=
  headsOf_spec hc hn h

/-- C04 (heads): "At all times the heads are exactly the applied changes that no other applied
    change depends on." — `get_heads` of every reachable document; the list is strictly sorted,
    hence duplicate-free, so it is determined by this membership condition. -/
theorem C04_heads_are_maximal {d : Doc} (hr : Reachable d) :
    (∀ h, h ∈ d.heads ↔ (∃ c ∈ d.applied, c.hash = h) ∧ ¬ ∃ c ∈ d.applied, h ∈ c.deps) ∧
    SortedHashes d.heads ∧ d.heads.Nodup :=
  ⟨hr.inv.inv0.mem_heads, d.heads_sorted, d.heads_sorted.nodup⟩

/-- non-vacuity: the diamond a1 ← {b1, c1} ← b2 delivered out of order with two more changes held
    back is reachable, its applied list is the diamond, and its only head is the join `b2`
    (hash `[4]`): `[4]` satisfies the right-hand side, `[2]` (= `b1`, a dep of `b2`) does not. -/
example :
    Reachable Ex.doc1 ∧ Ex.doc1.applied = [Ex.a1, Ex.b1, Ex.c1, Ex.b2] ∧ Ex.doc1.heads = [[4]] ∧
    ((∃ c ∈ Ex.doc1.applied, c.hash = [4]) ∧ ¬ ∃ c ∈ Ex.doc1.applied, [4] ∈ c.deps) ∧
    ¬ ((∃ c ∈ Ex.doc1.applied, c.hash = [2]) ∧ ¬ ∃ c ∈ Ex.doc1.applied, [2] ∈ c.deps) :=
  ⟨Ex.doc1_reachable, by decide, by decide, by decide, by decide⟩

/-- two concurrent heads: before the join arrives both `b1` and `c1` are heads -/
example : (applyBatch Doc.empty [Ex.c1, Ex.a1, Ex.b1]).1.heads = [[2], [3]] := by decide

end AmVerif.Props.C04Heads
