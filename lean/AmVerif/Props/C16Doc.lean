import AmVerif.Proofs.DocCodecPlaced
/-
  C16 — "Any document that loads is internally consistent" — THE PART ABOUT THE DOCUMENT CHUNK:
  what `load` has verified about a chunk it accepts, and what it has not.

  Model: `DocCodec.loadDocBody` = `decodeDoc` (`Document::parse`, `OpSet::load`,
  `ChangeGraphCols::load`, every row of `OpIter`) followed by `rebuild` (`ChangeCollector`, the hash
  of every rebuilt change, the heads comparison, `MarkOrderValidator`).

  * `C16_doc_decode_consistent_partial` — what IS guaranteed for every accepted chunk: every row was
    readable, one change was rebuilt per change row, the stored heads are exactly the sorted heads of
    the rebuilt changes (whose hashes are SHA-256 of their re-encoding), every mark end follows its
    begin in the same object, change rows name actors of the actor table, and — since the fix
    77e2efb7e (`ChangeCollector::unplaced`, `Error::OpsOutsideChanges`) — every op row and every
    successor id lies in the counter range of a change row of its actor
    (`C16_doc_rows_inside_changes`; before the fix this clause was refuted by the chunk `Ex.mixed`,
    which is now rejected: `C16_doc_rejects_rows_outside_changes`).
  * NOT guaranteed — the property is FALSE on the tree for the remaining clauses ("ids increasing
    per change / distinct, `max_op` is the id of the change's last op"), proved in negated form in
    `Props/C16DocProg.lean` on concrete chunks the real `load` accepts as well (direct oracle lines
    `! C16 sig=duplicate-row`, `missing-row`, `read-panics`): `C16_doc_accepts_duplicate_ids` and
    `C16_doc_accepts_wrong_max_op` (changes of more than 18 ops go through `ProgressiveEncoder`,
    which re-encodes the ops by position: neither a duplicated op id nor a `max_op` that disagrees
    with the ops is noticed — the latter is the cause of the known finding L1, `get_changes` panics).
-/
namespace AmVerif.Props.C16Doc
open AmVerif AmVerif.Crdt AmVerif.DocCodec

/-- **Every row of an accepted chunk belongs to a change row** (the clause "rows belong to changes,
    successor ids are present or deletes of a change"; holds since 77e2efb7e): if `load` accepts the
    body of a document chunk then the id of every op row, and every successor id of every row, has the
    actor of a change row `c` of the chunk and a counter in `estStart c ..= c.max_op`, where
    `estStart c` is one past the greatest `max_op` of `c`'s dependencies — the range in which
    `ChangeCollector` files the ops of `c`.
    (That the id is the id of an op of the REBUILT change does not follow: see
    `C16_doc_accepts_duplicate_ids` / `C16_doc_accepts_wrong_max_op`.) -/
theorem C16_doc_rows_inside_changes (limit : Nat) (body : Bytes) (d : Decoded) (cs : List DChange)
    (h : loadDocBody limit body = .ok (d, cs)) :
    (∀ r ∈ d.ops, InChange d.changes r.id) ∧ (∀ r ∈ d.ops, ∀ k ∈ r.succ, InChange d.changes k) := by
  unfold loadDocBody at h
  split at h
  · cases h
  · cases h
  · split at h
    · rename_i cs' hr
      cases h
      exact rebuild_placed hr
    · cases h
    · cases h

/-- **What an accepted chunk guarantees, PARTIAL** (the clauses of C16 that hold): if `load` accepts
    the body of a document chunk then every op row was readable (`opsFail = none`), exactly one change
    was rebuilt per change row, "heads = hashes recomputed from the rebuilt changes" — the stored
    heads are the sorted heads of the rebuilt changes —, the mark order is valid, the actor index of
    every change row is inside the actor table, and every row id and successor id lies in the range
    of a change row (`C16_doc_rows_inside_changes`).
    MISSING (false, see `Props/C16DocProg.lean`): that row ids are distinct, that `max_op` is the id
    of the change's last op; not proved: that actor indexes of rows are in bounds. -/
theorem C16_doc_decode_consistent_partial (limit : Nat) (body : Bytes) (d : Decoded) (cs : List DChange)
    (h : loadDocBody limit body = .ok (d, cs)) :
    d.opsFail = none ∧ cs.length = d.changes.length ∧
      sortHashes (headsOf (cs.map (·.c))) = d.heads ∧ markOrderOk d.ops [] = true ∧
      (∀ c ∈ d.changes, c.actor < d.actors.length) ∧
      (∀ r ∈ d.ops, InChange d.changes r.id) ∧ (∀ r ∈ d.ops, ∀ k ∈ r.succ, InChange d.changes k) := by
  have hin := C16_doc_rows_inside_changes limit body d cs h
  unfold loadDocBody at h
  split at h
  · cases h
  · cases h
  · rename_i d' hd
    split at h
    · rename_i cs' hr
      cases h
      obtain ⟨h1, h2, h3, h4⟩ := rebuild_ok hr
      exact ⟨h4, h2, h1, h3, decodeParts_actor_bound hd, hin.1, hin.2⟩
    · cases h
    · cases h

-- non-vacuity (the chunk of the example history is accepted, 14 rows, 4 successor entries): `Props/C16DocEx.lean`

set_option maxRecDepth 100000 in
/-- **the witness that refuted this clause before 77e2efb7e is now rejected.**  The chunk `Ex.mixed`
    carries the heads and change rows of the first three changes of the example and the op rows of
    all four: the row of op `13@A` (the put that resolves the conflict on `c`) and the successor
    entries naming it are in no change row.  `load` used to accept it (the loaded document showed
    `c = 9` with the history of a document where `c` is still in conflict); it now answers
    `OpsOutsideChanges`. -/
theorem C16_doc_rejects_rows_outside_changes :
    loadDocBody 1000 (encodeDoc Ex.mixed) = .err .changes := by
  have key : (match loadDocBody 1000 (encodeDoc Ex.mixed) with
      | .err .changes => true
      | _ => false) = true := by decide +kernel
  split at key
  · assumption
  · cases key

end AmVerif.Props.C16Doc
