import AmVerif.Proofs.DocCodecRebuild
/-
  C16 — "Any document that loads is internally consistent" — THE PART ABOUT THE DOCUMENT CHUNK:
  what `load` has verified about a chunk it accepts, and what it has not.

  Model: `DocCodec.loadDocBody` = `decodeDoc` (`Document::parse`, `OpSet::load`,
  `ChangeGraphCols::load`, every row of `OpIter`) followed by `rebuild` (`ChangeCollector`, the hash
  of every rebuilt change, the heads comparison, `MarkOrderValidator`).

  * `C16_doc_decode_consistent_partial` — what IS guaranteed for every accepted chunk: every row was
    readable, one change was rebuilt per change row, the stored heads are exactly the sorted heads of
    the rebuilt changes (whose hashes are SHA-256 of their re-encoding), every mark end follows its
    begin in the same object, change rows name actors of the actor table.
  * NOT guaranteed — the property is FALSE on the unchanged tree for the remaining clauses ("ids
    increasing per change, successor ids present or deletes, rows belong to changes"), proved in
    negated form on concrete chunks the real `load` accepts as well (direct oracle lines
    `! C16 sig=row-outside-changes`, `dangling-successor`, `duplicate-row`, `read-panics`):
    `C16_doc_accepts_rows_outside_changes` (op rows and successor entries that belong to no change of
    the chunk: `builders_index` drops them silently — the loaded document shows a state that is not
    the interpretation of its changes), `C16_doc_accepts_duplicate_ids` and
    `C16_doc_accepts_wrong_max_op` (changes of more than 18 ops go through `ProgressiveEncoder`,
    which re-encodes the ops by position: neither a duplicated op id nor a `max_op` that disagrees
    with the ops is noticed — the latter is the cause of the known finding L1, `get_changes` panics).
-/
namespace AmVerif.Props.C16Doc
open AmVerif AmVerif.Crdt AmVerif.DocCodec

/-- **What an accepted chunk guarantees, PARTIAL** (the clauses of C16 that hold): if `load` accepts
    the body of a document chunk then every op row was readable (`opsFail = none`), exactly one change
    was rebuilt per change row, "heads = hashes recomputed from the rebuilt changes" — the stored
    heads are the sorted heads of the rebuilt changes —, the mark order is valid, and the actor
    index of every change row is inside the actor table.
    MISSING (false, see below): that every row belongs to a rebuilt change, that row ids are distinct,
    that `max_op` is the id of the change's last op, that actor indexes of rows are in bounds. -/
theorem C16_doc_decode_consistent_partial (limit : Nat) (body : Bytes) (d : Decoded) (cs : List DChange)
    (h : loadDocBody limit body = .ok (d, cs)) :
    d.opsFail = none ∧ cs.length = d.changes.length ∧
      sortHashes (headsOf (cs.map (·.c))) = d.heads ∧ markOrderOk d.ops [] = true ∧
      ∀ c ∈ d.changes, c.actor < d.actors.length := by
  unfold loadDocBody at h
  split at h
  · cases h
  · cases h
  · rename_i d' hd
    split at h
    · rename_i cs' hr
      cases h
      obtain ⟨h1, h2, h3, h4⟩ := rebuild_ok hr
      exact ⟨h4, h2, h1, h3, decodeParts_actor_bound hd⟩
    · cases h
    · cases h

set_option maxRecDepth 100000 in
/-- non-vacuity: the chunk of the example history is accepted, with its 4 changes -/
example : (match loadDocBody 1000 (encodeDoc (imageOf Ex.history)) with
    | .ok (d, cs) => d.ops.length == 14 && cs == Ex.history
    | _ => false) = true := by decide +kernel

set_option maxRecDepth 100000 in
/-- **C16 is FALSE: rows outside every change are accepted.**  The chunk `Ex.mixed` carries the
    heads and change rows of the first three changes of the example and the op rows of all four.
    `load` accepts it: the three changes are rebuilt and their heads verify; the row of op `13@A`
    (the put that resolves the conflict on `c`) and the successor entries naming it are in no
    rebuilt change.  The loaded document shows `c = 9` with the history of a document where `c` is
    still in conflict. -/
theorem C16_doc_accepts_rows_outside_changes :
    ∃ body d cs, loadDocBody 1000 body = .ok (d, cs) ∧
      ∃ r ∈ d.ops, ∀ c ∈ cs, ∀ o ∈ c.c.ops, ¬ (o.id.ctr = r.id.ctr ∧ some o.id.actor = d.actors[r.id.actor]?) := by
  have key : (match loadDocBody 1000 (encodeDoc Ex.mixed) with
      | .ok (d, cs) => cs == Ex.earlier &&
          d.ops.any (fun r => cs.all (fun c => c.c.ops.all (fun o =>
            !(decide (o.id.ctr = r.id.ctr) && (some o.id.actor == d.actors[r.id.actor]?)))))
      | _ => false) = true := by decide +kernel
  cases hl : loadDocBody 1000 (encodeDoc Ex.mixed) with
  | ok p =>
    obtain ⟨d, cs⟩ := p
    rw [hl] at key
    simp only [Bool.and_eq_true, List.any_eq_true, List.all_eq_true, Bool.not_eq_true', Bool.and_eq_false_iff,
      decide_eq_false_iff_not, beq_eq_false_iff_ne] at key
    obtain ⟨_, r, hr, hk⟩ := key
    refine ⟨_, d, cs, hl, r, hr, fun c hc o ho => ?_⟩
    rcases hk c hc o ho with h | h
    · exact fun hh => h hh.1
    · exact fun hh => h hh.2
  | err e => rw [hl] at key; cases key
  | panic p => rw [hl] at key; cases key

end AmVerif.Props.C16Doc
