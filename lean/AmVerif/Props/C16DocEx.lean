import AmVerif.Props.C16Doc
/-
  C16 — document chunk: the decide-checked non-vacuity example of `C16_doc_decode_consistent_partial`
  and `C16_doc_rows_inside_changes` (`Props/C16Doc.lean`), in a file of its own because the kernel
  evaluates SHA-256 over four re-encoded changes (about half a minute).
-/
namespace AmVerif.Props.C16Doc
open AmVerif AmVerif.Crdt AmVerif.DocCodec

set_option maxRecDepth 100000 in
/-- non-vacuity: the chunk of the example history (3 actors, a conflict, a counter with an increment,
    a list with a deleted element, a text, a nested map) is accepted, with its 4 changes, 14 op rows
    and 4 successor entries — one of them (`12@B`, the delete of the list element) is not a row -/
example : (match loadDocBody 1000 (encodeDoc (imageOf Ex.history)) with
    | .ok (d, cs) => d.ops.length == 14 && cs == Ex.history &&
        (d.ops.map (·.succ.length)).sum == 4 &&
        d.ops.any (fun r => r.succ.any (fun k => !(d.ops.any (fun r' => r'.id == k))))
    | _ => false) = true := by decide +kernel

end AmVerif.Props.C16Doc
