import AmVerif.Proofs.Bloom
import AmVerif.Proofs.IdsMsg
/-
  C23 — The sync Bloom filter has no false negatives and never crashes.
  Property theorems only; helper lemmas are in `AmVerif.Proofs.Bloom`.
  Model: `AmVerif.Model.Bloom` (bloom.rs function by function), constants from
  `AmVerif.Generated.Consts` (regenerated from bloom.rs on every run).
-/
namespace AmVerif.Props.C23
open AmVerif AmVerif.Bloom

/-- `from_hashes` never panics, whatever the hash list (this is where `BITS_PER_ENTRY > 0`
    from the generated constants is needed: a build with 0 bits per entry would make the first
    `add_hash` take a remainder by zero). -/
theorem C23_fromHashes_total (hs : List Hash) : ∃ f, fromHashes hs = .ok f := by
  cases hs with
  | nil => exact ⟨_, rfl⟩
  | cons h hs =>
    obtain ⟨f, hf, _⟩ := fromHashes_inv (h :: hs) (by simp)
    exact ⟨f, hf⟩

/-- First sentence: a filter built from a set of hashes reports every member as present. -/
theorem C23_no_false_negative (hs : List Hash) (f : Filter) (h : Hash)
    (hf : fromHashes hs = .ok f) (hm : h ∈ hs) : containsHash f h = .ok true := by
  have hpos : 0 < hs.length := List.length_pos_of_mem hm
  obtain ⟨f', hf', inv'⟩ := fromHashes_inv hs hpos
  rw [hf] at hf'; cases hf'
  have hb : f.bits ≠ [] := by
    intro he; have := inv'.len; have := cap_pos _ hpos; simp [he] at *; omega
  obtain ⟨ps, hps, _⟩ := getProbes_ok f h hb
  unfold containsHash
  have hne : ¬ (f.numEntries = 0 ∨ f.bits.isEmpty = true) := by
    rw [inv'.entries]; intro hc; rcases hc with hc | hc
    · omega
    · exact hb (List.isEmpty_iff.mp hc)
  simp only [if_neg hne, hps]
  congr 1
  exact allSet_of_bitSet _ _ (fun q hq => inv'.members h hm ps hps q hq)

/-- "…including after encoding and decoding": the bytes of a filter built from fewer than 2^32 hashes
    parse back to the same filter, hence every member is still reported (`C23_no_false_negative`). -/
theorem C23_roundtrip (hs : List Hash) (f : Filter) (hlen : hs.length < 2 ^ 32)
    (hf : fromHashes hs = .ok f) : parse (toBytes f) = .ok (f, []) := by
  apply AmVerif.IdsMsg.bloom_parse_toBytes
  cases hs with
  | nil =>
    have : f = Bloom.default := by
      have h : fromHashes ([] : List Hash) = .ok Bloom.default := rfl
      rw [h] at hf; cases hf; rfl
    subst this
    exact ⟨fun _ => rfl, fun h => absurd rfl h⟩
  | cons h hs =>
    obtain ⟨f', hf', inv⟩ := fromHashes_inv (h :: hs) (by simp)
    rw [hf] at hf'; cases hf'
    have hcap := cap_pos (h :: hs).length (by simp)
    refine ⟨fun h0 => ?_, fun _ => ?_⟩
    · rw [inv.entries] at h0; simp at h0
    · have hB : f.bitsPerEntry = Consts.BITS_PER_ENTRY := inv.bpe
      refine ⟨by rw [inv.entries]; exact hlen, by rw [hB]; decide, by rw [inv.probes]; decide, ?_, ?_⟩
      · rw [inv.len, inv.entries, hB]
      · right
        rw [inv.probes, inv.len]
        have : 10 * (h :: hs).length + 7 ≥ 17 := by simp; omega
        show Consts.NUM_PROBES ≤ 8 * bitsCapacity (h :: hs).length Consts.BITS_PER_ENTRY
        unfold bitsCapacity
        have h10 : Consts.BITS_PER_ENTRY = 10 := rfl
        have h7 : Consts.NUM_PROBES = 7 := rfl
        rw [h10, h7]; omega

/-- Second sentence: querying ANY filter value — in particular one decoded from arbitrary bytes —
    returns a boolean; it never panics. -/
theorem C23_contains_total (f : Filter) (h : Hash) : ∃ b, containsHash f h = .ok b := by
  unfold containsHash
  by_cases hc : f.numEntries = 0 ∨ f.bits.isEmpty = true
  · exact ⟨false, by rw [if_pos hc]⟩
  · have hb : f.bits ≠ [] := by
      intro he; apply hc; right; simp [he]
    obtain ⟨ps, hps, _⟩ := getProbes_ok f h hb
    exact ⟨allSet f.bits ps, by simp only [if_neg hc, hps]⟩

theorem C23_decoded_contains_total (bs rest : Bytes) (f : Filter) (h : Hash)
    (_hp : parse bs = .ok (f, rest)) : ∃ b, containsHash f h = .ok b :=
  C23_contains_total f h

/-- non-vacuity: a concrete three-hash filter is built, has 4 bytes of bits, and contains its
    members (evaluated by the kernel). -/
example :
    (match fromHashes [List.replicate 32 1, (List.range 32).map (fun i => UInt8.ofNat (7 * i + 3)),
                       List.replicate 32 255] with
     | .ok f => f.bits.length == 4 &&
        (match containsHash f ((List.range 32).map (fun i => UInt8.ofNat (7 * i + 3))) with
         | .ok b => b | _ => false)
     | _ => false) = true := by
  decide

/-- non-vacuity of the second theorem: bytes `01 00 07` decode to a filter without bits (the
    input that panicked before fix D2a) and the query returns `false`. -/
example :
    (match parse [1, 0, 7] with
     | .ok (f, rest) => rest.isEmpty && f.bits.isEmpty && f.numEntries == 1 &&
        (match containsHash f (List.replicate 32 0) with
         | .ok b => !b | _ => false)
     | _ => false) = true := by
  decide

end AmVerif.Props.C23
