import AmVerif.Proofs.Graph
/-
  C05 — "A change whose dependencies are not all present has no visible effect and is not in the
  heads, and it takes effect exactly when its last missing ancestor arrives. get_missing_deps
  reports exactly the hashes that are neither applied nor held and that the held changes or the
  given heads need, directly or through other held changes. The final state does not depend on
  arrival order."
  Property theorems only; helper lemmas are in `AmVerif.Proofs.Graph`.
  Model: `AmVerif.Model.Graph` — `applyBatch` = `apply_changes_batch_log_patches` (filter,
  `ChangeBatch::push`, `ChangeQueue::extend`, `pop_topo_sorted_ready` = Kahn's algorithm),
  `Doc.missingDeps` = `get_missing_deps`/`missing_deps_from`.  The visible state of a document is
  `Spec.showDoc d.ops` with `Doc.ops` the operations of the APPLIED changes only.
  The last sentence is proved in `AmVerif.Props.C01Deliver`.
-/
namespace AmVerif.Props.C05
open AmVerif AmVerif.Crdt

/-- C05: "A change whose dependencies are not all present has no visible effect and is not in the
    heads".  A held change is not applied, its hash is not a head, and heads / operation set /
    historical views are functions of the applied list alone (`rfl`: `Doc.heads`, `Doc.ops`,
    `Doc.at` do not mention the queue), so the held change contributes nothing to any of them. -/
theorem C05_queued_invisible {d : Doc} (hinv : d.Inv) {c : Change} (hc : c ∈ d.queue) :
    c ∉ d.applied ∧ d.hasChange c.hash = false ∧ c.hash ∉ d.heads ∧
    (∃ dep ∈ c.deps, d.hasChange dep = false) ∧
    (∀ q, ({ d with queue := q } : Doc).heads = d.heads ∧ ({ d with queue := q } : Doc).ops = d.ops ∧
      ∀ hs, (({ d with queue := q } : Doc).at hs) = d.at hs) := by
  have hna : c.hash ∉ hashes d.applied := fun h => hinv.inv0.disjoint h (mem_hashes_of_mem hc)
  refine ⟨fun h => hna (mem_hashes_of_mem h), hasChange_false_iff.mpr hna, ?_, hinv.noneReady c hc,
    fun q => ⟨rfl, rfl, fun _ => rfl⟩⟩
  intro hh
  obtain ⟨⟨x, hx, hxc⟩, _⟩ := (hinv.inv0.mem_heads _).mp hh
  exact hna (hxc ▸ mem_hashes_of_mem hx)

/-- C05, state form of "it takes effect exactly when its last missing ancestor arrives": in every
    reachable document a known change (applied or held) is applied if and only if all its
    dependencies are applied. -/
theorem C05_applied_iff_deps_applied {d : Doc} (hr : Reachable d) {c : Change}
    (hc : c ∈ d.applied ++ d.queue) : c ∈ d.applied ↔ ∀ dep ∈ c.deps, d.hasChange dep = true :=
  hr.inv.applied_iff_ready hc

/-- C05, `release_exact`: a successful `apply_changes` (a) only appends to the applied list;
    (b) what it appends and what it keeps holding comes from the old queue and the offered changes;
    (c) nothing is lost: every held change is applied or still held, every offered change is now
    known; (d) nothing ready is held back: every change still held has a dependency that is not
    applied; (e) the applied list stays in topological order (so a change is released only after
    all its dependencies); (f) hence a held or offered change is applied afterwards exactly when
    all its dependencies are applied afterwards — "exactly when its last missing ancestor
    arrives", including ancestors released by the same call. -/
theorem C05_release_exact {d d' : Doc} {cs : List Change} (hinv : d.Inv)
    (h : applyBatch d cs = (d', .ok ())) :
    ∃ topo, d'.applied = d.applied ++ topo ∧
      (∀ c ∈ topo, c ∈ d.queue ∨ c ∈ cs) ∧ (∀ c ∈ d'.queue, c ∈ d.queue ∨ c ∈ cs) ∧
      (∀ c ∈ d.queue, c ∈ topo ∨ c ∈ d'.queue) ∧
      (∀ c ∈ cs, d'.hasChange c.hash = true ∨ d'.queueHas c.hash = true) ∧
      (∀ c ∈ d'.queue, ∃ dep ∈ c.deps, d'.hasChange dep = false) ∧
      DepsClosed d'.applied ∧
      (∀ c ∈ d'.applied ++ d'.queue, c ∈ d'.applied ↔ ∀ dep ∈ c.deps, d'.hasChange dep = true) := by
  rcases applyBatch_cases d cs hinv with ⟨c, _, q, heq, _⟩ |
    ⟨batch, topo, _, hbsub, hcov, _, happ, hperm, _, hinv'⟩
  · rw [heq] at h; simp at h
  · rw [h] at happ hperm hinv'
    simp only at happ hperm hinv'
    have hmem : ∀ c, c ∈ topo ++ d'.queue ↔ c ∈ d.queue ++ batch := fun c => hperm.mem_iff
    refine ⟨topo, happ, ?_, ?_, ?_, ?_, hinv'.noneReady, hinv'.depsClosed,
      fun c hc => hinv'.applied_iff_ready hc⟩
    · intro c hc
      rcases List.mem_append.mp ((hmem c).mp (List.mem_append_left _ hc)) with h1 | h1
      · exact .inl h1
      · exact .inr (hbsub c h1)
    · intro c hc
      rcases List.mem_append.mp ((hmem c).mp (List.mem_append_right _ hc)) with h1 | h1
      · exact .inl h1
      · exact .inr (hbsub c h1)
    · intro c hc
      exact List.mem_append.mp ((hmem c).mpr (List.mem_append_left _ hc))
    · intro c hc
      have hq : ∀ y, y ∈ d.queue ++ batch → y.hash = c.hash →
          d'.hasChange c.hash = true ∨ d'.queueHas c.hash = true := by
        intro y hy hyc
        rw [hasChange_iff, queueHas_iff, happ, hashes_append]
        rcases List.mem_append.mp ((hmem y).mpr hy) with h1 | h1
        · exact .inl (List.mem_append_right _ (hyc ▸ mem_hashes_of_mem h1))
        · exact .inr (hyc ▸ mem_hashes_of_mem h1)
      rcases hcov c hc with h1 | h1 | h1
      · left; rw [hasChange_iff, happ, hashes_append]; exact List.mem_append_left _ h1
      · obtain ⟨y, hy, hyc⟩ := mem_hashes.mp h1
        exact hq y (List.mem_append_left _ hy) hyc
      · obtain ⟨y, hy, hyc⟩ := mem_hashes.mp h1
        exact hq y (List.mem_append_right _ hy) hyc

/-- C05: "get_missing_deps reports exactly the hashes that are neither applied nor held and that
    the held changes or the given heads need, directly or through other held changes."
    (`Needed`: the hashes of the held changes and the given heads, closed under "dependency of a
    held change".)  The report is strictly sorted, hence duplicate-free. -/
theorem C05_missing_deps_spec {d : Doc} (hr : Reachable d) (hs : List Hash) :
    (∀ h, h ∈ d.missingDeps hs ↔ h ∉ hashes d.applied ∧ h ∉ hashes d.queue ∧ Needed d hs h) ∧
    SortedHashes (d.missingDeps hs) ∧ (d.missingDeps hs).Nodup :=
  ⟨missing_deps_spec hr.inv.inv0 hs, missingDeps_sorted d hs, (missingDeps_sorted d hs).nodup⟩

/-- non-vacuity.  In `doc1` the diamond is applied and `e1` (deps: the join `[4]` and the unknown
    `[0]`), `e2` (dep `e1`) are held: neither is a head, the missing hash is `[0]` (needed by `e1`
    directly and by `e2` through `e1`); asking about the unknown head `[42]` reports it too.  When
    `m0` (hash `[0]`) arrives, `e1` and then `e2` are released, in that order. -/
example :
    Reachable Ex.doc1 ∧ Ex.doc1.queue = [Ex.e2, Ex.e1] ∧ Ex.doc1.heads = [[4]] ∧
    Ex.doc1.missingDeps [] = [[0]] ∧ Ex.doc1.missingDeps [[42], [4]] = [[0], [42]] ∧
    applyBatch Ex.doc1 [Ex.m0]
      = (⟨[Ex.a1, Ex.b1, Ex.c1, Ex.b2, Ex.m0, Ex.e1, Ex.e2], []⟩, .ok ()) ∧
    (applyBatch Ex.doc1 [Ex.m0]).1.heads = [[6]] :=
  ⟨Ex.doc1_reachable, by decide, by decide, by decide, by decide, by decide, by decide⟩

/-- `Needed` is inhabited non-trivially on `doc1`: `[0]` is needed through `e1`. -/
example : Needed Ex.doc1 [] [0] :=
  .dep (c := Ex.e1) (.base (by decide)) (by decide) (by decide)

end AmVerif.Props.C05
