import AmVerif.Proofs.History
/-
  C29 / C07 — the heads argument of `isolate(heads)` and of every `*_at(heads)` read is a SET: the
  document "at heads" (`Doc.at`, what `fork_at` builds and what an isolated replica reads) depends
  only on which hashes occur in the list, not on their order or multiplicity.  In particular a list
  repeating one head `k + 1` times — which has the LENGTH of the current heads when the document has
  `k + 1` heads, the input of the driver probe `crdt.x.isodup` — reads as the state at that single
  head, never as the whole document.
  Property theorems only; helper lemmas are in `AmVerif.Proofs.History`.
-/
namespace AmVerif.Props.C29HeadSet
open AmVerif AmVerif.Crdt

/-- `Doc.at` depends only on the set of the given heads -/
theorem C29_at_depends_on_head_set {d : Doc} (hn : (hashes d.applied).Nodup) {H H' : List Hash}
    (hset : ∀ x, x ∈ H ↔ x ∈ H') : d.at H = d.at H' := by
  have key : ∀ c ∈ d.applied,
      (d.ancestors H).contains c.hash = (d.ancestors H').contains c.hash := by
    intro c hc
    rw [Bool.eq_iff_iff, ancestors_contains_iff hn hc, ancestors_contains_iff hn hc]
    constructor
    · intro h
      exact h.mono (fun x hx => .head ((hset x).mp hx)) (fun _ h => h)
    · intro h
      exact h.mono (fun x hx => .head ((hset x).mpr hx)) (fun _ h => h)
  show ({ applied := d.applied.filter (fun c => (d.ancestors H).contains c.hash), queue := [] } : Doc) =
       { applied := d.applied.filter (fun c => (d.ancestors H').contains c.hash), queue := [] }
  congr 1
  exact List.filter_congr key

/-- a heads list repeating one hash reads as the state at that hash -/
theorem C29_repeated_head (d : Doc) (hn : (hashes d.applied).Nodup) (h : Hash) (k : Nat) :
    d.at (List.replicate (k + 1) h) = d.at [h] := by
  apply C29_at_depends_on_head_set hn
  intro x
  simp [List.mem_replicate]

/-- order of the heads does not matter either -/
theorem C29_heads_perm {d : Doc} (hn : (hashes d.applied).Nodup) {H H' : List Hash} (hp : H.Perm H') :
    d.at H = d.at H' :=
  C29_at_depends_on_head_set hn (fun _ => hp.mem_iff)

/-- the first three changes of the example history `doc2`: a root and two concurrent children -/
def twoHeads : Doc := { applied := Ex.doc2.applied.take 3, queue := [] }

/-- non-vacuity: `twoHeads` has pairwise distinct hashes and two heads; the list repeating its first
    head twice has the length of the heads, yet the document at that list holds 2 of the 3 changes
    (the state at that head), not the whole document -/
example :
    (hashes twoHeads.applied).Nodup ∧ twoHeads.heads.length = 2 ∧ twoHeads.applied.length = 3 ∧
    (List.replicate twoHeads.heads.length (twoHeads.heads.headD [])).length = twoHeads.heads.length ∧
    (twoHeads.at (List.replicate twoHeads.heads.length (twoHeads.heads.headD []))).applied.length = 2 := by
  decide

end AmVerif.Props.C29HeadSet
