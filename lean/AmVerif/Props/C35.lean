import AmVerif.Proofs.HexaneLoad
/-
  C35 — Hexane encodings round-trip and reject bad data safely.
  Property theorems only; helper lemmas are in `AmVerif.Proofs.Hexane{Leb,Rle,Canon,Load}`.
  Model: `AmVerif.Model.HexaneCodec` (the LEB128-codec wire format: `leb128`-crate readers that
  accept over-long forms, hexane's own writers, value packing, RLE segments with the canonical-form
  validation of `validate_after`, the loader's slab / weight bookkeeping, delta, boolean, raw).

  What is proved, and what is not:
  * first sentence ("saving a column and loading the bytes gives the same values", "bytes written
    by one column type load into the same type"): `C35_rle_roundtrip` and its per-type corollaries,
    full strength for `Column<T>` / `PrefixColumn<u64|i64>` of every RLE value type, nullable or
    not; `C35_raw_roundtrip`; for delta columns only the part up to the domain bookkeeping
    (`C35_delta_roundtrip_partial`); boolean columns are modelled and tied by the correspondence
    check but have no round-trip theorem here.
  * second sentence ("returns a column or an error and never panics"): `C35_decode_total` is the
    trichotomy; "never panics" is FALSE on the unchanged tree in overflow-checking builds, shown in
    negated form by `C35_load_panics_*` (three concrete byte strings, the findings).
  * third sentence: `C35_load_save_load_partial` — SUPERSEDED by
    `AmVerif.Props.C35Full.C35_load_save_load` (no side conditions, no length bound, every weight),
    `C35_load_valid`, `C35_delta_load_save_load`, `C35_bool_load_save_load`.
-/
namespace AmVerif.Props.C35
open AmVerif AmVerif.Hexane

/-- First sentence, every RLE column kind whose weight bookkeeping cannot fail (`Column<T>`,
    `PrefixColumn<u64>`, `PrefixColumn<i64>`, nullable or not): encoding a value list and loading
    the bytes as the same type gives the same values.  Hypotheses are the type invariants of the
    Rust side: values are representable (`Valid`), nulls only in `Option<T>` columns, and fewer
    than 2^63 items (run counts are written as `i64`). -/
theorem C35_rle_roundtrip {α : Type} [DecidableEq α] {c : ValCodec α} {Valid : α → Prop}
    (law : Lawful c Valid) (nullable : Bool) (w : Weight) (hw : w.plain) (num : α → Int)
    (xs : List (Option α)) (hlen : xs.length < two63) (hv : ListValid Valid nullable xs) :
    rleDecode c nullable w num (rleEncode c xs) = .ok xs :=
  rleDecode_encode law nullable w hw num xs hlen hv

theorem C35_roundtrip_u64 (nullable : Bool) (xs : List (Option Nat)) (hlen : xs.length < two63)
    (hv : ListValid validU64 nullable xs) :
    rleDecode cU64 nullable .len (fun n => (n : Int)) (rleEncode cU64 xs) = .ok xs :=
  C35_rle_roundtrip lawful_u64 nullable .len trivial _ xs hlen hv

theorem C35_roundtrip_u32 (nullable : Bool) (xs : List (Option Nat)) (hlen : xs.length < two63)
    (hv : ListValid validU32 nullable xs) :
    rleDecode cU32 nullable .len (fun n => (n : Int)) (rleEncode cU32 xs) = .ok xs :=
  C35_rle_roundtrip lawful_u32 nullable .len trivial _ xs hlen hv

theorem C35_roundtrip_i64 (nullable : Bool) (xs : List (Option Int)) (hlen : xs.length < two63)
    (hv : ListValid validI64 nullable xs) :
    rleDecode cI64 nullable .len id (rleEncode cI64 xs) = .ok xs :=
  C35_rle_roundtrip lawful_i64 nullable .len trivial _ xs hlen hv

theorem C35_roundtrip_bytes (nullable : Bool) (xs : List (Option Bytes)) (hlen : xs.length < two63)
    (hv : ListValid validBytes nullable xs) :
    rleDecode cBytes nullable .len (fun _ => 0) (rleEncode cBytes xs) = .ok xs :=
  C35_rle_roundtrip lawful_bytes nullable .len trivial _ xs hlen hv

/-- strings: the values must be valid UTF-8 (they are `String`s on the Rust side) -/
theorem C35_roundtrip_str (nullable : Bool) (xs : List (Option Bytes)) (hlen : xs.length < two63)
    (hv : ListValid validStr nullable xs) :
    rleDecode cStr nullable .len (fun _ => 0) (rleEncode cStr xs) = .ok xs :=
  C35_rle_roundtrip lawful_str nullable .len trivial _ xs hlen hv

/-- prefix columns with the wide accumulators load their own bytes too -/
theorem C35_roundtrip_prefix_u64 (nullable : Bool) (xs : List (Option Nat)) (hlen : xs.length < two63)
    (hv : ListValid validU64 nullable xs) :
    rleDecode cU64 nullable .prefixWide (fun n => (n : Int)) (rleEncode cU64 xs) = .ok xs :=
  C35_rle_roundtrip lawful_u64 nullable .prefixWide trivial _ xs hlen hv

/-- non-vacuity: runs, a literal block, nulls; the bytes are what `save()` writes -/
example :
    rleEncode cU64 [some 7, some 7, some 7, none, none, some 1, some 2, some 300, some 2, some 2]
      = [3, 7, 0, 2, 0x7d, 1, 2, 0xac, 2, 2, 2] := by decide

example :
    (match rleDecode cU64 true .len (fun n => (n : Int)) [3, 7, 0, 2, 0x7d, 1, 2, 0xac, 2, 2, 2] with
     | .ok xs => xs == [some 7, some 7, some 7, none, none, some 1, some 2, some 300, some 2, some 2]
     | _ => false) = true := by decide

/-- raw columns: the bytes are the column -/
theorem C35_raw_roundtrip (xs : Bytes) : rawDecode (rawEncode xs) = .ok xs := rfl

example : rawDecode (rawEncode [0, 255, 128]) = .ok [0, 255, 128] := rfl

/-- SUPERSEDED by `AmVerif.Props.C35Full.C35_delta_roundtrip`, which proves the missing part (kept
    for reference).  Delta columns, PARTIAL: the differences round-trip through the RLE layer and realise back to
    the values.  Missing: that `DeltaColumn::load`'s own bookkeeping (`Weight.delta`: checked
    per-slab offsets and the domain walk of `domainCheck`) accepts the encoder's bytes whenever
    the values lie in a 2^63-wide window inside the type's domain — the statement here runs the
    loader with the plain length bookkeeping instead. -/
theorem C35_delta_roundtrip_partial
    (nullable : Bool) (xs : List (Option Int)) (hlen : xs.length < two63)
    (hv : ListValid validI64 nullable (deltas xs 0)) :
    (match rleDecode cI64 nullable .len id (deltaEncode xs) with
     | .ok ds => Outcome.ok (ε := HErr) (realise ds 0)
     | .err e => .err e
     | .panic p => .panic p) = .ok xs := by
  unfold deltaEncode
  rw [C35_roundtrip_i64 nullable (deltas xs 0) (by
    have : ∀ (ys : List (Option Int)) (a : Int), (deltas ys a).length = ys.length := by
      intro ys; induction ys with
      | nil => intro a; rfl
      | cons y ys ih => intro a; cases y <;> simp [deltas, ih]
    rw [this]; exact hlen) hv]
  simp [realise_deltas]

/-- non-vacuity with the real loader bookkeeping: a `DeltaColumn<u64>` of 10, 20, 30, null, 25 -/
example :
    (match deltaDecode true 0 (2 ^ 63 - 1) (deltaEncode [some 10, some 20, some 30, none, some 25]) with
     | .ok xs => xs == [some 10, some 20, some 30, none, some 25]
     | _ => false) = true := by decide

/-- Second sentence, the part that holds by construction: a load is a value, an error, or one of the
    explicit panic sites; which inputs are rejected is the definition of `parse` / `account` /
    `finish` (over-long LEB forms are accepted; count-0 and count-1 repeats, mergeable neighbours,
    equal neighbours in a literal, nulls in non-nullable columns, values outside the type, invalid
    UTF-8, truncated input and a wrong `with_length` are errors). -/
theorem C35_decode_total {α : Type} [DecidableEq α] (c : ValCodec α) (nullable : Bool) (w : Weight)
    (num : α → Int) (bs : Bytes) :
    (∃ xs, rleDecode c nullable w num bs = .ok xs) ∨ (∃ e, rleDecode c nullable w num bs = .err e) ∨
      (∃ p, rleDecode c nullable w num bs = .panic p) := by
  cases h : rleDecode c nullable w num bs with
  | ok xs => exact Or.inl ⟨xs, rfl⟩
  | err e => exact Or.inr (Or.inl ⟨e, rfl⟩)
  | panic p => exact Or.inr (Or.inr ⟨p, rfl⟩)

/-- "never panics" is FALSE on the unchanged tree (overflow-checking builds).  Finding 1: a segment
    header that reads as `i64::MIN` (`80 80 80 80 80 80 80 80 80 7f`) makes `(-n) as usize` overflow
    in `RleDecoder::try_next_segment`. -/
theorem C35_load_panics_header_min :
    (rleDecode cU64 false .len (fun n => (n : Int)) [0x80, 0x80, 0x80, 0x80, 0x80, 0x80, 0x80, 0x80, 0x80, 0x7f]).isPanic
      = true := by decide

/-- Finding 2: counts that sum past `usize::MAX` (a null run of 2^64-1 and one more value, bytes
    `00 ff ff ff ff ff ff ff ff ff 01 7f 01`) overflow `slab.len += count` in `CutState::track`. -/
theorem C35_load_panics_len_overflow :
    (rleDecode cU64 true .len (fun n => (n : Int))
      [0x00, 0xff, 0xff, 0xff, 0xff, 0xff, 0xff, 0xff, 0xff, 0xff, 0x01, 0x7f, 0x01]).isPanic = true := by decide

/-- Finding 3: `PrefixColumn<u32>` accumulates `value as u64 * count as u64`: a repeat run of
    2^63-1 copies of `u32::MAX` (`ff ff ff ff ff ff ff ff ff 00 ff ff ff ff 0f`) overflows it. -/
theorem C35_load_panics_prefix_overflow :
    (rleDecode cU32 false (.prefixU two64) (fun n => (n : Int))
      [0xff, 0xff, 0xff, 0xff, 0xff, 0xff, 0xff, 0xff, 0xff, 0x00, 0xff, 0xff, 0xff, 0xff, 0x0f]).isPanic = true := by decide

/-- SUPERSEDED by `AmVerif.Props.C35Full.C35_load_save_load` / `C35_load_valid`, which derive both
    side conditions from the load and drop the length bound (kept for reference).
    Third sentence, PARTIAL: a list that came out of a load re-encodes to bytes that load to the
    same list.  Missing: the two side conditions are not derived from `hload` here — that every
    value `unpack` returns is `Valid` and that nulls only come out of nullable loads (both hold by
    inspection of `parse`: `u32` is range-checked, strings are UTF-8-checked, null runs are
    rejected when `nullable = false`) — and lists of 2^63 or more items (which a load can
    describe with a few bytes of run counts) are not covered. -/
theorem C35_load_save_load_partial
    {α : Type} [DecidableEq α] {c : ValCodec α} {Valid : α → Prop}
    (law : Lawful c Valid) (nullable : Bool) (w : Weight) (hw : w.plain) (num : α → Int)
    (bs : Bytes) (xs : List (Option α)) (_hload : rleDecode c nullable w num bs = .ok xs)
    (hlen : xs.length < two63) (hv : ListValid Valid nullable xs) :
    rleDecode c nullable w num (rleEncode c xs) = .ok xs :=
  rleDecode_encode law nullable w hw num xs hlen hv

/-- non-vacuity: over-long LEB forms load (count `82 00` = 2, value `85 00` = 5) and the loaded
    values re-encode canonically (`02 05`) to bytes that load to the same values -/
example :
    (match rleDecode cU64 false .len (fun n => (n : Int)) [0x82, 0x00, 0x85, 0x00] with
     | .ok xs => xs == [some 5, some 5] && rleEncode cU64 xs == [2, 5] &&
        (match rleDecode cU64 false .len (fun n => (n : Int)) (rleEncode cU64 xs) with
         | .ok ys => ys == xs | _ => false)
     | _ => false) = true := by decide

/-- rejected inputs (each is an `err`, not a panic): count-1 repeat, mergeable repeats, equal
    neighbours in a literal, null in a non-nullable column, truncated literal, invalid UTF-8 -/
example :
    ([ [0x01, 0x05], [0x02, 0x05, 0x02, 0x05], [0x7e, 0x05, 0x05], [0x00, 0x01], [0x7d, 0x01, 0x02] ].all
      (fun bs => match rleDecode cU64 false .len (fun n => (n : Int)) bs with | .err _ => true | _ => false)
     && (match rleDecode cStr false .len (fun _ => 0) [0x7f, 0x02, 0xc3, 0x28] with | .err .utf8 => true | _ => false))
      = true := by decide

end AmVerif.Props.C35
