import AmVerif.Proofs.SyncProgress21PairW4
import AmVerif.Props.C21Progress
/-
  C21 — n-peer PROGRESS: the pair lemma (PairW) under the weak invariants, and how far the window
  argument goes.  Property theorems only; helper lemmas are in
  `AmVerif.Proofs.SyncProgress21PairW{,2,3,4}`.

  FULL-STRENGTH STATEMENT (not proved):
    theorem C21_net_progress (net) (h : NetReachable net) (connected topology, no more edits/drops) :
      ∃ k ≤ 4 * (Σ_{p<n} |known ∖ arrived_p| + 1),
        NetQuiescent (round-robin^k net) ∧ all peers of a component hold the same changes
    for every false-positive oracle `fp` (the hook is not consulted for an empty filter).

  PROVED here, for every `fp`:
    * `C21_pairW` — the pair lemma.  For a pair inside a network — weak invariants `WP`: the
      documents are made of known changes of a topological universe, `SessW`, `Inv2`; third-party
      orphans in the queues and third-party heads in `shared_heads` are allowed — four consecutive
      rounds of the pair during which nothing arrives at either peer and no reset message is sent
      end in a quiescent pair.  Equivalently (`C21_pairW_trichotomy`): within four undisturbed rounds
      a change arrives, or a reset message is sent, or the pair is quiet.
      This is the C20 phase argument redone without `queue ⊆ applied_other`
      (`need_soundW`: the walk of `missing_deps_from` from the peer's heads only reports hashes the
      peer has, whatever orphans are queued) and without `shared_heads ⊆ applied_other`.
    * `C21_no_arrival_doc_unchanged` — the bridge to the measure: a receive whose changes have all
      arrived already leaves the document literally unchanged (no queued change is ready), so a
      round in which the measure Σ_p |known ∖ arrived_p| does not drop satisfies the document
      equalities of `Calm`.

  WHAT REMAINS for `C21_net_progress` (exact statements):
    (R) the reset branch.  If `resetCond c.docA c.stA = true` on empty links (A answers B's `have`
        with the reset message), then after A's half round and B's half round a change has arrived
        at A:  ∃ x, hasB c.docA x = false ∧ hasB (round fp c).docA x = true.
        Needs two more invariants of a pair session (both survive third-party deliveries):
        `∀ hv ∈ their_have_A, hv.lastSync ⊆ hashes_B` (with the same for messages in flight and
        `shared_heads_B ⊆ hashes_B`), and the lemmas (i) `hashesToSend` with the empty filter of the
        reset message returns every hash that is not in `sent_hashes`, (ii) a queued, not applied
        change has an ancestor that has not arrived (from `Stuck` and `no_descent`).
        With (R) the hypothesis "no reset message is sent" disappears from `C21_pairW`: a calm
        round is then simply a round without arrival.
    (I) `Inv2` and `Topo net.known` as network invariants: `NetInv` (Proofs/SyncProgress21Net.lean)
        has `KInj` and `SessW` for every connected pair; `Inv2` for every connected pair is
        preserved by the same frame lemmas (`gen_frame`, `deliver_frame`) — third-party deliveries
        only enlarge `arrived`; `Stuck` after a local edit needs that the dependencies of known
        changes are known hashes; `Topo net.known` needs a topologically ordered start.
    (N) the window lemma.  In a round-robin round (`Net.quiesceRound (Net.pairs n)`) during which
        no document changes, the projection of the network on a connected pair (a, b), a < b, makes
        exactly `round fp` (and `(round fp ·.swap).swap` for b < a): processing another ordered
        pair leaves `st a b`, `st b a`, `link a b`, `link b a` alone (`gen_frame`,
        `deliver_frame`) and processing (a, b) is `halfRound`.  Hence 4 consecutive rounds without
        arrival make every pair quiet (`C21_pairW` + (R)), every other round lowers the measure:
        at most 4·(measure + 1) rounds; `C21_component_converged_partial` then gives equal heads.
-/
namespace AmVerif.Props.C21NetProgress
open AmVerif AmVerif.Sync AmVerif.Sync.Prog

/-- **PairW**: four calm rounds (nothing arrives, no reset message) of a pair that satisfies the
    weak invariants end in a quiescent pair — for every false-positive oracle. -/
theorem C21_pairW (fp : Hash → Bool) {K : List Change} {c : Cfg} (w : WP K c)
    (calm : ∀ k, k < 4 → Calm fp (rounds fp k c))
    (nr : ∀ k, k ≤ 4 → resetCond (rounds fp k c).docA (rounds fp k c).stA = false) :
    Quiescent fp (rounds fp 4 c) :=
  pairW fp w calm nr

/-- the same as a trichotomy: within four undisturbed rounds of the pair the pair goes quiet, or a
    reset message is due (at a round boundary for A, in mid-round for B), or a document changes,
    i.e. a change arrives (first half: at B; whole round: at A) -/
theorem C21_pairW_trichotomy (fp : Hash → Bool) {K : List Change} {c : Cfg} (w : WP K c) :
    Quiescent fp (rounds fp 4 c) ∨
    (∃ k, k ≤ 4 ∧ resetCond (rounds fp k c).docA (rounds fp k c).stA = true) ∨
    (∃ k, k < 4 ∧ resetCond (halfRound fp (rounds fp k c)).docB (halfRound fp (rounds fp k c)).stB = true) ∨
    (∃ k, k < 4 ∧ ((halfRound fp (rounds fp k c)).docB ≠ (rounds fp k c).docB ∨
                   (round fp (rounds fp k c)).docA ≠ (rounds fp k c).docA)) := by
  by_cases h1 : ∃ k, k ≤ 4 ∧ resetCond (rounds fp k c).docA (rounds fp k c).stA = true
  · exact Or.inr (Or.inl h1)
  by_cases h2 : ∃ k, k < 4 ∧
      resetCond (halfRound fp (rounds fp k c)).docB (halfRound fp (rounds fp k c)).stB = true
  · exact Or.inr (Or.inr (Or.inl h2))
  by_cases h3 : ∃ k, k < 4 ∧ ((halfRound fp (rounds fp k c)).docB ≠ (rounds fp k c).docB ∨
                   (round fp (rounds fp k c)).docA ≠ (rounds fp k c).docA)
  · exact Or.inr (Or.inr (Or.inr h3))
  left
  have nr : ∀ k, k ≤ 4 → resetCond (rounds fp k c).docA (rounds fp k c).stA = false := by
    intro k hk
    cases hr : resetCond (rounds fp k c).docA (rounds fp k c).stA with
    | false => rfl
    | true => exact absurd ⟨k, hk, hr⟩ h1
  refine pairW fp w (fun k hk => ⟨nr k (by omega), ?_, ?_, ?_⟩) nr
  · cases hr : resetCond (halfRound fp (rounds fp k c)).docB (halfRound fp (rounds fp k c)).stB with
    | false => rfl
    | true => exact absurd ⟨k, hk, hr⟩ h2
  · apply Classical.byContradiction
    intro hne; exact h3 ⟨k, hk, Or.inl hne⟩
  · apply Classical.byContradiction
    intro hne; exact h3 ⟨k, hk, Or.inr hne⟩

/-- the bridge to the measure: a receive that brings nothing that has not already arrived (applied
    or queued) leaves a document without ready queued changes literally unchanged -/
theorem C21_no_arrival_doc_unchanged (d : Doc) (s : State) (m : Message)
    (hst : Stuck d.applied d.queue) (h : ∀ x ∈ m.changes, hasB d x.hash = true) :
    recvDoc d s m = d :=
  recvDoc_noop_stuck d s m hst h

/-- the weak invariants of a pair survive a delivery of known changes to one of its peers from a
    third peer (the step that breaks the strong C20 invariant) -/
theorem C21_weak_invariants_third_party {K : List Change} {c : Cfg} (w : WP K c) (cs : List Change)
    (hcs : ∀ x ∈ cs, x ∈ K) : WP K { c with docA := c.docA.applyChanges cs } :=
  w.extA cs hcs

/-- the weak invariants are closed under the rounds of the pair -/
theorem C21_weak_invariants_rounds (fp : Hash → Bool) {K : List Change} {c : Cfg} (w : WP K c)
    (n : Nat) : WP K (rounds fp n c) :=
  WP.rounds fp n w

/-! ### non-vacuity -/

namespace Example

def c1 : Change := ⟨[1], []⟩
def c2 : Change := ⟨[2], [[1]]⟩

/-- two peers of a network that already hold the same changes, with brand-new session states -/
def same : Cfg :=
  { docA := ⟨[c2, c1], []⟩, docB := ⟨[c2, c1], []⟩, stA := State.new, stB := State.new,
    linkAB := [], linkBA := [] }

theorem same_initial : Initial same := by
  refine ⟨⟨?_, ?_, ?_⟩, ⟨?_, ?_, ?_⟩, rfl, rfl, ?_, rfl, rfl, rfl, rfl⟩
  all_goals (simp [same, c1, c2, Topo, Doc.hashes])

theorem same_wp : WP [c2, c1] same := by
  refine ⟨by simp [Topo, c1, c2], ⟨same_initial.wfA, by simp [same], by simp [same]⟩,
    ⟨same_initial.wfB, by simp [same], by simp [same]⟩, ?_, Inv2.of_initial same_initial⟩
  exact SessW.of_new ⟨rfl, rfl, rfl, rfl, rfl⟩ ⟨rfl, rfl, rfl, rfl, rfl⟩ rfl rfl

def fpAll : Hash → Bool := fun _ => true

end Example

/-- the hypotheses of `C21_pairW` are satisfiable: the pair `same` satisfies the weak invariants,
    its first four rounds are calm even with every Bloom query forced positive (evaluated by the
    kernel), it is not quiescent at the start (nobody has announced its heads yet) — and by the
    theorem it is quiescent after four rounds -/
example : WP [Example.c2, Example.c1] Example.same ∧ ¬ Quiescent Example.fpAll Example.same ∧
    Quiescent Example.fpAll (rounds Example.fpAll 4 Example.same) := by
  refine ⟨Example.same_wp, by decide +kernel, ?_⟩
  apply C21_pairW Example.fpAll Example.same_wp
  · intro k hk
    match k, hk with
    | 0, _ => exact ⟨by decide +kernel, by decide +kernel, by decide +kernel, by decide +kernel⟩
    | 1, _ => exact ⟨by decide +kernel, by decide +kernel, by decide +kernel, by decide +kernel⟩
    | 2, _ => exact ⟨by decide +kernel, by decide +kernel, by decide +kernel, by decide +kernel⟩
    | 3, _ => exact ⟨by decide +kernel, by decide +kernel, by decide +kernel, by decide +kernel⟩
  · intro k hk
    match k, hk with
    | 0, _ => decide +kernel
    | 1, _ => decide +kernel
    | 2, _ => decide +kernel
    | 3, _ => decide +kernel
    | 4, _ => decide +kernel

end AmVerif.Props.C21NetProgress
