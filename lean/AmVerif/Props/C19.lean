import AmVerif.Proofs.Ids
import AmVerif.Proofs.IdsMsg
/-
  C19 — "Identifiers and sync state serialize losslessly and resolve correctly: Object ids, cursors,
  actor ids, change hashes, sync states and sync messages decode back to equal values from their
  byte or string encodings. A decoded object id or cursor refers to the same object or element in
  any replica that contains it, even when that replica numbers actors differently."

  Property theorems only; helpers in Proofs/Ids.lean and Proofs/IdsMsg.lean.
  Models: Model/Ids.lean (exid.rs, cursor.rs, types.rs, automerge.rs import/resolution, after the
  fixes D1/D7/D8) and Model/IdsMsg.lean (sync/state.rs, sync.rs byte codec).
  Value domains are those of the Rust types: counters and actor-index hints are `u64`/`usize`
  (< 2^64), a byte vector is shorter than 2^64, a `ChangeHash` has exactly 32 bytes.
-/
namespace AmVerif.Props.C19
open AmVerif AmVerif.Leb AmVerif.Ids AmVerif.IdsMsg

/-- the values an `ExId` can hold -/
def ExIdValid : ExId → Prop
  | .root => True
  | .id ctr actor idx => ctr < 2 ^ 64 ∧ idx < 2 ^ 64 ∧ actor.length < 2 ^ 64

/-- the values a `Cursor` can hold -/
def CursorValid : Cursor → Prop
  | .op ctr actor _ => ctr < 2 ^ 64 ∧ actor.length < 2 ^ 64
  | _ => True

/-! ## "Object ids … decode back to equal values from their byte … encodings" -/

/-- `ExId::try_from(id.to_bytes())` gives `id` back — counter, actor bytes AND the actor-index hint —
    for every object id, also when other bytes follow. -/
theorem exid_bytes_roundtrip (e : ExId) (h : ExIdValid e) (trailing : Bytes) :
    exidFromBytes (exidToBytes e ++ trailing) = .ok e := by
  cases e with
  | root =>
    simp only [exidToBytes, List.cons_append, List.nil_append]
    unfold exidFromBytes
    simp
  | id ctr actor idx => exact exidFromBytes_toBytes_id ctr idx actor trailing h.1 h.2.1 h.2.2

example : ExIdValid (.id 18446744073709551615 [0xab, 0x00] 7) ∧
    exidFromBytes (exidToBytes (.id 18446744073709551615 [0xab, 0x00] 7) ++ [])
      = .ok (.id 18446744073709551615 [0xab, 0x00] 7) := by
  refine ⟨by simp [ExIdValid], ?_⟩
  exact exid_bytes_roundtrip (.id 18446744073709551615 [0xab, 0x00] 7) (by simp [ExIdValid]) []

/-- the decoder alone on concrete bytes: tag 0x10, actor `ab00`, hint 7, counter 300 -/
example : exidFromBytes [0x10, 2, 0xab, 0x00, 7, 0xac, 0x02] = .ok (.id 300 [0xab, 0x00] 7) := by
  decide

/-- "… or string encodings": `import_obj(id.to_string())` in a document whose actor table contains
    the id's actor gives back the same counter and actor bytes, with the hint set to an index that
    holds this actor in THIS document. -/
theorem exid_string_roundtrip (actors : List Actor) (ctr : Nat) (actor : Actor) (idx : Nat)
    (hc : ctr < 2 ^ 64) (ha : actor ∈ actors) :
    ∃ idx', importObj actors (exidToStr (.id ctr actor idx)) = .ok (.id ctr actor idx') ∧
      actors[idx']? = some actor := by
  obtain ⟨i, hi⟩ := lookupActor_of_mem actors actor ha
  have hget := lookupActor_some actors actor i hi
  refine ⟨i, ?_, hget⟩
  unfold importObj exidToStr
  have hne : decEncode ctr ++ 64 :: hexEncode actor ≠ rootStr := by
    intro h
    cases hd : decEncode ctr with
    | nil => exact decEncode_ne_nil ctr hd
    | cons a r =>
      rw [hd] at h
      simp only [rootStr, List.cons_append, List.cons.injEq] at h
      have := decEncode_digits ctr a (by rw [hd]; simp)
      rw [h.1] at this
      simp at this
  simp only [List.append_assoc, List.singleton_append]
  rw [if_neg hne, findAt_append _ _ (decEncode_no_at ctr)]
  simp only [List.take_left', parseU64_decEncode ctr hc]
  have : List.drop ((decEncode ctr).length + 1) (decEncode ctr ++ 64 :: hexEncode actor)
      = hexEncode actor := by
    rw [show decEncode ctr ++ 64 :: hexEncode actor = (decEncode ctr ++ [64]) ++ hexEncode actor by simp]
    rw [List.drop_left' (by simp)]
  rw [this, hexDecode_hexEncode]
  simp only [hi, hget]

theorem root_string_roundtrip (actors : List Actor) : importObj actors (exidToStr .root) = .ok .root := by
  simp [importObj, exidToStr, rootStr]

/-- "5@ab00" in a document whose table holds `ab00` at index 1 -/
example : importObj [[0x10], [0xab, 0x00]] [53, 64, 97, 98, 48, 48] = .ok (.id 5 [0xab, 0x00] 1) := by
  decide

/-! ## "… cursors …" -/

/-- `Cursor::try_from(c.to_bytes())` gives `c` back for every cursor (start, end, and op cursors
    with either move mode, any `u64` counter, any actor bytes). -/
theorem cursor_bytes_roundtrip (c : Cursor) (h : CursorValid c) (trailing : Bytes) :
    cursorFromBytes (cursorToBytes c ++ trailing) = .ok c := by
  cases c with
  | start => simp [cursorToBytes, cursorFromBytes]
  | «end» => simp [cursorToBytes, cursorFromBytes]
  | op ctr actor mv => exact cursorFromBytes_toBytes_op ctr actor mv trailing h.1 h.2

/-- `Cursor::try_from(c.to_string())` gives `c` back: for EVERY actor (any byte string, also the
    empty one — its hex is the empty string) and EVERY counter below 2^64, with and without the `-`
    prefix of `MoveCursor::Before`, and for the `s` / `e` cursors. -/
theorem cursor_string_roundtrip (c : Cursor) (h : CursorValid c) :
    cursorFromStr (cursorToStr c) = .ok c := by
  cases c with
  | start => simp [cursorToStr, cursorFromStr]
  | «end» => simp [cursorToStr, cursorFromStr]
  | op ctr actor mv => exact cursorFromStr_toStr_op ctr actor mv h.1

example : cursorToStr (.op 42 [0x0a, 0xff] .before) = [45, 52, 50, 64, 48, 97, 102, 102] ∧   -- "-42@0aff"
    cursorFromStr [45, 52, 50, 64, 48, 97, 102, 102] = .ok (.op 42 [0x0a, 0xff] .before) := by
  refine ⟨?_, by decide⟩
  simp [cursorToStr, decEncode, hexEncode, hexDigitB]

/-- The string form is NOT canonical in the other direction: `from_str` also accepts a leading `+`,
    leading zeros and upper-case hex, which `Display` never writes ("+007@AB" reads as 7@ab). -/
theorem cursor_string_not_canonical :
    ∃ s c, cursorFromStr s = .ok c ∧ cursorToStr c ≠ s := by
  refine ⟨[43, 48, 48, 55, 64, 65, 66], .op 7 [0xab] .after, by decide, ?_⟩
  simp [cursorToStr, decEncode, hexEncode, hexDigitB]

/-! ## "… actor ids, change hashes …" -/

/-- `ActorId::try_from(a.to_string())` gives `a` back for every actor id. -/
theorem actor_hex_roundtrip (a : Actor) : actorFromHex (actorToHex a) = .ok a := by
  simp [actorFromHex, actorToHex, hexDecode_hexEncode]

/-- `h.to_string().parse::<ChangeHash>()` gives `h` back for every change hash (32 bytes). -/
theorem hash_hex_roundtrip (h : Hash) (hl : h.length = 32) : hashFromHex (hashToHex h) = .ok h := by
  simp [hashFromHex, hashToHex, hexDecode_hexEncode, hl, Consts.HASH_SIZE]

/-- `ChangeHash::try_from(h.as_ref())` gives `h` back. -/
theorem hash_bytes_roundtrip (h : Hash) (hl : h.length = 32) : hashFromBytes h = .ok h := by
  simp [hashFromBytes, hl, Consts.HASH_SIZE]

example : hashFromHex (hashToHex (List.replicate 32 0xa5)) = .ok (List.replicate 32 0xa5) :=
  hash_hex_roundtrip _ (by simp)

/-! ## "… sync states …" -/

/-- `State::decode(s.encode())`: ONLY `shared_heads` persists. Whatever the other eleven fields of
    `s` were, the decoded state has `last_sent_heads = []`, `their_heads = None`,
    `their_need = None`, `their_have = Some([])`, `sent_hashes = {}`, `in_flight = false`,
    `have_responded = false`, `their_capabilities = None`, `read_only = false`,
    `peer_read_only = false`, `needs_reset = false`.  (With debug assertions, `encode` requires
    `shared_heads` sorted — see `state_encode_unsorted_debug_panics`.) -/
theorem state_roundtrip (dbg : Bool) (s : State) (hw : HashesWF dbg s.sharedHeads) :
    ∃ b d, stateEncode dbg s = .ok b ∧ stateDecode b = .ok d ∧
      d.sharedHeads = s.sharedHeads ∧ d.lastSentHeads = [] ∧ d.theirHeads = none ∧
      d.theirNeed = none ∧ d.theirHave = some [] ∧ d.sentHashes = [] ∧ d.inFlight = false ∧
      d.haveResponded = false ∧ d.theirCapabilities = none ∧ d.readOnly = false ∧
      d.peerReadOnly = false ∧ d.needsReset = false := by
  refine ⟨SYNC_STATE_TYPE :: encodeMany id s.sharedHeads, State.fresh s.sharedHeads, ?_, ?_, ?_⟩
  · unfold stateEncode
    rw [encodeHashes_ok dbg _ hw]
  · unfold stateDecode
    simp only [ne_eq, not_true_eq_false, if_false]
    have := parseHashes_encode s.sharedHeads [] hw.1 hw.2.1
    simp only [List.append_nil] at this
    rw [this]
  · simp [State.fresh]

/-- hence the round trip is the identity exactly on the states that are already "fresh" -/
theorem state_roundtrip_identity_iff (dbg : Bool) (s : State) (hw : HashesWF dbg s.sharedHeads) :
    (∃ b, stateEncode dbg s = .ok b ∧ stateDecode b = .ok s) ↔ s = State.fresh s.sharedHeads := by
  have hdec : stateDecode (SYNC_STATE_TYPE :: encodeMany id s.sharedHeads)
      = .ok (State.fresh s.sharedHeads) := by
    unfold stateDecode
    simp only [ne_eq, not_true_eq_false, if_false]
    have := parseHashes_encode s.sharedHeads [] hw.1 hw.2.1
    simp only [List.append_nil] at this
    rw [this]
  have henc : stateEncode dbg s = .ok (SYNC_STATE_TYPE :: encodeMany id s.sharedHeads) := by
    unfold stateEncode
    rw [encodeHashes_ok dbg _ hw]
  constructor
  · rintro ⟨b, hb, hd⟩
    rw [henc] at hb
    cases hb
    rw [hdec] at hd
    injection hd with heq
    exact heq.symm
  · intro h
    exact ⟨_, henc, by rw [hdec, ← h]⟩

/-- In a build with debug assertions `State::encode` on unsorted `shared_heads` (a public field)
    hits `debug_assert!("hashes were not sorted")`; without them it encodes and round-trips. -/
theorem state_encode_unsorted_debug_panics :
    ∃ s : State, stateEncode true s = .panic .assertFailed ∧ (∃ b, stateEncode false s = .ok b) := by
  refine ⟨State.fresh [List.replicate 32 2, List.replicate 32 1], by decide, ⟨_, rfl⟩⟩

example : HashesWF true [List.replicate 32 1, List.replicate 32 2] := by
  refine ⟨by simp, ?_, fun _ => by decide⟩
  intro h hh
  simp only [List.mem_cons, List.mem_nil_iff, or_false] at hh
  rcases hh with rfl | rfl <;> simp

/-! ## "… and sync messages" -/

/-- the messages whose wire form is faithful: hash lists of 32-byte hashes (sorted when the build
    has debug assertions — `generate_sync_message` always sorts), well-formed Bloom filters
    (`BloomWF`: what `from_hashes` and `parse` produce), and a flags byte below 0x80. -/
def MessageWF (dbg : Bool) (m : Message) : Prop :=
  HashesWF dbg m.heads ∧ HashesWF dbg m.need ∧
  m.have_.length < 2 ^ 64 ∧ (∀ h ∈ m.have_, HaveWF dbg h) ∧
  m.changes.length < 2 ^ 64 ∧ (∀ c ∈ m.changes, c.length < 2 ^ 64) ∧
  (∀ f, m.flags = some f → f.toNat < 128)

/-- `Message::decode(m.encode())` gives `m` back — heads, need, every `have` (last_sync and the
    Bloom filter field by field), every change chunk byte for byte, the flags (or their absence) and
    the version byte — for every well-formed message of either version. -/
theorem message_codec_roundtrip (dbg : Bool) (m : Message) (hw : MessageWF dbg m) :
    ∃ b, messageEncode dbg m = .ok b ∧ messageDecode b = .ok m := by
  obtain ⟨hheads, hneed, hhl, hhave, hcl, hch, hfl⟩ := hw
  refine ⟨messageBytes m, messageEncode_ok dbg m hheads hneed hhave, ?_⟩
  · unfold messageDecode messageBytes
    have hver : (if m.version.encode = MESSAGE_TYPE_SYNC then some Version.v1
        else if m.version.encode = MESSAGE_TYPE_SYNC_V2 then some Version.v2 else none)
        = some m.version := by
      cases m.version <;> decide
    simp only [hver, List.append_assoc]
    rw [parseHashes_encode _ _ hheads.1 hheads.2.1]
    simp only
    rw [parseHashes_encode _ _ hneed.1 hneed.2.1]
    simp only
    have hh := lengthPrefixed_encodeMany parseHave haveBytes m.have_
      (encodeMany chunkEncode m.changes ++ flagsSection m.flags) hhl
      (fun x hx r => parseHave_haveBytes dbg x r (hhave x hx))
    unfold encodeMany at hh
    simp only [List.append_assoc] at hh
    unfold encodeMany
    simp only [List.append_assoc]
    rw [hh]
    simp only
    have hc := lengthPrefixed_encodeMany lengthPrefixedBytes chunkEncode m.changes
      (flagsSection m.flags) hcl
      (fun x hx r => lengthPrefixedBytes_chunk x r (hch x hx))
    unfold encodeMany at hc
    simp only [List.append_assoc] at hc
    rw [hc]
    simp only
    cases hf : m.flags with
    | none =>
      simp only [flagsSection, List.isEmpty_nil, if_true]
      cases m
      simp_all
    | some f =>
      have hne : (flagsEncode f).isEmpty = false := by simp [flagsEncode]
      simp only [flagsSection, hne, Bool.false_eq_true, if_false, lengthPrefixedBytes_flags,
        flags_roundtrip f (hfl f hf)]
      cases m
      simp_all

/-- non-vacuity: a V2 message with sorted heads, a `have` holding a 2-entry Bloom filter with the
    right number of bit bytes, two change chunks (one empty) and flags `SUPPORTS_SYNC_RESET` -/
example : MessageWF true
    ⟨[List.replicate 32 1, List.replicate 32 2], [],
     [⟨[List.replicate 32 9], ⟨2, 10, 7, [0xff, 0x01, 0x80]⟩⟩], [[1, 2, 3], []], some 4, .v2⟩ := by
  refine ⟨⟨by simp, ?_, fun _ => by decide⟩, ⟨by simp, by simp, fun _ => by decide⟩, by simp, ?_,
    by simp, ?_, ?_⟩
  · intro h hh
    simp only [List.mem_cons, List.mem_nil_iff, or_false] at hh
    rcases hh with rfl | rfl <;> simp
  · intro h hh
    simp only [List.mem_singleton] at hh
    subst hh
    refine ⟨⟨by simp, by simp, fun _ => by decide⟩, ⟨by simp, fun _ => by decide⟩, ?_⟩
    simp [Bloom.toBytes, ulebEncode_lt]
  · intro c hc
    simp only [List.mem_cons, List.mem_nil_iff, or_false] at hc
    rcases hc with rfl | rfl <;> simp
  · intro f hf
    simp only [Option.some.injEq] at hf
    subst hf
    decide

/-- `MessageFlags::set` accepts any `u8`, but bit 7 is the wire marker of the bitfield byte: a
    message whose flags have bit 7 set does NOT round-trip (the bit is dropped). -/
theorem message_flags_high_bit_lost :
    ∃ m b, messageEncode true m = .ok b ∧ ∃ m', messageDecode b = .ok m' ∧ m' ≠ m := by
  refine ⟨⟨[], [], [], [], some 0x81, .v1⟩, [0x42, 0, 0, 0, 0, 2, 0x02, 0x81], ?_,
    ⟨[], [], [], [], some 0x01, .v1⟩, by decide, by decide⟩
  simp [messageEncode, encodeHashes, sortedHashes, havesEncode, encodeMany, flagsSection,
    flagsEncode, ulebEncode_lt, Version.encode, MESSAGE_TYPE_SYNC]
  decide

/-! ## "A decoded object id or cursor refers to the same object or element in any replica that
       contains it, even when that replica numbers actors differently." -/

/-- Soundness of resolution: whatever the actor table and whatever the actor-index hint carried by
    the id, a successful `exid_to_opid` yields an internal op id that denotes exactly
    (counter, actor BYTES) of the id in that table. -/
theorem exidToOpid_sound (T : List Actor) (ctr : Nat) (a : Actor) (hint : Nat) (o : OpId)
    (h : exidToOpid T (.id ctr a hint) = .ok o) : denote T o = some (ctr, a) := by
  have tryNew : ∀ {c i : Nat} {o' : OpId}, opIdTryNew c i = some o' → o' = ⟨c, i⟩ := by
    intro c i o' ht
    unfold opIdTryNew at ht
    split at ht
    · simp only [Option.some.injEq] at ht; exact ht.symm
    · simp at ht
  unfold exidToOpid at h
  simp only at h
  by_cases hh : T[hint]? = some a
  · rw [if_pos hh] at h
    cases ht : opIdTryNew ctr hint with
    | none => rw [ht] at h; simp at h
    | some o' =>
      rw [ht] at h
      simp only [Outcome.ok.injEq] at h
      subst h
      rw [tryNew ht]
      simp [denote, hh]
  · rw [if_neg hh] at h
    cases hl : lookupActor T a with
    | none => rw [hl] at h; simp at h
    | some b =>
      rw [hl] at h
      simp only at h
      cases ht : opIdTryNew ctr b with
      | none => rw [ht] at h; simp at h
      | some o' =>
        rw [ht] at h
        simp only [Outcome.ok.injEq] at h
        subst h
        rw [tryNew ht]
        simp [denote, lookupActor_some T a b hl]

/-- The op `(ctr, a)` of a document is named by the id `Id(ctr, a, hint)`; serialise it on ANY
    replica (so with ANY hint — the producer's actor index, which may point at another actor or
    outside this table) and decode it: in every replica whose actor table `T` contains `a`, it
    resolves, and to the internal id of `(ctr, a)` in THAT table's numbering. -/
theorem exid_resolves_across_tables (T : List Actor) (ctr : Nat) (a : Actor) (hint : Nat)
    (hc : ctr < 2 ^ 32) (hT : T.length ≤ 2 ^ 32) (ha : a ∈ T)
    (hh : hint < 2 ^ 64) (hal : a.length < 2 ^ 64) :
    ∃ e o, exidFromBytes (exidToBytes (.id ctr a hint)) = .ok e ∧
      exidToOpid T e = .ok o ∧ denote T o = some (ctr, a) := by
  have hrt := exid_bytes_roundtrip (.id ctr a hint) ⟨by omega, hh, hal⟩ []
  simp only [List.append_nil] at hrt
  have hres : ∃ o, exidToOpid T (.id ctr a hint) = .ok o := by
    unfold exidToOpid
    by_cases hh2 : T[hint]? = some a
    · have hlt : hint < T.length := (List.getElem?_eq_some_iff.mp hh2).1
      simp only [hh2, if_true, opIdTryNew, show ctr < 2 ^ 32 ∧ hint < 2 ^ 32 by omega]
      exact ⟨_, rfl⟩
    · obtain ⟨b, hb⟩ := lookupActor_of_mem T a ha
      have hlt := lookupActor_lt T a b hb
      simp only [hh2, if_false, hb, opIdTryNew, show ctr < 2 ^ 32 ∧ b < 2 ^ 32 by omega, if_true]
      exact ⟨_, rfl⟩
  obtain ⟨o, ho⟩ := hres
  exact ⟨_, o, hrt, ho, exidToOpid_sound T ctr a hint o ho⟩

/-- "the actor-index hint [is] ignored when it does not match" — and when it does match it names the
    same index the search finds: on the duplicate-free actor table of a document, resolution does not
    depend on the hint at all. -/
theorem exid_hint_irrelevant (T : List Actor) (hnd : T.Nodup) (ctr : Nat) (a : Actor)
    (hint₁ hint₂ : Nat) : exidToOpid T (.id ctr a hint₁) = exidToOpid T (.id ctr a hint₂) := by
  rw [exidToOpid_eq_lookup T hnd, exidToOpid_eq_lookup T hnd]

example : exidToOpid [[0x10], [0x20], [0xab, 0x00]] (.id 5 [0x20] 1)
    = exidToOpid [[0x10], [0x20], [0xab, 0x00]] (.id 5 [0x20] 77) ∧
    exidToOpid [[0x10], [0x20], [0xab, 0x00]] (.id 5 [0x20] 77) = .ok ⟨5, 1⟩ := by decide

/-- consequence for two replicas: the same bytes name the same (counter, actor) in both, although
    the internal actor indexes may differ -/
theorem exid_same_op_in_two_replicas (T₁ T₂ : List Actor) (ctr : Nat) (a : Actor) (hint : Nat)
    (o₁ o₂ : OpId) (h₁ : exidToOpid T₁ (.id ctr a hint) = .ok o₁)
    (h₂ : exidToOpid T₂ (.id ctr a hint) = .ok o₂) : denote T₁ o₁ = denote T₂ o₂ := by
  rw [exidToOpid_sound T₁ ctr a hint o₁ h₁, exidToOpid_sound T₂ ctr a hint o₂ h₂]

/-- and a replica that does not contain the actor rejects the id instead of naming another op -/
theorem exid_unknown_actor_rejected (T : List Actor) (ctr : Nat) (a : Actor) (hint : Nat)
    (ha : a ∉ T) : exidToOpid T (.id ctr a hint) = .err .objId := by
  unfold exidToOpid
  have h1 : T[hint]? ≠ some a := by
    intro h
    exact ha (List.mem_of_getElem? h)
  have h2 : lookupActor T a = none := by
    cases hl : lookupActor T a with
    | none => rfl
    | some b => exact absurd (List.mem_of_getElem? (lookupActor_some T a b hl)) ha
  simp [h1, h2]

/-- non-vacuity: actor `ab00` has index 0 on the producer `[ab00, fe]` and index 2 on the replica
    `[10, 20, ab00]`; the hint 0 points at another actor there and is ignored. -/
example :
    (match exidFromBytes [0x10, 2, 0xab, 0x00, 0, 5] with      -- = `to_bytes` of `Id(5, ab00, 0)`
     | .ok e => exidToOpid [[0x10], [0x20], [0xab, 0x00]] e
     | _ => .err .objId) = .ok ⟨5, 2⟩ ∧
    denote [[0x10], [0x20], [0xab, 0x00]] ⟨5, 2⟩ = denote [[0xab, 0x00], [0xfe]] ⟨5, 0⟩ := by
  decide

/-- Cursors (bytes and string form): a successful `op_cursor_to_opid` denotes (counter, actor BYTES)
    of the cursor in the resolving replica's table. -/
theorem opCursorToOpid_sound (T : List Actor) (ctr : Nat) (a : Actor) (o : OpId)
    (h : opCursorToOpid T ctr a = .ok o) : denote T o = some (ctr, a) := by
  unfold opCursorToOpid at h
  cases hl : lookupActor T a with
  | none => rw [hl] at h; simp at h
  | some b =>
    rw [hl] at h
    simp only [Option.bind_some] at h
    cases ht : opIdTryNew ctr b with
    | none => rw [ht] at h; simp at h
    | some o' =>
      rw [ht] at h
      simp only [Outcome.ok.injEq] at h
      subst h
      unfold opIdTryNew at ht
      split at ht
      · simp only [Option.some.injEq] at ht
        subst ht
        simp [denote, lookupActor_some T a b hl]
      · simp at ht

/-- A cursor for the element `(ctr, a)`, serialised to bytes or to its string on any replica and
    decoded, resolves in every replica that contains actor `a` to the internal id of `(ctr, a)`
    there. -/
theorem cursor_resolves_across_tables (T : List Actor) (ctr : Nat) (a : Actor) (mv : Move)
    (hc : ctr < 2 ^ 32) (hT : T.length ≤ 2 ^ 32) (ha : a ∈ T) (hal : a.length < 2 ^ 64) :
    cursorFromBytes (cursorToBytes (.op ctr a mv)) = .ok (.op ctr a mv) ∧
    cursorFromStr (cursorToStr (.op ctr a mv)) = .ok (.op ctr a mv) ∧
    ∃ o, opCursorToOpid T ctr a = .ok o ∧ denote T o = some (ctr, a) := by
  have hb := cursor_bytes_roundtrip (.op ctr a mv) ⟨by omega, hal⟩ []
  simp only [List.append_nil] at hb
  refine ⟨hb, cursor_string_roundtrip (.op ctr a mv) ⟨by omega, hal⟩, ?_⟩
  obtain ⟨b, hbb⟩ := lookupActor_of_mem T a ha
  have hlt := lookupActor_lt T a b hbb
  have hres : opCursorToOpid T ctr a = .ok ⟨ctr, b⟩ := by
    unfold opCursorToOpid
    simp [hbb, opIdTryNew, show ctr < 2 ^ 32 ∧ b < 2 ^ 32 by omega]
  exact ⟨_, hres, opCursorToOpid_sound T ctr a _ hres⟩

theorem cursor_unknown_actor_rejected (T : List Actor) (ctr : Nat) (a : Actor) (ha : a ∉ T) :
    opCursorToOpid T ctr a = .err .invalidCursor := by
  have h2 : lookupActor T a = none := by
    cases hl : lookupActor T a with
    | none => rfl
    | some b => exact absurd (List.mem_of_getElem? (lookupActor_some T a b hl)) ha
  simp [opCursorToOpid, h2]

example : opCursorToOpid [[0x10], [0x20], [0xab, 0x00]] 6 [0xab, 0x00] = .ok ⟨6, 2⟩ := by decide

end AmVerif.Props.C19
