import AmVerif.Proofs.Serde
/-
  C32 — Serde export is a faithful image of the current state.
  Property theorems only; helper lemmas are in `AmVerif.Proofs.Serde`.
  Model: `AmVerif.Model.Serde` (`autoserde.rs` call by call, after fix D10).

  Reading guide.  `Val` is the document state INCLUDING losers of conflicts and deleted
  registers; `Val.image` is what the statement calls "the current state as nested maps, sequences,
  strings and scalars: winners only, text as strings"; `Val.serialize` is the sequence of
  `serde::Serializer` calls `AutoSerde` makes; `decodeEvents` is a consumer that rebuilds a tree
  from such calls and refuses any container whose announced `len` is not its real length;
  `lengthsTrue` is the length discipline alone.  `exportJson v = v.image.toJson` is by definition
  what serde_json's value serializer makes of that call sequence.
-/
namespace AmVerif.Props.C32
open AmVerif

/-- `serialize_image`: the call sequence of `AutoSerde` decodes — under a decoder that enforces
    announced lengths — to exactly the winners-only image of the document: no loser of a conflict,
    no deleted key or element, text objects as strings, and nothing else missing or added. -/
theorem C32_serialize_image (v : Val) : decodeEvents v.serialize = some v.image := by
  unfold decodeEvents
  rw [run_val v (.running []) (.done v.image) rfl]

/-- `announced_len_true`: every `serialize_map(Some n)` / `serialize_seq(Some n)` in the call
    sequence is followed by exactly `n` entries / elements before its matching `end` (and the
    sequence is one complete well-bracketed value), for every document — nested maps, conflicts
    and deleted keys included.  (False before fix D10: see the last `example`.) -/
theorem C32_announced_len_true (v : Val) : lengthsTrue v.serialize = true :=
  lengthsTrue_of_decode (C32_serialize_image v)

/-- the announced length of a map is the number of entries of its exported image -/
theorem C32_map_len_is_image_len (es : List (String × Reg)) :
    ∃ rest, (Val.map es).serialize = Ev.mapStart (some (Val.imageEntries es).length) :: rest := by
  refine ⟨Val.serializeEntries es ++ [Ev.mapEnd], ?_⟩
  simp [Val.serialize, mapLength_eq]

/-- winners only: the losing values of a conflicted register have no influence on the export -/
theorem C32_losers_invisible_map (k : String) (w : Val) (ls ls' : List Val) (es : List (String × Reg)) :
    (Val.map ((k, .live w ls) :: es)).serialize = (Val.map ((k, .live w ls') :: es)).serialize := by
  simp [Val.serialize, Val.serializeEntries, mapLength, List.filter, Reg.isLive]

theorem C32_losers_invisible_list (w : Val) (ls ls' : List Val) (rs : List Reg) :
    (Val.list (.live w ls :: rs)).serialize = (Val.list (.live w ls' :: rs)).serialize := by
  simp [Val.serialize, Val.serializeRegs]

/-- the JSON export is a well-formed `serde_json::Value` (object keys strictly increasing, every
    number in its canonical class, non-finite floats exported as `null`) for every document whose
    integers fit their Rust types -/
theorem C32_export_json_wellformed (v : Val) (hr : v.InRange) : (exportJson v).WF :=
  export_WF v hr

/-- a document exercising every case: root with 3 visible keys + 1 deleted key; a nested map of a
    different size (1 visible + 1 deleted) that is the WINNER of a conflict whose loser is a
    scalar; a list with a conflicted element, a deleted element, a text object and bytes; a counter. -/
def sampleDoc : Val :=
  .map [
    ("a", .live (.map [("x", .live (.scalar (.int 1)) []), ("y", .dead)]) [.scalar (.str "loser")]),
    ("b", .live (.list [.live (.text "héllo") [.scalar .null, .scalar (.uint 7)], .dead,
                        .live (.scalar (.bytes [1, 255])) []]) []),
    ("c", .live (.scalar (.counter 10 (-3))) []),
    ("d", .dead)]

/-- non-vacuity: the sample document's call sequence, its decoding and its length check,
    evaluated by the kernel -/
example : sampleDoc.serialize =
    [.mapStart (some 3),
       .key "a", .mapStart (some 1), .key "x", .i64 1, .mapEnd,
       .key "b", .seqStart none, .str "héllo", .seqStart (some 2), .u8 1, .u8 255, .seqEnd, .seqEnd,
       .key "c", .i64 7,
     .mapEnd] := by
  decide

example : decodeEvents sampleDoc.serialize =
    some (.map [("a", .map [("x", .i64 1)]),
                ("b", .seq [.str "héllo", .seq [.u8 1, .u8 255]]),
                ("c", .i64 7)]) := by
  rfl

example : lengthsTrue sampleDoc.serialize = true := by decide

example : exportJson sampleDoc =
    .obj [("a", .obj [("x", .num (.int 1))]),
          ("b", .arr [.str "héllo", .arr [.num (.int 1), .num (.int 255)]]),
          ("c", .num (.int 7))] := by
  rfl

example : sampleDoc.InRange := by
  simp only [sampleDoc, Val.InRange, Val.InRangeEntries, Val.InRangeRegs, Scalar.InRange,
    I64_MIN, I64_MAX]
  decide

/-- the checker is not vacuous: the pre-fix behaviour (D10: every nested map announces the ROOT's
    length, here 3) is rejected on the same document, by both the length discipline and the
    decoder; and a stream that announces too FEW entries is rejected as well. -/
example : lengthsTrue (sampleDoc.serializeWith (fun _ => 3)) = false := by decide

example : decodeEvents (sampleDoc.serializeWith (fun _ => 3)) = none := by rfl

example : lengthsTrue [.mapStart (some 0), .key "k", .unit, .mapEnd] = false := by decide

end AmVerif.Props.C32
