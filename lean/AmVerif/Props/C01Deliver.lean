import AmVerif.Proofs.Graph
/-
  C01 (delivery half) — "This holds however the changes arrived: in any order, duplicated, batched
  or one at a time".
  Property theorems only; helper lemmas are in `AmVerif.Proofs.Graph`.
  Model: `AmVerif.Model.Graph`.  A delivery schedule is a list of `apply_changes` calls, each
  offering any list of changes of a finite universe `cs` (`deliverAll` runs them from the empty
  document).  `WF cs`: distinct hashes, distinct (actor, seq), closed under dependencies, each
  actor's change n > 1 depends on its change n − 1 (`transaction_args`), and the dependency
  relation is acyclic — a hypothesis here because model hashes are opaque byte strings; for real
  changes it follows from SHA-256 preimage resistance.
  The other half of C01 (the visible document is a function of the operation multiset) is
  `showDoc_perm` in `AmVerif.Proofs.Spec`; `C01_deliver_any_order` delivers its premise,
  `(deliverAll σ).ops.Perm (deliverAll τ).ops`.
-/
namespace AmVerif.Props.C01Deliver
open AmVerif AmVerif.Crdt

/-- C01 (delivery): no call of any schedule over a well-formed universe fails — in particular
    re-delivered ("duplicated") changes are accepted. -/
theorem C01_deliver_no_error {cs : List Change} (wf : WF cs) {σ σ₁ σ₂ : List (List Change)}
    {call : List Change} (hσ : ∀ call ∈ σ, ∀ c ∈ call, c ∈ cs) (hsplit : σ = σ₁ ++ call :: σ₂) :
    (applyBatch (deliverAll σ₁) call).2 = .ok () :=
  deliver_no_error wf hσ hsplit

/-- C01 (delivery), "duplicated": offering changes that are already known changes nothing. -/
theorem C01_redelivery_noop {d : Doc} (hr : Reachable d) {cs : List Change}
    (hk : ∀ c ∈ cs, c.hash ∈ hashes (d.applied ++ d.queue)) : applyBatch d cs = (d, .ok ()) :=
  applyBatch_known hr.inv hk

/-- C01 (delivery): every schedule that offers each change of the universe at least once — in any
    order, any batching, with any repetitions — ends with exactly the universe applied and nothing
    held. -/
theorem C01_deliver_complete {cs : List Change} (wf : WF cs) {σ : List (List Change)}
    (hσ : ∀ call ∈ σ, ∀ c ∈ call, c ∈ cs) (hall : ∀ c ∈ cs, ∃ call ∈ σ, c ∈ call) :
    (deliverAll σ).applied.Perm cs ∧ (deliverAll σ).queue = [] :=
  deliver_complete wf hσ hall

/-- C01 (delivery): "however the changes arrived: in any order, duplicated, batched or one at a
    time" — two complete schedules end with the same applied changes (as a multiset), nothing held,
    the same heads, and the same multiset of operations, which is all the visible state depends on
    (`Proofs/Spec.showDoc_perm`). -/
theorem C01_deliver_any_order {cs : List Change} (wf : WF cs) {σ τ : List (List Change)}
    (hσ : ∀ call ∈ σ, ∀ c ∈ call, c ∈ cs) (hσall : ∀ c ∈ cs, ∃ call ∈ σ, c ∈ call)
    (hτ : ∀ call ∈ τ, ∀ c ∈ call, c ∈ cs) (hτall : ∀ c ∈ cs, ∃ call ∈ τ, c ∈ call) :
    (deliverAll σ).applied.Perm (deliverAll τ).applied ∧
    (deliverAll σ).queue = [] ∧ (deliverAll τ).queue = [] ∧
    (deliverAll σ).heads = (deliverAll τ).heads ∧
    (deliverAll σ).ops.Perm (deliverAll τ).ops :=
  deliver_any_order wf hσ hσall hτ hτall

/-- non-vacuity: the seven-change universe of `Ex` (a diamond, a two-change tail on top of it and an
    independent root) is well-formed; one schedule delivers it one change at a time in reverse
    causal order with a duplicate, the other in two batches.  Both are complete schedules; they
    apply the changes in different orders, and end with the same heads and no held changes. -/
example :
    WF Ex.allChanges ∧
    (deliverAll [[Ex.e2], [Ex.e1], [Ex.b2], [Ex.c1], [Ex.b1], [Ex.e2], [Ex.a1], [Ex.m0]]).applied
      = [Ex.a1, Ex.c1, Ex.b1, Ex.b2, Ex.m0, Ex.e1, Ex.e2] ∧
    (deliverAll [[Ex.m0, Ex.e1, Ex.b1], [Ex.e2, Ex.b2, Ex.c1, Ex.a1, Ex.m0]]).applied
      = [Ex.m0, Ex.a1, Ex.b1, Ex.c1, Ex.b2, Ex.e1, Ex.e2] ∧
    (deliverAll [[Ex.e2], [Ex.e1], [Ex.b2], [Ex.c1], [Ex.b1], [Ex.e2], [Ex.a1], [Ex.m0]]).heads = [[6]] ∧
    (deliverAll [[Ex.m0, Ex.e1, Ex.b1], [Ex.e2, Ex.b2, Ex.c1, Ex.a1, Ex.m0]]).heads = [[6]] :=
  ⟨Ex.allChanges_wf, by decide, by decide, by decide, by decide⟩

end AmVerif.Props.C01Deliver
