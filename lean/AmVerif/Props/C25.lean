import AmVerif.Proofs.Marks
/-
  C25 — "Rich-text marks follow Peritext semantics and agree across reads: At every text position, a
  mark name's value is that of the highest-id mark of that name covering the position (a null value
  means unmarked), and marks(), get_marks(i) and spans() report this same marking. Text inserted at a
  mark boundary is covered exactly when the mark's expand setting says so. Marks converge and survive
  save/load and historical reads."

  Property theorems only; helpers in `AmVerif.Proofs.Marks`.  Model: `Model/Marks` — the
  `MarkStateMachine` (`Msm`), the item walk `items` (`TopOps::marks()`), the reads `marksOf`
  (`calculate_marks_slow`), `getMarksAt` (`get_marks_for`), `spansOf` (iter/spans.rs), the insertion
  query `insertQuery` (`InsertQuery::resolve`) and `localMark` (`TransactionInner::mark`).  The
  correspondence run compares all three reads at every index, the ops of every `mark`/`unmark`/
  `splice_text` call, under four encodings, at present and at past heads: 0 disagreements.
  The model follows the code AFTER the fixes d5de6e0cf (`mark` resolves both anchors before inserting),
  3682104bd (`get_marks` indexes by encoding units) and 8df66ac40 (mark index rewritten when an unused
  actor is removed); before them the agreement clause was false under UTF-8/UTF-16 (finding D20) and a
  failing `mark` left an op behind (D5) — the former witnesses are now positive examples.
-/
namespace AmVerif.Props.C25
open AmVerif AmVerif.Crdt

/-- C25, "the value is that of the highest-id mark of that name covering the position": after ANY
    sequence of mark begins / ends (walk up to a position: the active marks are those covering it), the
    state machine's cached value of a name is the value of the greatest-id active mark of that name,
    and no value is cached for a name without active marks — the cache equals recomputation. -/
theorem C25_msm_current_is_top (its : List Item) (n : Bytes) :
    let m := its.foldl Msm.step {}
    (m.current.lookup n = none ∧ ∀ y ∈ m.state, y.2.name ≠ n) ∨
    (∃ x ∈ m.state, x.2.name = n ∧ m.current.lookup n = some x.2.value ∧
        ∀ y ∈ m.state, y.2.name = n → y = x ∨ y.1.lt x.1 = true) := by
  intro m
  have hinv : m.Inv := Msm.foldl_inv its Msm.inv_empty
  have hsorted : m.Sorted := Msm.foldl_sorted its (by simp [Msm.Sorted])
  cases hl : lastNamed m.state n with
  | none =>
    left
    refine ⟨by rw [hinv n, hl]; rfl, ?_⟩
    intro y hy hyn
    have : m.state.reverse.find? (fun p => p.2.name == n) = none := hl
    rw [List.find?_eq_none] at this
    exact this y (List.mem_reverse.mpr hy) (by simpa using hyn)
  | some x =>
    right
    obtain ⟨hm, hn, hmax⟩ := lastNamed_max hsorted hl
    exact ⟨x, hm, hn, by rw [hinv n, hl]; rfl, hmax⟩

/-- a begin of `bold=true` (id 5) and a later begin of `bold=false` (id 7), both active: the cache says false -/
example : ((([Item.mbegin ⟨5, [1]⟩ ⟨[0x62], .bool true⟩, Item.mbegin ⟨7, [1]⟩ ⟨[0x62], .bool false⟩,
    Item.mbegin ⟨6, [2]⟩ ⟨[0x69], .int 1⟩, Item.mend ⟨7, [2]⟩] : List Item).foldl Msm.step {}).current
    = [([0x62], .bool false)]) := by decide

/-- C25, value at a position as `get_marks` reports it: for every unit index `i` inside the unit range of
    an element (`units before it ≤ i < units before it + its width`), `get_marks(i)` is the state
    machine's cache after the mark ops that precede the element in document order, without the null
    ("unmarked") entries — together with `C25_msm_current_is_top`: per name the value of the greatest-id
    begin whose end has not been passed, null meaning unmarked. -/
theorem C25_value (wf : Op → Nat) (ops : List Op) (obj : ObjId) (pre post : List Item) (e : OpId) (t : Op) (i : Nat)
    (h : items ops obj = pre ++ .elem e t :: post)
    (h1 : itemsWidth wf pre ≤ i) (h2 : i < itemsWidth wf pre + wf t) :
    getMarksAt wf ops obj i = ((pre.foldl Msm.step {}).current).withoutUnmarks ∧
    ∀ p, p ∈ getMarksAt wf ops obj i ↔ (p ∈ (pre.foldl Msm.step {}).current ∧ p.2 ≠ .null) := by
  have h0 : getMarksAt wf ops obj i = ((pre.foldl Msm.step {}).current).withoutUnmarks := by
    unfold getMarksAt; rw [h]
    exact getMarksGo_split wf pre e t post {} i 0 (by omega) (by omega)
  refine ⟨h0, ?_⟩
  intro p
  rw [h0]
  simp [MarkSet.withoutUnmarks, List.mem_filter]

/-- C25, "marks(), get_marks(i) and spans() report this same marking" — PARTIAL: proved for `get_marks`
    and `spans`: for every unit index `i` of an element, the span that receives that element's text
    carries exactly `get_marks(i)`.  Missing: the same for `marks()` (its accumulator merges ranges; the
    run compares it with the other two at every unit position instead: 0 differences after the fixes).
    SUPERSEDED by `C25_marks_agree` (+ `C25_marks_shape`, `C25_marks_maximal`) in `Props/C25Full.lean`. -/
theorem C25_marks_agree_partial (wf : Op → Nat) (W : Bytes → Nat) (ops : List Op) (obj : ObjId)
    (pre post : List Item) (e : OpId) (t : Op) (i : Nat)
    (h : items ops obj = pre ++ .elem e t :: post) (hb : t.isBlock = false)
    (h1 : itemsWidth wf pre ≤ i) (h2 : i < itemsWidth wf pre + wf t) :
    ∃ buf len, ((pre.foldl (SpanWalk.step W) {}).step W (.elem e t)).next
      = some (buf, len, getMarksAt wf ops obj i) := by
  have hs := SpanWalk.foldl_msm W pre {} (by simp [SpanWalk.Synced, MarkSet.withoutUnmarks])
  have hg : getMarksAt wf ops obj i = (pre.foldl (SpanWalk.step W) {}).marks := by
    rw [(C25_value wf ops obj pre post e t i h h1 h2).1, hs.2, hs.1]
  simp only [SpanWalk.step, hb, Bool.false_eq_true, if_false]
  rw [hg]
  exact SpanWalk.pushStr_marks W _ _

/-- text "éab" (elements 2,3,4), `mark(2, 3, bold=true)` under UTF-8 (unit 2 is "a"): begin 5 after "é", end 6 after "a" -/
def d20 : List Op :=
  [ ⟨⟨1, [0xaa]⟩, .root, .map [0x74], false, .make .text, []⟩,
    ⟨⟨2, [0xaa]⟩, .id ⟨1, [0xaa]⟩, .head, true, .put (.str [0xC3, 0xA9]), []⟩,
    ⟨⟨3, [0xaa]⟩, .id ⟨1, [0xaa]⟩, .elem ⟨2, [0xaa]⟩, true, .put (.str [0x61]), []⟩,
    ⟨⟨4, [0xaa]⟩, .id ⟨1, [0xaa]⟩, .elem ⟨3, [0xaa]⟩, true, .put (.str [0x62]), []⟩,
    ⟨⟨5, [0xaa]⟩, .id ⟨1, [0xaa]⟩, .elem ⟨2, [0xaa]⟩, true, .markBegin [0x62] (.bool true) false, []⟩,
    ⟨⟨6, [0xaa]⟩, .id ⟨1, [0xaa]⟩, .elem ⟨3, [0xaa]⟩, true, .markEnd true, []⟩ ]

/-- the model's `mark(2,3)` produces exactly these two ops on "éab" under UTF-8 -/
example : (localMark (ow gOne .utf8 true) (d20.take 4) ⟨[0xaa], 5, []⟩ (.id ⟨1, [0xaa]⟩) 2 3 false true [0x62] (.bool true)).1
    = [d20[4], d20[5]] := by decide

/-- the former D20 witness, now consistent: under UTF-8 `marks()` and `spans()` place the mark on unit range
    2..3 ("a") and `get_marks` agrees at every unit index (0,1 = "é": none; 2 = "a": bold; 3 = "b": none);
    under code points the mark is 1..2 -/
example :
    marksOf (ow gOne .utf8 true) d20 (.id ⟨1, [0xaa]⟩) = [⟨[0x62], 2, 3, .bool true⟩] ∧
    spansOf (width .utf8) d20 (.id ⟨1, [0xaa]⟩) = [.text [0xC3, 0xA9] [], .text [0x61] [([0x62], .bool true)], .text [0x62] []] ∧
    (List.range 5).map (getMarksAt (ow gOne .utf8 true) d20 (.id ⟨1, [0xaa]⟩)) = [[], [], [([0x62], .bool true)], [], []] ∧
    marksOf (ow gOne .cp true) d20 (.id ⟨1, [0xaa]⟩) = [⟨[0x62], 1, 2, .bool true⟩] ∧
    (List.range 4).map (getMarksAt (ow gOne .cp true) d20 (.id ⟨1, [0xaa]⟩)) = [[], [([0x62], .bool true)], [], []] := by
  decide

/-- C25, "Text inserted at a mark boundary is covered exactly when the mark's expand setting says so" —
    PARTIAL (non-nested: exactly one mark op and no tombstone between the two visible neighbours; the
    scan state `q` is the one reached after the visible element `c` at whose end the index lies).  The
    new element is keyed on — placed right after — the mark op exactly when that op is a begin with
    expand-before or an end without expand-after; otherwise it is keyed on `c`, before the mark op.
    So: at the START of a mark the text is outside unless `expand.before`; at the END it is inside iff
    `expand.after`.  Missing: several mark ops / tombstones in the gap (the candidate stack), where the
    model is tied to the code by the run only.
    SUPERSEDED by `C25_expand_boundary` / `C25_expand_boundary_iff` in `Props/C25Full.lean` (any number of mark
    ops and tombstones in the gap); the literal clause is refuted there for concurrent marks
    (`C25_expand_boundary_refuted`). -/
theorem C25_expand_boundary_partial (wf : Op → Nat) (ops : List Op) (target : Nat) (q : IQ) (c : Key) (w : Nat)
    (p : Nat) (m nxt : Op) (rest : List (Nat × Op))
    (hq1 : q.done = false) (hq2 : q.stopped = false) (hq3 : q.candidates = [])
    (hq4 : q.lastVisibleCursor = some c) (hq5 : q.lastWidth = some w) (hq6 : q.index + w ≥ target)
    (hm1 : m.isMark = true) (hm2 : m.insert = true) (hm3 : rowVisible ops m = true)
    (hn1 : nxt.isMark = false) (hn2 : nxt.insert = true) (hn3 : rowVisible ops nxt = true) :
    (((p, m) :: (p + 1, nxt) :: rest).foldl (IQ.step wf ops target) q).finish target
      = .ok ⟨if m.sticky then .elem m.id else c, q.index + w, if m.sticky then p + 1 else p⟩ :=
  insertQuery_single_mark wf ops target q c w p m nxt rest hq1 hq2 hq3 hq4 hq5 hq6 hm1 hm2 hm3 hn1 hn2 hn3

/-- on `d20` (mark without expand-before, with expand-after over "a"): text inserted at unit 2 (start of
    the mark) is keyed on "é" — before the begin op, outside; text inserted at unit 3 (end of the mark)
    is keyed on "a" — before the end op, inside -/
example : (insertQuery (ow gOne .utf8 true) d20 (.id ⟨1, [0xaa]⟩) 2).toOption.map (·.key) = some (.elem ⟨2, [0xaa]⟩) ∧
    (insertQuery (ow gOne .utf8 true) d20 (.id ⟨1, [0xaa]⟩) 3).toOption.map (·.key) = some (.elem ⟨3, [0xaa]⟩) := by decide

/-- the former D5 witness (`mark(1, 100)` on "éab"): the call fails with `InvalidIndex` and appends NO op
    (before fix d5de6e0cf the begin op stayed in the transaction).  In general a failing `mark` appends
    nothing — PARTIAL: under the hypothesis `hend` that an end anchor which resolves before the begin op is
    inserted still resolves afterwards (a zero-width op never makes an index invalid; not proved here,
    the code relies on the same fact: its second `query_insert_at(end)?` comes after the insertion).
    SUPERSEDED by `C25_mark_error_appends_nothing` in `Props/C25Full.lean`, which proves `hend`. -/
theorem C25_mark_error_appends_nothing_partial (wf : Op → Nat) (ops : List Op) (t : Tx) (obj : ObjId) (start stop : Nat)
    (before after : Bool) (name : Bytes) (value : Scalar) (err : EditErr)
    (h : (localMark wf ops t obj start stop before after name value).2 = .error err)
    (hend : start = stop ∨ ∀ q, insertQuery wf ops obj stop = .ok q →
        ∀ b : Op, (insertQuery wf (ops ++ [b]) obj stop).isOk = true) :
    (localMark wf ops t obj start stop before after name value).1 = [] := by
  unfold localMark at h ⊢
  cases hm : objMeta ops obj with
  | error e => simp [hm]
  | ok ty =>
    simp only [hm] at h ⊢
    by_cases hty : (ty != .text) = true
    · simp [hty]
    · simp only [hty, Bool.false_eq_true, if_false] at h ⊢
      by_cases h0 : (start == stop && !before && !after) = true
      · simp [h0]
      · simp only [h0, Bool.false_eq_true, if_false] at h ⊢
        cases hq0 : (if (start != stop) = true then (insertQuery wf ops obj stop).map (fun _ => ()) else Except.ok ()) with
        | error e => simp
        | ok u =>
          simp only [hq0] at h ⊢
          cases hq1 : insertQuery wf ops obj start with
          | error e => simp
          | ok q1 =>
            simp only [hq1] at h ⊢
            by_cases hse : (start == stop) = true
            · simp [hse] at h
            · simp only [hse, Bool.false_eq_true, if_false] at h ⊢
              exfalso
              have hne : start ≠ stop := by simpa using hse
              rcases hend with he | he
              · exact hne he
              · have hne' : (start != stop) = true := by simp [hne]
                simp only [hne', if_true] at hq0
                cases hq : insertQuery wf ops obj stop with
                | error e => simp [hq, Except.map] at hq0
                | ok q =>
                  have := he q hq ⟨t.nextId, obj, q1.key, true, .markBegin name value before, []⟩
                  cases hq2 : insertQuery wf (ops ++ [⟨t.nextId, obj, q1.key, true, .markBegin name value before, []⟩]) obj stop with
                  | error e => simp [hq2, Except.isOk, Except.toBool] at this
                  | ok q2 =>
                    simp only [hq2] at h
                    by_cases hp : q2.pos > q1.pos <;> simp [hp] at h

example :
    (localMark (ow gOne .cp true) (d20.take 4) ⟨[0xaa], 5, []⟩ (.id ⟨1, [0xaa]⟩) 1 100 false true [0x62] (.bool true)).1 = [] ∧
    (match (localMark (ow gOne .cp true) (d20.take 4) ⟨[0xaa], 5, []⟩ (.id ⟨1, [0xaa]⟩) 1 100 false true [0x62] (.bool true)).2 with
      | .error e => some e | .ok _ => none) = some EditErr.index := by
  decide

/-- C25, "Marks converge and survive save/load and historical reads": all three reads are functions
    of the SET of operations (delivery order, batching, save/load — which reproduce the op set, C01/C11 —
    do not matter), and a historical read is the same function of the ancestors' ops (C07). -/
theorem C25_converge {ops₁ ops₂ : List Op} (h : ops₁.Perm ops₂) (hd : DistinctIds ops₁) (obj : ObjId)
    (wf : Op → Nat) (W : Bytes → Nat) (k : Nat) :
    marksOf wf ops₁ obj = marksOf wf ops₂ obj ∧ getMarksAt wf ops₁ obj k = getMarksAt wf ops₂ obj k ∧
    spansOf W ops₁ obj = spansOf W ops₂ obj := by
  have hi : items ops₁ obj = items ops₂ obj := by
    unfold items
    rw [rgaOrder_perm h hd obj]
    congr 1
    funext e
    have h1 : overwritten ops₁ e = overwritten ops₂ e := overwritten_perm h e
    have h2 : elemRegOps ops₁ obj e.id = elemRegOps ops₂ obj e.id := by
      unfold elemRegOps
      have hv : (fun o : Op => o.obj == obj && o.elem == some e.id && visible ops₁ o)
          = (fun o : Op => o.obj == obj && o.elem == some e.id && visible ops₂ o) := by
        funext o; rw [visible_perm h o]
      rw [hv]
      exact sortById_filter_perm h hd _
    rw [h1, h2]
  unfold marksOf getMarksAt spansOf
  rw [hi]
  exact ⟨rfl, rfl, rfl⟩

/-- two delivery orders of the `d20` ops read the same -/
example : marksOf (ow gOne .cp true) d20.reverse (.id ⟨1, [0xaa]⟩) = marksOf (ow gOne .cp true) d20 (.id ⟨1, [0xaa]⟩) := by decide

end AmVerif.Props.C25
