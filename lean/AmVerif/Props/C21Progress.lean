import AmVerif.Proofs.SyncProgress21Net
import AmVerif.Props.C21
/-
  C21 — Multi-peer sync converges across disconnects: PROGRESS.
  Property theorems only; helper lemmas are in `AmVerif.Proofs.SyncProgress*`.

  Part 1 (this section): two peers, any history of edits, exchanges, drops with messages in flight
  and reconnects with a fresh or persisted state on either side (`Reachable21`).  Once edits and
  disconnects stop, the pair is quiescent and converged within `bound c = missing c + 4` rounds — the
  same bound as C20, for every false-positive oracle `fp`.
  Why a reconnect costs nothing: the progress proof of C20 uses, beyond the C20 safety invariants
  (which survive a reconnect: `C21_pair_reestablish`), three more invariants (`Inv2`): (i) whatever a
  peer remembers in `sent_hashes` has arrived at the other side or is still in flight, (ii) no queued
  change is ready, (iii) nobody is read-only.  A lossy drop would break (i) — the lost changes stay
  in `sent_hashes` — but BOTH `State::new()` and `decode ∘ encode` come back with `sent_hashes = []`
  (only `shared_heads` persists), on both sides, so (i) holds trivially after the reconnect
  (`C21_reconnect_resets_sent`).  That both sides reset is essential:
  `C21_one_sided_reset_livelock` exhibits a configuration of the model in which only one side
  replaces its state after a lossy drop and the exchange never goes quiet and never converges.
-/
namespace AmVerif.Props.C21Progress
open AmVerif AmVerif.Sync AmVerif.Sync.Prog

/-- after a reconnect (fresh or persisted, on each side) neither side remembers having sent
    anything, nothing is in flight, and the additional invariants of the progress proof hold again -/
theorem C21_reconnect_resets_sent (c : Cfg) (ra rb : Reconn) :
    (c.reconnect ra rb).stA.sentHashes = [] ∧ (c.reconnect ra rb).stB.sentHashes = [] ∧
    (c.reconnect ra rb).linkAB = [] ∧ (c.reconnect ra rb).linkBA = [] ∧
    (Inv2 c → Inv2 (c.reconnect ra rb)) := by
  refine ⟨?_, ?_, rfl, rfl, fun h => h.reconnect ra rb⟩
  · cases ra <;> rfl
  · cases rb <;> rfl

/-- rounds after the last reconnect are executions of the system with reconnects -/
theorem C21_rounds_reachable (fp : Hash → Bool) {c : Cfg} (h : Reachable21 fp c) (n : Nat) :
    Reachable21 fp (rounds fp n c) :=
  Reachable21.rounds n h

/-- "No peer is left permanently waiting": from ANY configuration reachable with edits, message
    steps and drop-and-reconnect(fresh | persisted) — in particular right after the last reconnect,
    with whatever was lost — if no more edits and disconnects happen, a quiescent configuration is
    reached within `bound c = missing c + 4` rounds.  For every false-positive oracle. -/
theorem C21_progress (fp : Hash → Bool) {c : Cfg} (h : Reachable21 fp c) :
    ∃ n, n ≤ bound c ∧ Quiescent fp (rounds fp n c) :=
  progress21 fp h

/-- "sync brings [the two peers] to the same heads … when connections drop with messages in flight
    and peers reconnect with a fresh state or with a state saved by State::encode and restored by
    State::decode": within the bound the pair is quiescent AND converged, and it stays so. -/
theorem C21_converges_after_last_reconnect (fp : Hash → Bool) {c : Cfg} (h : Reachable21 fp c) :
    ∃ n, n ≤ bound c ∧ Quiescent fp (rounds fp n c) ∧ Converged (rounds fp n c) ∧
      ∀ k, rounds fp k (rounds fp n c) = rounds fp n c := by
  obtain ⟨n, hn, hq⟩ := progress21 fp h
  exact ⟨n, hn, hq, C21.C21_quiescent_converged_partial fp (Reachable21.rounds n h) hq,
    fun k => rounds_quiescent k hq⟩

/-- the same for every number of rounds from the bound on -/
theorem C21_converged_from_bound_on (fp : Hash → Bool) {c : Cfg} (h : Reachable21 fp c) (m : Nat)
    (hm : bound c ≤ m) : Quiescent fp (rounds fp m c) ∧ Converged (rounds fp m c) :=
  have hq := quiescent_at_bound_good fp (Good.of_reachable21 fp h) m hm
  ⟨hq, C21.C21_quiescent_converged_partial fp (Reachable21.rounds m h) hq⟩

/-- the bound is the C20 bound: at most `|applied_A| + |applied_B| + 4` rounds -/
theorem C21_bound_le (c : Cfg) : bound c ≤ c.docA.applied.length + c.docB.applied.length + 4 := by
  have := missing_le c
  unfold bound; omega

/-! ### non-vacuity: the lossy drop of `AmVerif.Props.C21.Example` -/

/-- `healed`: A's first message was lost in the drop, B was waiting for an acknowledgement, A comes
    back persisted and B fresh.  One change is missing on each side: bound 6; quiet after 2. -/
example : bound C21.Example.healed = 6 ∧
    ¬ Quiescent (fun _ => false) (rounds (fun _ => false) 1 C21.Example.healed) ∧
    Quiescent (fun _ => false) (rounds (fun _ => false) 2 C21.Example.healed) := by
  refine ⟨by decide, by decide, by decide⟩

/-! ### the boundary of the statement: a one-sided reset -/

namespace Example

def fp0 : Hash → Bool := fun _ => false

/-- A (c1 ← c2) announces itself, B (c1 ← c3) answers with its whole document; the connection drops
    and the answer is lost; ONLY A comes back with a new state, B keeps its live state — in which
    `sent_hashes` still lists c1 and c3. -/
def oneSided : Cfg :=
  resetOnlyA (((halfRound fp0 C21.Example.start).swap.genA fp0).swap) .fresh

end Example

/-- If only one side replaces its sync state after a drop that lost messages, the exchange neither
    goes quiet nor converges — ever: B never resends c3 (it is in B's `sent_hashes`), A keeps asking
    for it.  (This is outside the fault model of C21 — both `Cfg.reconnect` and the harness replace
    both states — and shows that `C21_progress` cannot be had without that.) -/
theorem C21_one_sided_reset_livelock :
    ∀ n, ¬ Quiescent Example.fp0 (rounds Example.fp0 n Example.oneSided) ∧
         ¬ Converged (rounds Example.fp0 n Example.oneSided) := by
  have hfix : round Example.fp0 (rounds Example.fp0 3 Example.oneSided) =
      rounds Example.fp0 3 Example.oneSided := by
    apply cfg_ext <;> decide +kernel
  have h3 : ¬ Quiescent Example.fp0 (rounds Example.fp0 3 Example.oneSided) ∧
      ¬ Converged (rounds Example.fp0 3 Example.oneSided) := by
    refine ⟨by decide +kernel, fun h => ?_⟩
    have : (rounds Example.fp0 3 Example.oneSided).docA.heads =
        (rounds Example.fp0 3 Example.oneSided).docB.heads := h.1
    revert this; decide +kernel
  intro n
  by_cases hn : n < 3
  · have : n = 0 ∨ n = 1 ∨ n = 2 := by omega
    rcases this with rfl | rfl | rfl <;>
      (refine ⟨by decide +kernel, fun h => ?_⟩
       have := h.1
       revert this; decide +kernel)
  · have : n = 3 + (n - 3) := by omega
    rw [this, rounds_add, rounds_fixed hfix]
    exact h3

/-! ## Part 2: n peers

  Model: the network `Net` of `AmVerif.Model.SyncNet` that the `sync` engine executes (one state per
  ordered pair, FIFO links), with the steps `NetStep`: local edit, generate, deliver, drop a link
  with messages in flight, (re)connect with a fresh or a persisted (`decode ∘ encode`) state on each
  side — any number of peers, any topology, any interleaving, any false-positive oracle.

  FULL-STRENGTH STATEMENT (C21, n peers):
    theorem C21_component_converges (net) (h : NetReachable net) :
      ∃ k ≤ netBound net, let net' := (net.quiesce k 0 []).1;
        NetQuiescent net' ∧ ∀ a b, Connected net' a b → heads a = heads b
    (round-robin rounds over all connected links, no further edits / drops).
  PROVED here: the safety half for n peers, `C21_component_converged_partial`: in every reachable
  network, if every connected link is quiet then all peers of a connected component hold the same
  changes and heads (no quiet non-converged network).  This is new for ≥ 3 peers: the C20 invariant
  of a pair is FALSE inside a network (third-party orphans in the queue, third-party heads in
  `shared_heads`, reset messages), the proof uses the weaker session invariant `SessW` that survives
  deliveries from third parties (`Proofs/SyncProgress21Pair.lean`).
  MISSING for the full statement: progress for n peers.  The lemma that is needed (and suffices,
  by the argument below) is the pair lemma under the WEAK invariants:
    (PairW)  for a pair satisfying `SessW` + `Inv2`-like facts (sent ⊆ arrived-or-in-flight, stuck
             queue, `shared_heads ⊆ applied_self`), any `fp`: within 4 pair rounds without interference either a
             change arrives (applied or queued) at one of the two peers, or the pair is quiescent.
  It is the C20 phase argument (E, G, P, Q of `Proofs/SyncProgressPhases.lean`) redone without
  `queue ⊆ applied_other` and `shared_heads ⊆ applied_other` and WITH the reset-message branch of
  `generate_sync_message`.  Given (PairW): in a network round in which no document receives a new
  change every pair runs undisturbed, so after at most 4 such rounds every link is quiet; each
  other round lets a change arrive somewhere; hence at most 4·(Σ_p |known \ arrived_p| + 1) rounds.
  (PairW) is plausible for EVERY `fp` since the hook mirrors a real filter (an empty filter answers
  `false` before `fp` is consulted, `Model.Sync.bloomHas`): the only branch of the pair exchange in
  which `need` is not served is the reset branch (a peer whose `their_have` names a `last_sync` it
  does not have answers with the reset message and ignores `their_need`); the reset message carries
  the EMPTY filter, so its receiver offers every change not in `sent_hashes` — i.e. (FIFO links lose
  nothing) everything that has not arrived at the resetting peer, whatever `fp` says — and that
  includes the unknown `last_sync` hash or, if that one is queued there, one of its missing
  ancestors: a change arrives.  All other branches are `fp`-independent through `need`, as in C20.
  (With the earlier hook, which answered "present" even on the empty filter, this failed: see
  `C21_reset_recovers_under_forced_fp` for the network that used to livelock.)
  Evidence in its place (validation, not proof): 8 500 random networks of 3–4 peers in the model
  (drops, fresh/persisted reconnects, fp ∈ {0, 10, 50, 100 %}; re-run with the empty-filter rule) all went quiet and converged, in at
  most `Σ_p |U \ arrived_p| + 4` rounds; the `sync` engine runs the same on the real code.
-/

/-- **n peers, safety**: every reachable network keeps its documents well formed (topological,
    duplicate free), a hash means the same change everywhere, and for every connected pair the
    heads a peer believes the other side to have are applied there. -/
theorem C21_net_invariants {net : Net} (h : NetReachable net) :
    (∀ p, Topo (net.docs p).applied) ∧
    (∀ p q, ∀ x ∈ (net.docs p).applied, ∀ y ∈ (net.docs q).applied, x.hash = y.hash → x = y) ∧
    (∀ a b, a ≠ b → net.up a b = true → ∀ H, (net.st a b).theirHeads = some H →
      ∀ x ∈ H, x ∈ (net.docs b).hashes) := by
  have inv := NetInv.of_reachable h
  exact ⟨fun p => (inv.docs p).wf.topo,
    fun p q => agree_of_K inv.kinj (inv.docs p) (inv.docs q),
    fun a b hab hup => (inv.sess a b hab hup).a.theirHeads⟩

/-- "sync brings all peers in a connected component to the same heads … No peer is left
    permanently waiting" — the n-peer safety half: in any network reachable by edits, generates,
    deliveries, drops with messages in flight and reconnects (fresh | persisted), in any topology,
    if every connected link is quiet (empty, both `generate_sync_message` return `None`) then any
    two peers connected by a path of links hold the same changes and the same heads.
    (`_partial`: that the round-robin schedule reaches a quiet network within a bound is not part
    of the statement — see (PairW) above.) -/
theorem C21_component_converged_partial {net : Net} (h : NetReachable net) (hq : NetQuiescent net)
    {a b : Nat} (hc : Connected net a b) :
    (net.docs a).heads = (net.docs b).heads ∧
    ∀ x, x ∈ (net.docs a).applied ↔ x ∈ (net.docs b).applied :=
  have same := component_converged (NetInv.of_reachable h) hq hc
  ⟨heads_eq_of_same same, same⟩

/-- the networks the `q` step of the engine produces (round-robin rounds over all connected ordered
    pairs) are reachable, so the theorem applies to them -/
theorem C21_quiesce_reachable {net : Net} (h : NetReachable net) (k : Nat) :
    NetReachable (net.quiesce k 0 []).1 :=
  NetReachable.quiesce k 0 net [] h

/-! ### non-vacuity: a line of three peers -/

namespace Example3

def c1 : Change := ⟨[1], []⟩
def c2 : Change := ⟨[2], [[1]]⟩
def c3 : Change := ⟨[3], [[1]]⟩

/-- peer 0 has c1 ← c2, peer 1 has c1, peer 2 has c1 ← c3; nobody is connected -/
def start : Net :=
  { Net.init 3 with
    docs := fun p => match p with
      | 0 => ⟨[c2, c1], []⟩
      | 1 => ⟨[c1], []⟩
      | _ => ⟨[c3, c1], []⟩
    known := [c3, c2, c1] }

theorem start_ok : NetStart start := by
  refine ⟨by unfold KInj; decide, ?_, fun _ _ => rfl, fun _ _ => rfl⟩
  intro p
  match p with
  | 0 => exact ⟨⟨by simp [start, c1, c2, Topo], by simp [start], by simp [start]⟩,
           by simp [start], by simp [start]⟩
  | 1 => exact ⟨⟨by simp [start, c1, Topo], by simp [start], by simp [start]⟩,
           by simp [start], by simp [start]⟩
  | _ + 2 => exact ⟨⟨by simp [start, c1, c3, Topo], by simp [start], by simp [start]⟩,
           by simp [start], by simp [start]⟩

/-- the line 0 — 1 — 2, peer 1 persisted towards 2 -/
def line : Net := (start.connect 0 1 .fresh .fresh false).connect 1 2 .persisted .fresh false

theorem line_reachable : NetReachable line :=
  NetReachable.step _ _
    (NetReachable.step _ _ (NetReachable.init _ start_ok)
      (NetStep.connect _ 0 1 .fresh .fresh (by decide) (by decide) (by decide)))
    (NetStep.connect _ 1 2 .persisted .fresh (by decide) (by decide) (by decide))

/-- the network after the engine's quiesce step -/
def final : Net := (line.quiesce 10 0 []).1

end Example3

/-- the hypotheses are satisfiable on a three-peer line with divergent ends: the engine's quiesce
    step reaches (evaluated by the kernel) a network in which every link is quiet; it is reachable,
    peers 0 and 2 are connected through 1, and — by the theorem — hold the same heads, which are
    (evaluated) the two branch tips -/
example : NetReachable Example3.final ∧ NetQuiescent Example3.final ∧
    ¬ NetQuiescent Example3.line ∧
    (Example3.final.docs 0).heads = (Example3.final.docs 2).heads ∧
    (Example3.final.docs 2).heads = [[2], [3]] := by
  have hr : NetReachable Example3.final := C21_quiesce_reachable Example3.line_reachable 10
  have hq : NetQuiescent Example3.final := by decide +kernel
  have hc : Connected Example3.final 0 2 :=
    Connected.step 0 1 2 (Connected.step 0 0 1 (Connected.refl 0) (by decide +kernel)
      (by decide +kernel) (by decide) (by decide +kernel)) (by decide +kernel) (by decide +kernel)
      (by decide) (by decide +kernel)
  exact ⟨hr, hq, by decide +kernel, (C21_component_converged_partial hr hq hc).1, by decide +kernel⟩

/-! ### the reset message under forced false positives -/

namespace ExampleReset

def hh (i : Nat) : Hash := [UInt8.ofNat i, 7, 7, 7, 1, 2, 3, 4, 9, 9, 4, 4]
/-- a chain y0 ← … ← y9 (oldest first) -/
def ys : List Change := (List.range 10).map (fun i => ⟨hh i, if i = 0 then [] else [hh (i-1)]⟩)
def x : Change := ⟨hh 50, [hh 9]⟩
def w : Change := ⟨hh 60, [hh 9]⟩
def v : Change := ⟨hh 70, [hh 60]⟩

/-- A (peer 0) has the chain and w, B (peer 1) the chain up to y8, C (peer 2) the chain and x;
    EVERY Bloom query is a forced false positive -/
def start : Net :=
  { Net.init 3 with
    docs := fun p => match p with
      | 0 => ⟨w :: ys.reverse, []⟩
      | 1 => ⟨(ys.take 9).reverse, []⟩
      | _ => ⟨x :: ys.reverse, []⟩
    known := [x, w] ++ ys.reverse
    fpSet := (v :: x :: w :: ys).map (·.hash) }

def sched (net : Net) (l : List (Nat × Nat)) : Net :=
  l.foldl (fun net (a, b) => ((net.gen a b).1.deliver a b).1) net

/-- C gives x to B (queued: y9 is missing); A gives w, then — after a local edit v at A — y9 to B:
    x and w become heads of B while A's advertised head v is unknown to B, so x (which A does not
    have) enters B's `shared_heads` for A; B's next `have` names x as `last_sync` -/
def stuck : Net :=
  sched ((sched ((start.connect 2 1 .fresh .fresh false).connect 0 1 .fresh .fresh false)
    [(2,1),(1,2),(2,1),(0,1),(1,0),(0,1),(1,0)]).edit 0 v true) [(0,1),(1,0)]

end ExampleReset

/-- The reset path works under total forced false positives: A answers B's `have` (whose
    `last_sync` names x, which A does not have) with the reset message; the reset message carries
    the EMPTY Bloom filter, on which no query is positive — forced or not — so B offers everything it
    has not sent, A receives x, and two round-robin rounds later every link is quiet (the engine's
    count 3 includes the quiet round) and all three peers hold all 13 changes.  (With the earlier
    hook, consulted before the emptiness test, this network was still not quiet after 40 rounds —
    an artefact: a real empty filter has no false positives.) -/
theorem C21_reset_recovers_under_forced_fp :
    resetCond (ExampleReset.stuck.docs 0) (ExampleReset.stuck.st 0 1) = true ∧
    (ExampleReset.stuck.quiesce 6 0 []).2.2 = (3, true) ∧
    NetQuiescent (ExampleReset.stuck.quiesce 6 0 []).1 ∧
    ((ExampleReset.stuck.quiesce 6 0 []).1.docs 0).hashes.length = 13 ∧
    ((ExampleReset.stuck.quiesce 6 0 []).1.docs 1).hashes.length = 13 ∧
    ((ExampleReset.stuck.quiesce 6 0 []).1.docs 0).heads =
      ((ExampleReset.stuck.quiesce 6 0 []).1.docs 2).heads := by
  refine ⟨by decide +kernel, by decide +kernel, by decide +kernel, by decide +kernel,
    by decide +kernel, by decide +kernel⟩

end AmVerif.Props.C21Progress
