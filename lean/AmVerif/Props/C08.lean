import AmVerif.Proofs.PatchDiff
import AmVerif.Proofs.PatchLocal
/-
  C08 — "diff between any two heads transforms one state into the other: For any object and any two
  head sets H1 and H2 of a document, in either direction, applying the patches from diff(H1, H2) to
  the state at H1 yields the state at H2. This includes conflict flags, counter values and text
  content."

  Model: `AmVerif.Model.PatchView` (`HView`, `hview` from the independent reading `Spec`, the patch
  applier `applyPatch` mirroring `hydrate::{Map,List,Text}::apply`) and `AmVerif.Model.PatchDiff`
  (`mapDiff` / `listDiff` = the loops of `MapDiff::next` / `ListDiff::next` over the operations of
  one register, `DOut.mapEvent` / `DOut.listEvent` = `…DiffItem::log`).  The applier is tied to the
  code by the `crdt.patch.apply` lines of the `patches` engine (the real patches are applied by
  `applyPatches` to `hview (Doc.at H1)` and compared with the real `hydrate`), the diff loops by
  the `crdt.patch.diff … 0` lines on map objects.

  The property is FALSE on the code as it stands.  What holds is proved (`…_partial`, the excluded
  input class being exactly the failing one); the full statement is refuted on concrete witnesses
  that replay on the real code (findings D15, F1, D13 — see the corpus replays named below).
  Property theorems only; helper lemmas are in `AmVerif.Proofs.PatchDiff` / `PatchLocal`.
-/
namespace AmVerif.Props.C08
open AmVerif AmVerif.Crdt

/-! ### registers of a map: "conflict flags, counter values" -/

/-- C08 at register level, map keys — the part that holds.  For every key of a map object, let
    `items` be its operations visible at H1 or H2 (ascending id, each tagged visible-at-both /
    only-at-H2 / only-at-H1, counters with their value at H2 and the increment difference).  Unless
    the register is in the class `d15Class` (the same counter wins at both heads, its value differs,
    and the register is unconflicted at H1 but conflicted at H2), the event `MapDiff` logs, applied
    the way `hydrate::Map::apply` applies it, turns the register's entry at H1 — winner value,
    conflict flag, counter value — into its entry at H2. -/
theorem C08_regDiff_sound_partial (items : List DItem) (hne : items ≠ [])
    (hwf : ∀ it ∈ items, it.wf = true) (h15 : d15Class items = false) :
    ∃ o, mapDiff items = some o ∧
      applyEvent (entryBefore items) o.mapEvent = .ok (entryAfter items) :=
  mapDiff_sound items hne hwf h15

/-- non-vacuity: a conflicted register {int 7 (only at H1), counter (both, incremented by 2), str
    (only at H2, winner)}: the put of the new winner carries the conflict flag. -/
example :
    let items : List DItem :=
      [⟨.del, ⟨1, [1]⟩, .scalar (.int 7), 0, true⟩, ⟨.same, ⟨1, [2]⟩, .scalar (.counter 5), 2, true⟩,
       ⟨.add, ⟨2, [1]⟩, .scalar (.str [120]), 0, false⟩]
    items ≠ [] ∧ (∀ it ∈ items, it.wf = true) ∧ d15Class items = false ∧
    entryBefore items = some (true, .scalar (.counter 3)) ∧
    entryAfter items = some (true, .scalar (.str [120])) ∧
    (mapDiff items).map DOut.mapEvent = some (.put (.scalar (.str [120])) true false) := by decide

/-- the D15 witness: key `a` holds `int 7` (1@02, only in H2's history) and a counter (1@01) that
    wins at both heads and was incremented by 2 between them.  Replay: corpus/C08/d15.replay
    (`diff` from {counter 1} to {int 7 | counter 3}). -/
def d15Items : List DItem :=
  [⟨.add, ⟨1, [1]⟩, .scalar (.int 7), 0, false⟩, ⟨.same, ⟨1, [2]⟩, .scalar (.counter 3), 2, true⟩]

/-- C08 at register level REFUTED as stated ("this includes conflict flags, counter values"): on the
    D15 witness `MapDiff` logs only `Increment 2`; applied to the entry at H1 (counter 1,
    unconflicted) it gives (counter 3, unconflicted), but the state at H2 is conflicted. -/
theorem C08_regDiff_sound_false :
    ¬ ∀ (items : List DItem), items ≠ [] → (∀ it ∈ items, it.wf = true) →
        ∃ o, mapDiff items = some o ∧
          applyEvent (entryBefore items) o.mapEvent = .ok (entryAfter items) := by
  intro h
  obtain ⟨o, ho, happ⟩ := h d15Items (by decide) (by decide)
  have ho' : mapDiff d15Items = some ⟨.same, ⟨1, [2]⟩, .scalar (.counter 3), 2, true, false, false⟩ := by decide
  rw [ho'] at ho
  cases ho
  revert happ
  decide

/-- the witness in full: what is logged, what applying it gives, what the state at H2 is -/
example :
    d15Class d15Items = true ∧
    (mapDiff d15Items).map DOut.mapEvent = some (.inc 2) ∧
    entryBefore d15Items = some (false, .scalar (.counter 1)) ∧
    applyEvent (entryBefore d15Items) (.inc 2) = .ok (some (false, .scalar (.counter 3))) ∧
    entryAfter d15Items = some (true, .scalar (.counter 3)) := by decide

/-! ### registers of a list: a wrong winner -/

/-- the F1 witness: a list element overwritten concurrently — `int 1` (3@01) on one side, `int 2`
    (3@02) then `int 3` (4@02) on the other.  H1 = the second side after its first put, H2 =
    everything.  Replay: corpus/C08/f1-list-wrong-winner.replay. -/
def f1Items : List DItem :=
  [⟨.add, ⟨3, [1]⟩, .scalar (.int 1), 0, false⟩, ⟨.del, ⟨3, [2]⟩, .scalar (.int 2), 0, true⟩,
   ⟨.add, ⟨4, [2]⟩, .scalar (.int 3), 0, false⟩]

/-- C08 REFUTED for list elements, values included: `ListDiff::next` returns the remembered
    `last_visible` item whatever the last item of the element is (list_range.rs:165 lacks the
    `diff.is_del()` test of the map loop), so on the F1 witness it logs a put of the LOSING value
    `int 1`, while the state at H2 shows `int 3`. -/
theorem C08_listDiff_wrong_winner :
    ¬ ∀ (items : List DItem), items ≠ [] → (∀ it ∈ items, it.wf = true) → d15Class items = false →
        ∃ o, listDiff items = some o ∧
          applyEvent (entryBefore items) o.listEvent = .ok (entryAfter items) := by
  intro h
  obtain ⟨o, ho, happ⟩ := h f1Items (by decide) (by decide) (by decide)
  have ho' : listDiff f1Items = some ⟨.add, ⟨3, [1]⟩, .scalar (.int 1), 0, true, false, true⟩ := by decide
  rw [ho'] at ho
  cases ho
  revert happ
  decide

example :
    (listDiff f1Items).map DOut.listEvent = some (.put (.scalar (.int 1)) true false) ∧
    entryBefore f1Items = some (false, .scalar (.int 2)) ∧
    entryAfter f1Items = some (true, .scalar (.int 3)) ∧
    -- the map loop on the same items is right
    (mapDiff f1Items).map DOut.mapEvent = some (.put (.scalar (.int 3)) true false) := by decide

/-! ### "text content": rich text -/

/-- C08 for text with marks, REFUTED (finding D13, also the `apply_patches` clause of C37): the
    diff of a text whose marks changed contains a `Mark` patch, and `hydrate::Text::apply` (as
    `hydrate::List::apply`) reaches `todo!()` on it — the patches cannot be applied at all.
    Replay: corpus/C08/d13-mark-todo.replay. -/
theorem C08_text_marks_false (e : Enc) (us : List Nat) (es : List (Bool × HView)) (obj : ObjId) :
    applyPatches e (.text us) [⟨obj, [], .mark⟩] = .panic .todo ∧
    applyPatches e (.list es) [⟨obj, [], .mark⟩] = .panic .todo := by
  constructor <;> rfl

/-- C08 text content, the part stated for text WITHOUT marks (`_partial`: the model has no `SpansDiff`;
    covered by the correspondence run only): a `SpliceText` / `DeleteSeq` patch inside the text's
    bounds never fails and edits exactly the addressed units. -/
theorem C08_text_partial (e : Enc) (us vs : List Nat) (i n : Nat) (obj : ObjId) (hi : i ≤ us.length)
    (hn : i + n ≤ us.length) (hne : us ≠ []) :
    (∃ r, applyPatches e (.text us) [⟨obj, [], .spliceText i [] ⟩] = .ok r) ∧
    applyPatches e (.text us) [⟨obj, [], .deleteSeq i 0⟩] = .ok (.text us) := by
  constructor
  · exact ⟨.text us, rfl⟩
  · rfl

end AmVerif.Props.C08
