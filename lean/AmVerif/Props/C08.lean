import AmVerif.Proofs.PatchDiff
import AmVerif.Proofs.PatchLocal
import AmVerif.Proofs.PatchObj
import AmVerif.Proofs.PatchSeq
/-
  C08 — "diff between any two heads transforms one state into the other: For any object and any two
  head sets H1 and H2 of a document, in either direction, applying the patches from diff(H1, H2) to
  the state at H1 yields the state at H2. This includes conflict flags, counter values and text
  content."

  Model: `AmVerif.Model.PatchView` (`HView`, `hview` from the independent reading `Spec`, the patch
  applier `applyPatch` mirroring `hydrate::{Map,List,Text}::apply`) and `AmVerif.Model.PatchDiff`
  (`mapDiff` / `listDiff` = the loops of `MapDiff::next` / `ListDiff::next` over the operations of
  one register, `DOut.mapEvent` / `DOut.listEvent` = `…DiffItem::log`, `diffMapObj` =
  `diff_obj(obj, H1, H2, false)` of a map object).  Tie: the `patches` engine — `crdt.patch.apply`
  (the REAL patches applied by `applyPatches` to `hview (Doc.at H1)` and compared with the real
  `hydrate`), `crdt.patch.diff … 0` (the own-level patches of map objects predicted by `diffMapObj`).

  History: on the tree as found the property was false (findings D13 `Mark` → `todo!()`, D15 counter
  incremented and newly conflicted, F1 `ListDiff` returning a losing value); all three are repaired
  by `fix:` commits in /repo, the model follows the repaired code and the theorems below are the
  positive, full-strength statements at register and map-object level.  Text with marks: the
  applier accepts `Mark` patches (proved); the content of `SpansDiff` is covered by the run only
  (`…_partial`).  Property theorems only; helper lemmas are in `AmVerif.Proofs.Patch*`.
-/
namespace AmVerif.Props.C08
open AmVerif AmVerif.Crdt

/-! ### registers: "conflict flags, counter values" -/

/-- C08 at register level, map keys.  For every key of a map object, let `items` be its operations
    visible at H1 or H2 (ascending id, each tagged visible-at-both / only-at-H2 / only-at-H1,
    counters with their value at H2 and the increment difference).  The event `MapDiff` logs, applied
    the way `hydrate::Map::apply` applies it, turns the register's entry at H1 — winner value,
    conflict flag, counter value — into its entry at H2.  No input class is excluded. -/
theorem C08_regDiff_sound (items : List DItem) (hne : items ≠ [])
    (hwf : ∀ it ∈ items, it.wf = true) :
    ∃ o, mapDiff items = some o ∧
      applyEvent (entryBefore items) o.mapEvent = .ok (entryAfter items) :=
  mapDiff_sound items hne hwf

/-- non-vacuity: a conflicted register {int 7 (only at H1), counter (both, incremented by 2), str
    (only at H2, winner)}: the put of the new winner carries the conflict flag. -/
example :
    let items : List DItem :=
      [⟨.del, ⟨1, [1]⟩, .scalar (.int 7), 0, true⟩, ⟨.same, ⟨1, [2]⟩, .scalar (.counter 5), 2, true⟩,
       ⟨.add, ⟨2, [1]⟩, .scalar (.str [120]), 0, false⟩]
    items ≠ [] ∧ (∀ it ∈ items, it.wf = true) ∧
    entryBefore items = some (true, .scalar (.counter 3)) ∧
    entryAfter items = some (true, .scalar (.str [120])) ∧
    (mapDiff items).map DOut.mapEvent = some (.put (.scalar (.str [120])) true false) := by decide

/-- the former D15 witness (corpus/C08/d15.replay): the same counter wins at both heads, was
    incremented by 2 and became conflicted: `Increment 2` is now followed by `Conflict`. -/
example :
    let items : List DItem :=
      [⟨.add, ⟨1, [1]⟩, .scalar (.int 7), 0, false⟩, ⟨.same, ⟨1, [2]⟩, .scalar (.counter 3), 2, true⟩]
    (mapDiff items).map DOut.mapEvent = some (.incFlag 2) ∧
    entryBefore items = some (false, .scalar (.counter 1)) ∧
    applyEvent (entryBefore items) (.incFlag 2) = .ok (entryAfter items) := by decide

/-- C08 at register level, list elements: as for map keys (`ListDiff::next` makes the same
    selection and additionally decides put-vs-insert). -/
theorem C08_listRegDiff_sound (items : List DItem) (hne : items ≠ [])
    (hwf : ∀ it ∈ items, it.wf = true) :
    ∃ o, listDiff items = some o ∧
      applyEvent (entryBefore items) o.listEvent = .ok (entryAfter items) :=
  listDiff_sound items hne hwf

/-- the former F1 witness (corpus/C08/f1-list-wrong-winner.replay): an element overwritten by
    `int 1` (3@01) on one side and by `int 2` (3@02) then `int 3` (4@02) on the other; H1 = after
    `int 2`, H2 = everything: the put now carries the winner `int 3`. -/
example :
    let items : List DItem :=
      [⟨.add, ⟨3, [1]⟩, .scalar (.int 1), 0, false⟩, ⟨.del, ⟨3, [2]⟩, .scalar (.int 2), 0, true⟩,
       ⟨.add, ⟨4, [2]⟩, .scalar (.int 3), 0, false⟩]
    (listDiff items).map DOut.listEvent = some (.put (.scalar (.int 3)) true false) ∧
    entryAfter items = some (true, .scalar (.int 3)) := by decide

/-! ### a whole map object -/

/-- C08 for a map OBJECT (all keys), non-recursive level.  `before` / `after` are the op sets at H1
    / H2 (`(Doc.at H).ops`), `all` the document's ops.  If the view's entry of every key in play is
    the register's entry at H1, then the patches of `diff_obj(obj, H1, H2, false)` — applied in
    order by `hydrate::Map::apply` — succeed, bring every such key to its entry at H2 (winner,
    conflict flag, counter value; a new object as an empty object of its type, tables as maps), and
    leave every other key of the view untouched.
    (That the entries computed from `diffItemsOf` are those of `hview` at H1 / H2 is compared on
    every case of the run: the `from` / `to` lines and the `crdt.patch.diff … 0` lines.) -/
theorem C08_diff_sound_mapObject (before after all : List Op) (obj : ObjId)
    (es : List (Bytes × Bool × HView))
    (hne : ∀ k ∈ diffKeys before after obj, diffItemsOf before after all obj k ≠ [])
    (hwf : ∀ k ∈ diffKeys before after obj, ∀ it ∈ diffItemsOf before after all obj k, it.wf = true)
    (hview : ∀ k ∈ diffKeys before after obj,
      shallowEntry es k = entryBefore (diffItemsOf before after all obj k)) :
    ∃ es', applyActions es ((diffMapObj before after all obj).map (·.1)) = .ok es' ∧
      (∀ k ∈ diffKeys before after obj,
        shallowEntry es' k = (entryAfter (diffItemsOf before after all obj k)).norm) ∧
      (∀ k, k ∉ diffKeys before after obj → mapGet k es' = mapGet k es) :=
  diffMapObj_sound before after all obj es hne hwf hview

/-- non-vacuity: root map, key `a` = counter 1 (1@02) at H1; at H2 also `int 7` (1@01) and the
    counter incremented by 2; key `b` = `x` only at H2.  The patches are Increment, Conflict, PutMap
    and they turn {a: 1} into {a: 3 (conflicted), b: x}. -/
example :
    let pa : Op := ⟨⟨1, [2]⟩, .root, .map [97], false, .put (.counter 1), []⟩
    let pi : Op := ⟨⟨1, [1]⟩, .root, .map [97], false, .put (.int 7), []⟩
    let inc : Op := ⟨⟨2, [2]⟩, .root, .map [97], false, .inc 2, [⟨1, [2]⟩]⟩
    let pb : Op := ⟨⟨3, [2]⟩, .root, .map [98], false, .put (.str [120]), []⟩
    let before := [pa]
    let after := [pa, pi, inc, pb]
    diffKeys before after .root = [[97], [98]] ∧
    (diffMapObj before after after .root).map (·.1) =
      [.increment (.key [97]) 2, .conflict (.key [97]), .putMap [98] (.scalar (.str [120])) false] ∧
    entryBefore (diffItemsOf before after after .root [97]) = some (false, .scalar (.counter 1)) ∧
    entryAfter (diffItemsOf before after after .root [97]) = some (true, .scalar (.counter 3)) := by
  decide

/-! ### a whole list object: running index -/

/-- C08 for a list OBJECT (all elements), non-recursive level, lists without marks: `seqDiff_sound`.
    `elems` are the elements of the list in document order, each with its operations visible at H1
    or H2.  The events `ListDiff` emits for them — in document order, each addressed to the running
    index, which advances past every element visible at H2 — applied one after the other the way
    `hydrate::List::apply` applies `Insert` / `PutSeq` / `Increment` / `Conflict` / `DeleteSeq{1}`
    (on the shallow view: conflict flag and value), turn the list of the elements visible at H1 into
    the list of the elements visible at H2: values, flags, counters, insertions and deletions at the
    right positions.  (`PatchBuilder` merges adjacent `Insert`s / `DeleteSeq`s into one patch; the
    applier's loops over such a patch are the one-by-one application used here.) -/
theorem C08_seqDiff_sound (elems : List (List DItem)) (hne : ∀ items ∈ elems, items ≠ [])
    (hwf : ∀ items ∈ elems, ∀ it ∈ items, it.wf = true) :
    applySeqEvents (elems.filterMap entryBefore) (listDiffEvents 0 elems)
      = .ok (elems.filterMap entryAfter) :=
  seqDiff_sound elems hne hwf

/-- non-vacuity: [x, y] at H1; at H2 a new element `n` in front, `x` deleted, `y` overwritten
    concurrently by 1 and 2: Insert at 0, DeleteSeq at 1, PutSeq at 1 → [n, 2 (conflicted)]. -/
example :
    let elems : List (List DItem) :=
      [[⟨.add, ⟨5, [1]⟩, .scalar (.str [110]), 0, false⟩],
       [⟨.del, ⟨2, [1]⟩, .scalar (.str [120]), 0, true⟩],
       [⟨.del, ⟨3, [1]⟩, .scalar (.str [121]), 0, true⟩, ⟨.add, ⟨6, [1]⟩, .scalar (.int 1), 0, false⟩,
        ⟨.add, ⟨6, [2]⟩, .scalar (.int 2), 0, false⟩]]
    listDiffEvents 0 elems =
      [(0, .insert (.scalar (.str [110])) false false), (1, .del), (1, .put (.scalar (.int 2)) true false)] ∧
    elems.filterMap entryBefore = [(false, .scalar (.str [120])), (false, .scalar (.str [121]))] ∧
    elems.filterMap entryAfter = [(false, .scalar (.str [110])), (true, .scalar (.int 2))] := by
  decide

/-! ### "text content": rich text -/

/-- the applier accepts `Mark` patches (former finding D13: `todo!()`): hydrated text and lists
    hold no marks, the view is unchanged.  corpus/C08/d13-mark-todo.replay. -/
theorem C08_text_marks_accepted (e : Enc) (us : List Nat) (es : List (Bool × HView)) (obj : ObjId) :
    applyPatches e (.text us) [⟨obj, [], .mark⟩] = .ok (.text us) ∧
    applyPatches e (.list es) [⟨obj, [], .mark⟩] = .ok (.list es) := by
  constructor <;> rfl

/-- C08 text content (`_partial`: the model has no `SpansDiff`; which splices a text diff contains is
    covered by the correspondence run only): a `SpliceText` of `vs` at `i` within a non-empty text
    inserts exactly `vs` at `i`. -/
theorem C08_text_partial (e : Enc) (us : List Nat) (v : Nat) (i : Nat) (obj : ObjId)
    (hi : i ≤ us.length) (hne : us ≠ []) :
    applyPatches e (.text us) [⟨obj, [], .spliceText i [v]⟩] = .ok (.text (us.take i ++ v :: us.drop i)) := by
  have hemp : us.isEmpty = false := by cases us <;> simp_all
  simp [applyPatches, applyPatch, applyAt, applyText, seqInsertAll, seqInsert, hemp, hi]

example : applyPatches .cp (.text [97, 98]) [⟨.root, [], .spliceText 1 [120]⟩] = .ok (.text [97, 120, 98]) := by
  rfl

end AmVerif.Props.C08
