import AmVerif.Proofs.Chunk
/-
  C13 — "Cut an append-only file made of a save followed by incremental saves at any byte.
  Loading with partial loads allowed then gives exactly the document as of the last chunk fully
  inside the cut (an empty document for an empty prefix, an error if the cut falls inside the
  first chunk), and a strict load succeeds only at chunk boundaries. Neither load ever panics."

  Decided here at the chunk level, on the executable model of `Chunk::parse`, `load_changes` and
  `load_with_options` (`AmVerif.Model.Chunk`; `loadFile … .ignore` is the load with partial loads
  allowed — after fix D3 —, `loadFile … .error` the strict one).  The file is `fileOf (s :: ss)`,
  the concatenation of well-formed stored chunks (`Stored.WF`: uncompressed chunks of type 0, 1,
  3, or compressed changes whose bytes inflate); the cut is `List.take k`.  `within ss k` is the
  list of chunks of `ss` lying completely inside the first `k` bytes, `IsBoundary ss k` says that
  `k` is `0` or the end of a chunk.  "The document as of …" is the list of chunk records the load
  keeps: what these do to the document is M5 (and C12).

  "Neither load ever panics": `parseChunk`, `loadChunks` and `loadFile` are total functions into
  `Except`; the model has no panic outcome on these paths because the Rust has no `unwrap`, index
  or arithmetic that can fail on them (slices are taken after their length checks; the one
  `unwrap` is on writing a LEB128 into a `Vec`).  That the transcription is faithful is checked by
  the differential run.  What is proved here in addition is that on every cut the result is one
  of the listed forms (`C13_result_forms`).

  Property theorems only; lemmas are in `AmVerif.Proofs.Chunk`.
-/
namespace AmVerif.Props.C13
open AmVerif AmVerif.Chunk

attribute [local instance] AmVerif.Leb.exceptDecEq

/-- the body parsers of the examples accept everything -/
def anyBody : Nat → Bytes → Bool := fun _ _ => true

/-- "an error if the cut falls inside [a] chunk": every proper prefix of a well-formed stored
    chunk makes `Chunk::parse` fail with `Incomplete` — not with any other error, so a cut is
    never mistaken for corruption. -/
theorem C13_parseChunk_prefix_incomplete (bodyOk : Nat → Bytes → Bool) (s : Stored)
    (h : s.WF bodyOk) (k : Nat) (hk : k < s.bytes.length) :
    parseChunk bodyOk (s.bytes.take k) = .error .incomplete :=
  Stored.prefix_incomplete h k hk

/-- the same in terms of the bytes of an uncompressed chunk -/
theorem C13_parseChunk_prefix_incomplete' (bodyOk : Nat → Bytes → Bool) (c : Bytes)
    (h : WFChunk bodyOk c) (k : Nat) (hk : k < c.length) :
    parseChunk bodyOk (c.take k) = .error .incomplete :=
  parseChunk_prefix_incomplete h k hk

set_option maxRecDepth 4000 in
/-- all proper prefixes of the 11-byte chunk `encodeChunk 0 [7]`, run on the model -/
example : ∀ k : Fin 11,
    parseChunk anyBody ([133, 111, 74, 131, 203, 242, 20, 19, 0, 1, 7].take k.val) = .error .incomplete := by
  decide

/-- "Loading with partial loads allowed then gives exactly the document as of the last chunk
    fully inside the cut (an empty document for an empty prefix, an error if the cut falls inside
    the first chunk)". -/
theorem C13_partial_load (bodyOk : Nat → Bytes → Bool) (s : Stored) (ss : List Stored)
    (h : ∀ t ∈ s :: ss, t.WF bodyOk) (k : Nat) (hk : k ≤ (fileOf (s :: ss)).length) :
    loadFile bodyOk .ignore ((fileOf (s :: ss)).take k) =
      if k = 0 then .ok []
      else if k < s.bytes.length then .error (.parse .incomplete)
      else .ok ((within (s :: ss) k).map Stored.chunk) := by
  rw [loadFile_take s ss h .ignore k hk]
  simp

/-- "a strict load succeeds only at chunk boundaries": the strict load of a cut file succeeds
    exactly when the cut is at `0` or at the end of a chunk — then with all the chunks before the
    cut — and fails with `Incomplete` at every other cut. -/
theorem C13_strict (bodyOk : Nat → Bytes → Bool) (s : Stored) (ss : List Stored)
    (h : ∀ t ∈ s :: ss, t.WF bodyOk) (k : Nat) (hk : k ≤ (fileOf (s :: ss)).length) :
    loadFile bodyOk .error ((fileOf (s :: ss)).take k) =
      if IsBoundary (s :: ss) k then .ok ((within (s :: ss) k).map Stored.chunk)
      else .error (.parse .incomplete) := by
  have hs := s.bytes_length_ge
  rw [loadFile_take s ss h .error k hk]
  by_cases h0 : k = 0
  · subst h0
    have : within (s :: ss) 0 = [] := by rw [within, if_neg (by omega)]
    simp [IsBoundary, this, fileOf]
  · rw [if_neg h0]
    by_cases hlt : k < s.bytes.length
    · have : within (s :: ss) k = [] := by rw [within, if_neg (by omega)]
      have hb : ¬ IsBoundary (s :: ss) k := by
        simp only [IsBoundary, this, fileOf_nil, List.length_nil]; omega
      rw [if_pos hlt, if_neg hb]
    · rw [if_neg hlt]
      simp

/-- the meaning of "chunk boundary": `IsBoundary` holds exactly at the lengths of the files made
    of the first `m` chunks, `m = 0, …, n`; and `within` is a prefix of the chunk list. -/
theorem C13_boundary_meaning (ss : List Stored) (k : Nat) :
    (IsBoundary ss k ↔ ∃ m, m ≤ ss.length ∧ k = (fileOf (ss.take m)).length) ∧
    (∃ m, within ss k = ss.take m) ∧ (fileOf (within ss k)).length ≤ k :=
  ⟨isBoundary_iff ss k, within_prefix ss k, within_length_le ss k⟩

/-- "a strict load succeeds only at chunk boundaries", as an equivalence -/
theorem C13_strict_ok_iff_boundary (bodyOk : Nat → Bytes → Bool) (s : Stored) (ss : List Stored)
    (h : ∀ t ∈ s :: ss, t.WF bodyOk) (k : Nat) (hk : k ≤ (fileOf (s :: ss)).length) :
    (∃ chunks, loadFile bodyOk .error ((fileOf (s :: ss)).take k) = .ok chunks) ↔
      ∃ m, m ≤ (s :: ss).length ∧ k = (fileOf ((s :: ss).take m)).length := by
  rw [C13_strict bodyOk s ss h k hk, ← isBoundary_iff]
  by_cases hb : IsBoundary (s :: ss) k
  · rw [if_pos hb]; exact ⟨fun _ => hb, fun _ => ⟨_, rfl⟩⟩
  · rw [if_neg hb]
    constructor
    · rintro ⟨_, h⟩; cases h
    · intro h; exact absurd h hb

/-- "Neither load ever panics", the part that is a theorem: on every cut, in either mode, the load
    returns chunks that form a prefix of the file's chunks, or fails with `Incomplete`; no other
    error (`invalid`, `badChecksum`, …) and nothing else can come out. -/
theorem C13_result_forms (bodyOk : Nat → Bytes → Bool) (s : Stored) (ss : List Stored)
    (h : ∀ t ∈ s :: ss, t.WF bodyOk) (mode : OnPartial) (k : Nat)
    (hk : k ≤ (fileOf (s :: ss)).length) :
    (∃ m, loadFile bodyOk mode ((fileOf (s :: ss)).take k) = .ok (((s :: ss).take m).map Stored.chunk)) ∨
    loadFile bodyOk mode ((fileOf (s :: ss)).take k) = .error (.parse .incomplete) := by
  rw [loadFile_take s ss h mode k hk]
  obtain ⟨m, hm⟩ := within_prefix (s :: ss) k
  by_cases h0 : k = 0
  · left; exact ⟨0, by rw [if_pos h0]; rfl⟩
  · rw [if_neg h0]
    split
    · right; rfl
    · split
      · left; exact ⟨m, by rw [hm]⟩
      · right; rfl

/-! ### a concrete file: `encodeChunk 0 [7]` (11 bytes) followed by `encodeChunk 1 [8, 9]` (12 bytes) -/

def s₁ : Stored := .plain 0 [7]
def s₂ : Stored := .plain 1 [8, 9]

theorem wf₁₂ : ∀ t ∈ [s₁, s₂], t.WF anyBody := by
  intro t ht
  simp only [List.mem_cons, List.not_mem_nil, or_false] at ht
  rcases ht with rfl | rfl
  · exact ⟨by decide, by decide, by decide, rfl⟩
  · exact ⟨by decide, by decide, by decide, rfl⟩

theorem len₁ : s₁.bytes.length = 11 := by rw [s₁, Stored.bytes, encodeChunk_length]; decide +kernel
theorem len₂ : s₂.bytes.length = 12 := by rw [s₂, Stored.bytes, encodeChunk_length]; decide +kernel
theorem len₁₂ : (fileOf [s₁, s₂]).length = 23 := by simp [fileOf, len₁, len₂]

/-- cut at byte 15, inside the second chunk: the partial load keeps the first chunk -/
example : loadFile anyBody .ignore ((fileOf [s₁, s₂]).take 15) = .ok [s₁.chunk] := by
  rw [C13_partial_load anyBody s₁ [s₂] wf₁₂ 15 (by rw [len₁₂]; omega)]
  simp [within, len₁, len₂]

/-- … and the strict load fails with `Incomplete` -/
example : loadFile anyBody .error ((fileOf [s₁, s₂]).take 15) = .error (.parse .incomplete) := by
  rw [C13_strict anyBody s₁ [s₂] wf₁₂ 15 (by rw [len₁₂]; omega)]
  simp [IsBoundary, within, len₁, len₂, fileOf]

/-- cut at byte 11, the end of the first chunk: both loads succeed with the first chunk -/
example : loadFile anyBody .error ((fileOf [s₁, s₂]).take 11) = .ok [s₁.chunk] := by
  rw [C13_strict anyBody s₁ [s₂] wf₁₂ 11 (by rw [len₁₂]; omega)]
  simp [IsBoundary, within, len₁, len₂, fileOf]

/-- cut at byte 5, inside the first chunk: an error even with partial loads allowed -/
example : loadFile anyBody .ignore ((fileOf [s₁, s₂]).take 5) = .error (.parse .incomplete) := by
  rw [C13_partial_load anyBody s₁ [s₂] wf₁₂ 5 (by rw [len₁₂]; omega)]
  simp [len₁]

/-- the empty prefix: the empty document -/
example : loadFile anyBody .ignore ((fileOf [s₁, s₂]).take 0) = .ok [] := by
  rw [C13_partial_load anyBody s₁ [s₂] wf₁₂ 0 (by omega)]
  simp

set_option maxRecDepth 4000 in
/-- the model run on literal bytes (the same file cut at byte 15), not through the theorem -/
example : loadFile anyBody .ignore
      ([133, 111, 74, 131, 203, 242, 20, 19, 0, 1, 7,
        133, 111, 74, 131, 72, 112, 140, 14, 1, 2, 8, 9].take 15) =
    .ok [⟨0, [203, 242, 20, 19], [7], [7], chunkHash 0 [7]⟩] := by decide +kernel

set_option maxRecDepth 4000 in
example : loadFile anyBody .error
      ([133, 111, 74, 131, 203, 242, 20, 19, 0, 1, 7,
        133, 111, 74, 131, 72, 112, 140, 14, 1, 2, 8, 9].take 15) =
    .error (.parse .incomplete) := by decide +kernel

end AmVerif.Props.C13
