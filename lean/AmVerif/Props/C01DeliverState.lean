import AmVerif.Proofs.Graph
import AmVerif.Proofs.Spec
/-
  C01, both halves joined — "This holds however the changes arrived: in any order, duplicated,
  batched or one at a time": the delivery half (`AmVerif.Props.C01Deliver`, over the M5 model
  `AmVerif.Model.Graph`) composed with the spec half (`showDoc_perm` of `AmVerif.Proofs.Spec`: the
  rendered document is a function of the operation multiset), and C05's last sentence "The final
  state does not depend on arrival order."
  Property theorems only.
-/
namespace AmVerif.Props.C01DeliverState
open AmVerif AmVerif.Crdt

/-- C01 / C05: two complete delivery schedules over a well-formed universe whose operations have
    distinct ids end in documents that render identically. -/
theorem C01_deliver_same_document {cs : List Change} (wf : WF cs) {σ τ : List (List Change)}
    (hσ : ∀ call ∈ σ, ∀ c ∈ call, c ∈ cs) (hσall : ∀ c ∈ cs, ∃ call ∈ σ, c ∈ call)
    (hτ : ∀ call ∈ τ, ∀ c ∈ call, c ∈ cs) (hτall : ∀ c ∈ cs, ∃ call ∈ τ, c ∈ call)
    (hids : DistinctIds (cs.flatMap (·.ops))) :
    showDoc (deliverAll σ).ops = showDoc (deliverAll τ).ops := by
  have h := deliver_any_order wf hσ hσall hτ hτall
  have h1 := (deliver_complete wf hσ hσall).1
  apply showDoc_perm _ _ h.2.2.2.2
  exact hids.perm (h1.symm.flatMap_right _)

/-- non-vacuity: the `Ex` universe has distinct op ids, and the two schedules of
    `Props/C01Deliver` (different application orders) read the same non-trivial register for the
    root key: the independent root's value and the tail's last overwrite, as a conflict. -/
example :
    DistinctIds (Ex.allChanges.flatMap (·.ops)) ∧
    mapRegister (deliverAll [[Ex.e2], [Ex.e1], [Ex.b2], [Ex.c1], [Ex.b1], [Ex.e2], [Ex.a1], [Ex.m0]]).ops
      .root [107] = [⟨⟨1, [0xF]⟩, .scalar (.int 5)⟩, ⟨⟨5, [0xE]⟩, .scalar (.int 60)⟩] ∧
    mapRegister (deliverAll [[Ex.m0, Ex.e1, Ex.b1], [Ex.e2, Ex.b2, Ex.c1, Ex.a1, Ex.m0]]).ops
      .root [107] = [⟨⟨1, [0xF]⟩, .scalar (.int 5)⟩, ⟨⟨5, [0xE]⟩, .scalar (.int 60)⟩] ∧
    (deliverAll [[Ex.m0, Ex.e1, Ex.b1], [Ex.e2, Ex.b2, Ex.c1, Ex.a1, Ex.m0]]).ops.length = 7 :=
  ⟨by decide, by decide, by decide, by decide⟩

end AmVerif.Props.C01DeliverState
