import AmVerif.Proofs.DocCodecRebuild
/-
  C16 — "Any document that loads is internally consistent" — the document chunk, continued (see
  `Props/C16Doc.lean`): the two negated clauses that need a change of more than 18 ops, which
  `ChangeCollector` hands to `ProgressiveEncoder` (it re-encodes the ops of a change by position and
  checks neither their ids nor the change's `max_op`).
-/
namespace AmVerif.Props.C16Doc
open AmVerif AmVerif.Crdt AmVerif.DocCodec

set_option maxRecDepth 100000 in
/-- **C16 is FALSE: two rows with one op id are accepted** (changes of more than 18 ops).  In
    `Ex.dupImg` the last of the 19 rows of the one change carries id 18 instead of 19.  `load`
    accepts the chunk and rebuilds the ORIGINAL change (ids are implicit in a change), so the heads
    verify; the op store holds two rows `18@A` and none `19@A`. -/
theorem C16_doc_accepts_duplicate_ids :
    ∃ body d cs, loadDocBody 1000 body = .ok (d, cs) ∧ cs = Ex.big ∧ ¬ (d.ops.map (·.id)).Nodup := by
  have key : (match loadDocBody 1000 (encodeDoc Ex.dupImg) with
      | .ok (d, cs) => cs == Ex.big && !decide ((d.ops.map (·.id)).Nodup)
      | _ => false) = true := by decide +kernel
  cases hl : loadDocBody 1000 (encodeDoc Ex.dupImg) with
  | ok p =>
    obtain ⟨d, cs⟩ := p
    rw [hl] at key
    simp only [Bool.and_eq_true, beq_iff_eq, Bool.not_eq_true', decide_eq_false_iff_not] at key
    exact ⟨_, d, cs, hl, key.1, key.2⟩
  | err e => rw [hl] at key; cases key
  | panic p => rw [hl] at key; cases key

set_option maxRecDepth 100000 in
/-- **C16 is FALSE: a `max_op` that disagrees with the ops is accepted** (changes of more than 18
    ops).  `Ex.maxImg` claims `max_op = 4 000 000 000` for a change whose last op is `19@A`; `load`
    accepts it (the change is rebuilt unchanged, `max_op` is not part of a change).  The document's
    next op id would be 4 000 000 001, and `get_changes`, which trusts the column, panics (L1). -/
theorem C16_doc_accepts_wrong_max_op :
    ∃ body d cs, loadDocBody 1000 body = .ok (d, cs) ∧ cs = Ex.big ∧
      ∃ m ∈ d.changes, ∃ c ∈ cs, m.maxOp ≠ c.maxOp := by
  have key : (match loadDocBody 1000 (encodeDoc Ex.maxImg) with
      | .ok (d, cs) => cs == Ex.big && d.changes.any (fun m => cs.any (fun c => m.maxOp != c.maxOp))
      | _ => false) = true := by decide +kernel
  cases hl : loadDocBody 1000 (encodeDoc Ex.maxImg) with
  | ok p =>
    obtain ⟨d, cs⟩ := p
    rw [hl] at key
    simp only [Bool.and_eq_true, beq_iff_eq, List.any_eq_true, bne_iff_ne] at key
    obtain ⟨h1, m, hm, c, hc, hne⟩ := key
    exact ⟨_, d, cs, hl, h1, m, hm, c, hc, hne⟩
  | err e => rw [hl] at key; cases key
  | panic p => rw [hl] at key; cases key

end AmVerif.Props.C16Doc

