import AmVerif.Proofs.ChangeCodec
/-
  C18 — "Change and bundle encodings round-trip: `Change::from_bytes` of a change's raw bytes or of
  its compressed bytes gives an equal change with the same hash.  Expanding a change (`decode`) and
  re-encoding it gives the same hash.  A bundle of any set of changes gives back byte-identical
  changes, and loading the bundle has the same effect as applying them."
  Property theorems only; helpers are in `AmVerif.Proofs.ChangeCodec`.
  Model: `AmVerif.Model.ChangeCodec` — `fromBytes` (`Change::from_bytes`), `expand` (`Change::decode`),
  `encodeChange` (`Change::from(ExpandedChange)`), over `Model/Chunk` (framing, `Inflate`) and the
  legacy column iterators of `columnar/encoding` (which are NOT hexane's loaders: lenient varints,
  no canonical-form validation).

  What is proved, and what is not:
  * first sentence, compressed form: `C18_compressed`, `C18_compressed_equal_change` (full, under the
    explicit hypothesis that the stored bytes inflate to the change body; no property of DEFLATE is
    assumed).  The raw-bytes half is determinism of `fromBytes` (a function of the bytes).
  * second sentence: FALSE for changes that `from_bytes` accepts but that are not in the canonical
    form the library writes — `C18_reencode_hash_fails_foreign` (negated form, concrete witness).
    For canonical (library-written) changes the general statement `decode (encode x) = x` is only
    proved at the column layer: `C18_rle_column_roundtrip`, `C18_delta_column_roundtrip` (the legacy
    `RleDecoder` / `DeltaDecoder` iterators on the legacy encoders' output, all-null columns
    included); the whole-change statement is `C18_reencode_sample` on a concrete change only.
    THE GENERAL STATEMENT IS NOW PROVED in `Props/C18Full.lean`: `C18_change_roundtrip`
    (`ChangeWF c → decodeChange (encodeChange c) = ok (hash, c)`: the boolean / value / group
    iterators in lock step, the column-layout parser on the canonical column table, the metadata
    fields and the actor-table translation), `C18_reencode_same_bytes`, `C18_reencode_same_hash`;
    the hypothesis `ChangeWF` is evaluated on every library-written change of the correspondence run
    (`codec.wf`), next to `codec.reencode` (byte-compared with the real `Change::from(change.decode())`)
    and `codec.expanded` / `codec.change` on every hand-built expanded change.
  * third sentence (bundles): not modelled; decided by the direct oracles `! C18 sig=bundle-*` of
    the `codec` engine (byte identity of `to_changes()`, re-parse, load = apply) only.
-/
namespace AmVerif.Props.C18
open AmVerif AmVerif.Leb AmVerif.Chunk AmVerif.ChangeCodec AmVerif.Hexane

/-- First sentence, compressed bytes: what `Change::bytes()` writes for a change with body `body` —
    magic, the change's checksum, type 2, and bytes `z` that inflate to `body` — is read by
    `Change::from_bytes` exactly like the plain chunk: same outcome, whatever it is. -/
theorem C18_compressed (limit : Nat) (z body : Bytes) (hinf : Inflate.inflateExact z = some body)
    (hz : z.length < 2 ^ 64) (hb : body.length < 2 ^ 64) :
    fromBytes limit (encodeChunkWith ((chunkHash 1 body).take 4) 2 z) = fromBytes limit (encodeChunk 1 body) :=
  fromBytes_compressed limit z body hinf hz hb

/-- … hence an equal change with the same hash (every field of the stored change, the hash and the
    op rows included) -/
theorem C18_compressed_equal_change (limit : Nat) (z body : Bytes) (s : ChangeCodec.Stored)
    (hinf : Inflate.inflateExact z = some body) (hz : z.length < 2 ^ 64) (hb : body.length < 2 ^ 64)
    (h : fromBytes limit (encodeChunk 1 body) = .ok s) :
    fromBytes limit (encodeChunkWith ((chunkHash 1 body).take 4) 2 z) = .ok s ∧
      s.hash = chunkHash 1 body := by
  refine ⟨by rw [C18_compressed limit z body hinf hz hb, h], ?_⟩
  obtain ⟨ch, hp, hh, -, -⟩ := fromBytes_chunk h
  have h2 := Stored.parse (bodyOk := fun _ _ => true) (s := .plain 1 body) ⟨by decide, by decide, hb, rfl⟩ []
  simp only [Chunk.Stored.bytes, List.append_nil, Chunk.Stored.chunk] at h2
  rw [h2] at hp
  simp only [Except.ok.injEq, Prod.mk.injEq, and_true] at hp
  rw [hh, ← hp]

set_option maxRecDepth 20000 in
/-- non-vacuity: the hypotheses are met by the sample change with a stored-block DEFLATE stream
    (`01 len ~len body`), and the compressed chunk decodes to the same three ops and hash -/
example :
    let body := sampleChange.drop 10
    let z : Bytes := [1, 75, 0, 180, 255] ++ body
    (Inflate.inflateExact z == some body) &&
    (match fromBytes 100 (encodeChunkWith ((chunkHash 1 body).take 4) 2 z), fromBytes 100 sampleChange with
     | .ok a, .ok b => a.hash == b.hash && a.rows == b.rows && a.rows.length == 3
     | _, _ => false) = true := by decide +kernel

/-- Second sentence, NEGATED for foreign changes: `foreignChange` (the sample change with an unused
    actor in its actor table, checksum valid) is accepted by `from_bytes`, expands to the same
    operations as the sample, and re-encoding that expansion gives the sample's bytes — another
    chunk, hence another hash.  (The real `Change::from(c.decode()).hash() != c.hash()` for these
    bytes too: direct oracle `! C18 sig=reencode-hash-foreign`.) -/
theorem C18_reencode_hash_fails_foreign :
    ∃ bs h x, decodeChange 100 bs = .ok (h, x) ∧ chunkHash 1 ((encodeChange x).drop 10) ≠ h := by
  have key : (match decodeChange 100 foreignChange with
      | .ok (h, x) => x.ops.length == 3 && (chunkHash 1 ((encodeChange x).drop 10) != h)
      | _ => false) = true := by
    set_option maxRecDepth 20000 in decide +kernel
  cases hd : decodeChange 100 foreignChange with
  | ok p =>
    obtain ⟨h, x⟩ := p
    rw [hd] at key
    simp only [Bool.and_eq_true, bne_iff_ne] at key
    exact ⟨foreignChange, h, x, hd, key.2⟩
  | err e => rw [hd] at key; cases key
  | panic p => rw [hd] at key; cases key

set_option maxRecDepth 20000 in
/-- Second sentence on a concrete library-written change: expanding the sample and re-encoding it
    gives back the same bytes (hence the same hash) -/
theorem C18_reencode_sample :
    (match decodeChange 100 sampleChange with
     | .ok (_, x) => encodeChange x == sampleChange
     | _ => false) = true := by decide +kernel

/-- Second sentence, column layer (PARTIAL towards `decode (encode x) = x`, see the header): an RLE
    column as the legacy `RleEncoder` writes it (`rleEnc`: nothing at all for an all-null column),
    pulled value by value through the legacy `RleDecoder` (`rleNext`), yields exactly the values
    written and leaves the decoder exhausted.  Hypotheses: the codec's values are packable
    (`Lawful`), fewer than 2^63 rows. -/
theorem C18_rle_column_roundtrip {α : Type} [DecidableEq α] {c : ValCodec α} {Valid : α → Prop}
    (law : Lawful c Valid) (xs : List (Option α)) (hlen : xs.length < two63)
    (hv : ListValid Valid true xs) :
    ∃ s', drain c xs.length (RleSt.init (rleEnc c xs)) = .ok (xs, s') ∧ s'.done = true :=
  rle_column_roundtrip law xs hlen hv

/-- the action / actor / counter columns (`u64`) -/
theorem C18_u64_column_roundtrip (xs : List (Option Nat)) (hlen : xs.length < two63)
    (hv : ListValid validU64 true xs) :
    ∃ s', drain cU64 xs.length (RleSt.init (rleEnc cU64 xs)) = .ok (xs, s') ∧ s'.done = true :=
  rle_column_roundtrip lawful_u64 xs hlen hv

/-- non-vacuity: an action column `1,1,1,0,3` and an all-null key-actor column -/
example : rleEnc cU64 [some 1, some 1, some 1, some 0, some 3] = [3, 1, 126, 0, 3] := by decide
example : rleEnc cU64 [none, none, none] = [] := by decide
example :
    (match drain cU64 5 (RleSt.init [3, 1, 126, 0, 3]) with
     | .ok (xs, s) => xs == [some 1, some 1, some 1, some 0, some 3] && s.done
     | _ => false) = true := by decide

/-- Second sentence, column layer: a delta column as the legacy `DeltaEncoder` writes it, read back
    through the legacy `DeltaDecoder`; `NoSat`: values and successive differences fit an `i64` (op
    counters are below 2^32), so neither `saturating_sub` nor `saturating_add` saturates. -/
theorem C18_delta_column_roundtrip (xs : List (Option Int)) (hlen : xs.length < two63) (hs : NoSat xs 0) :
    ∃ s', drainDelta xs.length (DeltaSt.init (deltaEnc xs)) = .ok (xs, s') ∧ s'.rle.done = true :=
  delta_column_roundtrip xs hlen hs

/-- non-vacuity: key counters 5, 6, 7 (one run of +1 after the first), a null, then 3 -/
example :
    (match drainDelta 5 (DeltaSt.init (deltaEnc [some 5, some 6, some 7, none, some 3])) with
     | .ok (xs, _) => xs == [some 5, some 6, some 7, none, some 3]
     | _ => false) = true := by decide

end AmVerif.Props.C18
