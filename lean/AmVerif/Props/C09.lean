import AmVerif.Proofs.PatchDiff
import AmVerif.Proofs.PatchLocal
import AmVerif.Proofs.PatchObj
/-
  C09 — "Incremental patches keep a materialized view equal to the document: For every mutating
  path (local edits, commit, rollback, apply_changes, merge, load_incremental, receiving a sync
  message, loading with a patch log, isolate/integrate), the emitted patches turn the previous state
  into the new state. Applied to a view of the previous state, they yield exactly the new state,
  including conflict flags and counter values."

  Model: `AmVerif.Model.PatchDiff` — `finalizeOp` (`resolve_action`, `increment_replacement`,
  `finalize_op` and the re-put / conflict flag of `local_map_op` / `local_list_op`: the patch of a
  local operation), `regPatch` / `listPatch` (`ValueState::map_process` / `list_flush` with
  `OpValueOption::{set, expose, increment}`, `process_doc_op`, `do_increment`: the patch
  `apply_changes`, `merge`, `load_incremental` and sync emit for one register), applied by
  `applyEvent` (= `hydrate::Map::apply` on the register's entry, `applyMap_event`).  `load` with a
  patch log and `isolate`/`integrate` go through `DiffIter` (`patch_to`, `log_current_state`): C08.
  Tie: `patches` engine — a patch-logged `AutoCommit` is driven through every mutating path; after
  every step the real `diff_incremental()` patches are applied by the real applier to a persistent
  view (direct oracle) and by the Lean `applyPatches` to `hview` of the previous heads
  (`crdt.patch.apply … C09`), and compared with the real `hydrate`.

  History: on the tree as found the property was false in eight register-level classes (findings D16,
  D17, D18, E1, E2, E3, G1, G3 — see the `fix:` commits in /repo and corpus/C09/*.replay); all are
  repaired, the model follows the repaired code, and the former witnesses are kept as examples.
  `regPatch` is proved for one incoming value operation per register (`_partial`: batches with
  several operations on one register are checked exhaustively up to two incoming operations by
  evaluation and by the run, not proved in general) and lifted to any number of registers of one
  map.  `commit` and `rollback` emit no patches of their own (the transaction's branch of the log is
  merged resp. dropped); they are covered by the run only.
-/
namespace AmVerif.Props.C09
open AmVerif AmVerif.Crdt

/-! ### local edits -/

/-- C09 for a local `put` / `put_object` / `delete` / `increment` on a map key or list element.
    `ops` are the register's visible values (ascending id, winner last).  The patch logged for the
    call turns the register's entry (winner, conflict flag, counter value) into the entry after the
    operation as the CRDT rules define it.  No input class is excluded (an increment needs a counter
    in the register, otherwise the call fails with `MissingCounter`). -/
theorem C09_finalizeOp_sound (ops : List PVal) (a : LocalAct)
    (hpre : ∀ n, a = .inc n → (ops.filter PVal.isCounter).length ≥ 1) :
    applyEvent (localBefore ops) (finalizeOp ops a) = .ok (localAfter ops a) :=
  finalizeOp_sound ops a hpre

/-- non-vacuity, and the former witnesses D16 (put of the winner's value on a conflicted register:
    corpus/C09/d16-noop-put-resolves-conflict.replay) and D17 (increment on two conflicting
    counters: corpus/C09/d17-increment-on-conflicting-counters.replay) -/
example :
    finalizeOp [.scalar (.str [120]), .scalar (.counter 4)] (.inc 3) = .put (.scalar (.counter 7)) false false ∧
    -- D16: the winner is put again, unconflicted
    finalizeOp [.scalar (.int 1), .scalar (.int 2)] (.put (.scalar (.int 2))) = .put (.scalar (.int 2)) false false ∧
    localAfter [.scalar (.int 1), .scalar (.int 2)] (.put (.scalar (.int 2))) = some (false, .scalar (.int 2)) ∧
    -- D17: the greater counter, incremented, still conflicted
    finalizeOp [.scalar (.counter 1), .scalar (.counter 5)] (.inc 2) = .put (.scalar (.counter 7)) true false ∧
    localAfter [.scalar (.counter 1), .scalar (.counter 5)] (.inc 2) = some (true, .scalar (.counter 7)) := by
  decide

/-! ### apply_changes, merge, load_incremental, sync: `map_process` -/

/-- C09 for the ingestion paths, one register that was unconflicted before and receives one value
    operation (`_partial`: one incoming operation).  `d` is the register's only pre-existing visible
    operation, `d.deleted` tells whether the incoming batch deletes or overwrites it, `c` is the
    incoming visible set/make operation.  The patch `map_process` logs gives the right entry: the
    new value with `conflict = (d survives)`, or a conflict flag on the surviving winner `d`. -/
theorem C09_regPatch_single_sound_partial (d : DocOp) (cid : OpId) (cv : PVal)
    (hlt : d.id.lt cid = true ∨ cid.lt d.id = true) :
    let st := foldChange (foldDoc [d]) [.value cid cv]
    applyEvent (docEntryBefore [d]) (regPatch st.1 st.2) =
      .ok (if d.deleted then some (false, cv)
           else if d.id.lt cid then some (true, cv) else some (true, d.val)) := by
  intro st
  have hst : st = (some ⟨d.id, d.val, d.deleted, false, false⟩, some ⟨cid, cv, false, false, false⟩) := by
    simp [st, foldChange, stepChange, foldDoc, ovSet]
  rw [hst]
  rcases hlt with hlt | hlt
  · cases hdel : d.deleted <;> simp [regPatch, hlt, hdel, applyEvent, docEntryBefore]
  · cases hdel : d.deleted with
    | true => simp [regPatch, hdel, applyEvent, docEntryBefore]
    | false =>
      have hnot : d.id.lt cid = false := by
        cases h : d.id.lt cid with
        | false => rfl
        | true =>
          exfalso
          have hasym : ∀ (a b : Bytes), bytesLt a b = true → bytesLt b a = true → False :=
            fun a b h1 h2 => bytesLt_asymm h1 h2
          simp only [OpId.lt, Bool.or_eq_true, decide_eq_true_eq, Bool.and_eq_true, beq_iff_eq] at h hlt
          rcases h with h | ⟨h1, h2⟩ <;> rcases hlt with hl | ⟨hl1, hl2⟩
          · omega
          · omega
          · omega
          · exact hasym _ _ h2 hl2
      simp [regPatch, hlt, hnot, hdel, applyEvent, docEntryBefore]

/-- the former witnesses of the ingestion paths, now right (corpus/C09/e1-…, d18-…, e2-…, g1-…,
    g3-….replay): E1 — a concurrent lower put arriving with a delete of the winner; D18 / E2 — a
    remote increment naming a counter and a non-counter; G1 — an increment of the winner arriving
    with a concurrent lower value; G3 — a counter with earlier increments exposed by a delete. -/
example :
    -- E1: the incoming value is put (it used to be a `Conflict` patch on the deleted value)
    (let st := foldChange (foldDoc [⟨⟨1, [2]⟩, .scalar (.int 1), true⟩]) [.value ⟨1, [1]⟩ (.scalar (.int 2))]
     regPatch st.1 st.2) = .put (.scalar (.int 2)) false false ∧
    -- D18: counter 1@01 and winner int 7 (1@02), increment naming both: a put of the counter
    (let st := foldChange (foldDoc [⟨⟨1, [1]⟩, .scalar (.counter 1), false⟩, ⟨⟨1, [2]⟩, .scalar (.int 7), true⟩])
        [.inc [⟨1, [1]⟩, ⟨1, [2]⟩] 2]
     regPatch st.1 st.2) = .put (.scalar (.counter 3)) false false ∧
    -- E2: the counter is the winner: the put clears the flag
    (let st := foldChange (foldDoc [⟨⟨1, [1]⟩, .scalar (.int 7), true⟩, ⟨⟨1, [2]⟩, .scalar (.counter 1), false⟩])
        [.inc [⟨1, [1]⟩, ⟨1, [2]⟩] 2]
     regPatch st.1 st.2) = .put (.scalar (.counter 3)) false false ∧
    -- G1: winner counter 1 (1@22), batch = lower put of counter 0 (1@11) and increment -1 of the winner
    (let st := foldChange (foldDoc [⟨⟨1, [0x22]⟩, .scalar (.counter 1), false⟩])
        [.value ⟨1, [0x11]⟩ (.scalar (.counter 0)), .inc [⟨1, [0x22]⟩] (-1)]
     regPatch st.1 st.2) = .put (.scalar (.counter 0)) true true := by
  decide

/-! ### several registers of one map -/

/-- C09 for a batch touching several registers of one map (`apply_changes`, `merge`,
    `load_incremental`, sync; also a local transaction): the lifting.  `keys` are the touched keys,
    `evs k` the event logged for key `k` (by `map_process` or `finalize_op`).  If every touched
    register's event is right for that register — applied to the view's entry of `k` it gives
    `after k` — then the patches of the whole batch, applied in key order by `hydrate::Map::apply`,
    succeed, bring every touched key to its new entry and leave every other key of the view alone. -/
theorem C09_patches_sound_mapBatch (keys : List Bytes) (hnd : keys.Nodup) (evs : Bytes → RegEvent)
    (after : Bytes → REntry) (es : List (Bytes × Bool × HView))
    (hreg : ∀ k ∈ keys, applyEvent (shallowEntry es k) (evs k) = .ok (after k)) :
    ∃ es', applyActions es (keys.flatMap (fun k => eventActions k (evs k))) = .ok es' ∧
      (∀ k ∈ keys, shallowEntry es' k = (after k).norm) ∧
      (∀ k, k ∉ keys → mapGet k es' = mapGet k es) :=
  applyActions_keys keys hnd evs after es hreg

/-- … instantiated with the proved register theorems: a batch that puts one new value on each of
    several unconflicted keys. -/
theorem C09_patches_sound_mapBatch_single (keys : List Bytes) (hnd : keys.Nodup)
    (d : Bytes → DocOp) (cid : Bytes → OpId) (cv : Bytes → PVal)
    (hlt : ∀ k ∈ keys, (d k).id.lt (cid k) = true ∨ (cid k).lt (d k).id = true)
    (es : List (Bytes × Bool × HView))
    (hview : ∀ k ∈ keys, shallowEntry es k = docEntryBefore [d k]) :
    let ev := fun k => let st := foldChange (foldDoc [d k]) [.value (cid k) (cv k)]; regPatch st.1 st.2
    let after : Bytes → REntry := fun k =>
      if (d k).deleted then some (false, cv k)
      else if (d k).id.lt (cid k) then some (true, cv k) else some (true, (d k).val)
    ∃ es', applyActions es (keys.flatMap (fun k => eventActions k (ev k))) = .ok es' ∧
      (∀ k ∈ keys, shallowEntry es' k = (after k).norm) ∧
      (∀ k, k ∉ keys → mapGet k es' = mapGet k es) := by
  intro ev after
  apply applyActions_keys keys hnd ev after es
  intro k hk
  rw [hview k hk]
  exact C09_regPatch_single_sound_partial (d k) (cid k) (cv k) (hlt k hk)

/-- non-vacuity: keys `a`, `b` holding 1 and 2; the batch overwrites `a` with 5 (the old value is
    deleted) and puts a concurrent greater 6 on `b`: the view becomes {a: 5, b: 6 (conflicted)}. -/
example :
    let es : List (Bytes × Bool × HView) := [([97], false, .scalar (.int 1)), ([98], false, .scalar (.int 2))]
    applyActions es (eventActions [97] (.put (.scalar (.int 5)) false false) ++
        eventActions [98] (.put (.scalar (.int 6)) true false)) =
      .ok [([97], false, .scalar (.int 5)), ([98], true, .scalar (.int 6))] := by
  rfl

/-! ### the applier accepts what the library produced (clause of C37) -/

/-- "Values the library itself produced, such as patches passed to `apply_patches`, are always
    accepted" — for maps the applier never panics, whatever the patch … -/
theorem C37_applyMap_no_panic (es : List (Bytes × Bool × HView)) (a : PatchAction) :
    (applyMap es a).isPanic = false :=
  applyMap_no_panic es a

example : (applyMap [([97], false, .scalar (.int 1))] (.increment (.key [97]) 2)) = .err .badIncrement := by
  rfl

/-- … and a `Mark` patch, which `diff`, `diff_incremental` and the ingestion paths produce for a text
    whose marks change, is accepted (former finding D13: `todo!()`).
    corpus/C09/d13-mark-todo.replay. -/
theorem C37_apply_mark_accepted (e : Enc) (us : List Nat) (obj : ObjId) :
    applyPatch e (.text us) ⟨obj, [], .mark⟩ = .ok (.text us) := rfl

end AmVerif.Props.C09
