import AmVerif.Proofs.PatchDiff
import AmVerif.Proofs.PatchLocal
/-
  C09 — "Incremental patches keep a materialized view equal to the document: For every mutating
  path (local edits, commit, rollback, apply_changes, merge, load_incremental, receiving a sync
  message, loading with a patch log, isolate/integrate), the emitted patches turn the previous state
  into the new state. Applied to a view of the previous state, they yield exactly the new state,
  including conflict flags and counter values."

  Model: `AmVerif.Model.PatchDiff` — `finalizeOp` (`resolve_action`, `increment_replacement`,
  `TransactionInner::finalize_op`: the patch of a local operation), `regPatch` / `listPatch`
  (`ValueState::map_process` / `list_flush` with `OpValueOption::{set, expose, increment}`: the patch
  `apply_changes`, `merge`, `load_incremental` and sync emit for one register), applied by
  `applyEvent` (= `hydrate::Map::apply` on the register's entry).  `load` with a patch log and
  `isolate`/`integrate` go through `DiffIter` (`patch_to`, `log_current_state`): C08.
  Tie: `patches` engine — a patch-logged `AutoCommit` is driven through every mutating path, after
  every step the real `diff_incremental()` patches are applied by the real applier to a persistent
  view (direct oracle) and by the Lean `applyPatches` to `hview` of the previous heads
  (`crdt.patch.apply … C09`), and compared with the real `hydrate`.

  The property is FALSE on the code as it stands: five register-level input classes (findings D16,
  D17, D18, E1, E2) are refuted on concrete witnesses that replay on the real code; what holds is
  proved with exactly those classes excluded.  `commit` and `rollback` emit no patches of their own
  (the transaction's branch of the log is merged resp. dropped); they are covered by the run only.
-/
namespace AmVerif.Props.C09
open AmVerif AmVerif.Crdt

/-! ### local edits -/

/-- C09 for a local `put` / `put_object` / `delete` / `increment` on a map key or list element — the
    part that holds.  `ops` are the register's visible values (ascending id, winner last).  Unless
    the call is a put of the winner's own scalar value on a conflicted register (`d16Class`) or an
    increment on a register holding more than one counter (`d17Class`), the patch `finalize_op` logs
    turns the register's entry (winner, conflict flag, counter value) into the entry after the
    operation as the CRDT rules define it. -/
theorem C09_finalizeOp_sound_partial (ops : List PVal) (a : LocalAct)
    (hpre : ∀ n, a = .inc n → (ops.filter PVal.isCounter).length ≥ 1)
    (h16 : d16Class ops a = false) (h17 : d17Class ops a = false) :
    applyEvent (localBefore ops) (finalizeOp ops a) = .ok (localAfter ops a) :=
  finalizeOp_sound ops a hpre h16 h17

/-- non-vacuity: an increment on a conflicted register {str, counter 4} — the counter survives
    alone, and the patch is a put of the materialised counter with the flag cleared. -/
example :
    let ops : List PVal := [.scalar (.str [120]), .scalar (.counter 4)]
    d16Class ops (.inc 3) = false ∧ d17Class ops (.inc 3) = false ∧
    (ops.filter PVal.isCounter).length ≥ 1 ∧
    localBefore ops = some (true, .scalar (.counter 4)) ∧
    finalizeOp ops (.inc 3) = .put (.scalar (.counter 7)) false false ∧
    localAfter ops (.inc 3) = some (false, .scalar (.counter 7)) := by decide

/-- C09 REFUTED for local edits as stated (finding D16): key `a` conflicted between `int 1` and the
    winner `int 2`; `put(a, 2)` resolves the conflict (`ConflictResolution(Delete)`, a `noop` op for
    `finalize_op`) and logs nothing: the view keeps `conflict = true`.
    Replay: corpus/C09/d16-noop-put-resolves-conflict.replay. -/
theorem C09_local_put_winner_value_false :
    ¬ ∀ (ops : List PVal) (v : PVal),
        applyEvent (localBefore ops) (finalizeOp ops (.put v)) = .ok (localAfter ops (.put v)) := by
  intro h
  have := h [.scalar (.int 1), .scalar (.int 2)] (.scalar (.int 2))
  revert this
  decide

example :
    let ops : List PVal := [.scalar (.int 1), .scalar (.int 2)]
    d16Class ops (.put (.scalar (.int 2))) = true ∧
    finalizeOp ops (.put (.scalar (.int 2))) = .nothing ∧
    localBefore ops = some (true, .scalar (.int 2)) ∧
    localAfter ops (.put (.scalar (.int 2))) = some (false, .scalar (.int 2)) := by decide

/-- C09 REFUTED for local increments (finding D17): key `a` holds two conflicting counters 1 and 5
    (5 wins); `increment(a, 2)` logs `PutMap{counter 3, conflict: false}` (`increment_replacement`
    takes the FIRST counter) while the document shows counter 7, still conflicted.
    Replay: corpus/C09/d17-increment-on-conflicting-counters.replay. -/
theorem C09_local_increment_two_counters_false :
    ¬ ∀ (ops : List PVal) (n : Int), (ops.filter PVal.isCounter).length ≥ 1 →
        applyEvent (localBefore ops) (finalizeOp ops (.inc n)) = .ok (localAfter ops (.inc n)) := by
  intro h
  have := h [.scalar (.counter 1), .scalar (.counter 5)] 2 (by decide)
  revert this
  decide

example :
    let ops : List PVal := [.scalar (.counter 1), .scalar (.counter 5)]
    d17Class ops (.inc 2) = true ∧
    finalizeOp ops (.inc 2) = .put (.scalar (.counter 3)) false false ∧
    localAfter ops (.inc 2) = some (true, .scalar (.counter 7)) := by decide

/-! ### apply_changes, merge, load_incremental, sync: `map_process` -/

/-- C09 for the ingestion paths, one register that was unconflicted (or absent) before and receives
    one value operation — the part that holds.  `d` is the register's only pre-existing visible
    operation, `del` tells whether the incoming batch deletes or overwrites it, `c` is the incoming
    visible set/make operation.  Unless `c` has the SMALLER id and `d` is deleted by the batch
    (finding E1), the patch `map_process` logs gives the right entry: the new value with
    `conflict = (d survives)`, or a conflict flag on the surviving winner `d`. -/
theorem C09_regPatch_single_sound_partial (d : DocOp) (cid : OpId) (cv : PVal)
    (hne : d.id ≠ cid) (hlt : d.id.lt cid = true ∨ cid.lt d.id = true)
    (hE1 : ¬ (cid.lt d.id = true ∧ d.deleted = true)) :
    let doc := foldDoc [d]
    applyEvent (docEntryBefore [d]) (regPatch doc (foldChange doc [.value cid cv])) =
      .ok (if d.deleted then some (false, cv)
           else if d.id.lt cid then some (true, cv) else some (true, d.val)) := by
  intro doc
  have hdoc : doc = some ⟨d.id, d.val, d.deleted, false, false⟩ := by
    simp [doc, foldDoc, ovSet]
  have hchg : foldChange doc [.value cid cv] = some ⟨cid, cv, false, false, false⟩ := by
    simp [foldChange, stepChange, ovSet]
  rw [hchg, hdoc]
  rcases hlt with hlt | hlt
  · cases hdel : d.deleted <;> simp [regPatch, hlt, hdel, applyEvent, docEntryBefore]
  · have hnot : d.id.lt cid = false := by
      cases h : d.id.lt cid with
      | false => rfl
      | true =>
        -- both `d.id < cid` and `cid < d.id` cannot hold
        exfalso
        simp only [OpId.lt, Bool.or_eq_true, decide_eq_true_eq, Bool.and_eq_true, beq_iff_eq] at h hlt
        rcases h with h | ⟨h1, h2⟩ <;> rcases hlt with hl | ⟨hl1, hl2⟩
        · omega
        · omega
        · omega
        · -- equal counters: the actors would be strictly ordered both ways
          have : ∀ (a b : Bytes), bytesLt a b = true → bytesLt b a = true → False := by
            intro a
            induction a with
            | nil => intro b h1 h2; cases b <;> simp [bytesLt] at h1 h2
            | cons x xs ih =>
              intro b h1 h2
              cases b with
              | nil => simp [bytesLt] at h1
              | cons y ys =>
                simp only [bytesLt, Bool.or_eq_true, decide_eq_true_eq, Bool.and_eq_true, beq_iff_eq] at h1 h2
                rcases h1 with h1 | ⟨e1, h1⟩ <;> rcases h2 with h2 | ⟨e2, h2⟩
                · exact absurd h1 (by intro hh; exact (UInt8.lt_irrefl x) (UInt8.lt_trans hh h2))
                · subst e2; exact UInt8.lt_irrefl _ h1
                · subst e1; exact UInt8.lt_irrefl _ h2
                · exact ih ys h1 h2
          exact this _ _ h2 hl2
    have hdel : d.deleted = false := by
      cases h : d.deleted with
      | false => rfl
      | true => exact absurd ⟨hlt, h⟩ hE1
    simp [regPatch, hlt, hnot, hdel, applyEvent, docEntryBefore]

/-- non-vacuity: a concurrent put with a greater id on a surviving value → conflicted put -/
example :
    let d : DocOp := ⟨⟨1, [1]⟩, .scalar (.int 1), false⟩
    let doc := foldDoc [d]
    regPatch doc (foldChange doc [.value ⟨1, [2]⟩ (.scalar (.int 2))]) = .put (.scalar (.int 2)) true false := by
  decide

/-- C09 REFUTED for `apply_changes` (finding E1, values included): key `a` holds `int 1` (1@02);
    the batch holds a concurrent `put(a, 2)` with the smaller id 1@01 and a delete of 1@02.
    `map_process` takes the branch `c.id < d.id` without looking at `d.deleted` and logs a
    `Conflict` patch: the view shows `int 1` conflicted, the document shows `int 2` unconflicted.
    Replay: corpus/C09/e1-flag-instead-of-put.replay. -/
theorem C09_regPatch_deleted_winner_false :
    let d : DocOp := ⟨⟨1, [2]⟩, .scalar (.int 1), true⟩
    let doc := foldDoc [d]
    let ev := regPatch doc (foldChange doc [.value ⟨1, [1]⟩ (.scalar (.int 2))])
    ev = .flag ∧
    applyEvent (docEntryBefore [d]) ev = .ok (some (true, .scalar (.int 1))) ∧
    -- the document afterwards: only the incoming value is left
    (some (false, PVal.scalar (.int 2)) : REntry) ≠ some (true, .scalar (.int 1)) := by
  decide

/-- C09 and C37 REFUTED for `apply_changes` (finding D18): key `a` conflicted between a counter
    (1@01) and the winner `int 7` (1@02); an incoming increment names both as predecessors (so it
    deletes `int 7` and increments the counter).  `map_process` logs `Increment 2`, addressed to a
    view entry that holds `int 7`: `apply_patches` answers `BadIncrement`.
    Replay: corpus/C09/d18-bad-increment.replay. -/
theorem C09_regPatch_bad_increment :
    let ds : List DocOp := [⟨⟨1, [1]⟩, .scalar (.counter 1), false⟩, ⟨⟨1, [2]⟩, .scalar (.int 7), true⟩]
    let doc := foldDoc ds
    let ev := regPatch doc (foldChange doc [.inc [⟨1, [1]⟩, ⟨1, [2]⟩] 2])
    ev = .inc 2 ∧ docEntryBefore ds = some (true, .scalar (.int 7)) ∧
    applyEvent (docEntryBefore ds) ev = .err .badIncrement := by
  decide

/-- C09 REFUTED for `apply_changes` (finding E2): as D18 but the counter (1@02) is the winner and
    `int 7` (1@01) the loser: the `Increment` patch applies, but the conflict it resolved stays
    flagged in the view.  Replay: corpus/C09/e2-increment-keeps-conflict-flag.replay. -/
theorem C09_regPatch_increment_stale_flag :
    let ds : List DocOp := [⟨⟨1, [1]⟩, .scalar (.int 7), true⟩, ⟨⟨1, [2]⟩, .scalar (.counter 1), false⟩]
    let doc := foldDoc ds
    let ev := regPatch doc (foldChange doc [.inc [⟨1, [1]⟩, ⟨1, [2]⟩] 2])
    ev = .inc 2 ∧
    applyEvent (docEntryBefore ds) ev = .ok (some (true, .scalar (.counter 3))) ∧
    -- the document afterwards: the counter alone
    (some (false, PVal.scalar (.counter 3)) : REntry) ≠ some (true, .scalar (.counter 3)) := by
  decide

/-! ### the applier accepts what the library produced (clause of C37) -/

/-- "Values the library itself produced, such as patches passed to `apply_patches`, are always
    accepted" — for maps the applier at least never panics, whatever the patch. -/
theorem C37_applyMap_no_panic (es : List (Bytes × Bool × HView)) (a : PatchAction) :
    (applyMap es a).isPanic = false :=
  applyMap_no_panic es a

example : (applyMap [([97], false, .scalar (.int 1))] (.increment (.key [97]) 2)) = .err .badIncrement := by
  rfl

/-- … REFUTED for text and lists (finding D13): any `Mark` patch, which `diff`, `diff_incremental`
    and the ingestion paths produce for a text whose marks change, makes `apply_patches` panic
    (`todo!()`, hydrate/text.rs:58 and hydrate/list.rs:93).
    Replay: corpus/C09/d13-mark-todo.replay. -/
theorem C37_apply_mark_panics (e : Enc) (us : List Nat) (obj : ObjId) :
    applyPatch e (.text us) ⟨obj, [], .mark⟩ = .panic .todo := rfl

end AmVerif.Props.C09
