import AmVerif.Proofs.SyncProgressMain
import AmVerif.Props.C20
/-
  C20 — Two-peer sync converges and goes quiet: the PROGRESS half (part (4) of the split in
  `AmVerif.Props.C20`), and the combined full-strength theorem.
  Property theorems only; helper lemmas are in `AmVerif.Proofs.SyncProgress*`.
  Model: `AmVerif.Model.Sync` / `Sync2` (unchanged).  `fp : Hash → Bool` is the forced-false-positive
  hook; the concrete Bloom filter of `Model.Bloom` additionally has its own (real) false positives.
  EVERY theorem below holds for an ARBITRARY `fp` and every reachable configuration (arbitrary
  interleaving of edits, generates and deliveries before the edits stop, arbitrary link contents).

  The bound.  `bound c = missing c + 4` rounds, where `missing c` counts the changes one peer has
  applied that have not yet ARRIVED (applied or queued) at the other peer.  It is at most
  `|applied_A| + |applied_B| + 4 ≤ 2·|applied_A ∪ applied_B| + 4` (the bound proposed in DESIGN §5).

  Why it holds (the proof follows this outline, `Proofs/SyncProgressPhases.lean`):
    round 1 empties both links; after round 2 A's picture of B (`their_heads/need/have`) is what B
    would send now; after round 3 B's picture of A's heads is recent enough (or the peers already
    hold the same changes).  From then on, in every round either B's `need` is non-empty — then A
    sends those changes whatever the Bloom filter or `fp` say, because `sent_hashes` only contains
    changes that have arrived (FIFO links lose nothing) — or B needs nothing, then (no queued change
    is ever ready) B has all of A, A's `need` is non-empty and B serves it.  Either way a missing
    change arrives.  When nothing is missing both hold the same changes; the Bloom filter has no
    false negatives (C23), so nothing more is offered and one more round makes both quiet.
-/
namespace AmVerif.Props.C20Progress
open AmVerif AmVerif.Sync AmVerif.Sync.Prog

/-- "If no more edits are made and messages keep flowing, within a bounded number of rounds …
    [both peers] generate no more messages" — for every false-positive oracle `fp` and every
    reachable configuration: a quiescent configuration (links empty, both `generate_sync_message`
    return `None`) is reached within `bound c = missing c + 4` rounds. -/
theorem C20_progress (fp : Hash → Bool) {c : Cfg} (h : Reachable fp c) :
    ∃ n, n ≤ bound c ∧ Quiescent fp (rounds fp n c) :=
  progress fp h

/-- the same without forced false positives (the real false positives of the concrete Bloom filter
    of the model are still there: the hook is only one of the two sources) -/
theorem C20_progress_no_fp {c : Cfg} (h : Reachable (fun _ => false) c) :
    ∃ n, n ≤ bound c ∧ Quiescent (fun _ => false) (rounds (fun _ => false) n c) :=
  progress _ h

/-- the bound is explicit and linear: at most `|applied_A| + |applied_B| + 4`, hence at most
    `2·|applied_A ∪ applied_B| + 4` rounds (the union counted without repetitions) -/
theorem C20_bound_le (fp : Hash → Bool) {c : Cfg} (h : Reachable fp c) :
    bound c ≤ c.docA.applied.length + c.docB.applied.length + 4 ∧
    bound c ≤ 2 * (c.docA.hashes ++ c.docB.hashes).eraseDups.length + 4 := by
  have h1 := missing_le c
  have h2 := missing_le_distinct (Inv.of_reachable fp h)
  unfold bound
  omega

/-- `bound c` unfolded: the changes applied at B that A has neither applied nor queued, plus the
    changes applied at A that B has neither applied nor queued, plus 4 -/
theorem C20_bound_def (c : Cfg) :
    bound c =
      (c.docB.hashes.filter (fun h => !(c.docA.hashes.contains h || (c.docA.queue.map (·.hash)).contains h))).length +
      (c.docA.hashes.filter (fun h => !(c.docB.hashes.contains h || (c.docB.queue.map (·.hash)).contains h))).length + 4 :=
  rfl

/-- after `bound c` rounds (not just after some smaller number) the configuration is quiescent -/
theorem C20_quiescent_at_bound (fp : Hash → Bool) {c : Cfg} (h : Reachable fp c) :
    ∀ m, bound c ≤ m → Quiescent fp (rounds fp m c) := by
  intro m hm
  obtain ⟨n, hn, hq⟩ := progress fp h
  have : m = n + (m - n) := by omega
  rw [this, rounds_add, rounds_quiescent _ hq]
  exact hq

/-- C20, full strength: "if no more edits are made and messages keep flowing, within a bounded
    number of rounds both peers have the same heads/changes and generate no more messages" — and
    it stays so.  Progress (above) combined with deadlock freedom (`C20_quiescent_converged`) and
    stability (`C20_quiescent_stable`) of `AmVerif.Props.C20`. -/
theorem C20_converges_and_goes_quiet (fp : Hash → Bool) {c : Cfg} (h : Reachable fp c) :
    ∃ n, n ≤ bound c ∧ Quiescent fp (rounds fp n c) ∧ Converged (rounds fp n c) ∧
      ∀ k, rounds fp k (rounds fp n c) = rounds fp n c := by
  obtain ⟨n, hn, hq⟩ := progress fp h
  exact ⟨n, hn, hq, C20.C20_quiescent_converged fp (h.rounds n) hq, fun k => rounds_quiescent k hq⟩

/-- the same, stated for every number of rounds from the bound on -/
theorem C20_converged_from_bound_on (fp : Hash → Bool) {c : Cfg} (h : Reachable fp c) (m : Nat)
    (hm : bound c ≤ m) : Quiescent fp (rounds fp m c) ∧ Converged (rounds fp m c) :=
  ⟨C20_quiescent_at_bound fp h m hm,
   C20.C20_quiescent_converged fp (h.rounds m) (C20_quiescent_at_bound fp h m hm)⟩

/-! ### non-vacuity on the forked histories of `AmVerif.Props.C20.Example` -/

/-- A has c1 ← c2, B has c1 ← c3 ← c4: three changes are missing, the bound is 7 rounds; the
    exchange is in fact quiet after 2 rounds without forced false positives and after 4 rounds when
    EVERY Bloom query is a forced false positive (evaluated by the kernel), both within the bound;
    the start configuration is reachable, so the theorem applies to it. -/
example : bound C20.Example.start = 7 ∧
    Reachable (fun _ => false) C20.Example.start ∧
    ¬ Quiescent (fun _ => false) (rounds (fun _ => false) 1 C20.Example.start) ∧
    Quiescent (fun _ => false) (rounds (fun _ => false) 2 C20.Example.start) ∧
    ¬ Quiescent C20.Example.fpAll (rounds C20.Example.fpAll 3 C20.Example.start) ∧
    Quiescent C20.Example.fpAll (rounds C20.Example.fpAll 4 C20.Example.start) :=
  ⟨by decide, Reachable.init _ C20.Example.start_initial, by decide, by decide, by decide, by decide⟩

/-- the theorem applied to the example: by `C20_converged_from_bound_on` (not by evaluation) the
    configuration after 7 rounds is quiescent and converged, under total forced false positives -/
example : Quiescent C20.Example.fpAll (rounds C20.Example.fpAll 7 C20.Example.start) ∧
    Converged (rounds C20.Example.fpAll 7 C20.Example.start) :=
  C20_converged_from_bound_on _ (Reachable.init _ C20.Example.start_initial) 7 (by decide)

end AmVerif.Props.C20Progress
