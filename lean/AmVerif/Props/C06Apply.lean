import AmVerif.Proofs.Graph
/-
  C06 (apply part) — "Any call that returns an error leaves the document observably unchanged: the
  same heads, state, pending queue…"
  Property theorems only; helper lemmas are in `AmVerif.Proofs.Graph`.
  Model: `AmVerif.Model.Graph`, in mutation order (`applyBatch` returns the document left behind
  together with the result).  For `apply_changes` the clause is FALSE on the code as it stands
  (DESIGN §6-D4): when `has_actor_seq` fires, `remove_actor_branch_from(actor, seq + 1)` has already
  pruned the pending queue when `DuplicateSeqNumber` is returned (batch.rs, first `if` of the loop).
  What is true is proved first; the full claim is then refuted on a concrete reachable document.
-/
namespace AmVerif.Props.C06Apply
open AmVerif AmVerif.Crdt

/-- C06 (apply), the part that holds: a failing `apply_changes` is a `DuplicateSeqNumber` for one
    of the offered changes; the applied changes — hence heads, operation set (visible state) and
    every historical view — are unchanged; the pending queue is either unchanged or the old queue
    pruned by `remove_actor_branch_from(c.actor, c.seq + 1)`, in particular a sub-list of the old
    queue (nothing is added, order is kept). -/
theorem C06_apply_err_applied_unchanged {d d' : Doc} {cs : List Change} {e : ApplyErr}
    (h : applyBatch d cs = (d', .error e)) :
    (∃ c ∈ cs, e = .duplicateSeq c.seq c.actor ∧
      (d'.queue = d.queue ∨ d'.queue = removeActorBranchFrom d.queue c.actor (c.seq + 1))) ∧
    d'.applied = d.applied ∧ d'.heads = d.heads ∧ d'.ops = d.ops ∧ (∀ hs, d'.at hs = d.at hs) ∧
    d'.queue.Sublist d.queue := by
  obtain ⟨c, hc, he, happ, hq⟩ := applyBatch_err_spec h
  have hsub : d'.queue.Sublist d.queue := by
    rcases hq with hq | hq
    · rw [hq]; exact List.Sublist.refl _
    · rw [hq]; exact removeActorBranchFrom_sublist _ _ _
  refine ⟨⟨c, hc, he, hq⟩, happ, ?_, ?_, ?_, hsub⟩
  · simp only [Doc.heads, happ]
  · simp only [Doc.ops, happ]
  · intro hs; simp only [Doc.at, Doc.ancestors, happ]

/-- C06 (apply), and the document is still consistent after the failure. -/
theorem C06_apply_err_inv {d : Doc} (hinv : d.Inv) (cs : List Change) : (applyBatch d cs).1.Inv :=
  applyBatch_inv d cs hinv

/-- C06 (apply), REFUTED as stated: there is a reachable document and a call that returns an error
    and does not leave the pending queue unchanged — and the difference is observable:
    `get_missing_deps` answers differently afterwards.
    Witness (`Ex.doc2`): B seq 1, 2 applied, B seq 3 (`b3`) held waiting for an unknown hash; a
    different change `b1'` claiming (B, 1) is offered: `DuplicateSeqNumber(1, B)`, and `b3` is gone
    from the queue. -/
theorem C06_apply_err_unchanged_false :
    ¬ ∀ (d d' : Doc) (cs : List Change) (e : ApplyErr), Reachable d →
        applyBatch d cs = (d', .error e) → d'.queue = d.queue := by
  intro h
  have := h Ex.doc2 ⟨Ex.doc2.applied, [Ex.e2, Ex.e1]⟩ [Ex.b1'] (.duplicateSeq 1 [0xB])
    Ex.doc2_reachable (by decide)
  revert this
  decide

/-- the witness in full: result, queue before and after, and the observable difference -/
example :
    Reachable Ex.doc2 ∧
    Ex.b1 ∈ Ex.doc2.applied ∧ Ex.b3 ∈ Ex.doc2.queue ∧
    (applyBatch Ex.doc2 [Ex.b1']).2 = .error (.duplicateSeq 1 [0xB]) ∧
    Ex.doc2.queue = [Ex.e2, Ex.e1, Ex.b3] ∧
    (applyBatch Ex.doc2 [Ex.b1']).1.queue = [Ex.e2, Ex.e1] ∧
    Ex.doc2.missingDeps [] = [[0], [99]] ∧
    (applyBatch Ex.doc2 [Ex.b1']).1.missingDeps [] = [[0]] :=
  ⟨Ex.doc2_reachable, by decide, by decide, by decide, by decide, by decide, by decide, by decide⟩

/-- non-vacuity of the positive theorem on the same witness: applied list, heads and ops agree -/
example :
    (applyBatch Ex.doc2 [Ex.b1']).1.applied = Ex.doc2.applied ∧
    (applyBatch Ex.doc2 [Ex.b1']).1.heads = [[4]] ∧ Ex.doc2.heads = [[4]] ∧
    (applyBatch Ex.doc2 [Ex.b1']).1.ops.length = 4 := by decide

end AmVerif.Props.C06Apply
