import AmVerif.Proofs.LocalSplice
import AmVerif.Proofs.ObjIds
/-
  C30 — "Object ids stay valid and stable: An object id returned by the API keeps referring to the
  same object, usable for reads and edits, after any merges, loads, forks and actor-table changes,
  and in every replica that contains the object. Using the id of an object a replica does not
  contain gives an error or an empty result, never another object's data."

  Setting.  In the model an object id is `ObjId.root` or `ObjId.id (ctr, actor)` — the id of the
  make operation, with the actor as BYTES; every read is a function of the op set and the object
  id (`Model/Spec.lean`), every edit starts with `objMeta ops obj` (`Model/Local.lean`).  Merges,
  loads and forks only change WHICH ops a replica has and in which order they arrived.  The
  implementation's external id additionally carries an actor-INDEX hint into the replica's
  sorted actor table; that the hint is only a hint — the id resolves to the same (ctr, actor) in
  every table containing the actor, whatever the hint — is C19,
  `AmVerif.Props.C19.exid_resolves_across_tables` (Props/C19.lean).  The driver command
  `crdt.x.useid` compares `objType` / length / rendering of an id on another replica with the
  real code (0 disagreements).  Property theorems only.
-/
namespace AmVerif.Props.C30
open AmVerif AmVerif.Crdt

/-- root: "m" = map 1@0A containing "k" = 5; "l" = list 3@0A = [7] -/
def mkM : Op := ⟨⟨1, [0xA]⟩, .root, .map [109], false, .make .map, []⟩
def putK : Op := ⟨⟨2, [0xA]⟩, .id ⟨1, [0xA]⟩, .map [107], false, .put (.int 5), []⟩
def mkL : Op := ⟨⟨3, [0xA]⟩, .root, .map [108], false, .make .list, []⟩
def ins7 : Op := ⟨⟨4, [0xA]⟩, .id ⟨3, [0xA]⟩, .head, true, .put (.int 7), []⟩
/-- a concurrent replica's ops: another map 1@0B under "m", a put into it -/
def mkM' : Op := ⟨⟨1, [0xB]⟩, .root, .map [109], false, .make .map, []⟩
def putK' : Op := ⟨⟨2, [0xB]⟩, .id ⟨1, [0xB]⟩, .map [107], false, .put (.int 6), []⟩
def opsA : List Op := [mkM, putK, mkL, ins7]
def opsB : List Op := [mkM', putK']

/-- "keeps referring to the same object … after any merges, loads, forks": an id that names an
    object of type `t` in an op set names an object of the same type in every op set that
    contains those ops — whatever else it contains and in whatever order the ops arrived — as
    long as ids identify ops.  (Appending at the end, e.g. further local edits or a merge applied
    on top, needs no hypothesis at all.) -/
theorem C30_objType_stable (ops ops' : List Op) (o : ObjId) (t : ObjType)
    (hsub : ∀ x ∈ ops, x ∈ ops') (hd : DistinctIds ops') (h : objType ops o = some t) :
    objType ops' o = some t := by
  cases o with
  | root => exact h
  | id i =>
    simp only [objType] at h ⊢
    cases hf : ops.find? (fun p => p.id == i) with
    | none => rw [hf] at h; cases h
    | some p =>
      rw [hf] at h
      have hp := List.mem_of_find?_eq_some hf
      have hpi : p.id = i := by simpa using List.find?_some hf
      cases hf' : ops'.find? (fun p => p.id == i) with
      | none =>
        have := List.find?_eq_none.mp hf' p (hsub p hp)
        simp [hpi] at this
      | some q =>
        have hq := List.mem_of_find?_eq_some hf'
        have hqi : q.id = i := by simpa using List.find?_some hf'
        have : q = p := hd q hq p (hsub p hp) (hqi.trans hpi.symm)
        rw [this]; exact h

theorem C30_objType_stable_append (ops more : List Op) (o : ObjId) (t : ObjType)
    (h : objType ops o = some t) : objType (ops ++ more) o = some t := by
  cases o with
  | root => exact h
  | id i =>
    simp only [objType, List.find?_append] at h ⊢
    cases hf : ops.find? (fun p => p.id == i) with
    | none => rw [hf] at h; cases h
    | some p => rw [hf] at h; exact h

/-- the id 1@0A names the same map after a merge with the other replica's ops, in either arrival
    order; the id 3@0A the same list -/
example : objType opsA (.id ⟨1, [0xA]⟩) = some .map ∧ DistinctIds (opsB ++ opsA) ∧
    objType (opsB ++ opsA) (.id ⟨1, [0xA]⟩) = some .map ∧ objType (opsA ++ opsB) (.id ⟨3, [0xA]⟩) = some .list := by
  decide

/-- … and its CONTENT is read from the op set, not from the arrival order: every read of the
    object (type, keys, registers, elements, rendering) is the same on any two replicas holding
    the same ops (C01 spec side; quoted here for the id-based reads). -/
theorem C30_reads_by_id_order_independent (ops₁ ops₂ : List Op) (h : ops₁.Perm ops₂) (hd : DistinctIds ops₁)
    (obj : ObjId) :
    objType ops₁ obj = objType ops₂ obj ∧ mapKeys ops₁ obj = mapKeys ops₂ obj ∧
    (∀ k, mapRegister ops₁ obj k = mapRegister ops₂ obj k) ∧ seqElems ops₁ obj = seqElems ops₂ obj ∧
    (∀ fuel ty, showObj ops₁ fuel obj ty = showObj ops₂ fuel obj ty) :=
  ⟨objType_perm h hd obj, mapKeys_perm h obj, fun k => mapRegister_perm h hd obj k,
    seqElems_perm h hd obj, fun fuel ty => showObj_perm h hd fuel obj ty⟩

example : (opsA ++ opsB).Perm (opsB ++ opsA) ∧ DistinctIds (opsA ++ opsB) :=
  ⟨List.perm_append_comm, by decide⟩

/-- "Using the id of an object a replica does not contain gives an error or an empty result":
    when the replica has no object with that id, every edit through the id fails with the
    object-id error, and — in an op set whose ops all belong to existing objects — every read
    through the id is empty. -/
theorem C30_foreign_id_error_or_empty (e : Enc) (ops : List Op) (t : Tx) (i : OpId)
    (hd : DistinctIds ops) (hex : ObjsExist ops) (h : objType ops (.id i) = none) :
    (∀ prop a ck, localPut e ops t (.id i) prop a ck = .error .objid) ∧
    (∀ idx a, localInsert e ops t (.id i) idx a = .error .objid) ∧
    (∀ idx del s, localSpliceText e ops t (.id i) idx del s = .error .objid) ∧
    mapKeys ops (.id i) = [] ∧ (∀ k, mapRegister ops (.id i) k = []) ∧
    seqElems ops (.id i) = [] ∧ (∀ el, elemRegister ops (.id i) el = []) := by
  have hno : ∀ x ∈ ops, x.obj ≠ .id i := by
    intro x hx he
    have := hex x hx
    rw [he] at this
    obtain ⟨m, hm, hmi, ty, hmt⟩ := this
    simp only [objType] at h
    cases hf : ops.find? (fun p => p.id == i) with
    | none =>
      have := List.find?_eq_none.mp hf m hm
      simp [hmi] at this
    | some q =>
      have hq := List.mem_of_find?_eq_some hf
      have hqi : q.id = i := by simpa using List.find?_some hf
      have : q = m := hd q hq m hm (hqi.trans hmi.symm)
      rw [hf, this] at h
      simp [hmt] at h
  refine ⟨fun prop a ck => localPut_of_none h prop a ck, fun idx a => ?_, fun idx del s => ?_,
    mapKeys_eq_nil_of_no_ops hno, fun k => ?_, seqElems_eq_nil_of_no_ops hno, fun el => ?_⟩
  · unfold localInsert objMeta; rw [h]
  · unfold localSpliceText objMeta; rw [h]
  · apply List.eq_nil_iff_forall_not_mem.mpr
    intro en hen
    obtain ⟨o, ho, hobj, _⟩ := mem_mapRegister.mp hen
    exact hno o ho hobj
  · apply List.eq_nil_iff_forall_not_mem.mpr
    intro en hen
    obtain ⟨o, ho, hobj, _⟩ := mem_elemRegister.mp hen
    exact hno o ho hobj

/-- replica A does not contain the other replica's map 1@0B -/
example : DistinctIds opsA ∧ ObjsExist opsA ∧ objType opsA (.id ⟨1, [0xB]⟩) = none ∧
    localPut .utf8 opsA ⟨[0xA], 5, []⟩ (.id ⟨1, [0xB]⟩) (.inl [107]) (.put (.int 1)) true = .error .objid := by
  refine ⟨by decide, ?_, by decide, by decide⟩
  intro x hx
  simp only [opsA, List.mem_cons, List.not_mem_nil, or_false] at hx
  rcases hx with rfl | rfl | rfl | rfl
  · trivial
  · exact ⟨mkM, by simp [opsA], rfl, .map, rfl⟩
  · trivial
  · exact ⟨mkL, by simp [opsA], rfl, .list, rfl⟩

/-- "never another object's data": whatever an id reads — register entries, keys, elements — comes
    from operations addressed to exactly that object id; no op of another object contributes. -/
theorem C30_reads_never_alias (ops : List Op) (obj : ObjId) :
    (∀ k e, e ∈ mapRegister ops obj k → ∃ o ∈ ops, o.obj = obj ∧ o.key = .map k ∧ e = entryOf ops o) ∧
    (∀ k, k ∈ mapKeys ops obj → ∃ o ∈ ops, o.obj = obj ∧ o.key = .map k) ∧
    (∀ el e, e ∈ elemRegister ops obj el → ∃ o ∈ ops, o.obj = obj ∧ e = entryOf ops o) ∧
    (∀ q, q ∈ seqElems ops obj → ∃ c ∈ ops, c.obj = obj ∧ c.insert = true ∧ c.id = q.1) := by
  refine ⟨fun k e he => ?_, fun k hk => ?_, fun el e he => ?_, fun q hq => ?_⟩
  · obtain ⟨o, ho, h1, h2, _, h4⟩ := mem_mapRegister.mp he
    exact ⟨o, ho, h1, h2, h4⟩
  · obtain ⟨o, ho, h1, h2, _⟩ := mem_mapKeys.mp hk
    exact ⟨o, ho, h1, h2⟩
  · obtain ⟨o, ho, h1, _, _, h4⟩ := mem_elemRegister.mp he
    exact ⟨o, ho, h1, h4⟩
  · obtain ⟨i, r⟩ := q
    obtain ⟨c, hc, _, hci, _, _⟩ := mem_seqElems.mp hq
    obtain ⟨h1, h2, h3⟩ := mem_rgaFrom hc
    exact ⟨c, h1, h2, h3, hci⟩

/-- after the merge the two maps 1@0A and 1@0B (same counter, different actors) keep their own
    contents -/
example : mapRegister (opsA ++ opsB) (.id ⟨1, [0xA]⟩) [107] = [⟨⟨2, [0xA]⟩, .scalar (.int 5)⟩] ∧
    mapRegister (opsA ++ opsB) (.id ⟨1, [0xB]⟩) [107] = [⟨⟨2, [0xB]⟩, .scalar (.int 6)⟩] := by decide

end AmVerif.Props.C30
