import AmVerif.Proofs.LocalSpliceDelFull
/-
  C03 — "Local edits have their documented sequential effect: Each editing call (… splice,
  splice_text …) changes the visible document exactly as documented and leaves everything else
  unchanged. …  An invalid call (unknown object, wrong key kind, index out of range …) returns an
  error and changes nothing."

  This file: `splice_text(obj, index, del, text)` for every `del ≥ 0` — the full statement that
  `C03_splice_text_elements_partial` / `C03_splice_text_content_partial` (Props/C03.lean, `del = 0`
  only) left open.  It supersedes them.

  Setting as in Props/C03.lean: `ops` is the op list the call sees (applied ++ pending), `t` the
  open transaction; `AmVerif.Model.Local.localSpliceText` says which ops the call appends (tied to
  `TransactionInner::splice_text` / `inner_splice` by the crdt and richtext engines: the ops of
  every local change are predicted exactly); `AmVerif.Model.Spec.seqElems` is the visible element
  list (ids and register entries).  Hypotheses, explicit in every theorem: `StrictIds ops`,
  `CtrBelow ops (next counter)` (C04: start op above every counter), `RefsSmaller ops`.

  Everything is stated on the VISIBLE state:
    `elText p`     the text one element reads as (winner's string, U+FFFC for a non-string),
    `elWidth e p`  = `width e (elText p)`, its width in units of the encoding `e`,
    `elUnits e l`  the total width of a list of elements,
    `reachCount e n l`  the least number of leading elements of `l` whose widths reach `n`
                   units — all of `l` if they never do (characterised in `C03_splice_count_spec`);
  `j = reachCount e index L` is the insertion position, `m = reachCount e del (L.drop j)` the
  length of the deleted run.

  What the code does and the theorems say (inner.rs `inner_splice`):
    * inserts first (one element per scalar value, a chain), behind the `j` elements that cover
      the first `index` units — an index inside a multi-unit element moves to its end;
    * then deletes WHOLE elements from the end of the chain on until `del` units are gone; a
      `del` ending inside a multi-unit element removes that element entirely; running out of
      elements is not an error;
    * an element of width 0 (an empty string put with `insert(text, i, "")`) covers no unit,
      `seek_ops_by_index` never finds it: the loop steps over it and it SURVIVES inside the deleted
      range (`spliceKept`); without such elements the deleted run is contiguous (`L.drop (j + m)`);
    * with nothing to insert a position beyond the end is not an error (nothing happens).
  Not modelled: `del < 0` (the code rewrites it to `splice_text(index + del, |del|, text)` or fails
  with InvalidIndex when `index + del < 0`; the model's `del` is a natural number), marks
  (Model/Marks.lean, richtext engine).
-/
namespace AmVerif.Props.C03Splice
open AmVerif AmVerif.Crdt

/-! ### the example state -/

/-- text 1@01 = a · 😀 · (x deleted) · b · {C | ç} · de · "" · f
    (UTF-8 widths 1 4 – 1 2 2 0 1; the fifth element is a conflict whose winner is "ç") -/
def mkT : Op := ⟨⟨1, [1]⟩, .root, .map [116], false, .make .text, []⟩
def txt : ObjId := .id ⟨1, [1]⟩
def chA : Op := ⟨⟨2, [1]⟩, txt, .head, true, .put (.str [97]), []⟩
def chE : Op := ⟨⟨3, [1]⟩, txt, .elem ⟨2, [1]⟩, true, .put (.str [0xF0, 0x9F, 0x98, 0x80]), []⟩
def chX : Op := ⟨⟨4, [1]⟩, txt, .elem ⟨3, [1]⟩, true, .put (.str [120]), []⟩
def delX : Op := ⟨⟨5, [1]⟩, txt, .elem ⟨4, [1]⟩, false, .del, [⟨4, [1]⟩]⟩
def chB : Op := ⟨⟨6, [1]⟩, txt, .elem ⟨4, [1]⟩, true, .put (.str [98]), []⟩
def chC : Op := ⟨⟨7, [1]⟩, txt, .elem ⟨6, [1]⟩, true, .put (.str [99]), []⟩
def putC1 : Op := ⟨⟨8, [1]⟩, txt, .elem ⟨7, [1]⟩, false, .put (.str [67]), [⟨7, [1]⟩]⟩
def putC2 : Op := ⟨⟨8, [2]⟩, txt, .elem ⟨7, [1]⟩, false, .put (.str [0xC3, 0xA7]), [⟨7, [1]⟩]⟩
def chDE : Op := ⟨⟨9, [1]⟩, txt, .elem ⟨7, [1]⟩, true, .put (.str [100, 101]), []⟩
def chZ : Op := ⟨⟨10, [1]⟩, txt, .elem ⟨9, [1]⟩, true, .put (.str []), []⟩
def chF : Op := ⟨⟨11, [1]⟩, txt, .elem ⟨10, [1]⟩, true, .put (.str [102]), []⟩
def opsS : List Op := [mkT, chA, chE, chX, delX, chB, chC, putC1, putC2, chDE, chZ, chF]
/-- the open transaction of actor 01: next id 12@01 -/
def tS : Tx := ⟨[1], 12, []⟩

/-- the visible elements, their register entries and their widths -/
example : (seqElems opsS txt).map (fun p => (p.1, p.2.map (·.id), elWidth .utf8 p)) =
      [(⟨2, [1]⟩, [⟨2, [1]⟩], 1), (⟨3, [1]⟩, [⟨3, [1]⟩], 4), (⟨6, [1]⟩, [⟨6, [1]⟩], 1),
       (⟨7, [1]⟩, [⟨8, [1]⟩, ⟨8, [2]⟩], 2), (⟨9, [1]⟩, [⟨9, [1]⟩], 2), (⟨10, [1]⟩, [⟨10, [1]⟩], 0),
       (⟨11, [1]⟩, [⟨11, [1]⟩], 1)] ∧
    textOf (seqElems opsS txt) = [97, 0xF0, 0x9F, 0x98, 0x80, 98, 0xC3, 0xA7, 100, 101, 102] ∧
    elUnits .utf8 (seqElems opsS txt) = 11 := by decide

/-- the example state satisfies the hypotheses of every theorem below -/
example : StrictIds opsS ∧ CtrBelow opsS (tS.startOp + tS.pending.length) ∧ RefsSmaller opsS := by decide

section
variable {e : Enc} {ops : List Op} {t : Tx} {obj : ObjId} {index del : Nat} {text : Bytes} {l : List Op}

/-! ## the vocabulary: units are widths of the visible text -/

/-- "index" and "del" count units of the visible text: the length in units that the call's
    queries measure (over the registers' ops) is the total width of the text the visible elements
    read as — for the whole sequence and for every prefix; `textOf` is the concatenation of the
    elements' texts. -/
theorem C03_splice_units_are_text_widths (e : Enc) (ops : List Op) (obj : ObjId) :
    unitsLen e true (seqRegs ops obj) = elUnits e (seqElems ops obj) ∧
    (∀ k, unitsLen e true ((seqRegs ops obj).take k) = elUnits e ((seqElems ops obj).take k)) ∧
    (∀ p, elWidth e p = width e (elText p)) ∧
    (∀ es, textOf es = es.flatMap elText) :=
  ⟨unitsLen_eq_elUnits e ops obj, unitsLen_take_eq e ops obj, fun _ => rfl, fun _ => rfl⟩

example : unitsLen .utf8 true (seqRegs opsS txt) = 11 ∧ unitsLen .utf16 true (seqRegs opsS txt) = 8 ∧
    unitsLen .cp true (seqRegs opsS txt) = 7 ∧ elUnits .utf16 (seqElems opsS txt) = 8 := by decide

/-- **`j` and `m` by an explicit function.**  `reachCount e n L` is the least number of leading
    elements of `L` whose widths reach `n` units, and all of `L` if they never do: it is at most
    the length; if `L` has `n` units the covered run reaches `n`; no shorter run does; a list
    shorter than `n` units is covered entirely; and these properties determine it. -/
theorem C03_splice_count_spec (e : Enc) (n : Nat) (L : List (OpId × List Entry)) :
    reachCount e n L ≤ L.length ∧
    (n ≤ elUnits e L → n ≤ elUnits e (L.take (reachCount e n L))) ∧
    (∀ i, i < reachCount e n L → elUnits e (L.take i) < n) ∧
    (elUnits e L < n → reachCount e n L = L.length) ∧
    (∀ j, n ≤ elUnits e (L.take j) → (0 < j → elUnits e (L.take (j - 1)) < n) → reachCount e n L = j) :=
  ⟨reachCount_le_length e n L, reachCount_reaches e n L, reachCount_min e n L, reachCount_all e n L,
    fun _ h1 h2 => reachCount_unique h1 h2⟩

/-- 5 units = a·😀 (2 elements); 2 units end inside 😀 (still 2 elements); from there 3 units =
    b·ç (2 elements), 4 units end inside "de" (3 elements), 50 units = everything left (5) -/
example : reachCount .utf8 5 (seqElems opsS txt) = 2 ∧ reachCount .utf8 2 (seqElems opsS txt) = 2 ∧
    reachCount .utf8 3 ((seqElems opsS txt).drop 2) = 2 ∧ reachCount .utf8 4 ((seqElems opsS txt).drop 2) = 3 ∧
    reachCount .utf8 50 ((seqElems opsS txt).drop 2) = 5 ∧ reachCount .utf8 0 (seqElems opsS txt) = 0 := by
  decide

/-! ## the error cases -/

/-- "An invalid call (unknown object, … index out of range …) returns an error": splice_text
    fails exactly for an unknown object (`objid`), a non-text object (`invalidOp`), or — when
    there is text to insert — a position beyond the length of the visible text in units
    (`index`).  `del` never makes the call fail.  (Props/C03.lean `C03_splice_text_error`, with
    the length read off the visible state.) -/
theorem C03_splice_text_error_units (e : Enc) (ops : List Op) (t : Tx) (obj : ObjId) (index del : Nat)
    (text : Bytes) (err : EditErr) :
    localSpliceText e ops t obj index del text = .error err ↔
      (err = .objid ∧ objType ops obj = none) ∨
      ∃ ty, objType ops obj = some ty ∧
        ((err = .invalidOp ∧ ty ≠ .text) ∨
         (err = .index ∧ ty = .text ∧ text ≠ [] ∧ elUnits e (seqElems ops obj) < index)) := by
  rw [localSpliceText_error_iff, unitsLen_eq_elUnits]

/-- index 12 > 11 units with text to insert: `index`; a map: `invalidOp`; an unknown object: `objid` -/
example : localSpliceText .utf8 opsS tS txt 12 3 [88] = .error .index ∧
    localSpliceText .utf8 opsS tS .root 0 1 [88] = .error .invalidOp ∧
    localSpliceText .utf8 opsS tS (.id ⟨77, [1]⟩) 0 1 [88] = .error .objid := by
  rw [localSpliceText_eq, localSpliceText_eq, localSpliceText_eq, utf8Chars_ascii [88] (by decide)]; decide

/-- FINDING (negated form of "index out of range … returns an error", general form of the
    witness `C03_text_delete_out_of_range_not_an_error` in Props/C03.lean): with nothing to insert,
    a position at or beyond the end is never an error, whatever `del` is — the call succeeds and
    appends no op (the delete loop of `inner_splice` `break`s when `seek_ops_by_index` finds no
    element).  Since the call appends nothing, nothing changes. -/
theorem C03_splice_text_past_end (h : localSpliceText e ops t obj index del [] = .ok l)
    (hix : elUnits e (seqElems ops obj) ≤ index) : l = [] :=
  splice_past_end h hix

example : elUnits .utf8 (seqElems opsS txt) ≤ 14 ∧ localSpliceText .utf8 opsS tS txt 14 2 [] = .ok [] := by
  rw [localSpliceText_eq, utf8Chars_nil]; decide

/-! ## the effect -/

/-- "splice_text … changes the visible document exactly as documented", element level, every
    `del`.  After a successful call — with text to insert the position is then within the text;
    with nothing to insert we ask for it (`hix`; otherwise `C03_splice_text_past_end`) — let
    `L` be the visible element list before, `j = reachCount e index L` the number of elements the
    first `index` units cover, `m = reachCount e del (L.drop j)` the number of elements the next
    `del` units cover.  Then the visible element list after the call is

        L.take j ++ ⟨one new element per scalar value of the text, in order⟩ ++ spliceKept e del (L.drop j)

    where `spliceKept` removes, from the front, every element of positive width until `del` units
    are gone and keeps the zero-width elements it steps over; and when the covered run
    `(L.drop j).take m` has no zero-width element this is

        L.take j ++ ⟨new elements⟩ ++ L.drop (j + m). -/
theorem C03_splice_text_elements (hs : StrictIds ops)
    (hb : CtrBelow ops (t.startOp + t.pending.length)) (hr : RefsSmaller ops)
    (h : localSpliceText e ops t obj index del text = .ok l)
    (hix : text = [] → index ≤ elUnits e (seqElems ops obj)) :
    let L := seqElems ops obj
    let j := reachCount e index L
    let m := reachCount e del (L.drop j)
    objType ops obj = some .text ∧ index ≤ elUnits e L ∧
    seqElems (ops ++ l) obj = L.take j ++ chainEntries t (utf8Chars text) 0 ++ spliceKept e del (L.drop j) ∧
    ((∀ p ∈ (L.drop j).take m, 0 < elWidth e p) →
      seqElems (ops ++ l) obj = L.take j ++ chainEntries t (utf8Chars text) 0 ++ L.drop (j + m)) := by
  intro L j m
  obtain ⟨h1, h2, _, h4⟩ := splice_full hs hb hr h hix
  refine ⟨h1, h2, h4, fun hpos => ?_⟩
  rw [h4, spliceKept_eq_drop e del (L.drop j) hpos, List.drop_drop]

/-- splice_text(5, 3, "XY") on a·😀·b·{C|ç}·de·""·f: X, Y go behind 😀; b and the conflicted
    element (3 units) go; the rest stays: a·😀·X·Y·de·""·f -/
example : localSpliceText .utf8 opsS tS txt 5 3 [88, 89] = .ok
      [⟨⟨12, [1]⟩, txt, .elem ⟨3, [1]⟩, true, .put (.str [88]), []⟩,
       ⟨⟨13, [1]⟩, txt, .elem ⟨12, [1]⟩, true, .put (.str [89]), []⟩,
       ⟨⟨14, [1]⟩, txt, .elem ⟨6, [1]⟩, false, .del, [⟨6, [1]⟩]⟩,
       ⟨⟨15, [1]⟩, txt, .elem ⟨7, [1]⟩, false, .del, [⟨8, [1]⟩, ⟨8, [2]⟩]⟩] := by
  rw [localSpliceText_eq, utf8Chars_ascii [88, 89] (by decide)]; decide

example :
    let L := seqElems opsS txt
    let l : List Op :=
      [⟨⟨12, [1]⟩, txt, .elem ⟨3, [1]⟩, true, .put (.str [88]), []⟩,
       ⟨⟨13, [1]⟩, txt, .elem ⟨12, [1]⟩, true, .put (.str [89]), []⟩,
       ⟨⟨14, [1]⟩, txt, .elem ⟨6, [1]⟩, false, .del, [⟨6, [1]⟩]⟩,
       ⟨⟨15, [1]⟩, txt, .elem ⟨7, [1]⟩, false, .del, [⟨8, [1]⟩, ⟨8, [2]⟩]⟩]
    reachCount .utf8 5 L = 2 ∧ reachCount .utf8 3 (L.drop 2) = 2 ∧
    (∀ p ∈ (L.drop 2).take 2, 0 < elWidth .utf8 p) ∧
    seqElems (opsS ++ l) txt = L.take 2 ++ chainEntries tS [[88], [89]] 0 ++ L.drop 4 ∧
    (seqElems (opsS ++ l) txt).map (·.1) =
      [⟨2, [1]⟩, ⟨3, [1]⟩, ⟨12, [1]⟩, ⟨13, [1]⟩, ⟨9, [1]⟩, ⟨10, [1]⟩, ⟨11, [1]⟩] := by decide

/-- deletion across a zero-width element: splice_text(8, 3, "") removes "de" (2 units) and "f"
    (1 unit); the empty-string element between them covers no unit and survives — the result is
    `spliceKept`, not `L.drop (j + m)` (m = 3 would drop it too) -/
example :
    let L := seqElems opsS txt
    reachCount .utf8 8 L = 4 ∧ reachCount .utf8 3 (L.drop 4) = 3 ∧
    spliceKept .utf8 3 (L.drop 4) = [(⟨10, [1]⟩, [⟨⟨10, [1]⟩, .scalar (.str [])⟩])] ∧
    spliceRemoved .utf8 3 (L.drop 4) = [(⟨9, [1]⟩, [⟨⟨9, [1]⟩, .scalar (.str [100, 101])⟩]),
      (⟨11, [1]⟩, [⟨⟨11, [1]⟩, .scalar (.str [102])⟩])] ∧
    localSpliceText .utf8 opsS tS txt 8 3 [] = .ok
      [⟨⟨12, [1]⟩, txt, .elem ⟨9, [1]⟩, false, .del, [⟨9, [1]⟩]⟩,
       ⟨⟨13, [1]⟩, txt, .elem ⟨11, [1]⟩, false, .del, [⟨11, [1]⟩]⟩] := by
  rw [localSpliceText_eq, utf8Chars_nil]; decide

/-- "deleting past the end": a `del` that reaches or exceeds what is left behind position `j`
    removes every element of positive width behind `j` — and the call succeeds. -/
theorem C03_splice_text_delete_to_end (hs : StrictIds ops)
    (hb : CtrBelow ops (t.startOp + t.pending.length)) (hr : RefsSmaller ops)
    (h : localSpliceText e ops t obj index del text = .ok l)
    (hix : text = [] → index ≤ elUnits e (seqElems ops obj))
    (hdel : elUnits e ((seqElems ops obj).drop (reachCount e index (seqElems ops obj))) ≤ del) :
    seqElems (ops ++ l) obj =
      (seqElems ops obj).take (reachCount e index (seqElems ops obj)) ++ chainEntries t (utf8Chars text) 0 ++
        ((seqElems ops obj).drop (reachCount e index (seqElems ops obj))).filter (fun p => elWidth e p == 0) := by
  obtain ⟨_, _, _, h4⟩ := splice_full hs hb hr h hix
  rw [h4, spliceKept_all e del _ hdel]

/-- splice_text(9, 50, "") from inside "de": the position moves to the end of "de"; only "f" is
    left to delete, the empty-string element stays -/
example : localSpliceText .utf8 opsS tS txt 9 50 [] = .ok
      [⟨⟨12, [1]⟩, txt, .elem ⟨11, [1]⟩, false, .del, [⟨11, [1]⟩]⟩] ∧
    reachCount .utf8 9 (seqElems opsS txt) = 5 ∧
    elUnits .utf8 ((seqElems opsS txt).drop 5) ≤ 50 ∧
    ((seqElems opsS txt).drop 5).filter (fun p => elWidth .utf8 p == 0) =
      [(⟨10, [1]⟩, [⟨⟨10, [1]⟩, .scalar (.str [])⟩])] := by
  rw [localSpliceText_eq, utf8Chars_nil]; decide

/-- … text level: when zero-width elements read as the empty string (`hz`: always so in UTF-8
    units — `C03_splice_zero_width_reads_empty` — and in every encoding when strings are valid
    UTF-8), the text after the call is the old text with the `m` elements behind position `j`
    replaced by the new text:

        textOf (after) = textOf (L.take j) ++ text ++ textOf (L.drop (j + m)). -/
theorem C03_splice_text_content (hs : StrictIds ops)
    (hb : CtrBelow ops (t.startOp + t.pending.length)) (hr : RefsSmaller ops)
    (h : localSpliceText e ops t obj index del text = .ok l)
    (hix : text = [] → index ≤ elUnits e (seqElems ops obj))
    (hz : ∀ p ∈ seqElems ops obj, elWidth e p = 0 → elText p = []) :
    let L := seqElems ops obj
    let j := reachCount e index L
    let m := reachCount e del (L.drop j)
    textOf (seqElems (ops ++ l) obj) = textOf (L.take j) ++ text ++ textOf (L.drop (j + m)) := by
  intro L j m
  obtain ⟨_, _, _, h4⟩ := splice_full hs hb hr h hix
  rw [h4, textOf_append, textOf_append, textOf_chainEntries, utf8Chars_flatten,
    textOf_spliceKept e del (L.drop j) (fun p hp => hz p (List.mem_of_mem_drop hp)), List.drop_drop]

/-- the hypothesis `hz` of `C03_splice_text_content`: in UTF-8 units a zero-width element reads
    as the empty string; in every encoding a string that starts with a non-continuation byte
    (every non-empty valid UTF-8 string; U+FFFC too) has positive width. -/
theorem C03_splice_zero_width_reads_empty :
    (∀ p : OpId × List Entry, elWidth .utf8 p = 0 → elText p = []) ∧
    (∀ (e : Enc) (b : UInt8) (s : Bytes), ¬ (b.toNat / 64 = 2) → 0 < width e (b :: s)) :=
  ⟨fun _ h => elText_nil_of_width_utf8 h, width_pos_of_lead⟩

/-- "a😀bçdef" with splice_text(5, 3, "XY") reads "a😀XYdef"; with splice_text(2, 1, "") — a
    position inside 😀 — it is "b", the element after 😀, that goes: "a😀çdef" -/
example :
    (∀ p ∈ seqElems opsS txt, elWidth .utf8 p = 0 → elText p = []) ∧
    textOf (seqElems (opsS ++
      [⟨⟨12, [1]⟩, txt, .elem ⟨3, [1]⟩, true, .put (.str [88]), []⟩,
       ⟨⟨13, [1]⟩, txt, .elem ⟨12, [1]⟩, true, .put (.str [89]), []⟩,
       ⟨⟨14, [1]⟩, txt, .elem ⟨6, [1]⟩, false, .del, [⟨6, [1]⟩]⟩,
       ⟨⟨15, [1]⟩, txt, .elem ⟨7, [1]⟩, false, .del, [⟨8, [1]⟩, ⟨8, [2]⟩]⟩]) txt) =
      [97, 0xF0, 0x9F, 0x98, 0x80] ++ [88, 89] ++ [100, 101, 102] ∧
    localSpliceText .utf8 opsS tS txt 2 1 [] = .ok [⟨⟨12, [1]⟩, txt, .elem ⟨6, [1]⟩, false, .del, [⟨6, [1]⟩]⟩] ∧
    reachCount .utf8 2 (seqElems opsS txt) = 2 ∧ reachCount .utf8 1 ((seqElems opsS txt).drop 2) = 1 ∧
    textOf (seqElems (opsS ++ [⟨⟨12, [1]⟩, txt, .elem ⟨6, [1]⟩, false, .del, [⟨6, [1]⟩]⟩]) txt) =
      [97, 0xF0, 0x9F, 0x98, 0x80] ++ [] ++ [0xC3, 0xA7, 100, 101, 102] := by
  rw [localSpliceText_eq, utf8Chars_nil]; decide

/-- "… the ops appended are exactly": first the insert chain — one insert op per scalar value
    of the text, ids `t.nextId 0, 1, …`, the first keyed on the element at position `j - 1` (HEAD
    for `j = 0`), each next one on the previous —, then one delete op per removed element, in
    document order: the `i`-th has id `t.nextId (#pieces + i)`, is keyed on the removed element and
    names as predecessors exactly the ids of the element's visible ops (= of its register
    entries).  The removed elements are a sublist of `L.drop j` — the run `(L.drop j).take m`
    itself when it has no zero-width element. -/
theorem C03_splice_text_ops (hs : StrictIds ops)
    (hb : CtrBelow ops (t.startOp + t.pending.length)) (hr : RefsSmaller ops)
    (h : localSpliceText e ops t obj index del text = .ok l)
    (hix : text = [] → index ≤ elUnits e (seqElems ops obj)) :
    let L := seqElems ops obj
    let j := reachCount e index L
    let m := reachCount e del (L.drop j)
    let removed := spliceRemoved e del (L.drop j)
    l = chainInserts t obj (utf8Chars text) (spliceRefKey L j) 0 ++
          spliceDelOps t obj (utf8Chars text).length removed ∧
    (∀ i, (spliceDelOps t obj (utf8Chars text).length removed)[i]? =
      (removed[i]?).map (fun p =>
        (⟨t.nextId ((utf8Chars text).length + i), obj, .elem p.1, false, .del, p.2.map (·.id)⟩ : Op))) ∧
    List.Sublist removed (L.drop j) ∧
    (∀ p ∈ removed, 0 < elWidth e p ∧ p.2 = elemRegister ops obj p.1 ∧
      p.2.map (·.id) = (elemRegOps ops obj p.1).map (·.id)) ∧
    ((∀ p ∈ (L.drop j).take m, 0 < elWidth e p) → removed = (L.drop j).take m) := by
  intro L j m removed
  obtain ⟨_, _, h3, _⟩ := splice_full hs hb hr h hix
  refine ⟨h3, fun i => spliceDelOps_getElem? t obj removed _ i, spliceRemoved_sublist e del _, ?_,
    fun hpos => spliceRemoved_eq_take e del _ hpos⟩
  intro p hp
  have hsub := (spliceRemoved_sublist e del (L.drop j)).subset hp
  have hmem : p ∈ seqElems ops obj := List.mem_of_mem_drop hsub
  exact ⟨spliceRemoved_pos e del _ p hp, seqElems_entry hmem⟩

/-- the ops of splice_text(5, 3, "XY") above, by the formula: chain keyed on 😀 (3@01), then the
    deletes of b (pred 6@01) and of the conflicted element (pred 8@01, 8@02 — both visible ops) -/
example :
    let L := seqElems opsS txt
    spliceRefKey L 2 = .elem ⟨3, [1]⟩ ∧
    spliceRemoved .utf8 3 (L.drop 2) = (L.drop 2).take 2 ∧
    chainInserts tS txt [[88], [89]] (spliceRefKey L 2) 0 ++ spliceDelOps tS txt 2 (spliceRemoved .utf8 3 (L.drop 2)) =
      [⟨⟨12, [1]⟩, txt, .elem ⟨3, [1]⟩, true, .put (.str [88]), []⟩,
       ⟨⟨13, [1]⟩, txt, .elem ⟨12, [1]⟩, true, .put (.str [89]), []⟩,
       ⟨⟨14, [1]⟩, txt, .elem ⟨6, [1]⟩, false, .del, [⟨6, [1]⟩]⟩,
       ⟨⟨15, [1]⟩, txt, .elem ⟨7, [1]⟩, false, .del, [⟨8, [1]⟩, ⟨8, [2]⟩]⟩] ∧
    (elemRegOps opsS txt ⟨7, [1]⟩).map (·.id) = [⟨8, [1]⟩, ⟨8, [2]⟩] := by decide

end

end AmVerif.Props.C03Splice
