import AmVerif.Proofs.StoreLocalFinal
import AmVerif.Props.C28Store
/-
  C03 (op store) — "Local edits have their sequential effect …".

  `Props/C03.lean` decides which ops a local call appends and what they do to the specification's
  reading.  `Props/C02Store.lean` proves that the op store refines that reading when ops arrive
  through `BatchApply` (`insertRemote`).  This file closes the remaining gap: a transaction does not
  use `BatchApply`, it puts its ops into the store itself (`insert_local_op`: position without an id
  search, `add_succ_with_undo` instead of the `Top` state machine) — and here that path is proved to
  give EXACTLY the store `insertRemote` gives, index columns included, so every theorem of
  `C02Store` covers local edits as well.  Property theorems only.
-/
namespace AmVerif.Props.C03Store
open AmVerif AmVerif.Crdt AmVerif.Props.C28Store

/-- **local = remote.**  For an op made by a local call — it has the greatest id of the document
    (`hgt`), nothing refers to it yet and its reference element is there (`Fresh`), its predecessors
    are visible rows of its own register, all of them unless it is a delete, which may leave out the
    last ones (`LocalPreds`: `local_map_op` / `local_list_op` name every visible op of the register;
    a put of the value the winner already holds becomes a delete of the losers) — the local path and
    the remote path produce the same store: same rows in the same order, same successor lists, same
    `visible`, `top` and `text` columns. -/
theorem C03_store_local_eq_remote (w : Op → Nat) (ops : List Op) (s : Store) (N : Op)
    (hw : OpsWF (ops ++ [N])) (hf : Fresh ops N) (hp : PredsInReg ops N) (hi : StoreInv ops s)
    (hidx : IndexInv w s) (hgt : ∀ x ∈ ops, x.id.lt N.id = true) (hlp : LocalPreds s N) :
    (insertLocal w s N).1 = insertRemote w s N :=
  insertLocal_eq_insertRemote hw hf hp hi hidx hgt hlp

/-- hence the store after a local op satisfies the invariants again and reads as the specification
    reads the ops including the new one (C02 for local edits) -/
theorem C03_store_local_refines_spec (w : Op → Nat) (ops : List Op) (s : Store) (N : Op)
    (hw : OpsWF (ops ++ [N])) (hf : Fresh ops N) (hp : PredsInReg ops N) (hi : StoreInv ops s)
    (hidx : IndexInv w s) (hgt : ∀ x ∈ ops, x.id.lt N.id = true) (hlp : LocalPreds s N) :
    StoreInv (ops ++ [N]) (insertLocal w s N).1 ∧ IndexInv w (insertLocal w s N).1 ∧
    storeShowDoc (insertLocal w s N).1 ((ops ++ [N]).length + 1) = showDoc (ops ++ [N]) := by
  rw [insertLocal_eq_insertRemote hw hf hp hi hidx hgt hlp]
  have hi' := insertRemote_inv (w := w) hw hf hi
  exact ⟨hi', insertRemote_indexOk hw hf hp hi hidx.1 hidx.2.1 hidx.2.2.2, storeShowDoc_eq hw hi'⟩

/-- a whole transaction: the store after its ops went through the local path is the store after the
    same ops went through `insertRemote` (each op satisfying the hypotheses above with respect to the
    ops before it) -/
theorem C03_store_local_tx_eq_remote (w : Op → Nat) (Ns ops : List Op) (s : Store)
    (hi : StoreInv ops s) (hidx : IndexInv w s)
    (h : ∀ (k : Nat) (N : Op), Ns[k]? = some N →
      OpsWF (ops ++ Ns.take (k + 1)) ∧ Fresh (ops ++ Ns.take k) N ∧ PredsInReg (ops ++ Ns.take k) N ∧
      (∀ x ∈ ops ++ Ns.take k, x.id.lt N.id = true) ∧
      LocalPreds ((Ns.take k).foldl (insertRemote w) s) N) :
    (insertLocalAll w s Ns).1 = Ns.foldl (insertRemote w) s :=
  insertLocalAll_eq Ns ops s hi hidx h

/-- the position part needs ids only: with the greatest id, "end of the register" / "behind the
    block of the reference element" is where the id search of `BatchApply` ends -/
theorem C03_store_local_position (r : Row) (s : Store) (hlt : ∀ x ∈ s, x.op.id.lt r.op.id = true)
    (hhead : ∀ pre l, s = pre ++ l → (∀ p ∈ pre, p.op.obj.lt r.op.obj = true) → HeadOk r l) :
    (localPlaceRow r s).1 = placeRow r s :=
  localPlaceRow_eq r s hlt hhead

/-- the example of `Props/C28Store`: the committed history is admissible, its store has exact index
    columns, the increment on the [counter 1@A, value 1@B] conflict satisfies the hypotheses, and the
    two paths agree — for that op and for the whole transaction (increment exposing a counter,
    increment on a conflict whose winner is the counter, insert, delete, overwrite) -/
example : Admissible base ∧ PredsOk base ∧ OpsWF (base ++ [incC]) ∧ Fresh base incC ∧
    LocalPreds s0 incC ∧ (∀ x ∈ base, x.id.lt incC.id = true) ∧
    (insertLocal w1 s0 incC).1 = insertRemote w1 s0 incC ∧
    (insertLocalAll w1 s0 tx).1 = tx.foldl (insertRemote w1) s0 :=
  ⟨admissibleB_sound (by decide), predsOkB_sound (by decide), wfB_sound (by decide),
   freshB_sound (by decide), by decide, by decide, by decide, by decide⟩

/-- the other winner order: the counter (1@B) is the winner, the value (1@A) the loser; the
    increment deletes the loser and the counter stays `top` -/
def valA : Op := ⟨⟨1, A⟩, .root, .map [99], false, .put (.int 0), []⟩
def ctrB : Op := ⟨⟨1, B⟩, .root, .map [99], false, .put (.counter 5), []⟩
def incC' : Op := ⟨⟨2, A⟩, .root, .map [99], false, .inc 2, [⟨1, A⟩, ⟨1, B⟩]⟩

example : LocalPreds (buildStore w1 [valA, ctrB]) incC' ∧
    (insertLocal w1 (buildStore w1 [valA, ctrB]) incC').1 = insertRemote w1 (buildStore w1 [valA, ctrB]) incC' ∧
    (insertRemote w1 (buildStore w1 [valA, ctrB]) incC').map (fun r => (r.op.id, r.vis, r.top)) =
      [(⟨1, A⟩, false, false), (⟨1, B⟩, true, true), (⟨2, A⟩, false, false)] := by decide

/-- a conflict-resolving delete (`put` of the value the winner holds): it names the loser only -/
def delLoser : Op := ⟨⟨2, B⟩, .root, .map [99], false, .del, [⟨1, A⟩]⟩

example : LocalPreds (buildStore w1 [valA, ctrB]) delLoser ∧
    (insertLocal w1 (buildStore w1 [valA, ctrB]) delLoser).1 =
      insertRemote w1 (buildStore w1 [valA, ctrB]) delLoser := by decide

end AmVerif.Props.C03Store
