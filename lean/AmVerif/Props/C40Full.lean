import AmVerif.Proofs.MigrateFullConv
/-
  C40 — "Loading with string migration turns visible strings into text and nothing else: After a
  load with StringMigration::ConvertToText, no map key or list element has a visible string scalar
  left. Each key or element that had visible string values holds a text object whose content is
  the highest-id string among them, and every key or element without a visible string keeps its
  values. A document with no visible strings loads with no added change."

  This file: the clauses on the migrated document at FULL strength — map keys AND list elements.
  It supersedes `C40_converted_partial` of Props/C40.lean (which assumed that no list element holds
  a visible string); `C40_no_strings_no_change`, `C40_strings_ascending` and the refuted
  `C40_unreachable_object_string_refuted` (finding D11) of that file stand as they are.

  Setting as in Props/C40.lean (`Model/Local.lean`, driver command `crdt.x.migrate`):
  `conversions ops` is what the first loop of `Automerge::convert_scalar_strings_to_text` collects —
  for a list element the property is `Prop::Seq(index)`, the index (`seek_list_opid(..).index`) of
  the element among the VISIBLE elements of the list in the loaded op set, computed BEFORE any
  conversion; `applyConversions` is the second loop, one `put_object(obj, prop, Text)` +
  `splice_text(new, 0, 0, s)` per entry in one transaction `t`.  Only Map and List objects are
  scanned (`ObjType::Map | ObjType::List`): the elements of text (and table) objects are not
  converted.  `seqRegs ops obj` = the visible elements of `obj` with their visible ops,
  `seqElems ops obj` = the same with the register entries as read; position `i` in either is the
  index the code uses.  Well-formedness of the op list the transaction sees is `TxInv ops t`
  (decidable).  The induction the PARTIAL theorem lacked: a conversion replaces the register of the
  element at its position and changes neither the ids nor the order of the visible elements of any
  list (`Proofs/MigrateFullRun.applyConversions_spec`), so an index computed before the first
  conversion names the same element at every later step.
  Property theorems only; helpers in `Proofs/MigrateFull*.lean`.
-/
namespace AmVerif.Props.C40Full
open AmVerif AmVerif.Crdt

/-! ### the example
    root "l" = list 1@0A = [ "d" (deleted), {"p" (5@0A) | "qr" (5@0B)} (a conflict on element 4@0A),
    5, map 7@0A {"k": "s"}, "z" ]: visible positions 0 (conflict), 1 (int), 2 (nested map), 3 ("z") -/

def A : Bytes := [0xA]
def B : Bytes := [0xB]
def L : ObjId := .id ⟨1, A⟩
def M : ObjId := .id ⟨7, A⟩
def ops0 : List Op := [
  ⟨⟨1, A⟩, .root, .map [108], false, .make .list, []⟩,
  ⟨⟨2, A⟩, L, .head, true, .put (.str [100]), []⟩,
  ⟨⟨3, A⟩, L, .elem ⟨2, A⟩, false, .del, [⟨2, A⟩]⟩,
  ⟨⟨4, A⟩, L, .elem ⟨2, A⟩, true, .put (.str [120]), []⟩,
  ⟨⟨5, A⟩, L, .elem ⟨4, A⟩, false, .put (.str [112]), [⟨4, A⟩]⟩,
  ⟨⟨5, B⟩, L, .elem ⟨4, A⟩, false, .put (.str [113, 114]), [⟨4, A⟩]⟩,
  ⟨⟨6, A⟩, L, .elem ⟨4, A⟩, true, .put (.int 5), []⟩,
  ⟨⟨7, A⟩, L, .elem ⟨6, A⟩, true, .make .map, []⟩,
  ⟨⟨8, A⟩, M, .map [107], false, .put (.str [115]), []⟩,
  ⟨⟨9, A⟩, L, .elem ⟨7, A⟩, true, .put (.str [122]), []⟩]
/-- the migration transaction: a fresh actor, start op 10 -/
def t0 : Tx := ⟨[0x4d], 10, []⟩
def X : Bytes := [0x4d]
/-- the ops of the four conversions: (l, 0, "p"), (l, 0, "qr"), (l, 3, "z"), (map, "k", "s") -/
def pend : List Op := [
  ⟨⟨10, X⟩, L, .elem ⟨4, A⟩, false, .make .text, [⟨5, A⟩, ⟨5, B⟩]⟩,
  ⟨⟨11, X⟩, .id ⟨10, X⟩, .head, true, .put (.str [112]), []⟩,
  ⟨⟨12, X⟩, L, .elem ⟨4, A⟩, false, .make .text, [⟨10, X⟩]⟩,
  ⟨⟨13, X⟩, .id ⟨12, X⟩, .head, true, .put (.str [113]), []⟩,
  ⟨⟨14, X⟩, .id ⟨12, X⟩, .elem ⟨13, X⟩, true, .put (.str [114]), []⟩,
  ⟨⟨15, X⟩, L, .elem ⟨9, A⟩, false, .make .text, [⟨9, A⟩]⟩,
  ⟨⟨16, X⟩, .id ⟨15, X⟩, .head, true, .put (.str [122]), []⟩,
  ⟨⟨17, X⟩, M, .map [107], false, .make .text, [⟨8, A⟩]⟩,
  ⟨⟨18, X⟩, .id ⟨17, X⟩, .head, true, .put (.str [115]), []⟩]
def t1 : Tx := ⟨[0x4d], 10, pend⟩

theorem conversions_ops0 : conversions ops0 =
    [(L, .inr 0, [112]), (L, .inr 0, [113, 114]), (L, .inr 3, [122]), (M, .inl [107], [115])] := by decide

/-- the example run of the second loop -/
theorem run_ops0 : applyConversions .utf8 ops0 t0 (conversions ops0) = .ok t1 := by
  rw [conversions_ops0]
  rw [applyConversions_step_ascii .utf8 ops0 t0 L (.inr 0) [112] _ (pend.getD 0 default) ((pend.drop 1).take 1)
    (by decide) (by decide) (by decide)]
  rw [applyConversions_step_ascii .utf8 ops0 _ L (.inr 0) [113, 114] _ (pend.getD 2 default) ((pend.drop 3).take 2)
    (by decide) (by decide) (by decide)]
  rw [applyConversions_step_ascii .utf8 ops0 _ L (.inr 3) [122] _ (pend.getD 5 default) ((pend.drop 6).take 1)
    (by decide) (by decide) (by decide)]
  rw [applyConversions_step_ascii .utf8 ops0 _ M (.inl [107]) [115] _ (pend.getD 7 default) ((pend.drop 8).take 1)
    (by decide) (by decide) (by decide)]
  rfl

/-! ### which strings the first loop collects for a list element -/

/-- "the highest-id string among them", list elements: for the element at visible position `i` of
    a list object, the strings the first loop collects (all under the property `Seq(i)`) are the
    strings among the element's visible values in ascending id order — the last one is the
    highest-id string; `r` is the element's register (`elemRegOps`), ascending by id. -/
theorem C40_list_strings_ascending (ops : List Op) (hs : StrictIds ops) (obj : ObjId) (i : Nat)
    (el : OpId) (r : List Op) (hobj : objType ops obj = some .list)
    (hel : (seqRegs ops obj)[i]? = some (el, r)) :
    convStringsL (conversions ops) obj i = r.filterMap Op.strOf ∧
    r = elemRegOps ops obj el ∧ r.Pairwise (fun a b => a.id.lt b.id = true) ∧
    (seqElems ops obj)[i]? = some (el, elemRegister ops obj el) := by
  obtain ⟨_, _, _, _, hr, _⟩ := mem_seqRegs (List.mem_of_getElem? hel)
  refine ⟨?_, hr, ?_, ?_⟩
  · rw [convStringsL_conversions hs, if_pos (mem_allObjects_of_objType hobj), hel]; rfl
  · rw [hr, elemRegOps_eq]
    exact sortById_strict (hs.filter _)
  · rw [seqElems_getElem?, hel, hr]; rfl

example : StrictIds ops0 ∧ objType ops0 L = some .list ∧
    (seqRegs ops0 L)[0]? = some (⟨4, A⟩, elemRegOps ops0 L ⟨4, A⟩) ∧
    convStringsL (conversions ops0) L 0 = [[112], [113, 114]] ∧
    (elemRegOps ops0 L ⟨4, A⟩).map (·.id) = [⟨5, A⟩, ⟨5, B⟩] := by decide

/-! ### the migrated document -/

/-- After the migration transaction ran successfully:
    MAP KEYS
    (a) a key of a map object whose visible values include strings holds exactly ONE value, a text
        object spelling the LAST — highest-id — of those strings;
    (b) a key of a map object without a visible string keeps its register, and so does every key of
        anything that is not a map object of the op set;
    LIST ELEMENTS (`i` = position among the visible elements of the ORIGINAL list)
    (c) the element at position `i` of a list object whose visible values `r` include strings is
        still the element at position `i` (same element id `el`) and holds exactly ONE value, a text
        object spelling the LAST — highest-id — of those strings (its other values, strings or
        not, are gone: each conversion's `put_object` overwrites the whole register);
    (d) a position of a list object whose element has no visible string (or that does not exist)
        reads exactly as before — same element, same register;
    (e) every list object keeps the ids and the order of its visible elements, hence its length;
    EVERYTHING ELSE
    (f) every existing object keeps its type, and every existing text / table object keeps its
        elements (strings inside text objects are not converted). -/
theorem C40_converted (e : Enc) (ops : List Op) (t t' : Tx) (hp : t.pending = [])
    (inv : TxInv ops t) (hrun : applyConversions e ops t (conversions ops) = .ok t') :
    (∀ obj k, (obj, ObjType.map) ∈ allObjects ops →
      ∀ s, ((mapRegOps ops obj k).filterMap Op.strOf).getLast? = some s →
        ∃ id, mapRegister (ops ++ t'.pending) obj k = [⟨id, .obj .text⟩] ∧
          objType (ops ++ t'.pending) (.id id) = some .text ∧
          textOf (seqElems (ops ++ t'.pending) (.id id)) = s) ∧
    (∀ obj k, ((obj, ObjType.map) ∈ allObjects ops → (mapRegOps ops obj k).filterMap Op.strOf = []) →
      mapRegister (ops ++ t'.pending) obj k = mapRegister ops obj k) ∧
    (∀ (obj : ObjId) (i : Nat) (el : OpId) (r : List Op), objType ops obj = some .list →
      (seqRegs ops obj)[i]? = some (el, r) →
      ∀ s, (r.filterMap Op.strOf).getLast? = some s →
        ∃ id, (seqElems (ops ++ t'.pending) obj)[i]? = some (el, [⟨id, .obj .text⟩]) ∧
          objType (ops ++ t'.pending) (.id id) = some .text ∧
          textOf (seqElems (ops ++ t'.pending) (.id id)) = s) ∧
    (∀ (obj : ObjId) (i : Nat), objType ops obj = some .list → elemStrs ((seqRegs ops obj)[i]?) = [] →
      (seqElems (ops ++ t'.pending) obj)[i]? = (seqElems ops obj)[i]?) ∧
    (∀ obj, objType ops obj = some .list →
      (seqElems (ops ++ t'.pending) obj).map (·.1) = (seqElems ops obj).map (·.1) ∧
      (seqElems (ops ++ t'.pending) obj).length = (seqElems ops obj).length) ∧
    (∀ obj ty, objType ops obj = some ty →
      objType (ops ++ t'.pending) obj = some ty ∧
      (ty ≠ .map → ty ≠ .list → seqElems (ops ++ t'.pending) obj = seqElems ops obj)) := by
  have inv0 : TxInv (ops ++ t.pending) t := by rw [hp, List.append_nil]; exact inv
  have hlist : ∀ c ∈ conversions ops, ∀ i, c.2.1 = .inr i → objType (ops ++ t.pending) c.1 = some .list := by
    rw [hp, List.append_nil]; exact conversions_inr_list inv.strict
  obtain ⟨_, types, texts, maps, lists⟩ := applyConversions_spec e ops (conversions ops) t t' hlist hrun inv0
  unfold MapSpec at maps
  unfold ListSpec at lists
  rw [hp, List.append_nil] at types texts maps lists
  refine ⟨fun obj k hobj s hs => ?_, fun obj k hno => ?_, fun obj i el r hobj hel s hs => ?_,
    fun obj i hobj hno => ?_, fun obj hobj => ?_, fun obj ty hty => ⟨types obj ty hty, texts obj ty hty⟩⟩
  · apply (maps obj k).2 s
    rw [convStrings_conversions inv.strict, if_pos hobj]; exact hs
  · apply (maps obj k).1
    rw [convStrings_conversions inv.strict]
    split
    · rename_i hobj; exact hno hobj
    · rfl
  · obtain ⟨el', r', id, g1, g2, g3, g4⟩ := ((lists obj hobj).2 i).2 s (by
      rw [convStringsL_conversions inv.strict, if_pos (mem_allObjects_of_objType hobj), hel]; exact hs)
    rw [seqElems_getElem?, hel] at g1
    simp only [Option.map_some, regEntry, Option.some.injEq, Prod.mk.injEq] at g1
    obtain ⟨rfl, _⟩ := g1
    exact ⟨id, g2, g3, g4⟩
  · apply ((lists obj hobj).2 i).1
    rw [convStringsL_conversions inv.strict, if_pos (mem_allObjects_of_objType hobj)]; exact hno
  · have h := (lists obj hobj).1
    refine ⟨h, ?_⟩
    have := congrArg List.length h
    simpa using this

/-- the example: after the run position 0 of the list (the conflicted element 4@0A, behind a
    deleted element) holds one text object spelling "qr" (the highest-id string), position 3 one
    spelling "z" — the index 3 was computed before position 0 was converted —, positions 1 (5)
    and 2 (the nested map) read as before, the list still has 4 elements with the same ids, and
    the key "k" of the nested map holds a text object spelling "s". -/
example : t0.pending = [] ∧ TxInv ops0 t0 ∧ applyConversions .utf8 ops0 t0 (conversions ops0) = .ok t1 ∧
    objType ops0 L = some .list ∧
    (seqRegs ops0 L)[0]? = some (⟨4, A⟩, elemRegOps ops0 L ⟨4, A⟩) ∧
    ((elemRegOps ops0 L ⟨4, A⟩).filterMap Op.strOf).getLast? = some [113, 114] ∧
    (seqElems (ops0 ++ t1.pending) L)[0]? = some (⟨4, A⟩, [⟨⟨12, X⟩, .obj .text⟩]) ∧
    textOf (seqElems (ops0 ++ t1.pending) (.id ⟨12, X⟩)) = [113, 114] ∧
    (seqElems (ops0 ++ t1.pending) L)[3]? = some (⟨9, A⟩, [⟨⟨15, X⟩, .obj .text⟩]) ∧
    textOf (seqElems (ops0 ++ t1.pending) (.id ⟨15, X⟩)) = [122] ∧
    elemStrs ((seqRegs ops0 L)[1]?) = [] ∧ elemStrs ((seqRegs ops0 L)[2]?) = [] ∧
    (seqElems (ops0 ++ t1.pending) L)[1]? = some (⟨6, A⟩, [⟨⟨6, A⟩, .scalar (.int 5)⟩]) ∧
    (seqElems (ops0 ++ t1.pending) L)[2]? = some (⟨7, A⟩, [⟨⟨7, A⟩, .obj .map⟩]) ∧
    (seqElems (ops0 ++ t1.pending) L).map (·.1) = [⟨4, A⟩, ⟨6, A⟩, ⟨7, A⟩, ⟨9, A⟩] ∧
    (M, ObjType.map) ∈ allObjects ops0 ∧
    mapRegister (ops0 ++ t1.pending) M [107] = [⟨⟨17, X⟩, .obj .text⟩] ∧
    textOf (seqElems (ops0 ++ t1.pending) (.id ⟨17, X⟩)) = [115] := by
  refine ⟨rfl, by decide, run_ops0, by decide, by decide, by decide, by decide, by decide, by decide,
    by decide, by decide, by decide, by decide, by decide, by decide, by decide, by decide, by decide⟩

/-! ### "no map key or list element has a visible string scalar left" -/

/-- After the migration transaction no value of any key of a map object of the op set, and no
    value of any visible element of a list object of the op set, is a string scalar.  (The
    strings now live in the new text objects; text objects are not scanned.) -/
theorem C40_no_visible_string_left (e : Enc) (ops : List Op) (t t' : Tx) (hp : t.pending = [])
    (inv : TxInv ops t) (hrun : applyConversions e ops t (conversions ops) = .ok t') :
    (∀ obj k, (obj, ObjType.map) ∈ allObjects ops →
      ∀ en ∈ mapRegister (ops ++ t'.pending) obj k, ∀ s, en.val ≠ .scalar (.str s)) ∧
    (∀ obj, objType ops obj = some .list →
      ∀ p ∈ seqElems (ops ++ t'.pending) obj, ∀ en ∈ p.2, ∀ s, en.val ≠ .scalar (.str s)) := by
  obtain ⟨ha, hb, hc, hd, _, _⟩ := C40_converted e ops t t' hp inv hrun
  constructor
  · intro obj k hobj en hen s
    cases hl : ((mapRegOps ops obj k).filterMap Op.strOf).getLast? with
    | some s' =>
      obtain ⟨id, hreg, _, _⟩ := ha obj k hobj s' hl
      rw [hreg] at hen
      simp only [List.mem_singleton] at hen
      subst hen
      intro h; cases h
    | none =>
      have hnil : (mapRegOps ops obj k).filterMap Op.strOf = [] := List.getLast?_eq_none_iff.mp hl
      rw [hb obj k (fun _ => hnil), mapRegister_eq, ← mapRegOps_eq, List.mem_map] at hen
      obtain ⟨o, ho, rfl⟩ := hen
      exact entryOf_not_str (filterMap_eq_nil_iff'.mp hnil o ho) s
  · intro obj hobj p hp' en hen s
    obtain ⟨i, hi⟩ := List.getElem?_of_mem hp'
    cases hreg : (seqRegs ops obj)[i]? with
    | none =>
      have := hd obj i hobj (by rw [hreg]; rfl)
      rw [hi, seqElems_getElem?, hreg] at this
      cases this
    | some q =>
      obtain ⟨el, r⟩ := q
      cases hl : (r.filterMap Op.strOf).getLast? with
      | some s' =>
        obtain ⟨id, hget, _, _⟩ := hc obj i el r hobj hreg s' hl
        rw [hi] at hget
        cases hget
        simp only [List.mem_singleton] at hen
        subst hen
        intro h; cases h
      | none =>
        have hnil : r.filterMap Op.strOf = [] := List.getLast?_eq_none_iff.mp hl
        have := hd obj i hobj (by rw [hreg]; exact hnil)
        rw [hi, seqElems_getElem?, hreg] at this
        simp only [Option.map_some, regEntry, Option.some.injEq] at this
        subst this
        simp only [List.mem_map] at hen
        obtain ⟨o, ho, rfl⟩ := hen
        exact entryOf_not_str (filterMap_eq_nil_iff'.mp hnil o ho) s

/-- the example: before the migration the list and the nested map show strings, afterwards none -/
example : (∃ p ∈ seqElems ops0 L, ∃ en ∈ p.2, en.val = .scalar (.str [113, 114])) ∧
    (∃ en ∈ mapRegister ops0 M [107], en.val = .scalar (.str [115])) ∧
    (∀ p ∈ seqElems (ops0 ++ t1.pending) L, ∀ en ∈ p.2, ∀ s, en.val ≠ .scalar (.str s)) ∧
    (∀ en ∈ mapRegister (ops0 ++ t1.pending) M [107], ∀ s, en.val ≠ .scalar (.str s)) := by
  have h := C40_no_visible_string_left .utf8 ops0 t0 t1 rfl (by decide) run_ops0
  exact ⟨by decide, by decide, h.2 L (by decide), h.1 M [107] (by decide)⟩

end AmVerif.Props.C40Full
