import AmVerif.Proofs.Spec
/-
  C02 — "For every history, the visible state equals an independent reading of its operation set,
  in which every map key and list element is a multi-value register whose values are the
  operations not named as predecessor by a later delete, overwrite or non-counter increment, with
  the greatest (counter, actor) id winning. List and text order follows RGA, with higher-id
  siblings first. A counter reads as its initial value plus every increment that names it as
  predecessor."

  The equality "visible state = independent reading" is checked by running the implementation
  against the executable reading `AmVerif.Model.Spec` (`showDoc`).  This file pins that reading to
  the words of the property, clause by clause.  Property theorems only; helper lemmas are in
  `AmVerif.Proofs.Spec`.  Each theorem is followed by a concrete kernel-evaluated example.
-/
namespace AmVerif.Props.C02
open AmVerif AmVerif.Crdt

/-! ### the example operations -/

/-- two conflicting puts on root key "a" by actors 01 and 02 -/
def putA1 : Op := ⟨⟨1, [1]⟩, .root, .map [97], false, .put (.int 1), []⟩
def putA2 : Op := ⟨⟨1, [2]⟩, .root, .map [97], false, .put (.int 2), []⟩
/-- an overwrite of `putA1` only (so `putA2` survives next to it), and a delete of both -/
def putA3 : Op := ⟨⟨2, [1]⟩, .root, .map [97], false, .put (.int 3), [⟨1, [1]⟩]⟩
def delA : Op := ⟨⟨2, [2]⟩, .root, .map [97], false, .del, [⟨1, [1]⟩, ⟨1, [2]⟩]⟩
/-- an increment aimed at the plain integer `putA1` -/
def incA : Op := ⟨⟨2, [3]⟩, .root, .map [97], false, .inc 5, [⟨1, [1]⟩]⟩
/-- a counter at root key "c" with two concurrent increments -/
def ctr : Op := ⟨⟨10, [1]⟩, .root, .map [99], false, .put (.counter 10), []⟩
def inc3 : Op := ⟨⟨11, [1]⟩, .root, .map [99], false, .inc 3, [⟨10, [1]⟩]⟩
def inc4 : Op := ⟨⟨11, [2]⟩, .root, .map [99], false, .inc 4, [⟨10, [1]⟩]⟩
/-- a list object `20@01` at root key "l"; `x` at the head, then `y` (actor 01) and `z` (actor 02)
    inserted concurrently after `x`, and `w` after `y` -/
def mkL : Op := ⟨⟨20, [1]⟩, .root, .map [108], false, .make .list, []⟩
def lst : ObjId := .id ⟨20, [1]⟩
def insX : Op := ⟨⟨21, [1]⟩, lst, .head, true, .put (.str [120]), []⟩
def insY : Op := ⟨⟨22, [1]⟩, lst, .elem ⟨21, [1]⟩, true, .put (.str [121]), []⟩
def insZ : Op := ⟨⟨22, [2]⟩, lst, .elem ⟨21, [1]⟩, true, .put (.str [122]), []⟩
def insW : Op := ⟨⟨23, [1]⟩, lst, .elem ⟨22, [1]⟩, true, .put (.str [119]), []⟩
/-- concurrent overwrites of element `x` by actors 01 and 02 -/
def setX1 : Op := ⟨⟨24, [1]⟩, lst, .elem ⟨21, [1]⟩, false, .put (.int 7), [⟨21, [1]⟩]⟩
def setX2 : Op := ⟨⟨24, [2]⟩, lst, .elem ⟨21, [1]⟩, false, .put (.int 8), [⟨21, [1]⟩]⟩
/-- a delete of element `z` -/
def delZ : Op := ⟨⟨25, [1]⟩, lst, .elem ⟨22, [2]⟩, false, .del, [⟨22, [2]⟩]⟩

/-! ### "(counter, actor) id": the order is a strict total order -/

/-- "the greatest (counter, actor) id": ids are compared by counter, then actor bytes, and this is
    a strict total order, so "greatest" is well defined. -/
theorem C02_id_order_strict_total :
    (∀ a : OpId, a.lt a = false) ∧
    (∀ a b c : OpId, a.lt b = true → b.lt c = true → a.lt c = true) ∧
    (∀ a b : OpId, a ≠ b → a.lt b = true ∨ b.lt a = true) ∧
    (∀ a b : OpId, a.lt b = (decide (a.ctr < b.ctr) || (a.ctr == b.ctr && bytesLt a.actor b.actor))) :=
  ⟨OpId.lt_irrefl, fun _ _ _ => OpId.lt_trans, fun _ _ => OpId.lt_total, fun _ _ => rfl⟩

example : (⟨1, [2]⟩ : OpId).lt ⟨2, [1]⟩ = true ∧ (⟨2, [1]⟩ : OpId).lt ⟨2, [1, 0]⟩ = true ∧
    (⟨2, [1, 0]⟩ : OpId).lt ⟨2, [2]⟩ = true := by decide

/-! ### "a multi-value register whose values are the operations not named as predecessor …" -/

/-- "every map key … is a multi-value register whose values are the operations not named as
    predecessor by a later delete, overwrite or non-counter increment": the register of key `k`
    of `obj` holds exactly (the readings of) the set/make operations on that key that no
    operation names as predecessor — except that an increment naming a counter does not count. -/
theorem C02_map_register_members (ops : List Op) (obj : ObjId) (k : Bytes) (e : Entry) :
    e ∈ mapRegister ops obj k ↔
      ∃ o ∈ ops, o.obj = obj ∧ o.key = .map k ∧ o.isValue = true ∧
        (¬ ∃ p ∈ ops, o.id ∈ p.pred ∧ ¬ (p.isInc = true ∧ o.isCounterPut = true)) ∧
        e = entryOf ops o :=
  register_mem_iff

/-- two concurrent puts: both are values of the register (whatever the arrival order) -/
example : mapRegister [putA2, putA1] .root [97] =
    [⟨⟨1, [1]⟩, .scalar (.int 1)⟩, ⟨⟨1, [2]⟩, .scalar (.int 2)⟩] := by decide

/-- "… and list element is a multi-value register …": the same for the element `el` of a
    sequence object (an insert op belongs to the element it creates, a later set/make to the
    element it targets). -/
theorem C02_elem_register_members (ops : List Op) (obj : ObjId) (el : OpId) (e : Entry) :
    e ∈ elemRegister ops obj el ↔
      ∃ o ∈ ops, o.obj = obj ∧ o.elem = some el ∧ o.isValue = true ∧
        (¬ ∃ p ∈ ops, o.id ∈ p.pred ∧ ¬ (p.isInc = true ∧ o.isCounterPut = true)) ∧
        e = entryOf ops o :=
  elemRegister_mem_iff

/-- the insert of `x` is overwritten by two concurrent sets: the element holds both -/
example : elemRegister [setX2, insX, mkL, setX1] lst ⟨21, [1]⟩ =
    [⟨⟨24, [1]⟩, .scalar (.int 7)⟩, ⟨⟨24, [2]⟩, .scalar (.int 8)⟩] := by decide

/-- "named as predecessor by a later delete, overwrite": an operation named as predecessor by
    anything but an increment is in no register. -/
theorem C02_delete_or_overwrite_removes (ops : List Op) (hd : DistinctIds ops) (p o : Op)
    (ho : o ∈ ops) (hp : p ∈ ops) (hpred : o.id ∈ p.pred) (hni : p.isInc = false)
    (obj : ObjId) (k : Bytes) : ∀ e ∈ mapRegister ops obj k, e.id ≠ o.id :=
  overwritten_not_in_register hd ho hp hpred (.inl hni) obj k

/-- an overwrite of one of two conflicting values leaves the other; a delete of both empties the
    register and the key disappears -/
example : mapRegister [putA1, putA2, putA3] .root [97] =
    [⟨⟨1, [2]⟩, .scalar (.int 2)⟩, ⟨⟨2, [1]⟩, .scalar (.int 3)⟩] := by decide
example : mapRegister [delA, putA1, putA2] .root [97] = [] ∧ mapKeys [delA, putA1, putA2] .root = [] := by
  decide

/-- "… or non-counter increment": an increment naming a value that is not a counter removes it. -/
theorem C02_noncounter_increment_removes (ops : List Op) (hd : DistinctIds ops) (p o : Op)
    (ho : o ∈ ops) (hp : p ∈ ops) (hpred : o.id ∈ p.pred) (hnc : o.isCounterPut = false)
    (obj : ObjId) (k : Bytes) : ∀ e ∈ mapRegister ops obj k, e.id ≠ o.id :=
  overwritten_not_in_register hd ho hp hpred (.inr hnc) obj k

example : mapRegister [putA1, incA] .root [97] = [] := by decide

/-- the other half of "non-counter increment": an increment naming a *counter* does not remove
    it — a visible counter is still in its register after any increment is added. -/
theorem C02_counter_increment_keeps (ops : List Op) (p o : Op) (k : Bytes) (ho : o ∈ ops)
    (hk : o.key = .map k) (hv : visible ops o = true) (hp : p.isInc = true)
    (hc : o.isCounterPut = true) :
    visible (p :: ops) o = true ∧ entryOf (p :: ops) o ∈ mapRegister (p :: ops) o.obj k :=
  ⟨by rw [inc_keeps_counter ops hp hc, hv], inc_keeps_counter_register ho hk hv hp hc⟩

example : mapRegister [inc3, ctr] .root [99] = [⟨⟨10, [1]⟩, .counter 13⟩] := by decide

/-! ### "with the greatest (counter, actor) id winning" -/

/-- "with the greatest (counter, actor) id winning": registers are listed in ascending id order
    and the winner — the last entry — has the greatest id: every other entry has a strictly
    smaller id. -/
theorem C02_greatest_id_wins (ops : List Op) (hd : DistinctIds ops) (obj : ObjId) (k : Bytes)
    (hne : mapRegister ops obj k ≠ []) :
    (mapRegister ops obj k).Pairwise (fun a b => b.id.lt a.id = false) ∧
    ∀ e ∈ mapRegister ops obj k,
      e = (mapRegister ops obj k).getLast hne ∨
      e.id.lt ((mapRegister ops obj k).getLast hne).id = true :=
  ⟨mapRegister_asc ops obj k, winner_is_max_id hd obj k hne⟩

/-- same counter, different actors: actor 02 wins; higher counter beats higher actor -/
example : (mapRegister [putA2, putA1] .root [97]).getLast? = some ⟨⟨1, [2]⟩, .scalar (.int 2)⟩ := by
  decide
example : (mapRegister [putA3, putA2, putA1] .root [97]).getLast? = some ⟨⟨2, [1]⟩, .scalar (.int 3)⟩ := by
  decide

/-- the same for list elements -/
theorem C02_greatest_id_wins_elem (ops : List Op) (hd : DistinctIds ops) (obj : ObjId) (el : OpId)
    (hne : elemRegister ops obj el ≠ []) :
    (elemRegister ops obj el).Pairwise (fun a b => b.id.lt a.id = false) ∧
    ∀ e ∈ elemRegister ops obj el,
      e = (elemRegister ops obj el).getLast hne ∨
      e.id.lt ((elemRegister ops obj el).getLast hne).id = true :=
  ⟨elemRegister_asc ops obj el, elem_winner_is_max_id hd obj el hne⟩

/-- of the two concurrent sets of element `x`, actor 02's wins -/
example : (elemRegister [setX2, insX, mkL, setX1] lst ⟨21, [1]⟩).getLast? =
    some ⟨⟨24, [2]⟩, .scalar (.int 8)⟩ := by decide

/-- when no operation occurs twice in the list, registers are strictly ascending by id -/
theorem C02_register_strictly_ascending (ops : List Op) (hd : StrictIds ops) (obj : ObjId)
    (k : Bytes) (el : OpId) :
    (mapRegister ops obj k).Pairwise (fun a b => a.id.lt b.id = true) ∧
    (elemRegister ops obj el).Pairwise (fun a b => a.id.lt b.id = true) :=
  ⟨mapRegister_strict hd obj k, elemRegister_strict hd obj el⟩

/-- the hypothesis holds of an honest op list, and fails when an op is repeated (where the
    register indeed repeats the entry) -/
example : StrictIds [putA3, putA2, putA1] ∧ ¬ StrictIds [putA1, putA1] ∧
    mapRegister [putA1, putA1] .root [97] =
      [⟨⟨1, [1]⟩, .scalar (.int 1)⟩, ⟨⟨1, [1]⟩, .scalar (.int 1)⟩] := by decide

/-! ### map keys -/

/-- the keys a map shows are exactly those whose register is non-empty, in byte order, each
    once. -/
theorem C02_map_keys (ops : List Op) (obj : ObjId) :
    (∀ k, k ∈ mapKeys ops obj ↔ mapRegister ops obj k ≠ []) ∧
    (mapKeys ops obj).Pairwise (fun a b => bytesLt a b = true) :=
  ⟨fun _ => mem_mapKeys_iff_register_ne_nil, mapKeys_sorted ops obj⟩

example : mapKeys [mkL, ctr, putA1, putA2, inc3] .root = [[97], [99], [108]] := by decide

/-! ### "A counter reads as its initial value plus every increment that names it as predecessor" -/

/-- "A counter reads as its initial value plus every increment that names it as predecessor." -/
theorem C02_counter_value (ops : List Op) (o : Op) (i : Int) (h : o.action = .put (.counter i)) :
    entryOf ops o = ⟨o.id, .counter (i +
      ((ops.filter (fun p => p.isInc && p.pred.contains o.id)).map Op.incAmount).sum)⟩ :=
  entryOf_counter ops o i h

/-- 10 + 3 + 4; the increment aimed at another op (`incA`) does not count -/
example : entryOf [inc4, incA, ctr, inc3] ctr = ⟨⟨10, [1]⟩, .counter 17⟩ := by decide

/-- each further increment naming the counter adds its amount; anything else adds nothing -/
theorem C02_counter_value_step (p : Op) (ops : List Op) (o : Op) (init : Int) :
    counterValue (p :: ops) o init =
      counterValue ops o init +
        (if (p.isInc && p.pred.contains o.id) = true then p.incAmount else 0) :=
  counterValue_cons p ops o init

/-- 10, 10 + 3, 10 + 3 + 4 — in any arrival order -/
example : counterValue [ctr] ctr 10 = 10 ∧ counterValue [inc3, ctr] ctr 10 = 13 ∧
    mapRegister [inc4, ctr, inc3] .root [99] = [⟨⟨10, [1]⟩, .counter 17⟩] ∧
    mapRegister [ctr, inc3, inc4] .root [99] = [⟨⟨10, [1]⟩, .counter 17⟩] := by decide

/-! ### "List and text order follows RGA, with higher-id siblings first" -/

/-- "with higher-id siblings first": the inserts that reference the same element (or the head) of
    the same object are listed by descending id — strictly when no operation occurs twice. -/
theorem C02_rga_siblings_descending (ops : List Op) (obj : ObjId) (parent : Key) :
    (∀ c, c ∈ children ops obj parent ↔ c ∈ ops ∧ c.obj = obj ∧ c.insert = true ∧ c.key = parent) ∧
    (children ops obj parent).Pairwise (fun a b => a.id.lt b.id = false) ∧
    (StrictIds ops → (children ops obj parent).Pairwise (fun a b => b.id.lt a.id = true)) :=
  ⟨fun _ => mem_children, children_desc ops obj parent, fun hd => children_strict_desc hd obj parent⟩

example : (children [insX, insY, insZ, insW] lst (.elem ⟨21, [1]⟩)).map Op.id = [⟨22, [2]⟩, ⟨22, [1]⟩] := by
  decide

/-- "List and text order follows RGA": the order is the depth-first walk in which every element
    is followed by the subtrees of the elements inserted after it, one sibling after another. In
    particular a sibling `c` and its whole subtree come before the subtree of every sibling
    listed after it (those with smaller ids). -/
theorem C02_rga_order (ops : List Op) (obj : ObjId) (fuel : Nat) (parent : Key) :
    rgaFrom ops obj (fuel + 1) parent =
      (children ops obj parent).flatMap (fun c => c :: rgaFrom ops obj fuel (.elem c.id)) ∧
    ∀ l₁ c l₂, children ops obj parent = l₁ ++ c :: l₂ →
      rgaFrom ops obj (fuel + 1) parent =
        l₁.flatMap (fun c => c :: rgaFrom ops obj fuel (.elem c.id)) ++
          (c :: rgaFrom ops obj fuel (.elem c.id) ++
            l₂.flatMap (fun c => c :: rgaFrom ops obj fuel (.elem c.id))) :=
  ⟨rfl, fun _ _ _ hc => rgaFrom_split hc fuel⟩

/-- `x`, then the higher-id sibling `z`, then `y` followed by its own child `w` -/
example : (rgaOrder [insW, insY, mkL, insZ, insX] lst).map Op.id =
    [⟨21, [1]⟩, ⟨22, [2]⟩, ⟨22, [1]⟩, ⟨23, [1]⟩] := by decide

/-- the visible sequence: the elements of the RGA order that are not marks and whose register is
    non-empty, each with its register. -/
theorem C02_seq_elems (ops : List Op) (obj : ObjId) (i : OpId) (r : List Entry) :
    (i, r) ∈ seqElems ops obj ↔
      ∃ e ∈ rgaOrder ops obj, e.isMark = false ∧ e.id = i ∧ r = elemRegister ops obj i ∧ r ≠ [] :=
  mem_seqElems

/-- deleting `z` removes it from the visible sequence but not from the RGA order -/
example :
    (seqElems [insX, insY, insZ, insW, delZ] lst).map Prod.fst = [⟨21, [1]⟩, ⟨22, [1]⟩, ⟨23, [1]⟩] ∧
    ((rgaOrder [insX, insY, insZ, insW, delZ] lst).map Op.id).length = 4 := by decide

/-- the whole reading, rendered: a map holding a conflicted key, a counter and a list -/
example : showDoc [insZ, putA2, inc3, mkL, insX, ctr, insY, putA1, inc4, insW] =
    "M{61=1@01:i1|1@02:i2;63=10@01:c17;6c=20@01:L[21@01:s78;22@02:s7a;22@01:s79;23@01:s77]}" := by decide

end AmVerif.Props.C02
