import AmVerif.Proofs.Rollback
/-
  C28 — "Rollback restores the exact prior document: After a transaction is rolled back, the
  document cannot be told apart from its state before the transaction began. State, heads, actor
  table and saved bytes are the same, and subsequent edits produce byte-identical changes to those
  the untouched document would produce."

  Setting.  `Session` (Proofs/Rollback.lean) is the driver's view of one replica: the document and
  the optional open transaction.  An editing call opens the transaction with `Doc.beginTx` (start
  op = max op + 1: a function of the document alone), is evaluated on applied ++ pending ops and
  appends its ops to `pending`; nothing else changes until commit.  `crdt.rollback` drops the
  transaction.  The differential run compares, after every rollback, the rendered state, the
  heads and the ops / start op / seq / deps of the NEXT committed change with the real code
  (after the fix in /repo: 0 disagreements), which is what ties these near-definitional model
  facts to `TransactionInner::rollback`.
  Not modelled: the actor table and the saved bytes (the model's document has neither; the
  harness oracle compares `save()` before and after on the real code).
  Property theorems only; helpers in `Proofs/Rollback.lean`.
-/
namespace AmVerif.Props.C28
open AmVerif AmVerif.Crdt

def opA1 : Op := ⟨⟨1, [1]⟩, .root, .map [97], false, .put (.int 1), []⟩
def opA2 : Op := ⟨⟨2, [1]⟩, .root, .map [108], false, .make .list, []⟩
def doc : Doc := ⟨[⟨[0xA1], [1], 1, 1, [], [opA1, opA2]⟩], []⟩
def s0 : Session := ⟨doc, none⟩
/-- a transaction: overwrite "a", insert into the list, a failing call (index out of range) -/
def calls : List Call :=
  [.put .root (.inl [97]) (.put (.int 9)) true, .insert (.id ⟨2, [1]⟩) 0 (.put (.int 5)),
   .put (.id ⟨2, [1]⟩) (.inr 7) (.put (.int 1)) true]

/-- "After a transaction is rolled back, the document cannot be told apart from its state before
    the transaction began": whatever calls the transaction ran (successful or failing), rolling
    back yields the session it started from — the same applied changes, held changes, heads, op
    set and hence every read. -/
theorem C28_rollback_restores (e : Enc) (actor : Bytes) (s : Session) (hs : s.tx = none) (cs : List Call) :
    (s.run e actor cs).rollback = s ∧
    (s.run e actor cs).rollback.doc.applied = s.doc.applied ∧
    (s.run e actor cs).rollback.doc.queue = s.doc.queue ∧
    (s.run e actor cs).rollback.doc.heads = s.doc.heads ∧
    (s.run e actor cs).rollback.view = s.doc.ops ∧
    showDoc (s.run e actor cs).rollback.view = showDoc s.doc.ops := by
  have h : (s.run e actor cs).rollback = s := by
    rw [Session.rollback_run]; cases s; simp_all
  have hv : s.view = s.doc.ops := by
    unfold Session.view Session.pendingOps; rw [hs]; simp
  rw [h]
  exact ⟨rfl, rfl, rfl, rfl, hv, by rw [hv]⟩

/-- the transaction really did something before it was rolled back -/
example : (s0.run .utf8 [1] calls).pendingOps =
      [⟨⟨3, [1]⟩, .root, .map [97], false, .put (.int 9), [⟨1, [1]⟩]⟩,
       ⟨⟨4, [1]⟩, .id ⟨2, [1]⟩, .head, true, .put (.int 5), []⟩] ∧
    (s0.run .utf8 [1] calls).rollback.view = doc.ops := by decide

/-- the same in terms of transactions: during ANY run of calls the only thing that changes is the
    transaction's `pending` list — actor and start op are those `beginTx` fixed, and the
    document is not an output of a call at all -/
theorem C28_calls_only_accumulate_pending (e : Enc) (d : Doc) (actor : Bytes) (cs : List Call) (t : Tx)
    (h : (Session.run e actor ⟨d, none⟩ cs).tx = some t) :
    (Session.run e actor ⟨d, none⟩ cs).doc = d ∧ TxRun e d.ops (d.beginTx actor) t ∧
    t.actor = actor ∧ t.startOp = d.maxOp + 1 := by
  have hrun := Session.run_txRun e actor d cs t h
  obtain ⟨ha, hso, _⟩ := hrun.numbered (Numbered.nil _ _)
  exact ⟨Session.run_doc e actor cs _, hrun, ha, hso⟩

/-- "subsequent edits produce byte-identical changes to those the untouched document would
    produce": the transaction started after the rollback goes through exactly the states — hence
    produces exactly the ops, with the same ids, start op and actor — that the same calls produce
    on the untouched document. -/
theorem C28_next_transaction_identical (e : Enc) (actor : Bytes) (s : Session) (hs : s.tx = none)
    (cs next : List Call) :
    ((s.run e actor cs).rollback).run e actor next = s.run e actor next ∧
    (((s.run e actor cs).rollback).run e actor next).pendingOps = (s.run e actor next).pendingOps := by
  have h : (s.run e actor cs).rollback = s := (C28_rollback_restores e actor s hs cs).1
  rw [h]; exact ⟨rfl, rfl⟩

/-- … and this does not depend on how many transactions were rolled back before, nor on what they
    did: after any sequence of rolled-back transactions the next transaction — its ops, and the
    seq / start op / deps the commit will carry (functions of the document) — is the one of the
    untouched document. -/
theorem C28_committed_change_independent_of_rollbacks (e : Enc) (actor : Bytes) (s : Session)
    (hs : s.tx = none) (rolledBack : List (List Call)) (next : List Call) :
    let s' := Session.rolledBack e actor s rolledBack
    (s'.run e actor next).pendingOps = (s.run e actor next).pendingOps ∧
    s'.doc.seqForActor actor + 1 = s.doc.seqForActor actor + 1 ∧
    (s'.doc.beginTx actor).startOp = (s.doc.beginTx actor).startOp ∧
    s'.doc.localDeps actor = s.doc.localDeps actor := by
  intro s'
  have h : s' = s := Session.rolledBack_eq e actor rolledBack s hs
  rw [h]; exact ⟨rfl, rfl, rfl, rfl⟩

/-- three rolled-back transactions, then a real one: ids start at 3 again -/
example : ((Session.rolledBack .utf8 [1] s0 [calls, calls.take 1, calls.drop 1]).run .utf8 [1]
      [.put .root (.inl [98]) (.put (.int 2)) true]).pendingOps =
    [⟨⟨3, [1]⟩, .root, .map [98], false, .put (.int 2), []⟩] := by decide

end AmVerif.Props.C28
