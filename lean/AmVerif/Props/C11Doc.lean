import AmVerif.Proofs.DocCodecExRecon4
import AmVerif.Proofs.SaveLoad
/-
  C11 — "Save/load round-trips a document exactly: Loading the output of save (compressed or not)
  gives a document observationally equal to the original … Saving the loaded document again produces
  the same bytes."   THE DOCUMENT-CHUNK HALF of the `BodyCodec` parameter of `Props/C11.lean`.

  Model (`Model/DocCodec.lean`): the body of a document chunk as `storage/document.rs`,
  `op_set2/columns.rs`, `change_graph.rs` write it without DEFLATE (`encodeDoc`, `imageOf`), the parser
  `Document::parse` + `OpSet::load` + `ChangeGraphCols::load` + `OpIter` (`decodeDoc`, with the
  panics of the Rust as `panic` outcomes), and the reconstruction of the changes by `ChangeCollector`
  (`changesOf`).  `DocImage` = what the chunk carries.  The tie is the `doccodec` engine: every column
  of every save compared byte by byte, loads of real / compressed / mutated chunks compared by
  outcome class, op rows and rebuilt changes.

  What is proved, and what is not:
  * `C11_doc_chunk_roundtrip` — FULL: `decodeDoc (encodeDoc img) = ok img` for every well-formed
    image (`wfB`, an explicit executable check): framing, both column-layout parsers, all 16 op
    columns and 9 change columns through the loaders the Rust uses for them (validating RLE / delta /
    boolean / prefix loaders with `with_length` / `with_fill`, the non-validating streaming decoders
    and the lazy dependency stream), every row.
  * `C11_doc_image_wf` / `C11_doc_save_decodes` — FULL: the image `save` builds from an admissible
    history (rows = `Store.buildStore`) is well-formed, given the type invariants of the history's
    values and the size bounds of the format; hence its chunk decodes to it.
  * `C11_doc_reconstruct` — FULL: `Reconstructs applied`
    (`changesOf (imageOf applied) = ok applied`) for every history that passes the decidable check
    `ReconChecks` (admissible ops; predecessors = stored ops of the op's register with smaller ids in
    ascending order, deletes name one; consecutive ids per change; dependencies earlier; hash = SHA-256
    of the encoding; per-actor sequence numbers and counter ranges in order).  The proof follows
    `ChangeCollector` step by step: register runs and `flush_deletes` (`Proofs/DocCodecEmit*.lean`), the
    store order (`DocCodecCanon`, `DocCodecStoreEmit`), `builders_index`'s binary search
    (`DocCodecSearch`), both encoder strategies (`DocCodecPlace*`), the per-change loop with
    `ActorMapper` and `Change::decode` (`DocCodecIdeal`, `DocCodecFinish`, `DocCodecRecon`).
    `C11_doc_reconstruct_partial` (the store facts and what an accepted reconstruction has verified)
    is kept; `C11_doc_reconstruct_fails_delete_without_pred` — the statement is FALSE without the
    hypothesis that every delete op names a predecessor (negated form, concrete witness, a finding).
  * `C11_load_save_doc_partial` — `C11_load_save` of `Props/C11.lean` for the instantiated codec: the
    hypothesis `Reconstructs` is gone (replaced by `ReconChecks`); the change-chunk round trip of held
    changes (C18, not proved as a whole) is the remaining hypothesis — hence still `_partial`.
-/
namespace AmVerif.Props.C11Doc
open AmVerif AmVerif.Crdt AmVerif.DocCodec

/-- **The document chunk body round-trips.**  "Loading the output of save … gives a document
    observationally equal to the original" — chunk level: whatever the image of the document
    (actor table, heads, change rows, op rows with successor lists, head indexes), the parser reads
    back from the bytes `save` writes exactly that image; no error, no panic.
    `wfB limit img` is the explicit, executable well-formedness check: ids, counters, sequence
    numbers, successor counts are `u32`s; strings are valid UTF-8; every value is written and read
    back as itself; times lie within ±2^62; dependencies are earlier rows with a `max_op` not above
    the change's own; sizes fit the length fields; at most `limit` rows (the model's budget). -/
theorem C11_doc_chunk_roundtrip (limit : Nat) (img : DocImage) (h : wfB limit img = true) :
    decodeDoc limit (encodeDoc img) = .ok img :=
  decodeDoc_encode_wf limit img (wfB_sound h)

set_option maxRecDepth 100000 in
/-- non-vacuity: the image of the example history (3 actors, concurrent conflict on `c` resolved
    later, counter + increment, list with a deleted element, text edited by two actors, nested map,
    a message, a negative time, extra bytes) is well-formed, has 14 rows with 4 successor entries, and its
    274-byte chunk body decodes to it -/
example : wfB 1000 (imageOf Ex.history) = true ∧ (imageOf Ex.history).ops.length = 14 ∧
    (imageOf Ex.history).actors = [Ex.A, Ex.B, Ex.C] ∧ (imageOf Ex.history).heads = [Ex.hA2] ∧
    ((imageOf Ex.history).ops.map (·.succ.length)).sum = 4 ∧
    (encodeDoc (imageOf Ex.history)).length = 274 ∧
    decodeDoc 1000 (encodeDoc (imageOf Ex.history)) = .ok (imageOf Ex.history) := by decide +kernel

/-- **The image `save` builds is well-formed.**  For applied changes in graph order whose ops are
    causally admissible (`Admissible`: distinct ids, an element created after its reference element,
    nothing refers to an op before it arrives — what `C02_store_*` assume too), whose values satisfy
    the type invariants of the Rust side (`historyOkB`) and whose image respects the size bounds of
    the format (`sizesOkB`): the image — the op rows are those of the op store in the code's order —
    satisfies `WF`. -/
theorem C11_doc_image_wf (limit : Nat) (applied : List DChange)
    (hadm : admissibleB (applied.flatMap (·.c.ops)) = true) (hh : historyOkB applied = true)
    (hs : sizesOkB limit (imageOf applied) = true) : WF limit (imageOf applied) :=
  imageOf_wf limit applied (admissibleB_sound hadm) (historyOkB_sound hh) (sizesOkB_sound hs)

/-- … hence the document chunk `save` writes for such a history decodes to the history's image -/
theorem C11_doc_save_decodes (limit : Nat) (applied : List DChange)
    (hadm : admissibleB (applied.flatMap (·.c.ops)) = true) (hh : historyOkB applied = true)
    (hs : sizesOkB limit (imageOf applied) = true) :
    decodeDoc limit (encodeDoc (imageOf applied)) = .ok (imageOf applied) :=
  decodeDoc_encode_wf limit _ (C11_doc_image_wf limit applied hadm hh hs)

set_option maxRecDepth 100000 in
/-- non-vacuity: the example history meets the three hypotheses -/
example : admissibleB (Ex.history.flatMap (·.c.ops)) = true ∧ historyOkB Ex.history = true ∧
    sizesOkB 1000 (imageOf Ex.history) = true ∧ Ex.history.length = 4 := by decide +kernel

/-- the full statement of the reconstruction half of `BodyCodec.OkFor`: the changes
    `storage/load` rebuilds from the document chunk of a history are the history's changes — same
    hashes, actors, sequence numbers, start ops, dependencies, ops with their predecessor lists
    (deletes re-created), times, messages, extra bytes -/
def Reconstructs (applied : List DChange) : Prop := changesOf (imageOf applied) = .ok applied

/-- **Reconstruction.**  "Loading the output of save … gives a document observationally equal to the
    original" — the history: for applied changes in graph order that pass `ReconChecks` (decidable;
    its clauses are listed at its definition in `Proofs/DocCodecChecks.lean`), the changes
    `ChangeCollector` rebuilds from the op rows and change rows of the document chunk — register runs,
    predecessors derived from successor lists, deletes re-created by `flush_deletes`, `builders_index`,
    the vector and the progressive encoder, `ActorMapper`, the SHA-256 of every re-encoded change, the
    heads comparison — are the applied changes: same hashes, actors, sequence numbers, start ops,
    dependencies, ops with their predecessor lists, times, messages, extra bytes.  No error, no panic. -/
theorem C11_doc_reconstruct (applied : List DChange) (h : ReconChecks applied) : Reconstructs applied :=
  reconstructs_of_checks h

/-- non-vacuity: the example history (3 actors, conflict, counter + increment, list with a deleted
    element — a delete op re-created from a successor entry —, text, nested map) passes the check
    (`Ex.history_checks`, decided by the kernel in `Proofs/DocCodecExRecon1..4.lean`, the four SHA-256
    change hashes recomputed); so does the 19-op change that goes through the progressive encoder -/
example : ReconChecks Ex.history ∧ ReconChecks Ex.big := ⟨Ex.history_checks, Ex.big_checks⟩

/-- `Reconstructs` on the example history, now an instance of the theorem -/
theorem C11_doc_reconstruct_example : Reconstructs Ex.history :=
  C11_doc_reconstruct Ex.history Ex.history_checks

set_option maxRecDepth 100000 in
/-- **`Reconstructs` is FALSE for a history that holds a delete op without predecessors** (C11
    violated on the unchanged tree; direct oracle `! C11 sig=load-failed … delete op that names no
    predecessor`).  Delete ops are never stored in the op store, they only leave successor entries
    on the ops they name: a delete that names none leaves no trace in the document chunk.  The
    history `Ex.delNoPred` is admissible and well-formed, `apply_changes` accepts it, `save` writes
    a chunk — and the reconstruction of that chunk fails with `MissingOps`: the document cannot be
    loaded again.  (So the general statement needs the extra hypothesis that every delete names a
    predecessor — the clause of `ReconChecks` this history fails (last conjunct) —, which holds for
    every change the library itself makes.) -/
theorem C11_doc_reconstruct_fails_delete_without_pred :
    admissibleB (Ex.delNoPred.flatMap (·.c.ops)) = true ∧ historyOkB Ex.delNoPred = true ∧
    wfB 1000 (imageOf Ex.delNoPred) = true ∧ ¬ Reconstructs Ex.delNoPred ∧
    changesOf (imageOf Ex.delNoPred) = .err .changes ∧
    ¬ (∀ o ∈ Ex.delNoPred.flatMap (·.c.ops), o.isDel = true → o.pred ≠ []) := by
  have h : changesOf (imageOf Ex.delNoPred) = .err .changes := by decide +kernel
  refine ⟨by decide +kernel, by decide +kernel, by decide +kernel, ?_, h, by decide +kernel⟩
  unfold Reconstructs
  rw [h]
  intro hh
  cases hh

set_option maxRecDepth 100000 in
/-- **`Reconstructs` is FALSE for a history that holds a change without ops whose `start_op` is beyond
    one past the `max_op` of its dependencies** (C11 violated on the unchanged tree; direct oracle
    `! C11 sig=load-failed … change without ops whose start_op is beyond max_op + 1`; found by the
    proof of `C11_doc_reconstruct`: the clause `GapD.empty` is needed).  The document chunk does not
    store `start_op`: `load` estimates the first counter of a change from its dependencies and takes
    the real one from the change's first op.  For `Ex.emptyGap` the collector reserves the counters
    2 … 9 for the empty change, finds no op at all and fails with `MissingOps`: `apply_changes`
    accepts the change, `save` writes a chunk — and the document cannot be loaded again.  (All other
    clauses of `ReconChecks` hold, hashes included; no library call makes such a change.) -/
theorem C11_doc_reconstruct_fails_empty_change_with_gap :
    admissibleB (Ex.emptyGap.flatMap (·.c.ops)) = true ∧ historyOkB Ex.emptyGap = true ∧
    wfB 1000 (imageOf Ex.emptyGap) = true ∧ ReconD Ex.emptyGap ∧
    OpsD (actorTable Ex.emptyGap) (Ex.emptyGap.flatMap (·.c.ops)) ∧
    ¬ Reconstructs Ex.emptyGap ∧ changesOf (imageOf Ex.emptyGap) = .err .changes := by
  have h : changesOf (imageOf Ex.emptyGap) = .err .changes := by decide +kernel
  refine ⟨by decide +kernel, by decide +kernel, by decide +kernel, by decide +kernel, by decide +kernel, ?_, h⟩
  unfold Reconstructs
  rw [h]
  intro hh
  cases hh

/-- **Reconstruction, PARTIAL.**  Proved for every admissible history: (1) in the op store a row
    lists `o` among its successors exactly when `o` names the row's op as predecessor — so the
    predecessor list the collector derives for an op or a re-created delete from the successor lists
    consists of exactly the rows the op names; (2) the rows are the non-delete ops of the history,
    each once — so every op id of a change is found as a row or (deletes) as a successor id;
    (3) an accepted reconstruction has one rebuilt change per change row and the stored heads are the
    (sorted) heads of the rebuilt changes, their hashes being SHA-256 of the re-encoded change.
    (Superseded by `C11_doc_reconstruct`, which proves `Reconstructs applied` itself; kept because it
    needs `Admissible` only.) -/
theorem C11_doc_reconstruct_partial (applied : List DChange)
    (hadm : Admissible (applied.flatMap (·.c.ops))) :
    (∀ r ∈ buildStore (fun _ => 0) (applied.flatMap (·.c.ops)), ∀ o ∈ applied.flatMap (·.c.ops),
      (o.id ∈ r.succ.map (·.1) ↔ r.op.id ∈ o.pred)) ∧
    ((buildStore (fun _ => 0) (applied.flatMap (·.c.ops))).map (·.op)).Perm
      ((applied.flatMap (·.c.ops)).filter (fun o => !o.isDel)) ∧
    (∀ built, changesOf (imageOf applied) = .ok built →
      built.length = applied.length ∧
      sortHashes (headsOf (built.map (·.c))) = sortHashes (headsOf (applied.map (·.c)))) := by
  refine ⟨fun r hr o ho => succ_iff_pred hadm hr ho, rows_are_stored hadm, ?_⟩
  intro built hb
  obtain ⟨h1, h2, _, _⟩ := rebuild_ok hb
  exact ⟨by simpa [imageOf] using h2, h1⟩

/-! ### `BodyCodec` instantiated -/

/-- a change of the history model with the metadata the model of M5 does not carry: time 0, no
    message, no extra bytes (what the harness commits) -/
def lift (c : Change) : DChange := ⟨c, 0, none, []⟩

/-- the `BodyCodec` of `Proofs/SaveLoad.lean` with the modelled document codec (and the modelled
    change codec `ChangeCodec` for the held changes) in place of the parameters -/
def docCodec (limit : Nat) : BodyCodec where
  bodyOk := fun ty body =>
    if ty = 0 then (match decodeDoc limit body with | .ok _ => true | _ => false) else true
  body := fun applied => encodeDoc (imageOf (applied.map lift))
  raw := fun c => (ChangeCodec.encodeChange ⟨c.actor, c.seq, c.startOp, 0, none, c.deps, [], c.ops⟩).drop 10
  reconstruct := fun body =>
    match loadDocBody limit body with
    | .ok (_, cs) => cs.map (·.c)
    | _ => []
  decode := fun body =>
    match ChangeCodec.decodeChange limit (Chunk.encodeChunk 1 body) with
    | .ok (h, x) => x.toGraph h
    | _ => default

theorem map_c_lift (l : List Change) : (l.map lift).map (·.c) = l := by
  induction l with
  | nil => rfl
  | cons x xs ih => simp only [List.map_cons, ih]; rfl

/-- **C11's main theorem for the instantiated codec, PARTIAL.**  `loadDoc (saveDoc d) = some d` (and
    with it equal heads, change order, held changes, op set, state at every heads — `C11_load_save`)
    for the modelled document codec, WITHOUT the hypothesis `BodyCodec.OkFor` about the document
    chunk's parser: it is replaced by the hypotheses of `C11_doc_save_decodes` on the applied changes
    and the decidable check `ReconChecks` of the reconstruction theorem (`reconstructs_of_checks`).
    For documents that hold changes back, the change-chunk round trip of the held changes (C18, proved
    column by column only) remains a hypothesis — the only reason for `_partial`. -/
theorem C11_load_save_doc_partial (limit : Nat) (d : Doc) (hinv : d.Inv)
    (hadm : admissibleB ((d.applied.map lift).flatMap (·.c.ops)) = true)
    (hh : historyOkB (d.applied.map lift) = true)
    (hs : sizesOkB limit (imageOf (d.applied.map lift)) = true)
    (hlen : (encodeDoc (imageOf (d.applied.map lift))).length < 2 ^ 64)
    (hchk : ReconChecks (d.applied.map lift))
    (hq : ∀ c ∈ d.queue, d.hasActorSeq c = false)
    (hraw : ∀ c ∈ d.queue, ((docCodec limit).raw c).length < 2 ^ 64 ∧ (docCodec limit).decode ((docCodec limit).raw c) = c) :
    loadDoc (docCodec limit) (saveDoc (docCodec limit) d) = some d := by
  have hdec := C11_doc_save_decodes limit (d.applied.map lift) hadm hh hs
  have hrec : Reconstructs (d.applied.map lift) := reconstructs_of_checks hchk
  apply loadDoc_saveDoc hinv _ hq
  refine ⟨?_, hlen, ?_, fun c _ => rfl, fun c hc => (hraw c hc).1, fun c hc => (hraw c hc).2⟩
  · show (if (0 : Nat) = 0 then (match decodeDoc limit (encodeDoc (imageOf (d.applied.map lift))) with
        | .ok _ => true | _ => false) else true) = true
    rw [hdec]; rfl
  · show (match loadDocBody limit (encodeDoc (imageOf (d.applied.map lift))) with
        | .ok (_, cs) => cs.map (·.c) | _ => []) = d.applied
    have hl : loadDocBody limit (encodeDoc (imageOf (d.applied.map lift))) =
        .ok (⟨(imageOf (d.applied.map lift)).actors, (imageOf (d.applied.map lift)).heads,
              (imageOf (d.applied.map lift)).changes, (imageOf (d.applied.map lift)).ops, none,
              (imageOf (d.applied.map lift)).headIdx⟩, d.applied.map lift) := by
      have hparts := decodeDoc_parts hdec
      unfold loadDocBody
      rw [hparts]
      simp only
      unfold Reconstructs changesOf at hrec
      rw [hrec]
    rw [hl]
    exact map_c_lift d.applied

end AmVerif.Props.C11Doc

