import AmVerif.Proofs.Chunk
/-
  C14 — "If any single bit of saved data (document, incremental change or bundle bytes) is
  flipped, load fails with an error. It never yields a document that differs from the original,
  and it never panics."

  Decided here at the chunk level, on the executable model of `Chunk::parse`, `load_changes` and
  `load_with_options` (`AmVerif.Model.Chunk`), WITHOUT any assumption on SHA-256: `Sha256.sha256`
  is an opaque function in every proof (only its output length, 32 bytes, is used).  The sentence
  "load fails" can therefore not be proved outright — a load that accepts a modified chunk is
  possible exactly if the modification happens to preserve the first four digest bytes — and is
  stated as: *acceptance exhibits a 32-bit SHA-256 prefix collision*, with the colliding strings
  given explicitly (the bytes hashed for the original chunk, and the bytes hashed for what was
  accepted).  Where the outcome does not depend on the hash at all it is proved unconditionally:

  * a flip in the four magic bytes is rejected (`invalid magic bytes`);
  * a flip in the four checksum bytes is rejected (`bad checksum`): the hashed bytes are unchanged;
  * a flip in the type byte, the LEB128 length or the data changes the bytes that are hashed
    (the length encoding is canonical, so the same bytes cannot be re-read differently), while
    the stored checksum stays: acceptance is a collision.

  The saved data are an uncompressed chunk `encodeChunk ty data` (`ty` 0 document, 1 change,
  3 bundle) followed by any bytes `tail`; a modification is `flipBit file i bit`, more generally
  any file `file'` of the same length differing in exactly one position (`DiffersAt`).  For
  arbitrary single-*byte* changes there is one more way to be accepted, impossible for a bit
  flip: the type byte of a change chunk (1) is overwritten with "compressed change" (2) and the
  data happen to inflate to a change with the original hash; then the change that is loaded has
  the original hash (`C14_change_accept_implies_collision_or_same_hash`).

  Not covered: chunks stored compressed (`ty = 2`).  There the statement "load fails" is not
  provable from the framing and is in general false for the format: the checksum covers the
  *inflated* bytes, so a flipped bit that DEFLATE ignores (padding after the final block, …)
  loads successfully — to the same change, hence the same document.

  "It never panics": the model functions are total into `Except` (see the remark in C13).

  Property theorems only; lemmas are in `AmVerif.Proofs.Chunk`.
-/
namespace AmVerif.Props.C14
open AmVerif AmVerif.Chunk

attribute [local instance] AmVerif.Leb.exceptDecEq

/-- the body parsers of the examples accept everything -/
def anyBody : Nat → Bytes → Bool := fun _ _ => true

/-- "a single bit … is flipped": `flipBit` changes the file in exactly the one position `i`
    (same length, byte `i` different, every other byte equal). -/
theorem C14_flipBit_single_change (bs : Bytes) (i bit : Nat) (hi : i < bs.length) (hb : bit < 8) :
    (flipBit bs i bit).length = bs.length ∧ (flipBit bs i bit)[i]? ≠ bs[i]? ∧
    ∀ j, j ≠ i → (flipBit bs i bit)[j]? = bs[j]? :=
  let h := flipBit_differsAt bs i bit hi hb
  ⟨h.1, h.2.2.1, h.2.2.2⟩

example : flipBit [133, 111, 74, 131] 2 3 = [133, 111, 66, 131] := by decide

/-- "load fails with an error", magic bytes — unconditional: any change of one of the first four
    bytes of the file makes the load (either mode) fail with a parse error. -/
theorem C14_flip_in_magic_rejected (bodyOk : Nat → Bytes → Bool) (mode : OnPartial) (ty : Nat)
    (data tail file' : Bytes) (i : Nat)
    (hdf : DiffersAt (encodeChunk ty data ++ tail) file' i) (hi : i < 4) :
    loadFile bodyOk mode file' = .error (.parse .invalid) :=
  loadFile_change_in_magic hdf hi

/-- "load fails with an error", checksum bytes — unconditional: any change of one of the four
    checksum bytes of the first chunk makes the load (either mode) fail with `BadChecksum`. -/
theorem C14_flip_in_checksum_rejected (bodyOk : Nat → Bytes → Bool) (mode : OnPartial) (ty : Nat)
    (data tail file' : Bytes) (i : Nat) (hty : ty ≤ 3) (hty2 : ty ≠ 2) (hd : data.length < 2 ^ 64)
    (hb : bodyOk ty data = true)
    (hdf : DiffersAt (encodeChunk ty data ++ tail) file' i) (h4 : 4 ≤ i) (h8 : i < 8) :
    loadFile bodyOk mode file' = .error .badChecksum :=
  loadFile_change_in_checksum hty hty2 hd hb hdf h4 h8

set_option maxRecDepth 4000 in
/-- the model run on literal bytes: `encodeChunk 0 [7]` with bit 0 of byte 2 (magic), of byte 5
    (checksum) flipped -/
example :
    loadFile anyBody .error (flipBit [133, 111, 74, 131, 203, 242, 20, 19, 0, 1, 7] 2 0)
      = .error (.parse .invalid) ∧
    loadFile anyBody .error (flipBit [133, 111, 74, 131, 203, 242, 20, 19, 0, 1, 7] 5 0)
      = .error .badChecksum := by decide +kernel

/-- what "accepted" means: the first chunk of a successful load is read from the front of the
    file — magic, its checksum, its type byte, the LEB128 of its data length, its data —, its hash
    is the SHA-256 of `Chunk.hashed` (type byte, length, data as read; for a compressed change: of
    the inflated change), and the stored checksum is the first four bytes of that hash. -/
theorem C14_accepted_chunk (bodyOk : Nat → Bytes → Bool) (mode : OnPartial) (file' : Bytes)
    (hne : file' ≠ []) (chunks : List Chunk) (h : loadFile bodyOk mode file' = .ok chunks) :
    ∃ ch rest more, chunks = ch :: more ∧
      file' = Consts.MAGIC_BYTES ++ ch.checksum ++ [UInt8.ofNat ch.ty] ++
                Leb.ulebEncode ch.data.length ++ ch.data ++ rest ∧
      ch.hashed = (if ch.ty = 2 then UInt8.ofNat 1 :: (Leb.ulebEncode ch.body.length ++ ch.body)
                   else UInt8.ofNat ch.ty :: (Leb.ulebEncode ch.data.length ++ ch.data)) ∧
      ch.hash = Sha256.sha256 ch.hashed ∧ ch.hash.take 4 = ch.checksum ∧
      (ch.ty ≠ 2 → ch.body = ch.data) ∧ (ch.ty = 2 → Inflate.inflateExact ch.data = some ch.body) := by
  have hne' : file'.isEmpty = false := by cases file' <;> simp_all
  obtain ⟨ch, rest, more, h1, h2, h3, h4, h5, h6⟩ := loadFile_ok_first_read h hne'
  exact ⟨ch, rest, more, h1, h2, rfl, h3, h4, h5, h6⟩

/-- "load fails with an error", any position of the first chunk, single-byte change, either
    mode: if the load nevertheless succeeds with first chunk `ch`, then either the bytes `y`
    hashed for `ch` are not the bytes `x` hashed for the original chunk while `SHA-256(y)` and
    `SHA-256(x)` agree in the first four bytes, or the type byte of a change chunk was overwritten
    with "compressed" and `ch` is a change with the original hash. -/
theorem C14_change_accept_implies_collision_or_same_hash (bodyOk : Nat → Bytes → Bool)
    (mode : OnPartial) (ty : Nat) (data tail file' : Bytes) (i : Nat)
    (hty : ty ≤ 3) (hty2 : ty ≠ 2) (hd : data.length < 2 ^ 64)
    (hdf : DiffersAt (encodeChunk ty data ++ tail) file' i) (hi : i < (encodeChunk ty data).length)
    (chunks : List Chunk) (h : loadFile bodyOk mode file' = .ok chunks) :
    ∃ ch more, chunks = ch :: more ∧
      ((∃ x y, x = UInt8.ofNat ty :: (Leb.ulebEncode data.length ++ data) ∧ y = ch.hashed ∧
          ch.hash = Sha256.sha256 y ∧ x ≠ y ∧
          (Sha256.sha256 x).take 4 = (Sha256.sha256 y).take 4) ∨
       (ty = 1 ∧ i = 8 ∧ file'[8]? = some 2 ∧ ch.ty = 2 ∧ ch.hash = chunkHash 1 data)) := by
  obtain ⟨ch, more, hc, ⟨hy, hh, he⟩ | hq⟩ := loadFile_change_accept hty hty2 hd hdf hi h
  · exact ⟨ch, more, hc, Or.inl ⟨_, _, rfl, rfl, hh, fun e => hy e.symm, he.symm⟩⟩
  · exact ⟨ch, more, hc, Or.inr hq⟩

/-- "If any single bit of saved data … is flipped, load fails with an error": a flip of one bit
    of the first chunk of the file; if the load (either mode) succeeds, a 32-bit SHA-256 prefix
    collision is exhibited: `x`, the bytes hashed for the original chunk, and `y ≠ x`, the bytes
    hashed for the chunk that was accepted in its place. -/
theorem C14_flip_accept_implies_collision (bodyOk : Nat → Bytes → Bool) (mode : OnPartial)
    (ty : Nat) (data tail : Bytes) (i bit : Nat)
    (hty : ty ≤ 3) (hty2 : ty ≠ 2) (hd : data.length < 2 ^ 64)
    (hi : i < (encodeChunk ty data).length) (hb : bit < 8) (chunks : List Chunk)
    (h : loadFile bodyOk mode (flipBit (encodeChunk ty data ++ tail) i bit) = .ok chunks) :
    ∃ ch more x y, chunks = ch :: more ∧
      x = UInt8.ofNat ty :: (Leb.ulebEncode data.length ++ data) ∧ y = ch.hashed ∧
      ch.hash = Sha256.sha256 y ∧ x ≠ y ∧
      (Sha256.sha256 x).take 4 = (Sha256.sha256 y).take 4 := by
  obtain ⟨ch, more, hc, hy, hh, he⟩ := loadFile_flip_accept hty hty2 hd hi hb h
  exact ⟨ch, more, _, _, hc, rfl, rfl, hh, fun e => hy e.symm, he.symm⟩

/-- the same for a flip in a later chunk of an append-only file, strict load: the chunks before
    it are well-formed stored chunks (`pre`), the flipped one is uncompressed, anything may follow. -/
theorem C14_flip_later_chunk_accept_implies_collision (bodyOk : Nat → Bytes → Bool)
    (pre : List Stored) (hpre : ∀ s ∈ pre, s.WF bodyOk) (ty : Nat) (data tail : Bytes) (i bit : Nat)
    (hty : ty ≤ 3) (hty2 : ty ≠ 2) (hd : data.length < 2 ^ 64)
    (hlo : (fileOf pre).length ≤ i) (hhi : i < (fileOf pre).length + (encodeChunk ty data).length)
    (hb : bit < 8) (chunks : List Chunk)
    (h : loadFile bodyOk .error (flipBit (fileOf pre ++ (encodeChunk ty data ++ tail)) i bit)
      = .ok chunks) :
    ∃ ch x y, ch ∈ chunks ∧
      x = UInt8.ofNat ty :: (Leb.ulebEncode data.length ++ data) ∧ y = ch.hashed ∧
      ch.hash = Sha256.sha256 y ∧ x ≠ y ∧
      (Sha256.sha256 x).take 4 = (Sha256.sha256 y).take 4 := by
  obtain ⟨ch, hm, hy, hh, he⟩ := loadFile_flip_later_accept pre hpre hty hty2 hd hlo hhi hb h
  exact ⟨ch, _, _, hm, rfl, rfl, hh, fun e => hy e.symm, he.symm⟩

/-- "It never yields a document that differs from the original", for a modification behind the
    first chunk: whatever is done to the bytes after a well-formed first chunk, a load (either
    mode) that succeeds starts with that chunk, unchanged.  (With partial loads allowed a flip in a
    later chunk makes the load stop there and keep the chunks before it — see C13.) -/
theorem C14_flip_later_chunk_keeps_prefix (bodyOk : Nat → Bytes → Bool) (mode : OnPartial)
    (s : Stored) (hs : s.WF bodyOk) (rest' : Bytes) (chunks : List Chunk)
    (h : loadFile bodyOk mode (s.bytes ++ rest') = .ok chunks) :
    ∃ more, chunks = s.chunk :: more := by
  have hl := s.bytes_length_ge
  obtain ⟨ch, r, more, hp, -, rfl⟩ :=
    loadFile_ok_first h (isEmpty_false_of_length_pos (by rw [List.length_append]; omega))
  rw [Stored.parse hs] at hp
  simp only [Except.ok.injEq, Prod.mk.injEq] at hp
  exact ⟨more, by rw [hp.1]⟩

/-! ### non-vacuity: the hypotheses of the acceptance theorems can hold

The acceptance theorems are implications from "the load succeeded"; their hypotheses are
satisfiable (the following instance type-checks with a concrete chunk, flip position and bit),
and on this instance the model in fact rejects: -/

example (chunks : List Chunk)
    (h : loadFile anyBody .error (flipBit (encodeChunk 0 [7] ++ []) 10 0) = .ok chunks) :
    ∃ x y : Bytes, x = [0, 1, 7] ∧ x ≠ y ∧ (Sha256.sha256 x).take 4 = (Sha256.sha256 y).take 4 := by
  obtain ⟨ch, more, x, y, -, hx, -, -, hne, he⟩ :=
    C14_flip_accept_implies_collision anyBody .error 0 [7] [] 10 0
      (by decide) (by decide) (by decide) (by rw [encodeChunk_length]; decide +kernel) (by decide)
      chunks h
  refine ⟨x, y, ?_, hne, he⟩
  rw [hx]; decide +kernel

set_option maxRecDepth 4000 in
/-- the model run on literal bytes: `encodeChunk 0 [7]` with one bit flipped in the type byte
    (8; bit 0 makes it a change chunk, bit 2 an unknown type), the length byte (9; bit 0 makes the
    length 0, bit 1 makes it 3) and the data byte (10) -/
example :
    loadFile anyBody .error (flipBit [133, 111, 74, 131, 203, 242, 20, 19, 0, 1, 7] 8 0)
      = .error .badChecksum ∧
    loadFile anyBody .error (flipBit [133, 111, 74, 131, 203, 242, 20, 19, 0, 1, 7] 8 2)
      = .error (.parse .invalid) ∧
    loadFile anyBody .error (flipBit [133, 111, 74, 131, 203, 242, 20, 19, 0, 1, 7] 9 0)
      = .error .badChecksum ∧
    loadFile anyBody .error (flipBit [133, 111, 74, 131, 203, 242, 20, 19, 0, 1, 7] 9 1)
      = .error (.parse .incomplete) ∧
    loadFile anyBody .error (flipBit [133, 111, 74, 131, 203, 242, 20, 19, 0, 1, 7] 10 0)
      = .error .badChecksum := by decide +kernel

end AmVerif.Props.C14
