import AmVerif.Proofs.SyncRounds
/-
  C21 — Multi-peer sync converges across disconnects.
  Property theorems only; helper lemmas are in `AmVerif.Proofs.Sync*`.
  Model: `AmVerif.Model.Sync` + `AmVerif.Model.Sync2` (`Cfg.reconnect`, `Step21`, `Reachable21`,
  `State.persisted`); the n-peer network the correspondence engine executes is
  `AmVerif.Model.SyncNet` (`Net`: one state per ordered pair, FIFO links, drop, reconnect with
  `State.decode (State.encode s)`, read-only, data loss).

  FULL-STRENGTH STATEMENT (C21):
    theorem C21_component_converges (net : Net) (reachable by edit | generate | deliver | drop |
        reconnect(fresh | persisted)) :
      under fair scheduling without further edits and drops, within Σ_pairs bound rounds every
      `generate` in a connected component returns `none` and all peers of the component have the
      same heads.
  PROVED here (all for an arbitrary false-positive oracle `fp`):
    * `C21_pair_reestablish`: a connection may drop at ANY point — with messages in flight in
      both directions, with either side waiting for an acknowledgement — and come back with a fresh
      or a persisted state on either side: the pair again satisfies every C20 invariant;
    * `C21_quiescent_converged_partial`: hence, for a pair, after any history of edits, exchanges,
      drops and reconnects there is no quiet non-converged configuration;
    * `C21_not_left_waiting`: after a reconnect neither side is waiting (`in_flight = false`) and
      the first `generate_sync_message` of either side produces a message, whatever the documents.
  CONTINUED in `AmVerif.Props.C21Progress` (for an arbitrary `fp` unless said otherwise):
    * progress for the pair: from every `Reachable21` configuration, once edits and disconnects stop,
      the pair is quiescent and converged within `missing + 4` rounds (`C21_progress`,
      `C21_converges_after_last_reconnect`); a reconnect resets `sent_hashes` on both sides, which is
      what makes the lossy drop harmless (`C21_reconnect_resets_sent`,
      `C21_one_sided_reset_livelock` for the converse);
    * n peers, safety: every reachable network (`NetStep`: edit | generate | deliver | drop |
      connect(fresh | persisted), any topology) in which every connected link is quiet is converged
      on every connected component (`C21_component_converged_partial`).  The pairwise invariant of
      C20 does NOT hold with three or more peers (a peer's queue can hold orphans that came from a
      third peer, they can become new heads when a dependency arrives from this peer,
      `advance_heads` then puts them into `shared_heads` although the other side does not have
      them, and the other side answers with the reset message); the proof uses a weaker session
      invariant that survives third-party deliveries.
  STILL MISSING for the full statement: progress for n peers (the pair lemma under the weak
  invariants, including the reset-message branch; see `C21Progress.lean` for the exact statement;
  the reset branch works under forced false positives since the hook is not consulted for an empty
  filter: `C21_reset_recovers_under_forced_fp`).
-/
namespace AmVerif.Props.C21
open AmVerif AmVerif.Sync

/-- **pairwise re-establishment**: every configuration reachable with the steps of C20 plus
    drop-and-reconnect(fresh | persisted) satisfies the C20 safety invariants -/
theorem C21_pair_reestablish (fp : Hash → Bool) {c : Cfg} (h : Reachable21 fp c) :
    (Topo c.docA.applied ∧ Topo c.docB.applied) ∧
    (∀ x ∈ c.stA.sharedHeads, x ∈ c.docA.hashes ∧ x ∈ c.docB.hashes) ∧
    (∀ x ∈ c.stB.sharedHeads, x ∈ c.docB.hashes ∧ x ∈ c.docA.hashes) ∧
    (∀ x ∈ c.stA.sentHashes, x ∈ c.docA.hashes) ∧ (∀ x ∈ c.stB.sentHashes, x ∈ c.docB.hashes) ∧
    (∀ m ∈ c.linkAB, ∀ x ∈ m.changes, x ∈ c.docA.applied ∨ x ∈ c.docB.applied) ∧
    (∀ m ∈ c.linkBA, ∀ x ∈ m.changes, x ∈ c.docB.applied ∨ x ∈ c.docA.applied) ∧
    (c.stA.inFlight = true → c.stB.inFlight = true → c.linkAB ≠ [] ∨ c.linkBA ≠ []) ∧
    (resetCond c.docA c.stA = false ∧ resetCond c.docB c.stB = false) := by
  have inv := Inv.of_reachable21 fp h
  refine ⟨⟨inv.a.wf.topo, inv.b.wf.topo⟩, inv.a.shared, inv.b.shared, inv.a.sent, inv.b.sent,
    fun m hm => (inv.a.msgs m hm).changes, fun m hm => (inv.b.msgs m hm).changes, ?_, ?_, ?_⟩
  · intro ha hb
    rcases inv.a.flight ha with h1 | h1 | h1
    · exact Or.inl h1
    · rw [hb] at h1; cases h1
    · exact Or.inr h1
  · exact resetCond_false_of (fun hs hhs hv hhv x hx => (inv.a.theirHave hs hhs hv hhv x hx).1)
  · exact resetCond_false_of (fun hs hhs hv hhv x hx => (inv.b.theirHave hs hhs hv hhv x hx).1)

/-- the reconnect step itself: the invariant survives it, whatever was in flight -/
theorem C21_reconnect_preserves_invariant {c : Cfg} (inv : Inv c) (ra rb : Reconn) :
    Inv (c.reconnect ra rb) :=
  inv.reconnect ra rb

/-- the two-peer component: no quiet non-converged configuration, across any number of
    disconnects with message loss.  (`_partial`: two peers; quiescence within a bound is not part
    of the statement.) -/
theorem C21_quiescent_converged_partial (fp : Hash → Bool) {c : Cfg} (h : Reachable21 fp c)
    (hq : Quiescent fp c) : Converged c :=
  converged_of_quiescent (Inv.of_reachable21 fp h) hq

/-- "No peer is left permanently waiting": right after a reconnect nobody waits for an
    acknowledgement, nothing is in flight, and each side's next `generate_sync_message` does
    produce a message (so the exchange always restarts). -/
theorem C21_not_left_waiting (fp : Hash → Bool) (c : Cfg) (ra rb : Reconn) :
    (c.reconnect ra rb).stA.inFlight = false ∧ (c.reconnect ra rb).stB.inFlight = false ∧
    (c.reconnect ra rb).linkAB = [] ∧ (c.reconnect ra rb).linkBA = [] ∧
    (generate fp (c.reconnect ra rb).docA (c.reconnect ra rb).stA).2 ≠ none ∧
    (generate fp (c.reconnect ra rb).docB (c.reconnect ra rb).stB).2 ≠ none := by
  have key : ∀ (d : Doc) (s : State) (r : Reconn), (generate fp d (r.apply s)).2 ≠ none := by
    intro d s r hn
    have hq := generate_none hn
    cases r <;> simp [quiet, Reconn.apply, State.new, State.persisted] at hq
  refine ⟨?_, ?_, rfl, rfl, key _ _ ra, key _ _ rb⟩
  · cases ra <;> rfl
  · cases rb <;> rfl

/-! ### non-vacuity and the tie of `State.persisted` to `State::encode` / `State::decode` -/

namespace Example

def h1 : Hash := List.replicate 32 0x11
def h2 : Hash := (List.range 32).map (fun i => UInt8.ofNat (200 + i))

/-- a mid-session state: everything set -/
def busy : State :=
  { sharedHeads := [h1, h2], lastSentHeads := [h2], theirHeads := some [h1], theirNeed := some [h2],
    theirHave := some [⟨[h1], Bloom.default⟩], sentHashes := [h1], inFlight := true,
    haveResponded := true, theirCaps := some [.messageV2, .syncReset], readOnly := true,
    peerReadOnly := true, needsReset := true }

def c1 : Change := ⟨[1], []⟩
def c2 : Change := ⟨[2], [[1]]⟩
def c3 : Change := ⟨[3], [[1]]⟩

def start : Cfg :=
  { docA := ⟨[c2, c1], []⟩, docB := ⟨[c3, c1], []⟩, stA := State.new, stB := State.new,
    linkAB := [], linkBA := [] }

theorem start_initial : Initial start := by
  refine ⟨⟨?_, ?_, ?_⟩, ⟨?_, ?_, ?_⟩, rfl, rfl, ?_, rfl, rfl, rfl, rfl⟩
  all_goals (simp [start, c1, c2, c3, Topo, Doc.hashes])

/-- A sends; B sends too and A receives that; the connection drops with A's message still in
    flight and B waiting for an acknowledgement; reconnect with A persisted and B fresh -/
def dropped : Cfg := ((start.genA (fun _ => false)).swap |> halfRound (fun _ => false)).swap
def healed : Cfg := dropped.reconnect .persisted .fresh

end Example

/-- `State::decode (State::encode s)` is `State.persisted s` — here on a state with every field
    set and two real-size hashes (the general statement needs the LEB128 round trip and that hashes
    have 32 bytes; the correspondence run compares `decode ∘ encode` of the implementation with the
    model's on every persisted reconnect) -/
example : (match State.decode Example.busy.encode with
    | .ok s => decide (s = Example.busy.persisted)
    | .error _ => false) = true := by
  have e : Leb.ulebEncode 2 = [2] := by rw [Leb.ulebEncode]; rfl
  have enc : Example.busy.encode =
      State.SYNC_STATE_TYPE :: ([2] ++ [Example.h1, Example.h2].flatten) := by
    show State.SYNC_STATE_TYPE :: (Leb.ulebEncode 2 ++ _) = _
    rw [e]; rfl
  rw [enc]
  decide

/-- the hypotheses are satisfiable: a drop with a message in flight and a peer waiting, then a
    reconnect (persisted / fresh); the configuration is `Reachable21`, not quiescent, and two rounds
    later quiescent — hence (by the theorem) converged -/
example : Example.dropped.linkAB ≠ [] ∧ Example.dropped.stB.inFlight = true ∧
    Reachable21 (fun _ => false) (rounds (fun _ => false) 2 Example.healed) ∧
    ¬ Quiescent (fun _ => false) Example.healed ∧
    Quiescent (fun _ => false) (rounds (fun _ => false) 2 Example.healed) := by
  refine ⟨by decide, by decide, ?_, by decide, by decide⟩
  have r0 : Reachable21 (fun _ => false) Example.start := Reachable21.init _ Example.start_initial
  have lift : ∀ c, Reachable (fun _ => false) c → Reachable21 (fun _ => false) c := by
    intro c hc
    induction hc with
    | init c hi => exact Reachable21.init _ hi
    | step c c' _ hs ih => exact Reachable21.step _ _ ih (Step21.base _ _ hs)
  -- `dropped` is reachable by C20 steps, `healed` by a reconnect, the rounds by C20 steps again
  have rd : Reachable (fun _ => false) Example.dropped := by
    have a : Reachable (fun _ => false) (Example.start.genA (fun _ => false)) :=
      Reachable.step _ _ (Reachable.init _ Example.start_initial) (Step.gen _)
    exact (a.swap.halfRound).swap
  have rh : Reachable21 (fun _ => false) Example.healed :=
    Reachable21.step _ _ (lift _ rd) (Step21.reconnect _ _ _)
  -- rounds after the reconnect are C20 steps
  have steps : ∀ (c c' : Cfg), Reachable21 (fun _ => false) c → Step (fun _ => false) c c' →
      Reachable21 (fun _ => false) c' := fun c c' h s => Reachable21.step _ _ h (Step21.base _ _ s)
  -- unfold the two rounds into their steps
  have swap21 : ∀ c, Reachable21 (fun _ => false) c → Reachable21 (fun _ => false) c.swap := by
    intro c hc
    induction hc with
    | init c hi => exact Reachable21.init _ hi.swap
    | step c c' _ hs ih =>
      cases hs with
      | base _ hb => exact Reachable21.step _ _ ih (Step21.base _ _ hb.swap')
      | reconnect ra rb => exact Reachable21.step _ _ ih (Step21.reconnect _ rb ra)
  have deliver21 : ∀ (l : List Message) (c : Cfg), c.linkAB = l → Reachable21 (fun _ => false) c →
      Reachable21 (fun _ => false) (deliverAllAB l c) := by
    intro l
    induction l with
    | nil => intro c _ h; exact h
    | cons m rest ih =>
      intro c hl h
      exact ih (c.recvB m rest) rfl (steps _ _ h (Step.recv c m rest hl))
  have half21 : ∀ c, Reachable21 (fun _ => false) c → Reachable21 (fun _ => false) (halfRound (fun _ => false) c) :=
    fun c h => deliver21 _ _ rfl (steps _ _ h (Step.gen c))
  have round21 : ∀ c, Reachable21 (fun _ => false) c → Reachable21 (fun _ => false) (round (fun _ => false) c) :=
    fun c h => swap21 _ (half21 _ (swap21 _ (half21 _ h)))
  exact round21 _ (round21 _ rh)

end AmVerif.Props.C21
