import AmVerif.Props.C27Full
import AmVerif.Proofs.MyersFullRange
/-
  C27 (completion of `AmVerif.Props.C27` / `AmVerif.Props.C27Full`) — the Myers diff behind
  `update_text` is TOTAL: `middle_snake_in_range` holds for all inputs, hence `diff` always returns a
  correct edit script.  Property theorems only; the proof is in `AmVerif.Proofs.MyersFullFront`
  (array-independent frontier invariants and the detection step), `MyersFullSteps` (inversion of one
  forward / backward loop iteration), `MyersFullRange` (loops of `find_middle_snake`).
-/
namespace AmVerif.Props.C27Total
open AmVerif AmVerif.Myers

section
variable {α : Type} [BEq α] [LawfulBEq α]

/-- `middle_snake_in_range` (what `C27_diff_partial` was missing): at every call of
    `find_middle_snake` made under the conditions `conquer` guarantees — non-empty ranges whose first
    units differ and whose last units differ — the split point answered lies inside the rectangle
    `[os, oe] × [ns, ne]` and is neither of its two corners, WHATEVER the two `V` arrays contain (they
    are reused between calls and never cleared; not even their shape matters for this statement).
    So the divide-and-conquer recursion always makes progress and never builds an inverted range. -/
theorem C27_middle_snake_in_range (old : List α) (os oe : Nat) (new : List α) (ns ne : Nat) (vf vb : V)
    (hos : os < oe) (hns : ns < ne)
    (hpre : old[os]? ≠ new[ns]?) (hsuf : old[oe - 1]? ≠ new[ne - 1]?)
    (x y : Int) (vf' vb' : V)
    (h : findMiddleSnake old os oe new ns ne vf vb = .found x y vf' vb') :
    (os : Int) ≤ x ∧ x ≤ oe ∧ (ns : Int) ≤ y ∧ y ≤ ne ∧ ¬ (x = os ∧ y = ns) ∧ ¬ (x = oe ∧ y = ne) :=
  findMiddleSnake_in_range old os oe new ns ne vf vb hos hns hpre hsuf h

/-- … in the packaged form used by the reduction of `C27Full`. -/
theorem C27_snake_in_range_all (old new : List α) : SnakeInRange old new := by
  intro os oe ns ne off vf vb x y vf' vb' hos hns _ _ hpre hsuf _ _ _ h
  exact findMiddleSnake_in_range old os oe new ns ne vf vb hos hns hpre hsuf h

/-- The explicit failure outcome of the model is unreachable: `diff` never ends in `invalidSplit`. -/
theorem C27_diff_ne_invalidSplit (a b : List α) : diff a b ≠ .invalidSplit :=
  diff_ne_invalidSplit a b (C27_snake_in_range_all a b)

/-- "After update_text(obj, s) the text is s", diff level, at FULL strength (supersedes
    `C27_diff_partial`): for all inputs the Myers diff returns an edit script — no `invalidSplit`, no
    fuel exhaustion, no panic — and copying its `equal` ranges from the old sequence and its `insert`
    ranges from the new one yields exactly the new sequence, while its `equal` / `delete` ranges walk
    over the old sequence exactly once. -/
theorem C27_diff_total (a b : List α) :
    ∃ script, diff a b = .ok script ∧ applyScript a b script = b ∧ consumed a script = a :=
  C27Full.C27_diff_total_of_in_range_partial a b (C27_snake_in_range_all a b)
end

/-- non-vacuity of `C27_middle_snake_in_range`: `ABCABBA` / `CBABAC` (no common prefix or suffix,
    `delta = 1` odd, forward detection): the code answers a point of the 7 × 6 rectangle that is
    neither corner. -/
example :
    (match findMiddleSnake "ABCABBA".toList 0 7 "CBABAC".toList 0 6 (V.new 8) (V.new 8) with
     | .found x y _ _ => decide (0 ≤ x ∧ x ≤ 7 ∧ 0 ≤ y ∧ y ≤ 6 ∧ ¬ (x = 0 ∧ y = 0) ∧ ¬ (x = 7 ∧ y = 6))
     | _ => false) = true := by
  decide

/-- non-vacuity, `delta` even (backward detection): `AB` / `BA`. -/
example :
    (match findMiddleSnake "AB".toList 0 2 "BA".toList 0 2 (V.new 3) (V.new 3) with
     | .found x y _ _ => decide (0 ≤ x ∧ x ≤ 2 ∧ 0 ≤ y ∧ y ≤ 2 ∧ ¬ (x = 0 ∧ y = 0) ∧ ¬ (x = 2 ∧ y = 2))
     | _ => false) = true := by
  decide

/-- non-vacuity of `C27_diff_total`: the example of Myers' paper and of the Rust unit test. -/
example :
    (match diff "ABCABBA".toList "CBABAC".toList with
     | .ok s => s.length == 7 && applyScript "ABCABBA".toList "CBABAC".toList s == "CBABAC".toList
                && consumed "ABCABBA".toList s == "ABCABBA".toList
     | _ => false) = true := by
  decide

end AmVerif.Props.C27Total
