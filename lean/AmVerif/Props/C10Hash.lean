import AmVerif.Proofs.ChangeCodec
/-
  C10 (hash clause) — "History is immutable and content-addressed: … its hash is the SHA-256 of its
  chunk".  Property theorems only; helpers are in `AmVerif.Proofs.ChangeCodec`.
  Model: `AmVerif.Model.ChangeCodec.fromBytes` (`Change::from_bytes`) over `Model/Chunk` framing and
  the executable `Model/Sha256` (used as a function; no cryptographic property is assumed).
  The correspondence run compares this hash with `Change::hash()` on every generated change.
-/
namespace AmVerif.Props.C10Hash
open AmVerif AmVerif.Leb AmVerif.Chunk AmVerif.ChangeCodec

/-- "its hash is the SHA-256 of its chunk": whenever `Change::from_bytes` accepts `bs`, the bytes are
    one chunk `magic ‖ checksum ‖ type ‖ uleb(len) ‖ data` of type 1 (change) or 2 (compressed change,
    whose data inflates to the change body), and the change's hash is SHA-256 over the change chunk's
    contents: the type byte 1, the LEB128 length of the body, the body. -/
theorem C10_hash_is_sha256 {limit : Nat} {bs : Bytes} {s : ChangeCodec.Stored} (h : fromBytes limit bs = .ok s) :
    ∃ cks ty data body,
      bs = Consts.MAGIC_BYTES ++ cks ++ [UInt8.ofNat ty] ++ ulebEncode data.length ++ data ∧
      ((ty = 1 ∧ body = data) ∨ (ty = 2 ∧ Inflate.inflateExact data = some body)) ∧
      s.hash = Sha256.sha256 (1 :: (ulebEncode body.length ++ body)) := by
  obtain ⟨ch, hp, hh, hty, -⟩ := fromBytes_chunk h
  obtain ⟨e, -, -, -, hc⟩ := parseChunk_ok_inv hp
  refine ⟨ch.checksum, ch.ty, ch.data, ch.body, ?_, ?_, ?_⟩
  · rw [e]; simp [encodeChunkWith]
  · rcases hc with ⟨h2, hb, -, -⟩ | ⟨h2, hinf, -, -⟩
    · rcases hty with h1 | h1
      · exact Or.inl ⟨h1, hb⟩
      · exact absurd h1 h2
    · exact Or.inr ⟨h2, hinf⟩
  · rw [hh]
    rcases hc with ⟨h2, hb, hhash, -⟩ | ⟨-, -, hhash, -⟩
    · rcases hty with h1 | h1
      · rw [hhash, hb, h1]; rfl
      · exact absurd h1 h2
    · rw [hhash]; rfl

/-- the same for the expanded change (`Change::from_bytes(..)?.decode()`): the hash it reports is
    that of the stored change -/
theorem C10_decoded_hash_is_sha256 {limit : Nat} {bs hash : Bytes} {x : XChange}
    (h : decodeChange limit bs = .ok (hash, x)) :
    ∃ cks ty data body,
      bs = Consts.MAGIC_BYTES ++ cks ++ [UInt8.ofNat ty] ++ ulebEncode data.length ++ data ∧
      ((ty = 1 ∧ body = data) ∨ (ty = 2 ∧ Inflate.inflateExact data = some body)) ∧
      hash = Sha256.sha256 (1 :: (ulebEncode body.length ++ body)) := by
  unfold decodeChange at h
  split at h
  · cases h
  · cases h
  rename_i s hs
  split at h
  · cases h
  · cases h
  simp only [Outcome.ok.injEq, Prod.mk.injEq] at h
  obtain ⟨rfl, -⟩ := h
  exact C10_hash_is_sha256 hs

set_option maxRecDepth 20000 in
/-- non-vacuity: the model accepts the sample, reads three ops, and its hash — the SHA-256 above —
    starts with the four checksum bytes stored in the chunk header (`38 f8 08 e3`, as the real
    `Change::hash()` does: 38f808e3f15ab4fe…) -/
example :
    (match fromBytes 100 sampleChange with
     | .ok s => s.rows.length == 3 && s.hash.take 4 == [56, 248, 8, 227] && s.checksumOk && s.message == some [109]
     | _ => false) = true := by decide +kernel

end AmVerif.Props.C10Hash
