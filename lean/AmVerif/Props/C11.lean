import AmVerif.Proofs.SaveLoad
/-
  C11 — "Save/load round-trips a document exactly: Loading the output of save (compressed or not)
  gives a document observationally equal to the original: the same heads, the same change bytes,
  the same state at every historical heads, and the same pending out-of-order changes when
  orphans are retained. Saving the loaded document again produces the same bytes."

  Setting (Proofs/SaveLoad.lean).  A saved file is the document chunk followed by one change chunk
  per held (orphan) change: `saveDoc k d = encodeChunk 0 (k.body d.applied) ++ Σ encodeChunk 1
  (k.raw c)`.  Loading is the chunk reader of C12/C13 (`loadFile`, fully modelled: magic, checksum,
  LEB128 length, SHA-256 hash) followed by `docOfChunks`: reconstruct the first (document) chunk,
  then `apply_changes` of the later chunks' changes — the structure of `Driver.Crdt.loadDoc`,
  which the differential run compares with the real `load` (`crdt.saveload`, `crdt.loadcut`, …).

  PARTIAL — what is a parameter, not a model: the CONTENTS of the chunks (`BodyCodec`): the column
  encoding of the document chunk (`storage/document.rs`, with or without DEFLATE of its columns)
  and of a change chunk (`storage/change.rs`).  The theorems assume that these codecs round-trip
  the chunks of the document at hand (`BodyCodec.OkFor`: `reconstruct (body applied) = applied`,
  `decode (raw c) = c`, bodies accepted, lengths below 2^64); the change-chunk half of that
  assumption is C09 (Props/C09.lean), the document-chunk half is covered only by the differential
  run and the harness oracle.  Everything above the codecs is proved.
-/
namespace AmVerif.Props.C11
open AmVerif AmVerif.Crdt AmVerif.Chunk

/-- a table-driven codec for the example: bodies are hash lists; decoding looks the hashes up -/
def toy : BodyCodec where
  bodyOk := fun _ _ => true
  body := fun l => l.flatMap (·.hash)
  raw := fun c => c.hash
  reconstruct := fun b => if b = Ex.doc1.applied.flatMap (·.hash) then Ex.doc1.applied else []
  decode := fun b => (Ex.allChanges.find? (fun c => c.hash == b)).getD default

/-- The file `save` writes parses back, chunk by chunk, into the document chunk followed by the
    orphans' change chunks — each with a valid checksum, the stored body, and (for a change chunk)
    the change hash SHA-256(type ‖ length ‖ body) — whatever the load mode. -/
theorem C11_saved_file_chunks (k : BodyCodec) (d : Doc) (h : k.OkFor d) (mode : OnPartial) :
    loadFile k.bodyOk mode (saveDoc k d) =
      .ok (⟨0, (chunkHash 0 (k.body d.applied)).take 4, k.body d.applied, k.body d.applied,
            chunkHash 0 (k.body d.applied)⟩ ::
          d.queue.map (fun c => ⟨1, (chunkHash 1 (k.raw c)).take 4, k.raw c, k.raw c, chunkHash 1 (k.raw c)⟩)) := by
  unfold saveDoc savedChunks
  rw [loadFile_concat _ _ (savedChunks_wf h) mode]
  simp [Stored.chunk, List.map_map, Function.comp]

/-- "Loading the output of save gives a document observationally equal to the original … the same
    pending out-of-order changes when orphans are retained": the loaded document IS the original
    — the same applied changes in the same graph order, the same held changes in the same order
    — and therefore has the same heads, the same missing dependencies, the same op set, the same
    state at every historical set of heads.
    Hypotheses: the document invariant (C38 / `Reachable.inv`); the codecs round-trip this
    document's chunks (PARTIAL, see the header); every held change lies beyond the applied
    sequence numbers of its actor (what `apply_changes` checked when it accepted the change, and
    what the per-actor chain keeps true afterwards). -/
theorem C11_load_save_partial (k : BodyCodec) (d : Doc) (hinv : d.Inv) (h : k.OkFor d)
    (hq : ∀ c ∈ d.queue, d.hasActorSeq c = false) :
    loadDoc k (saveDoc k d) = some d ∧
    ∀ d', loadDoc k (saveDoc k d) = some d' →
      d'.applied = d.applied ∧ d'.queue = d.queue ∧ d'.heads = d.heads ∧
      d'.missingDeps [] = d.missingDeps [] ∧ d'.ops = d.ops ∧ showDoc d'.ops = showDoc d.ops ∧
      ∀ hs, (d'.at hs).ops = (d.at hs).ops := by
  have hl := loadDoc_saveDoc hinv h hq
  refine ⟨hl, fun d' hd' => ?_⟩
  rw [hl] at hd'
  cases hd'
  exact ⟨rfl, rfl, rfl, rfl, rfl, rfl, fun _ => rfl⟩

/-- the hypotheses are satisfiable on a document with two held changes (e1 waits for m0, e2 for e1) -/
example : Ex.doc1.Inv ∧ toy.OkFor Ex.doc1 ∧ (∀ c ∈ Ex.doc1.queue, Ex.doc1.hasActorSeq c = false) ∧
    Ex.doc1.applied = [Ex.a1, Ex.b1, Ex.c1, Ex.b2] ∧ Ex.doc1.queue = [Ex.e2, Ex.e1] :=
  ⟨by decide, ⟨by decide, by decide, by decide, by decide, by decide, by decide⟩, by decide, by decide, by decide⟩

/-- "Saving the loaded document again produces the same bytes": the saved bytes are a function of
    the applied changes in graph order and the held changes in order, and loading restores both. -/
theorem C11_resave (k : BodyCodec) (d d' : Doc) (hinv : d.Inv) (h : k.OkFor d)
    (hq : ∀ c ∈ d.queue, d.hasActorSeq c = false) (hl : loadDoc k (saveDoc k d) = some d') :
    saveDoc k d' = saveDoc k d := by
  rw [loadDoc_saveDoc hinv h hq] at hl
  cases hl; rfl

/-- The held changes are not lost and not applied early by a save/load cycle: re-delivering the
    held changes of a document to its applied part holds all of them back again, in order
    (none is causally ready — `Inv`). -/
theorem C11_orphans_stay_held (d : Doc) (hinv : d.Inv) (hq : ∀ c ∈ d.queue, d.hasActorSeq c = false) :
    applyBatch ⟨d.applied, []⟩ d.queue = (d, .ok ()) :=
  applyBatch_requeue hinv hq

example : applyBatch ⟨Ex.doc1.applied, []⟩ Ex.doc1.queue = (Ex.doc1, .ok ()) := by decide

end AmVerif.Props.C11
