import AmVerif.Proofs.Migrate
/-
  C40 — "Loading with string migration turns visible strings into text and nothing else: After a
  load with StringMigration::ConvertToText, no map key or list element has a visible string scalar
  left. Each key or element that had visible string values holds a text object whose content is
  the highest-id string among them, and every key or element without a visible string keeps its
  values. A document with no visible strings loads with no added change."

  Setting (`Model/Local.lean`, driver command `crdt.x.migrate`, 0 disagreements with the real
  `convert_scalar_strings_to_text`): `conversions ops` is the list the first loop collects —
  (object, property, string) for every visible string op of every map / list object of the op
  set, objects in id order, keys in byte order, values ascending by id; `applyConversions` is the
  second loop — one `put_object(Text)` + `splice_text(0, 0, s)` per entry, all in one
  transaction `t`; the driver appends the change `t'.pending` iff the list is non-empty.
  Well-formedness of the op list the transaction sees is `TxInv ops t` (decidable: distinct ids,
  every counter, reference and object id below the transaction's start op).
  Property theorems only; helpers in `Proofs/Migrate.lean`.
-/
namespace AmVerif.Props.C40
open AmVerif AmVerif.Crdt

/-! ### the example: root "a" = conflict {"x" (1@0A), "yz" (1@0B)}, "n" = 7, "l" = list [5] -/

def sA : Op := ⟨⟨1, [0xA]⟩, .root, .map [97], false, .put (.str [120]), []⟩
def sB : Op := ⟨⟨1, [0xB]⟩, .root, .map [97], false, .put (.str [121, 122]), []⟩
def nI : Op := ⟨⟨2, [0xA]⟩, .root, .map [110], false, .put (.int 7), []⟩
def mkL : Op := ⟨⟨3, [0xA]⟩, .root, .map [108], false, .make .list, []⟩
def e5 : Op := ⟨⟨4, [0xA]⟩, .id ⟨3, [0xA]⟩, .head, true, .put (.int 5), []⟩
def ops0 : List Op := [sA, sB, nI, mkL, e5]
/-- the migration transaction: a fresh actor, start op 5 -/
def t0 : Tx := ⟨[0x4d], 5, []⟩

/-! ### "A document with no visible strings loads with no added change" -/

/-- The conversion list is empty exactly when no map key and no list element of any object of the
    op set has a visible string value; then the second loop does nothing (`applyConversions` returns
    the untouched empty transaction and the driver appends no change). -/
theorem C40_no_strings_no_change (e : Enc) (ops : List Op) (t : Tx) :
    (conversions ops = [] ↔ NoVisibleStrings ops) ∧
    (conversions ops = [] → applyConversions e ops t (conversions ops) = .ok t) := by
  refine ⟨conversions_eq_nil_iff ops, fun h => ?_⟩
  rw [h]; rfl

example : NoVisibleStrings [nI, mkL, e5] ∧ conversions [nI, mkL, e5] = [] ∧
    ¬ NoVisibleStrings ops0 := by
  refine ⟨(conversions_eq_nil_iff _).mp (by decide), by decide, fun h => ?_⟩
  have := (conversions_eq_nil_iff _).mpr h
  revert this; decide

/-- FINDING D11 (negated form, witness on the model which the differential run ties to the code):
    the property says "no VISIBLE strings ⇒ no added change", visible meaning reachable from the
    root.  The first loop walks ALL objects (`iter_objs`), reachable or not: a document whose only
    string lives in a map that has been overwritten (and is therefore invisible) still yields a
    conversion, hence an added change on load.  Here root "m" = map 1@0A with "k" = "x" inside,
    then "m" overwritten by the integer 3: the visible document `{"m": 3}` has no string. -/
theorem C40_unreachable_object_string_refuted :
    let mkM : Op := ⟨⟨1, [0xA]⟩, .root, .map [109], false, .make .map, []⟩
    let str : Op := ⟨⟨2, [0xA]⟩, .id ⟨1, [0xA]⟩, .map [107], false, .put (.str [120]), []⟩
    let ovr : Op := ⟨⟨3, [0xA]⟩, .root, .map [109], false, .put (.int 3), [⟨1, [0xA]⟩]⟩
    let ops := [mkM, str, ovr]
    mapKeys ops .root = [[109]] ∧ mapRegister ops .root [109] = [⟨⟨3, [0xA]⟩, .scalar (.int 3)⟩] ∧
    conversions ops = [(.id ⟨1, [0xA]⟩, .inl [107], [120])] ∧ conversions ops ≠ [] := by
  decide

/-! ### "Each key that had visible string values holds a text object whose content is the
    highest-id string among them, and every key without a visible string keeps its values" -/

/-- The strings the first loop collects for a key are the strings among the key's visible values
    in ascending id order: the last one is the highest-id string. -/
theorem C40_strings_ascending (ops : List Op) (hs : StrictIds ops) (obj : ObjId) (k : Bytes)
    (hobj : (obj, ObjType.map) ∈ allObjects ops) :
    convStrings (conversions ops) obj k = (mapRegOps ops obj k).filterMap Op.strOf ∧
    (mapRegOps ops obj k).Pairwise (fun a b => a.id.lt b.id = true) := by
  refine ⟨by rw [convStrings_conversions hs, if_pos hobj], ?_⟩
  rw [mapRegOps_eq]
  exact sortById_strict (hs.filter _)

example : convStrings (conversions ops0) .root [97] = [[120], [121, 122]] ∧
    (mapRegOps ops0 .root [97]).map (·.id) = [⟨1, [0xA]⟩, ⟨1, [0xB]⟩] ∧
    (ObjId.root, ObjType.map) ∈ allObjects ops0 := by decide

/-- After the migration transaction ran successfully (map keys; see PARTIAL below):
    (a) a key of a map object whose visible values include strings holds exactly ONE value, a text
        object, and that text spells the LAST — highest-id — of those strings (its other values,
        strings or not, are gone: each conversion's `put_object` overwrites the whole register);
    (b) a key of a map object without a visible string keeps its register, and so does every key of
        anything that is not a map object of the op set;
    (c) every existing list / text / table object keeps its type and its elements.

    PARTIAL: stated for documents in which no LIST element holds a visible string
    (`hmaps`: every collected conversion addresses a map key).  For a list element the second
    loop runs `put_object(list, index, Text)` — `localPut` with an index, C03 §5 — with the index
    computed BEFORE any conversion; as a converted element keeps its position the same
    conclusion is expected, but the induction over list conversions is not done. -/
theorem C40_converted_partial (e : Enc) (ops : List Op) (t t' : Tx) (hp : t.pending = [])
    (inv : TxInv ops t) (hmaps : ∀ c ∈ conversions ops, c.2.1.isLeft = true)
    (hrun : applyConversions e ops t (conversions ops) = .ok t') :
    (∀ obj k, (obj, ObjType.map) ∈ allObjects ops →
      ∀ s, ((mapRegOps ops obj k).filterMap Op.strOf).getLast? = some s →
        ∃ id, mapRegister (ops ++ t'.pending) obj k = [⟨id, .obj .text⟩] ∧
          objType (ops ++ t'.pending) (.id id) = some .text ∧
          textOf (seqElems (ops ++ t'.pending) (.id id)) = s) ∧
    (∀ obj k, ((obj, ObjType.map) ∈ allObjects ops → (mapRegOps ops obj k).filterMap Op.strOf = []) →
      mapRegister (ops ++ t'.pending) obj k = mapRegister ops obj k) ∧
    (∀ obj ty, objType ops obj = some ty → ty ≠ .map →
      seqElems (ops ++ t'.pending) obj = seqElems ops obj ∧ objType (ops ++ t'.pending) obj = some ty) := by
  have hmaps' : ∀ c ∈ conversions ops, ∃ k, c.2.1 = Sum.inl k := by
    intro c hc
    have := hmaps c hc
    cases h : c.2.1 with
    | inl k => exact ⟨k, rfl⟩
    | inr i => rw [h] at this; cases this
  have inv0 : TxInv (ops ++ t.pending) t := by rw [hp, List.append_nil]; exact inv
  obtain ⟨_, pres, regs⟩ := applyConversions_map_spec e ops (conversions ops) t t' hmaps' hrun inv0
  rw [hp, List.append_nil] at pres regs
  refine ⟨fun obj k hobj s hs => ?_, fun obj k hno => ?_, pres⟩
  · apply (regs obj k).2 s
    rw [convStrings_conversions inv.strict, if_pos hobj]; exact hs
  · apply (regs obj k).1
    rw [convStrings_conversions inv.strict]
    split
    · rename_i hobj; exact hno hobj
    · rfl


/-- the example run: two conversions on root "a" ("x", then "yz"); "a" ends up holding one text
    object spelling "yz" (the highest-id string), "n" and the list are untouched -/
def t1 : Tx := ⟨[0x4d], 5,
  [⟨⟨5, [0x4d]⟩, .root, .map [97], false, .make .text, [⟨1, [0xA]⟩, ⟨1, [0xB]⟩]⟩,
   ⟨⟨6, [0x4d]⟩, .id ⟨5, [0x4d]⟩, .head, true, .put (.str [120]), []⟩,
   ⟨⟨7, [0x4d]⟩, .root, .map [97], false, .make .text, [⟨5, [0x4d]⟩]⟩,
   ⟨⟨8, [0x4d]⟩, .id ⟨7, [0x4d]⟩, .head, true, .put (.str [121]), []⟩,
   ⟨⟨9, [0x4d]⟩, .id ⟨7, [0x4d]⟩, .elem ⟨8, [0x4d]⟩, true, .put (.str [122]), []⟩]⟩

example : t0.pending = [] ∧ TxInv ops0 t0 ∧ (∀ c ∈ conversions ops0, c.2.1.isLeft = true) ∧
    applyConversions .utf8 ops0 t0 (conversions ops0) = .ok t1 ∧
    ((mapRegOps ops0 .root [97]).filterMap Op.strOf).getLast? = some [121, 122] ∧
    mapRegister (ops0 ++ t1.pending) .root [97] = [⟨⟨7, [0x4d]⟩, .obj .text⟩] ∧
    textOf (seqElems (ops0 ++ t1.pending) (.id ⟨7, [0x4d]⟩)) = [121, 122] ∧
    (mapRegOps ops0 .root [110]).filterMap Op.strOf = [] ∧
    mapRegister (ops0 ++ t1.pending) .root [110] = [⟨⟨2, [0xA]⟩, .scalar (.int 7)⟩] := by
  refine ⟨rfl, by decide, by decide, ?_, by decide, by decide, by decide, by decide, by decide⟩
  have hc : conversions ops0 = [(.root, .inl [97], [120]), (.root, .inl [97], [121, 122])] := by decide
  rw [hc, applyConversions_cons]
  have h1 : localPut .utf8 (ops0 ++ t0.pending) t0 .root (.inl [97]) (.make .text) true =
      .ok [⟨⟨5, [0x4d]⟩, .root, .map [97], false, .make .text, [⟨1, [0xA]⟩, ⟨1, [0xB]⟩]⟩] := by decide
  rw [h1]
  simp only [List.head?_cons]
  rw [localSpliceText_eq, utf8Chars_ascii [120] (by decide)]
  have h2 : spliceWith .utf8 (ops0 ++ (t0.pending ++ [⟨⟨5, [0x4d]⟩, .root, .map [97], false, .make .text, [⟨1, [0xA]⟩, ⟨1, [0xB]⟩]⟩]))
      { t0 with pending := t0.pending ++ [⟨⟨5, [0x4d]⟩, .root, .map [97], false, .make .text, [⟨1, [0xA]⟩, ⟨1, [0xB]⟩]⟩] }
      (.id ⟨5, [0x4d]⟩) 0 0 ([120].map (fun b => [b])) =
      .ok [⟨⟨6, [0x4d]⟩, .id ⟨5, [0x4d]⟩, .head, true, .put (.str [120]), []⟩] := by decide
  rw [h2]
  simp only
  rw [applyConversions_cons]
  have h3 : localPut .utf8 (ops0 ++ ({ t0 with pending := t0.pending ++ [⟨⟨5, [0x4d]⟩, .root, .map [97], false, .make .text, [⟨1, [0xA]⟩, ⟨1, [0xB]⟩]⟩] ++ [⟨⟨6, [0x4d]⟩, .id ⟨5, [0x4d]⟩, .head, true, .put (.str [120]), []⟩] } : Tx).pending)
      { t0 with pending := t0.pending ++ [⟨⟨5, [0x4d]⟩, .root, .map [97], false, .make .text, [⟨1, [0xA]⟩, ⟨1, [0xB]⟩]⟩] ++ [⟨⟨6, [0x4d]⟩, .id ⟨5, [0x4d]⟩, .head, true, .put (.str [120]), []⟩] }
      .root (.inl [97]) (.make .text) true =
      .ok [⟨⟨7, [0x4d]⟩, .root, .map [97], false, .make .text, [⟨5, [0x4d]⟩]⟩] := by decide
  rw [h3]
  simp only [List.head?_cons]
  rw [localSpliceText_eq, utf8Chars_ascii [121, 122] (by decide)]
  generalize hsp : spliceWith Enc.utf8 _ _ (ObjId.id ⟨7, [0x4d]⟩) 0 0 _ = r
  have hr : r = .ok [⟨⟨8, [0x4d]⟩, .id ⟨7, [0x4d]⟩, .head, true, .put (.str [121]), []⟩,
      ⟨⟨9, [0x4d]⟩, .id ⟨7, [0x4d]⟩, .elem ⟨8, [0x4d]⟩, true, .put (.str [122]), []⟩] := by
    rw [← hsp]; decide
  subst hr
  rfl

end AmVerif.Props.C40
