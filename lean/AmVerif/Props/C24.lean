import AmVerif.Proofs.TextWidth
/-
  C24 — "Text indexes are consistent in every text encoding: For each text encoding (code points,
  UTF-8, UTF-16, grapheme clusters), a text object's length equals the width of its string in that
  encoding. All indexes the API accepts or returns (splice, get, cursors, marks, spans, patches) are
  measured in that encoding, and concatenating the spans gives the text."

  Property theorems only; helper lemmas are in `AmVerif.Proofs.TextWidth`.
  Model: `Model/TextWidth` (widths from UTF-8 bytes, `textOf`, `lengthWith`), `Model/Marks`
  (`spansOf`, `seekByIndexW`).  `lengthWith g e` is the length as the implementation computes it: the
  sum, over the visible elements, of the width of the winning value's string (the `text` index
  column); `g` is the grapheme-cluster counter (`unicode-segmentation` in the implementation).
  The correspondence run compares `length`, `text`, `spans` of the real document with these
  definitions on every read, under all four encodings.
-/
namespace AmVerif.Props.C24
open AmVerif AmVerif.Crdt

/-- C24, what makes "length = width of the string" possible: the three code-unit widths are additive. -/
theorem C24_width_append {e : Enc} (_h : e = .cp ∨ e = .utf8 ∨ e = .utf16) (a b : Bytes) :
    width e (a ++ b) = width e a + width e b :=
  width_append e a b

example : width .utf16 ([0xF0, 0x9F, 0x99, 0x82] ++ [0xC3, 0xA9]) = 2 + 1 := by decide

/-- C24, "the width of its string in that encoding": the byte-level formulas the model (and the
    implementation's `str::len` / `chars().count()` / `encode_utf16().count()`) use agree with the
    per-character definition (1 code point; 1–4 UTF-8 units; 1 or 2 UTF-16 units) on every encoded string. -/
theorem C24_width_chars {e : Enc} (h : e = .cp ∨ e = .utf8 ∨ e = .utf16) (cs : List Char) :
    width e (utf8Encode cs) = widthChars e cs :=
  width_utf8Encode (by rcases h with h | h | h <;> simp [h]) cs

example : widthChars .utf16 ['a', '🙂'] = 3 ∧ widthChars .utf8 ['é', '🙂'] = 6 := by decide

/-- C24, first sentence, for code points, UTF-8 and UTF-16: "a text object's length equals the width
    of its string in that encoding" — for every op set, whatever the history (conflicts, tombstones,
    marks, blocks; other values render as U+FFFC). -/
theorem C24_length_eq_width (g : Bytes → Nat) {e : Enc} (h : e = .cp ∨ e = .utf8 ∨ e = .utf16)
    (ops : List Op) (obj : ObjId) :
    lengthWith g e ops obj = width e (textOf ops obj) :=
  lengthWith_eq_width g (by rcases h with h | h | h <;> simp [h]) ops obj

/-- D6 witness: text object 1@aa, `splice_text(0, 0, "e")` then `splice_text(1, 0, "\u{301}")` — two
    elements whose strings form ONE grapheme cluster. -/
def d6 : List Op :=
  [ ⟨⟨1, [0xaa]⟩, .root, .map [0x74], false, .make .text, []⟩,
    ⟨⟨2, [0xaa]⟩, .id ⟨1, [0xaa]⟩, .head, true, .put (.str [0x65]), []⟩,
    ⟨⟨3, [0xaa]⟩, .id ⟨1, [0xaa]⟩, .elem ⟨2, [0xaa]⟩, true, .put (.str [0xCC, 0x81]), []⟩ ]

theorem d6_topOps : (topOps d6 (.id ⟨1, [0xaa]⟩)).map opStr = [[0x65], [0xCC, 0x81]] := by decide

example : lengthWith (fun _ => 0) .utf8 d6 (.id ⟨1, [0xaa]⟩) = 3 ∧ textOf d6 (.id ⟨1, [0xaa]⟩) = [0x65, 0xCC, 0x81] := by
  decide

/-- C24 for grapheme clusters is FALSE on the unchanged code (finding D6, `sig=grapheme-cross-element`):
    with any grapheme counter that counts "e", U+0301 and "é" (e + U+0301) as one cluster each — as
    `unicode-segmentation` does — the length (2) is not the width of the text (1). -/
theorem C24_grapheme_refuted (g : Bytes → Nat) (h1 : g [0x65] = 1) (h2 : g [0xCC, 0x81] = 1)
    (h3 : g [0x65, 0xCC, 0x81] = 1) :
    ¬ (lengthWith g .gc d6 (.id ⟨1, [0xaa]⟩) = widthWith g .gc (textOf d6 (.id ⟨1, [0xaa]⟩))) := by
  have ht : textOf d6 (.id ⟨1, [0xaa]⟩) = [0x65, 0xCC, 0x81] := by decide
  have hl : lengthWith g .gc d6 (.id ⟨1, [0xaa]⟩) = g [0x65] + g [0xCC, 0x81] := by
    unfold lengthWith
    have : (topOps d6 (.id ⟨1, [0xaa]⟩)).map (fun o => widthWith g .gc (opStr o))
        = ((topOps d6 (.id ⟨1, [0xaa]⟩)).map opStr).map g := by
      simp [widthWith, List.map_map, Function.comp_def]
    rw [this, d6_topOps]
    simp
  rw [hl, ht, h1, h2]
  simp [widthWith, h3]

/-- What IS true under grapheme clusters (partial: the claim "length = cluster count of the text" is
    missing, it needs clusters never to span elements): the length is the sum of the cluster counts
    of the element strings. -/
theorem C24_grapheme_partial (g : Bytes → Nat) (ops : List Op) (obj : ObjId) :
    lengthWith g .gc ops obj = ((topOps ops obj).map (fun o => g (opStr o))).sum := by
  simp [lengthWith, widthWith]

example : lengthWith gOne .gc d6 (.id ⟨1, [0xaa]⟩) = 2 := by decide

/-- C24, "indexes … are measured in that encoding" (get, put, delete, cursors, the delete loop of
    splice all resolve an index through `seek_ops_by_index`): the element found for unit index `i` is
    the one whose unit range — prefix sum of the widths of the elements before it — contains `i`. -/
theorem C24_index_units (wf : Op → Nat) (regs : List (OpId × List Op)) (i start0 : Nat)
    {eid : OpId} {reg : List Op} {start : Nat}
    (h : seekByIndexW wf regs i start0 = some (eid, reg, start)) (hi : start0 ≤ i) :
    ∃ pre post, regs = pre ++ (eid, reg) :: post ∧
      start = start0 + (pre.map (fun p => lastW wf p.2)).sum ∧
      start ≤ i ∧ i < start + lastW wf reg := by
  induction regs generalizing start0 with
  | nil => simp [seekByIndexW] at h
  | cons p rest ih =>
    obtain ⟨id, r⟩ := p
    rw [seekByIndexW] at h
    split at h
    · rename_i hlt
      simp only [Option.some.injEq, Prod.mk.injEq] at h
      obtain ⟨h1, h2, h3⟩ := h
      subst h1 h2 h3
      exact ⟨[], rest, rfl, by simp, hi, hlt⟩
    · rename_i hlt
      obtain ⟨pre, post, hr, hs, h1, h2⟩ := ih _ h (by omega)
      refine ⟨(id, r) :: pre, post, by simp [hr], ?_, h1, h2⟩
      simp [hs]; omega

/-- C24, last clause: "concatenating the spans gives the text" (a block marker counts as U+FFFC),
    for UTF-8 unconditionally … -/
theorem C24_spans_concat_utf8 (ops : List Op) (obj : ObjId) :
    (spansOf (width .utf8) ops obj).flatMap spanStr = textOf ops obj :=
  spans_concat_of ops obj (fun t _ h => by
    cases hs : opStr t with
    | nil => rfl
    | cons b bs => simp [width, hs] at h)

/-- … and for every encoding (grapheme clusters counted one per element as in the driver) when the
    element strings are UTF-8 (do not start with a continuation byte). -/
theorem C24_spans_concat (e : Enc) (ops : List Op) (obj : ObjId)
    (hv : ∀ t ∈ topOps ops obj, LeadFirst (opStr t)) :
    (spansOf (widthWith gOne e) ops obj).flatMap spanStr = textOf ops obj :=
  spans_concat_of ops obj (fun t ht h => by
    cases e with
    | gc => exact gOne_eq_zero (by simpa [widthWith] using h)
    | cp => exact width_eq_zero (hv t ht) (by simpa [widthWith] using h)
    | utf8 => exact width_eq_zero (hv t ht) (by simpa [widthWith] using h)
    | utf16 => exact width_eq_zero (hv t ht) (by simpa [widthWith] using h))

example : (spansOf (width .utf8) d6 (.id ⟨1, [0xaa]⟩)) = [.text [0x65, 0xCC, 0x81] []] := by decide

end AmVerif.Props.C24
