import AmVerif.Proofs.Myers
import AmVerif.Proofs.MyersBounds
import AmVerif.Proofs.UpdateText
import AmVerif.Proofs.Reconcile
/-
  C27 — Reconciliation and bulk-construction calls reach their target value.
  Property theorems only; helper lemmas are in `AmVerif.Proofs.Myers` / `AmVerif.Proofs.UpdateText`.
  Models: `AmVerif.Model.Myers` (text_diff/myers.rs + utils.rs, function by function, explicit
  `invalidSplit` / `outOfFuel` / `panic` outcomes) and `AmVerif.Model.UpdateText` (`TxHook` of
  text_diff.rs over a width-indexed element list).

  Decided here: the clause "After update_text(obj, s) the text is s".
  NOT decided by proof (direct oracles of the `recon` harness engine only; no model was built):
  `update_object`, `update_spans`, `batch_create_object`, `init_root_from_hydrate`,
  `init_from_hydrate`, `splice` with nested values.  The oracles REFUTE several of those clauses on
  the code as first examined (list shrinking in `update_object`, multi-element graphemes and UTF-8
  blocks in `update_spans`, `init_*_from_hydrate` on a non-empty document — all four since fixed in
  /repo: 072d9542b, 2c4964131, 51ce52dee, 23ec14d23); see the worker report.
-/
namespace AmVerif.Props.C27
open AmVerif AmVerif.Myers AmVerif.UpdateText

section
variable {α : Type} [BEq α] [LawfulBEq α]

/-- "After update_text(obj, s) the text is s", diff level: whenever the Myers diff returns a script,
    copying its `equal` ranges from the old sequence and its `insert` ranges from the new one yields
    exactly the new sequence.  This holds for EVERY split point `find_middle_snake` may return (the
    proof never looks inside it): divide-and-conquer correctness needs no optimality of the snake. -/
theorem C27_script_correct (a b : List α) (script : List Hook) (h : diff a b = .ok script) :
    applyScript a b script = b := by
  have hw := diffFuel_wf _ a b script h
  have := hw.applyScript_eq
  simpa using this

/-- … and the ranges of the old sequence the script names (`equal` and `delete`) are consecutive and
    cover the old sequence exactly once, which is what lets a hook address the document by a running
    index. -/
theorem C27_script_consumes (a b : List α) (script : List Hook) (h : diff a b = .ok script) :
    consumed a script = a := by
  have hw := diffFuel_wf _ a b script h
  have := hw.consumed_eq
  simpa using this

omit [LawfulBEq α] in
/-- Termination: with the fuel `diff` passes (`|a| + |b| + 1`) the recursion of `conquer` never runs
    out — every split that passes the range/corner check strictly shrinks both halves. -/
theorem C27_fuel_suffices (a b : List α) : diff a b ≠ .outOfFuel :=
  diff_ne_outOfFuel a b

omit [LawfulBEq α] in
/-- The diff never panics: every index into the `V` arrays of `find_middle_snake`
    (`&self.v[(index + self.offset) as usize]`, reads and writes, forward and backward) is in bounds
    and both `assert!(v.len() >= d_max)` hold, for all inputs. -/
theorem C27_diff_no_panic (a b : List α) (p : PanicSite) : diff a b ≠ .panic p :=
  diff_ne_panic a b p

/-- PARTIAL (what is missing: `middle_snake_in_range` — that the point `find_middle_snake` answers
    with always lies inside the rectangle and is not one of its two corners; this needs the
    furthest-reaching-path theory of Myers' paper and is not proved.  The correspondence run compares
    the model's script with the implementation's and the model never reported `invalidSplit` on any
    generated input, nor on the exhaustive set of all pairs of sequences of length ≤ 7 over 2 letters
    and ≤ 5 over 3 letters).
    The diff either returns a correct script, or stops in the single explicit failure outcome
    `invalidSplit`; running out of fuel and panicking are excluded. -/
theorem C27_diff_partial (a b : List α) :
    (∃ script, diff a b = .ok script ∧ applyScript a b script = b ∧ consumed a script = a)
    ∨ diff a b = .invalidSplit := by
  cases h : diff a b with
  | ok s => exact .inl ⟨s, rfl, C27_script_correct a b s h, C27_script_consumes a b s h⟩
  | invalidSplit => exact .inr rfl
  | outOfFuel => exact absurd h (C27_fuel_suffices a b)
  | panic p => exact absurd h (C27_diff_no_panic a b p)

/-- Strengthening of `C27_diff_partial` on the inputs where `find_middle_snake` is never reached:
    an empty old text (a pure insertion), an empty target (a pure deletion) and an unchanged text give
    a script outright — `invalidSplit` is not possible there. -/
theorem C27_diff_total_trivial_cases (a : List α) :
    (∃ s, diff ([] : List α) a = .ok s) ∧ (∃ s, diff a ([] : List α) = .ok s) ∧ (∃ s, diff a a = .ok s) :=
  ⟨⟨_, diff_nil_left a⟩, ⟨_, diff_nil_right a⟩, ⟨_, diff_self a⟩⟩
end

/-- non-vacuity: the example of the Rust unit test (`ABCABBA` → `CBABAC`) produces a script, and it
    rebuilds the target (kernel-evaluated). -/
example :
    (match diff "ABCABBA".toList "CBABAC".toList with
     | .ok s => s.length == 7 && applyScript "ABCABBA".toList "CBABAC".toList s == "CBABAC".toList
     | _ => false) = true := by
  decide

/-- "After update_text(obj, s) the text is s", document level, PARTIAL.
    Hypotheses: the text object's elements are ALIGNED with the grapheme clusters of its text (each
    cluster is spelled by a run of whole elements of positive width whose widths add up to the
    cluster's width — true whenever the text was built by `splice_text` under a code-unit encoding,
    because elements are code points and widths are additive, `unitWidth_append`); the target's
    clusters start with a UTF-8 lead byte.  Conclusion: if `update_text` returns, the text is the
    target.  Missing for the full statement: (a) the outcome `invalidSplit` of the diff and an error
    return of a hook call are not excluded (see `C27_diff_partial`); (b) without alignment the statement is FALSE, on the
    model and on the real code — `C27_update_text_misaligned_refuted` below. -/
theorem C27_update_text_aligned_partial (enc : Enc) (gp : List (List Elem × Piece)) (new : List Piece)
    (hgp : ∀ x ∈ gp, GroupOK enc x) (hnew : ∀ p ∈ new, LeadOK p) (st : St)
    (h : updateText enc (groupsOf gp) (gp.map (·.2)) new = .ok st) :
    textOf st.els = new.flatten := by
  unfold updateText at h
  cases hd : diff (gp.map (·.2)) new with
  | ok script =>
    rw [hd] at h
    simp only at h
    cases hr : runHooks enc (gp.map (·.2)) new { idx := 0, els := groupsOf gp } script with
    | error e => rw [hr] at h; cases h
    | ok st' =>
      rw [hr] at h; cases h
      have hw := diffFuel_wf _ _ _ script hd
      obtain ⟨done', _, h2, _, h4⟩ := runHooks_wf enc (gp.map (·.2)) new gp rfl hgp (encOK_of_lead enc new hnew)
        script 0 0 _ _ hw { idx := 0, els := groupsOf gp } st [] (by simp [sumW]) (by simp) (by simp) hr
      have hlen : (gp.map (·.2)).length = gp.length := by simp
      rw [hlen, List.drop_length] at h2
      simp [groupsOf, textOf] at h2 h4
      simp [h2, textOf, h4]
  | invalidSplit => rw [hd] at h; cases h
  | outOfFuel => rw [hd] at h; cases h
  | panic p => rw [hd] at h; cases h

/-- the update never runs out of fuel -/
theorem C27_update_text_fuel (enc : Enc) (els : List Elem) (old new : List Piece) :
    (match updateText enc els old new with | .outOfFuel => false | _ => true) = true := by
  unfold updateText
  cases hd : diff old new with
  | outOfFuel => exact absurd hd (diff_ne_outOfFuel old new)
  | ok s => simp only; cases runHooks enc old new { idx := 0, els := els } s <;> rfl
  | invalidSplit => rfl
  | panic p => rfl

/-- non-vacuity of `C27_update_text_aligned_partial`: UTF-16, old text "é😀x" (elements = code points,
    widths 1, 2, 1; one cluster each: `é`, `😀`, `x`), target "😀éy": the update
    returns and the text is the target. -/
example :
    let gp : List (List Elem × Piece) :=
      [([⟨[0xc3, 0xa9], 1⟩], [0xc3, 0xa9]), ([⟨[0xf0, 0x9f, 0x98, 0x80], 2⟩], [0xf0, 0x9f, 0x98, 0x80]), ([⟨[0x78], 1⟩], [0x78])]
    let new : List Piece := [[0xf0, 0x9f, 0x98, 0x80], [0xc3, 0xa9], [0x79]]
    (match updateText .utf16 (groupsOf gp) (gp.map (·.2)) new with
     | .ok st => textOf st.els == new.flatten && gp.all (fun x => textOf x.1 == x.2 && sumW x.1 == pieceWidth .utf16 x.2)
     | _ => false) = true := by
  decide

/-- REFUTED without alignment (negated form on a concrete witness; the same input violates the
    property on the real code — harness line
    `recon.update_text gc S0.0.0.65,S0.1.0.cc81 78 65cc81 78 65,cc81 1,1`, oracle
    `! C27 sig=update_text-gc-cross-element-grapheme`).  Grapheme-cluster encoding, text "e" then
    U+0301 spliced separately: ONE cluster `é` of width 1 spelled by TWO elements of width 1 each.
    `update_text("x")` deletes width 1, i.e. only the `e`, and the text becomes "x" + U+0301. -/
theorem C27_update_text_misaligned_refuted :
    ¬ (∀ (enc : Enc) (els : List Elem) (old new : List Piece) (st : St),
        textOf els = old.flatten → updateText enc els old new = .ok st → textOf st.els = new.flatten) := by
  intro h
  have hrun : (match updateText .gc [⟨[0x65], 1⟩, ⟨[0xcc, 0x81], 1⟩] [[0x65, 0xcc, 0x81]] [[0x78]] with
      | .ok st => textOf st.els == [0x78, 0xcc, 0x81]
      | _ => false) = true := by decide
  cases hu : updateText .gc [⟨[0x65], 1⟩, ⟨[0xcc, 0x81], 1⟩] [[0x65, 0xcc, 0x81]] [[0x78]] with
  | ok st =>
    rw [hu] at hrun
    have h1 := h .gc _ _ _ st (by decide) hu
    simp only [beq_iff_eq] at hrun
    rw [hrun] at h1
    exact absurd h1 (by decide)
  | err e => rw [hu] at hrun; cases hrun
  | invalidSplit => rw [hu] at hrun; cases hrun
  | outOfFuel => rw [hu] at hrun; cases hrun
  | panic p => rw [hu] at hrun; cases hrun

/-- Width additivity for the three code-unit encodings (code points, UTF-8 bytes, UTF-16 units, all
    computed from the UTF-8 bytes): the width of a concatenation is the sum of the widths — the fact
    that makes the `TxHook` index arithmetic exact. -/
theorem C27_width_append (enc : Enc) (henc : enc ≠ .gc) (a b : Bytes) :
    unitWidth enc (a ++ b) = unitWidth enc a + unitWidth enc b :=
  unitWidth_append enc henc a b

/-- non-vacuity: "é" ++ "😀" under UTF-16 has width 1 + 2. -/
example : unitWidth .utf16 ([0xc3, 0xa9] ++ [0xf0, 0x9f, 0x98, 0x80]) = 3 := by decide

/-- "After update_object(obj, v) the object's value equals v", for a list of scalars (the
    `update_list` loop of the fixed code, /repo commit 072d9542b; nested values and maps are decided
    by the direct oracle of `recon.update_object` only): whatever the old and the new list, the
    positional pass followed by the deletion of the trailing surplus items yields the new list. -/
theorem C27_update_list_reaches {α : Type} (old new : List α) :
    Reconcile.updateListFlat old new = new :=
  Reconcile.updateListFlat_eq old new

/-- non-vacuity, and the witness of the former defect: `[1,2,3]` reconciled to `[9]` is now `[9]`
    (the code before the fix deleted indexes `to_delete-1 … 0` and left `[3]`; harness line
    `recon.update_object cp M{6c=L[i1;i2;i3]} M{6c=L[i9]} _ -`). -/
example : Reconcile.updateListFlat [1, 2, 3] [9] = [9]
    ∧ Reconcile.updateListFlat [1, 2, 3] [1, 2] = [1, 2]
    ∧ Reconcile.updateListFlat [1, 2] [7, 8, 9] = [7, 8, 9]
    ∧ Reconcile.updateListFlatBeforeFix [1, 2, 3] [9] = [3] := by decide

end AmVerif.Props.C27
