import AmVerif.Proofs.Cursor
/-
  C26 — "Cursors track their element through edits: get_cursor_position(get_cursor(i)) is i. After
  any later local or merged edits, an element cursor resolves to the element's current index while
  the element is visible. Once the element is deleted, it resolves as its move mode specifies: After
  gives the index of the next surviving element (or the length), Before gives the index of the
  nearest surviving predecessor along the insertion chain (or 0)."

  Property theorems only; helpers in `AmVerif.Proofs.Cursor`.  Model: `Model/Cursor` — a cursor is the
  id of the winning *value op* of the element (`found.ops.last()`) plus a move mode; resolution is
  `get_cursor_position_for` over `seek_list_opid`, whose indexed path (present time) the debug build
  asserts equal to its walk (`historical = true` selects the walk alone, as reads at heads do).
  The correspondence run compares every `get_cursor` / `get_cursor_position` result (strings, indexes,
  errors, panics) with this model: 0 disagreements.
-/
namespace AmVerif.Props.C26
open AmVerif AmVerif.Crdt

/-- C26, first sentence, on the walk (the reference path; reads at heads use only it): a cursor
    taken at unit index `i` resolves — in either move mode — to the start index of the element whose
    unit range contains `i` (`start ≤ i < start + width`, C24_index_units); for an `i` that is an element
    boundary that is `i` itself.  `RowsDistinct`: the op store holds every op once. -/
theorem C26_cursor_roundtrip (wf : ObjType → Op → Nat) (ops : List Op) (obj : ObjId) (ty : ObjType) (i : Nat)
    (mv : MoveCursor) {eid : OpId} {reg : List Op} {start : Nat}
    (hty : objType ops obj = some ty) (hseq : isSeq ty = true)
    (hd : RowsDistinct (objRows ops obj))
    (hseek : seekByIndexW (wf ty) (seqRegs ops obj) i 0 = some (eid, reg, start)) :
    ∃ c, cursorAt wf ops obj i mv = .ok c ∧ cursorPosition wf true true ops obj c = .ok start := by
  unfold cursorAt
  simp only [hty, hseq, hseek]
  cases hlast : reg.getLast? with
  | none =>
    -- an element found by index has at least one visible op
    exfalso
    rw [seqRegs_eq] at hseek
    have : ∀ (l : List Op) (s0 : Nat), seekByIndexW (wf ty) (regsOf ops obj l) i s0 = some (eid, reg, start) → reg ≠ [] := by
      intro l
      induction l with
      | nil => intro s0 h; simp [regsOf, seekByIndexW] at h
      | cons e es ih =>
        intro s0 h
        by_cases hm : e.isMark = true
        · have : regsOf ops obj (e :: es) = regsOf ops obj es := by simp [regsOf, hm]
          rw [this] at h; exact ih s0 h
        · cases hreg : elemRegOps ops obj e.id with
          | nil =>
            have : regsOf ops obj (e :: es) = regsOf ops obj es := by simp [regsOf, hm, hreg]
            rw [this] at h; exact ih s0 h
          | cons r0 rs =>
            have : regsOf ops obj (e :: es) = (e.id, r0 :: rs) :: regsOf ops obj es := by simp [regsOf, hm, hreg]
            rw [this, seekByIndexW] at h
            split at h
            · simp only [Option.some.injEq, Prod.mk.injEq] at h
              rw [← h.2.1]; simp
            · exact ih _ h
    have hne := this _ 0 hseek
    cases reg with
    | nil => exact hne rfl
    | cons a b => simp at hlast
  | some o =>
    refine ⟨.op o.id mv, by simp, ?_⟩
    obtain ⟨f, hf, hidx, hvis, _⟩ := seekSlow_roundtrip (wf ty) ops obj i hd hseek hlast
    unfold cursorPosition
    simp only [hty, hseq, seekListOpid, hf]
    cases mv <;> simp [hidx, hvis]

/-- C26, first sentence, present time (partial: what is missing is the proof that the indexed path of
    `seek_list_opid` agrees with its walk on a winning op — the debug build asserts it, the model
    turns a difference into `panic`; the run saw no such panic on a round trip): the result is the
    element's start index, never another index. -/
theorem C26_cursor_roundtrip_present_partial (wf : ObjType → Op → Nat) (ops : List Op) (obj : ObjId) (ty : ObjType) (i : Nat)
    (mv : MoveCursor) {eid : OpId} {reg : List Op} {start : Nat}
    (hty : objType ops obj = some ty) (hseq : isSeq ty = true)
    (hd : RowsDistinct (objRows ops obj))
    (hseek : seekByIndexW (wf ty) (seqRegs ops obj) i 0 = some (eid, reg, start)) :
    ∃ c, cursorAt wf ops obj i mv = .ok c ∧
      (cursorPosition wf false true ops obj c = .ok start ∨ cursorPosition wf false true ops obj c = .panic .assertFailed) := by
  obtain ⟨c, hc, hpos⟩ := C26_cursor_roundtrip wf ops obj ty i mv hty hseq hd hseek
  refine ⟨c, hc, ?_⟩
  cases c with
  | start => left; simpa [cursorPosition] using hpos
  | stop => left; simpa [cursorPosition] using hpos
  | op id mv' =>
    unfold cursorPosition at hpos ⊢
    simp only [hty, hseq, seekListOpid] at hpos ⊢
    by_cases h1 : (ops.any (fun o => o.id == id && !o.isDel && o.obj != obj)) = true
    · right; simp [h1]
    · by_cases h2 : seekFast (wf ty) ops obj id = seekSlow (wf ty) ops obj id
      · left
        simp only [h1, h2, if_true, Bool.false_eq_true, if_false]
        cases hs : seekSlow (wf ty) ops obj id with
        | none => simp [hs] at hpos
        | some f =>
          simp only [hs] at hpos ⊢
          cases mv' with
          | after => simpa using hpos
          | before =>
            by_cases hv : (f.visible || f.index == 0) = true
            · simpa [hv] using hpos
            · -- on the walk the op was found visible (roundtrip), so this branch does not occur
              exfalso
              cases hlast : reg.getLast? with
              | none =>
                unfold cursorAt at hc
                simp [hty, hseq, hseek, hlast] at hc
              | some o =>
                unfold cursorAt at hc
                simp only [hty, hseq, hseek, hlast] at hc
                have hid : o.id = id := by
                  simp at hc; exact hc.1
                obtain ⟨f', hf', _, hvis', _⟩ := seekSlow_roundtrip (wf ty) ops obj i hd hseek hlast
                rw [hid, hs] at hf'
                injection hf' with hf'
                subst hf'
                simp [hvis'] at hv
      · right; simp [h1, h2]

/-- text "abc" (elements 2,3,4 of object 1@aa), `put(1, "Z")` (op 5 overwrites the value of element 3) -/
def d19 : List Op :=
  [ ⟨⟨1, [0xaa]⟩, .root, .map [0x74], false, .make .text, []⟩,
    ⟨⟨2, [0xaa]⟩, .id ⟨1, [0xaa]⟩, .head, true, .put (.str [0x61]), []⟩,
    ⟨⟨3, [0xaa]⟩, .id ⟨1, [0xaa]⟩, .elem ⟨2, [0xaa]⟩, true, .put (.str [0x62]), []⟩,
    ⟨⟨4, [0xaa]⟩, .id ⟨1, [0xaa]⟩, .elem ⟨3, [0xaa]⟩, true, .put (.str [0x63]), []⟩,
    ⟨⟨5, [0xaa]⟩, .id ⟨1, [0xaa]⟩, .elem ⟨3, [0xaa]⟩, false, .put (.str [0x5A]), [⟨3, [0xaa]⟩]⟩ ]

def wfCp (ty : ObjType) : Op → Nat := ow gOne .cp (ty == .text)

example : RowsDistinct (objRows d19 (.id ⟨1, [0xaa]⟩)) ∧
    seekByIndexW (wfCp .text) (seqRegs d19 (.id ⟨1, [0xaa]⟩)) 1 0 = some (⟨3, [0xaa]⟩, [d19[4]], 1) := by
  unfold RowsDistinct; decide

/-- C26, second sentence ("… resolves to the element's current index while the element is visible") is
    FALSE for `MoveCursor::Before` on the unchanged code (finding D19, `sig=before-cursor-value-op`):
    the cursor taken at index 1 of "abc" names value op 3; after `put(1,"Z")` the element is still
    visible at index 1 (text "aZc") but the cursor resolves to 0 — the walk tests the visibility of the
    *op*, then moves to the reference element.  `After` cursors are not affected (second conjunct). -/
theorem C26_tracks_refuted :
    (cursorAt wfCp (d19.take 4) (.id ⟨1, [0xaa]⟩) 1 .before).toOption = some (.op ⟨3, [0xaa]⟩ .before) ∧
    textOf d19 (.id ⟨1, [0xaa]⟩) = [0x61, 0x5A, 0x63] ∧
    cursorPosition wfCp false true d19 (.id ⟨1, [0xaa]⟩) (.op ⟨3, [0xaa]⟩ .before) = .ok 0 ∧
    cursorPosition wfCp false true d19 (.id ⟨1, [0xaa]⟩) (.op ⟨3, [0xaa]⟩ .after) = .ok 1 := by
  decide

/-- "ab" with "b" (the last element) deleted -/
def tail : List Op :=
  [ ⟨⟨1, [0xaa]⟩, .root, .map [0x74], false, .make .text, []⟩,
    ⟨⟨2, [0xaa]⟩, .id ⟨1, [0xaa]⟩, .head, true, .put (.str [0x61]), []⟩,
    ⟨⟨3, [0xaa]⟩, .id ⟨1, [0xaa]⟩, .elem ⟨2, [0xaa]⟩, true, .put (.str [0x62]), []⟩,
    ⟨⟨4, [0xaa]⟩, .id ⟨1, [0xaa]⟩, .elem ⟨3, [0xaa]⟩, false, .del, [⟨3, [0xaa]⟩]⟩ ]

/-- C26, "After gives the index of the next surviving element (or the length)" is FALSE when no element
    survives after the deleted one (new finding, `sig=deleted-tail-cursor-error` / `-panic`): the
    indexed lookup answers the length, the walk answers "not found"; present-time reads trip the debug
    assertion comparing the two (release builds return the length), reads at heads return
    `InvalidCursor`. -/
theorem C26_after_deleted_tail_refuted :
    cursorPosition wfCp true true tail (.id ⟨1, [0xaa]⟩) (.op ⟨3, [0xaa]⟩ .after) = .err .cursor ∧
    cursorPosition wfCp false true tail (.id ⟨1, [0xaa]⟩) (.op ⟨3, [0xaa]⟩ .after) = .panic .assertFailed ∧
    (seekFast (wfCp .text) tail (.id ⟨1, [0xaa]⟩) ⟨3, [0xaa]⟩).map (·.index) = some 1 := by
  decide

/-- C26, third sentence, `After`, where it holds: the walk answers the summed widths of the elements
    that lie wholly before the cursor's op — the index of the first surviving element at or after it. -/
theorem C26_after_deleted (wf : Op → Nat) (x : Op) (pos : Nat) (groups : List (Nat × List Op)) (idx : Nat)
    {f : FoundOpId} (h : seekSlowGo wf x pos groups idx = some f) :
    f.index = idx + ((groups.takeWhile (fun g => g.1 ≤ pos)).map (fun g => lastW wf g.2)).sum := by
  induction groups generalizing idx with
  | nil => simp [seekSlowGo] at h
  | cons g gs ih =>
    obtain ⟨e, reg⟩ := g
    rw [seekSlowGo_cons] at h
    by_cases hgt : e > pos
    · simp only [hgt, if_true, Option.some.injEq] at h
      have : ¬ e ≤ pos := by omega
      rw [← h]; simp [List.takeWhile, this]
    · simp only [hgt, if_false] at h
      have hle : e ≤ pos := by omega
      rw [ih _ h]
      simp [List.takeWhile, hle]; omega

example : cursorPosition wfCp true true (tail.take 3 ++ [⟨⟨4, [0xaa]⟩, .id ⟨1, [0xaa]⟩, .elem ⟨2, [0xaa]⟩, false, .del, [⟨2, [0xaa]⟩]⟩])
    (.id ⟨1, [0xaa]⟩) (.op ⟨2, [0xaa]⟩ .after) = .ok 0 := by decide

/-- C26, third sentence, `Before`: the resolution is exactly the walk "key := reference element until it
    is visible, else 0" (with the visibility test on the *op*, see `C26_tracks_refuted`). -/
theorem C26_before_deleted (wf : Op → Nat) (hist : Bool) (ops : List Op) (obj : ObjId) (fuel : Nat) (k : OpId) :
    beforeWalk wf hist ops obj (fuel + 1) (.elem k) =
      match seekListOpid wf hist ops obj k with
      | .panic p => .panic p
      | .err x => .err x
      | .ok none => .ok 0
      | .ok (some f) => if f.visible then .ok f.index else beforeWalk wf hist ops obj fuel f.op.key := by
  rfl

/-- "abc", "b" deleted: a `Before` cursor on "b" resolves to the index of "a" (its reference element),
    an `After` cursor to the index of "c" -/
example :
    cursorPosition wfCp true true
      (d19.take 4 ++ [⟨⟨5, [0xaa]⟩, .id ⟨1, [0xaa]⟩, .elem ⟨3, [0xaa]⟩, false, .del, [⟨3, [0xaa]⟩]⟩])
      (.id ⟨1, [0xaa]⟩) (.op ⟨3, [0xaa]⟩ .before) = .ok 0 ∧
    cursorPosition wfCp true true
      (d19.take 4 ++ [⟨⟨5, [0xaa]⟩, .id ⟨1, [0xaa]⟩, .elem ⟨3, [0xaa]⟩, false, .del, [⟨3, [0xaa]⟩]⟩])
      (.id ⟨1, [0xaa]⟩) (.op ⟨3, [0xaa]⟩ .after) = .ok 1 := by decide

end AmVerif.Props.C26
