import AmVerif.Proofs.Cursor
/-
  C26 — "Cursors track their element through edits: get_cursor_position(get_cursor(i)) is i. After
  any later local or merged edits, an element cursor resolves to the element's current index while
  the element is visible. Once the element is deleted, it resolves as its move mode specifies: After
  gives the index of the next surviving element (or the length), Before gives the index of the
  nearest surviving predecessor along the insertion chain (or 0)."

  Property theorems only; helpers in `AmVerif.Proofs.Cursor`.  Model: `Model/Cursor` — a cursor is the
  id of the winning *value op* of the element (`found.ops.last()`) plus a move mode; resolution is
  `get_cursor_position_for` over `seek_list_opid`, whose indexed path (present time) the debug build
  asserts equal to its walk (`historical = true` selects the walk alone, as reads at heads do).
  The model follows the code AFTER the fixes 26955dda5 (deleted tail element), a73334efe (mark op in the
  Before walk) and 9b01837d9 (`FoundOpId::visible` = visibility of the ELEMENT); before them the second and
  third sentence were false (findings D19, F1, F2 — the witnesses below are now positive examples).
  The correspondence run compares every `get_cursor` / `get_cursor_position` result (strings, indexes,
  errors, panics) with this model: 0 disagreements, 0 panics.
-/
namespace AmVerif.Props.C26
open AmVerif AmVerif.Crdt

/-- C26, second sentence, on the walk (the reference path; reads at heads use only it): "After any
    later local or merged edits, an element cursor resolves to the element's current index while the
    element is visible."  `ops` is the document NOW (whatever was appended since the cursor was taken);
    the cursor names op `xid`, a value op — current or since overwritten — of element `eid`
    (`NamesRowOf`); the element is visible now, found at unit index `i` with start index `start`.  Then
    the cursor resolves to `start`, in either move mode.  `RowsDistinct`: the op store holds every op once. -/
theorem C26_cursor_tracks (wf : ObjType → Op → Nat) (ops : List Op) (obj : ObjId) (ty : ObjType) (i : Nat)
    (xid : OpId) (mv : MoveCursor) {eid : OpId} {reg : List Op} {start : Nat}
    (hty : objType ops obj = some ty) (hseq : isSeq ty = true)
    (hd : RowsDistinct (objRows ops obj))
    (hseek : seekByIndexW (wf ty) (seqRegs ops obj) i 0 = some (eid, reg, start))
    (hx : NamesRowOf ops obj xid eid) :
    cursorPosition wf true true ops obj (.op xid mv) = .ok start := by
  obtain ⟨f, hf, hidx, hvis, _⟩ := seekSlow_tracks (wf ty) ops obj i xid hd hseek hx
  unfold cursorPosition
  simp only [hty, hseq, seekListOpid, hf]
  cases mv <;> simp [hidx, hvis]

/-- C26, first sentence: "get_cursor_position(get_cursor(i)) is i" — a cursor taken at unit index `i`
    resolves (either move mode) to the start index of the element whose unit range contains `i`
    (`start ≤ i < start + width`, C24_index_units); for an `i` on an element boundary that is `i`. -/
theorem C26_cursor_roundtrip (wf : ObjType → Op → Nat) (ops : List Op) (obj : ObjId) (ty : ObjType) (i : Nat)
    (mv : MoveCursor) {eid : OpId} {reg : List Op} {start : Nat}
    (hty : objType ops obj = some ty) (hseq : isSeq ty = true)
    (hd : RowsDistinct (objRows ops obj))
    (hseek : seekByIndexW (wf ty) (seqRegs ops obj) i 0 = some (eid, reg, start)) :
    ∃ c, cursorAt wf ops obj i mv = .ok c ∧ cursorPosition wf true true ops obj c = .ok start := by
  unfold cursorAt
  simp only [hty, hseq, hseek]
  cases hlast : reg.getLast? with
  | none =>
    exfalso
    have := winner_namesRow (o := default) hseek
    -- an element found by index has at least one visible op
    rw [seqRegs_eq] at hseek
    have key : ∀ (l : List Op) (s0 : Nat), seekByIndexW (wf ty) (regsOf ops obj l) i s0 = some (eid, reg, start) → reg ≠ [] := by
      intro l
      induction l with
      | nil => intro s0 h; simp [regsOf, seekByIndexW] at h
      | cons e es ih =>
        intro s0 h
        by_cases hm : e.isMark = true
        · have : regsOf ops obj (e :: es) = regsOf ops obj es := by simp [regsOf, hm]
          rw [this] at h; exact ih s0 h
        · cases hreg : elemRegOps ops obj e.id with
          | nil =>
            have : regsOf ops obj (e :: es) = regsOf ops obj es := by simp [regsOf, hm, hreg]
            rw [this] at h; exact ih s0 h
          | cons r0 rs =>
            have : regsOf ops obj (e :: es) = (e.id, r0 :: rs) :: regsOf ops obj es := by simp [regsOf, hm, hreg]
            rw [this, seekByIndexW] at h
            split at h
            · simp only [Option.some.injEq, Prod.mk.injEq] at h
              rw [← h.2.1]; simp
            · exact ih _ h
    have hne := key _ 0 hseek
    cases reg with
    | nil => exact hne rfl
    | cons a b => simp at hlast
  | some o =>
    exact ⟨.op o.id mv, by simp,
      C26_cursor_tracks wf ops obj ty i o.id mv hty hseq hd hseek (winner_namesRow hseek hlast)⟩

/-- C26, first and second sentence at PRESENT time (partial: what is missing is the proof that the
    indexed path of `seek_list_opid` agrees with its walk — the debug build asserts it, the model turns a
    difference into `panic`; the run saw no panic in 96 597 outputs after the fixes): the result is the
    element's start index, never another index. -/
theorem C26_cursor_tracks_present_partial (wf : ObjType → Op → Nat) (ops : List Op) (obj : ObjId) (ty : ObjType) (i : Nat)
    (xid : OpId) (mv : MoveCursor) {eid : OpId} {reg : List Op} {start : Nat}
    (hty : objType ops obj = some ty) (hseq : isSeq ty = true)
    (hd : RowsDistinct (objRows ops obj))
    (hseek : seekByIndexW (wf ty) (seqRegs ops obj) i 0 = some (eid, reg, start))
    (hx : NamesRowOf ops obj xid eid) :
    cursorPosition wf false true ops obj (.op xid mv) = .ok start ∨
      cursorPosition wf false true ops obj (.op xid mv) = .panic .assertFailed := by
  obtain ⟨f, hf, hidx, hvis, _⟩ := seekSlow_tracks (wf ty) ops obj i xid hd hseek hx
  unfold cursorPosition
  simp only [hty, hseq, seekListOpid]
  by_cases h2 : seekFast (wf ty) ops obj xid = seekSlow (wf ty) ops obj xid
  · left
    simp only [h2, hf, beq_self_eq_true, if_true, Bool.false_eq_true, if_false]
    cases mv <;> simp [hidx, hvis]
  · right; simp [h2]

/-- text "abc" (elements 2,3,4 of object 1@aa), `put(1, "Z")` (op 5 overwrites the value of element 3) -/
def d19 : List Op :=
  [ ⟨⟨1, [0xaa]⟩, .root, .map [0x74], false, .make .text, []⟩,
    ⟨⟨2, [0xaa]⟩, .id ⟨1, [0xaa]⟩, .head, true, .put (.str [0x61]), []⟩,
    ⟨⟨3, [0xaa]⟩, .id ⟨1, [0xaa]⟩, .elem ⟨2, [0xaa]⟩, true, .put (.str [0x62]), []⟩,
    ⟨⟨4, [0xaa]⟩, .id ⟨1, [0xaa]⟩, .elem ⟨3, [0xaa]⟩, true, .put (.str [0x63]), []⟩,
    ⟨⟨5, [0xaa]⟩, .id ⟨1, [0xaa]⟩, .elem ⟨3, [0xaa]⟩, false, .put (.str [0x5A]), [⟨3, [0xaa]⟩]⟩ ]

def wfCp (ty : ObjType) : Op → Nat := ow gOne .cp (ty == .text)

/-- non-vacuity (and the former D19 witness): the cursor taken at index 1 of "abc" names value op 3; after
    `put(1,"Z")` that op is overwritten, the element is visible at index 1 ("aZc"), the hypotheses of
    `C26_cursor_tracks` hold and the cursor resolves to 1 in both move modes, now and at heads
    (before fix 9b01837d9 the `Before` cursor resolved to 0). -/
example : RowsDistinct (objRows d19 (.id ⟨1, [0xaa]⟩)) ∧
    seekByIndexW (wfCp .text) (seqRegs d19 (.id ⟨1, [0xaa]⟩)) 1 0 = some (⟨3, [0xaa]⟩, [d19[4]], 1) ∧
    (cursorAt wfCp (d19.take 4) (.id ⟨1, [0xaa]⟩) 1 .before).toOption = some (.op ⟨3, [0xaa]⟩ .before) ∧
    cursorPosition wfCp false true d19 (.id ⟨1, [0xaa]⟩) (.op ⟨3, [0xaa]⟩ .before) = .ok 1 ∧
    cursorPosition wfCp true true d19 (.id ⟨1, [0xaa]⟩) (.op ⟨3, [0xaa]⟩ .before) = .ok 1 ∧
    cursorPosition wfCp false true d19 (.id ⟨1, [0xaa]⟩) (.op ⟨3, [0xaa]⟩ .after) = .ok 1 := by
  unfold RowsDistinct; decide

example : NamesRowOf d19 (.id ⟨1, [0xaa]⟩) ⟨3, [0xaa]⟩ ⟨3, [0xaa]⟩ := by
  unfold NamesRowOf; decide

/-- C26, third sentence, `After`: "the index of the next surviving element (or the length)".  The walk
    answers the summed widths of the elements with visible values that lie wholly before the cursor's op:
    that is the index of the first surviving element at or after it, and — no surviving element after it —
    the length; it always answers (before fix 26955dda5 it answered "not found" at the tail, finding F1). -/
theorem C26_after_deleted (wf : Op → Nat) (x : Op) (pos : Nat) (groups : List (Nat × Nat × List Op)) (idx : Nat) :
    ∃ f, seekSlowGo wf x pos groups idx = some f ∧
      f.index = idx + ((groups.takeWhile (fun g => g.2.1 ≤ pos)).map (fun g => lastW wf g.2.2)).sum := by
  induction groups generalizing idx with
  | nil => exact ⟨_, rfl, by simp⟩
  | cons g gs ih =>
    obtain ⟨s, e, reg⟩ := g
    rw [seekSlowGo_cons]
    by_cases hgt : e > pos
    · have : ¬ e ≤ pos := by omega
      rw [if_pos hgt]
      exact ⟨_, rfl, by simp [List.takeWhile, this]⟩
    · have hle : e ≤ pos := by omega
      rw [if_neg hgt]
      obtain ⟨f, hf, hidx⟩ := ih (idx + lastW wf reg)
      refine ⟨f, hf, ?_⟩
      rw [hidx]; simp [List.takeWhile, hle]; omega

/-- "ab" with "b" (the last element) deleted -/
def tail : List Op :=
  [ ⟨⟨1, [0xaa]⟩, .root, .map [0x74], false, .make .text, []⟩,
    ⟨⟨2, [0xaa]⟩, .id ⟨1, [0xaa]⟩, .head, true, .put (.str [0x61]), []⟩,
    ⟨⟨3, [0xaa]⟩, .id ⟨1, [0xaa]⟩, .elem ⟨2, [0xaa]⟩, true, .put (.str [0x62]), []⟩,
    ⟨⟨4, [0xaa]⟩, .id ⟨1, [0xaa]⟩, .elem ⟨3, [0xaa]⟩, false, .del, [⟨3, [0xaa]⟩]⟩ ]

/-- the former F1 witness: an `After` cursor on the deleted last element resolves to the length (1), at
    heads and at present time (indexed path and walk agree: no panic); a `Before` cursor to "a" (0) -/
example :
    cursorPosition wfCp true true tail (.id ⟨1, [0xaa]⟩) (.op ⟨3, [0xaa]⟩ .after) = .ok 1 ∧
    cursorPosition wfCp false true tail (.id ⟨1, [0xaa]⟩) (.op ⟨3, [0xaa]⟩ .after) = .ok 1 ∧
    cursorPosition wfCp false true tail (.id ⟨1, [0xaa]⟩) (.op ⟨3, [0xaa]⟩ .before) = .ok 0 := by
  decide

/-- C26, third sentence, `Before`: "the index of the nearest surviving predecessor along the insertion
    chain (or 0)" — the resolution is exactly the walk "key := reference element until an element with a
    visible value is reached, else 0" (mark ops on the chain are passed over like deleted elements). -/
theorem C26_before_deleted (wf : Op → Nat) (hist : Bool) (ops : List Op) (obj : ObjId) (fuel : Nat) (k : OpId) :
    beforeWalk wf hist ops obj (fuel + 1) (.elem k) =
      match seekListOpid wf hist ops obj k with
      | .panic p => .panic p
      | .err x => .err x
      | .ok none => .ok 0
      | .ok (some f) => if f.visible then .ok f.index else beforeWalk wf hist ops obj fuel f.op.key := by
  rfl

/-- "abc", "b" deleted: a `Before` cursor on "b" resolves to the index of "a" (its reference element),
    an `After` cursor to the index of "c" -/
example :
    cursorPosition wfCp true true
      (d19.take 4 ++ [⟨⟨5, [0xaa]⟩, .id ⟨1, [0xaa]⟩, .elem ⟨3, [0xaa]⟩, false, .del, [⟨3, [0xaa]⟩]⟩])
      (.id ⟨1, [0xaa]⟩) (.op ⟨3, [0xaa]⟩ .before) = .ok 0 ∧
    cursorPosition wfCp true true
      (d19.take 4 ++ [⟨⟨5, [0xaa]⟩, .id ⟨1, [0xaa]⟩, .elem ⟨3, [0xaa]⟩, false, .del, [⟨3, [0xaa]⟩]⟩])
      (.id ⟨1, [0xaa]⟩) (.op ⟨3, [0xaa]⟩ .after) = .ok 1 := by decide

/-- the former F2 witness: "ab", `mark(1,2,Before)` (begin 4 after "a", end 5 after "b"), "x" (6) inserted at
    1 is keyed on the begin op; "x" deleted (7).  The `Before` walk passes over the mark op and reaches "a":
    0, at present time (no panic) and at heads. -/
example :
    let ops : List Op :=
      [ ⟨⟨1, [0xaa]⟩, .root, .map [0x74], false, .make .text, []⟩,
        ⟨⟨2, [0xaa]⟩, .id ⟨1, [0xaa]⟩, .head, true, .put (.str [0x61]), []⟩,
        ⟨⟨3, [0xaa]⟩, .id ⟨1, [0xaa]⟩, .elem ⟨2, [0xaa]⟩, true, .put (.str [0x62]), []⟩,
        ⟨⟨4, [0xaa]⟩, .id ⟨1, [0xaa]⟩, .elem ⟨2, [0xaa]⟩, true, .markBegin [0x62] (.bool true) true, []⟩,
        ⟨⟨5, [0xaa]⟩, .id ⟨1, [0xaa]⟩, .elem ⟨3, [0xaa]⟩, true, .markEnd false, []⟩,
        ⟨⟨6, [0xaa]⟩, .id ⟨1, [0xaa]⟩, .elem ⟨4, [0xaa]⟩, true, .put (.str [0x78]), []⟩,
        ⟨⟨7, [0xaa]⟩, .id ⟨1, [0xaa]⟩, .elem ⟨6, [0xaa]⟩, false, .del, [⟨6, [0xaa]⟩]⟩ ]
    cursorPosition wfCp false true ops (.id ⟨1, [0xaa]⟩) (.op ⟨6, [0xaa]⟩ .before) = .ok 0 ∧
    cursorPosition wfCp true true ops (.id ⟨1, [0xaa]⟩) (.op ⟨6, [0xaa]⟩ .before) = .ok 0 := by
  decide

end AmVerif.Props.C26
