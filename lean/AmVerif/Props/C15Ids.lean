import AmVerif.Proofs.Ids
import AmVerif.Proofs.IdsMsg
/-
  C15 (identifier / small-decoder part) — "Untrusted bytes and strings never crash the library:
  Parsing arbitrary bytes or strings never panics, aborts or hangs. Each call returns a value or an
  error. This covers … sync Message::decode and State::decode, … Cursor::try_from (bytes and
  strings), ObjId::try_from, ActorId and ChangeHash parsing, import/import_obj, …".

  For every decoder modelled in Model/Ids.lean and Model/IdsMsg.lean (the code AFTER the fixes D1, D7,
  D8): `∀ input, decode input ≠ .panic _`, hence (`ok_or_err`) a value or an error.  The panic branches
  that the Rust code has (slice `s[i..n]`, `actors[idx]`) are present in the model and proved
  unreachable.  The defects themselves are theorems about the pre-fix definitions (`…Prefix`) on their
  witnesses.  Termination: the model functions are total; the one loop whose trip count comes from
  the wire (`length_prefixed`) is shown to make at most `input length + 1` element calls.
  BloomFilter::try_from is C23; load / load_incremental / Change::from_bytes / bundles / rescue are
  NOT modelled (exploration-only oracle stream `ids.deep`).
-/
namespace AmVerif.Props.C15Ids
open AmVerif AmVerif.Leb AmVerif.Ids AmVerif.IdsMsg

/-- "Each call returns a value or an error." -/
theorem ok_or_err {ε α : Type} (x : Outcome ε α) (h : ∀ p, x ≠ .panic p) :
    (∃ v, x = .ok v) ∨ (∃ e, x = .err e) := by
  cases x with
  | ok v => exact Or.inl ⟨v, rfl⟩
  | err e => exact Or.inr ⟨e, rfl⟩
  | panic p => exact absurd rfl (h p)

/-! ## ObjId::try_from(&[u8]) -/

theorem exidFromBytes_no_panic (bs : Bytes) (p : PanicSite) : exidFromBytes bs ≠ .panic p := by
  unfold exidFromBytes
  repeat' split
  all_goals simp

/-! ## Cursor::try_from(&[u8]) (both layouts: version 0 and version 1) -/

theorem cursorFromBytes_no_panic (bs : Bytes) (p : PanicSite) : cursorFromBytes bs ≠ .panic p := by
  unfold cursorFromBytes cursorParse0
  repeat' split
  all_goals simp

/-! ## Cursor::try_from(&str) -/

/-- `Cursor::try_from(s)` never panics: for EVERY byte string (in particular every UTF-8 string,
    including the empty one and strings starting with a multi-byte character). -/
theorem cursorFromStr_no_panic (s : Bytes) (p : PanicSite) : cursorFromStr s ≠ .panic p := by
  unfold cursorFromStr
  split
  · repeat' split
    all_goals simp
  · simp only
    split
    · simp
    · rename_i n hn
      have := movePrefix_le_findAt s n hn
      rw [if_neg (by omega)]
      repeat' split
      all_goals simp

/-- D7, before the fix: `Cursor::try_from("")` panicked (`&s[0..1]` out of range) … -/
theorem D7_empty_string_panicked : cursorFromStrPrefix [] = .panic .sliceIndex := by decide

/-- … and so did `Cursor::try_from("é1@ab")` (byte 1 is inside the two-byte `é`). -/
theorem D7_multibyte_first_char_panicked :
    cursorFromStrPrefix [0xC3, 0xA9, 0x31, 0x40, 0x61, 0x62] = .panic .sliceIndex := by decide

/-- after the fix both are plain format errors -/
example : cursorFromStr [] = .err .cursorFormat ∧
    cursorFromStr [0xC3, 0xA9, 0x31, 0x40, 0x61, 0x62] = .err .cursorFormat := by decide

/-! ## ActorId / ChangeHash parsing -/

theorem actorFromHex_no_panic (s : Bytes) (p : PanicSite) : actorFromHex s ≠ .panic p := by
  unfold actorFromHex; split <;> simp

theorem hashFromHex_no_panic (s : Bytes) (p : PanicSite) : hashFromHex s ≠ .panic p := by
  unfold hashFromHex
  repeat' split
  all_goals simp

theorem hashFromBytes_no_panic (b : Bytes) (p : PanicSite) : hashFromBytes b ≠ .panic p := by
  unfold hashFromBytes; split <;> simp

example : hashFromHex [0x7a, 0x7a] = .err .hashHex ∧ hashFromHex [0x61, 0x62] = .err .hashLength ∧
    actorFromHex [0x61] = .err .actorId := by decide

/-! ## import_obj / import -/

/-- `import_obj(s)` never panics, for every actor table and every string. -/
theorem importObj_no_panic (actors : List Actor) (s : Bytes) (p : PanicSite) :
    importObj actors s ≠ .panic p := by
  unfold importObj
  split
  · simp
  · split
    · simp
    · split
      · simp
      · split
        · simp
        · rename_i actor _
          split
          · simp
          · rename_i idx hidx
            rw [lookupActor_some actors actor idx hidx]
            simp

/-- D1, before the fix: `Automerge::new().import_obj("1@zz")` panicked in `hex::decode(..).unwrap()` -/
theorem D1_bad_hex_panicked : importObjPrefix [] [0x31, 0x40, 0x7a, 0x7a] = .panic .unwrapNone := by
  decide

example : importObj [] [0x31, 0x40, 0x7a, 0x7a] = .err .objIdFormat := by decide

/-! ## resolution of a decoded id / cursor inside a document -/

theorem exidToOpid_no_panic (actors : List Actor) (e : ExId) (p : PanicSite) :
    exidToOpid actors e ≠ .panic p := by
  cases e with
  | root => simp [exidToOpid]
  | id ctr actor idx =>
    unfold exidToOpid
    simp only
    split <;> simp

theorem opCursorToOpid_no_panic (actors : List Actor) (ctr : Nat) (a : Actor) (p : PanicSite) :
    opCursorToOpid actors ctr a ≠ .panic p := by
  unfold opCursorToOpid
  split <;> simp

/-- `import(s)` = `import_obj(s)` followed by the resolution of the result: no panic in either step -/
theorem import_then_resolve_no_panic (actors : List Actor) (s : Bytes) (p : PanicSite) :
    (match importObj actors s with
     | .ok e => exidToOpid actors e
     | .err x => .err x
     | .panic q => .panic q) ≠ .panic p := by
  have h1 := importObj_no_panic actors s
  cases h : importObj actors s with
  | ok e => exact exidToOpid_no_panic actors e p
  | err x => simp
  | panic q => exact absurd h (h1 q)

/-- D8, before the fix: an id with a KNOWN actor and a counter above `u32::MAX` panicked in
    `OpId::new` ("99999999999@ab" in a document that has actor `ab`) … -/
theorem D8_exid_huge_counter_panicked :
    exidToOpidPrefix [[0xab]] (.id 99999999999 [0xab] 0) = .panic .narrowing := by decide

/-- … and so did the cursor with the same coordinates. -/
theorem D8_cursor_huge_counter_panicked :
    opCursorToOpidPrefix [[0xab]] 99999999999 [0xab] = .panic .narrowing := by decide

example : exidToOpid [[0xab]] (.id 99999999999 [0xab] 0) = .err .objId ∧
    opCursorToOpid [[0xab]] 99999999999 [0xab] = .err .invalidCursor := by decide

/-! ## sync::State::decode and sync::Message::decode -/

theorem stateDecode_no_panic (bs : Bytes) (p : PanicSite) : stateDecode bs ≠ .panic p := by
  unfold stateDecode
  repeat' split
  all_goals simp

theorem messageDecode_no_panic (bs : Bytes) (p : PanicSite) : messageDecode bs ≠ .panic p := by
  unfold messageDecode
  repeat' split
  all_goals simp

example : stateDecode [0x43, 0xff, 0xff, 0xff, 0xff, 0xff, 0xff, 0xff, 0xff, 0xff, 0x01] = .err .notEnoughInput ∧
    messageDecode [0x42, 0, 0, 1, 0, 0x80] = .err .notEnoughInput ∧
    messageDecode [0x41] = .err .wrongType := by decide

/-! ## "never … hangs": the loop whose trip count comes from the wire -/

/-- If every successful element parse consumes at least one byte (true of `change_hash`: 32 bytes,
    `parse_have` and `length_prefixed_bytes`: at least the LEB128 length), then whatever `count` the
    wire announces — up to 2^64−1 — the loop body runs at most `input length + 1` times. -/
theorem lengthPrefixed_iterations_le {α : Type} (g : Bytes → MResult α)
    (hg : ∀ i x r, g i = .ok (x, r) → r.length < i.length) (count : Nat) (i : Bytes) :
    repeatCalls g count i ≤ i.length + 1 := by
  induction count generalizing i with
  | zero => simp [repeatCalls]
  | succ n ih =>
    simp only [repeatCalls]
    split
    · omega
    · rename_i x r h
      have := hg i x r h
      have := ih r
      omega

/-- non-vacuity: a hash list announcing 2^63 entries over a 3-byte input stops after one call -/
example : repeatCalls changeHash (2 ^ 63) [1, 2, 3] = 1 := by
  rw [show (2 : Nat) ^ 63 = (2 ^ 63 - 1) + 1 by decide]
  simp [repeatCalls, changeHash, Ids.takeN, Consts.HASH_SIZE]

end AmVerif.Props.C15Ids
