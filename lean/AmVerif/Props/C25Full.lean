import AmVerif.Props.C25
import AmVerif.Proofs.MarksFullShape
import AmVerif.Proofs.MarksFullErr
import AmVerif.Proofs.MarksFullExpand
import AmVerif.Proofs.MarksFullFastEq
/-
  C25 — "Rich-text marks follow Peritext semantics and agree across reads: At every text position, a
  mark name's value is that of the highest-id mark of that name covering the position (a null value
  means unmarked), and marks(), get_marks(i) and spans() report this same marking. Text inserted at a
  mark boundary is covered exactly when the mark's expand setting says so. Marks converge and survive
  save/load and historical reads."

  FULL-strength versions of the theorems that `Props/C25.lean` states only partially
  (`C25_marks_agree_partial`, …).  Property theorems only; helpers in `AmVerif.Proofs.MarksFull*`.

  Model: `marksOf` is `calculate_marks_slow` (automerge.rs) with `MarkAccumulator::add` and
  `into_iter_no_unmark` (marks.rs) transcribed literally: a segment is cut whenever the state
  machine's `current()` changes (null "unmark" values included), a segment of positive width is added
  name by name, an entry is extended when the last entry of that name has the same value and ends where
  the segment starts, null entries are dropped at the end.  Present-time reads of a text object go
  through the indexed `calculate_marks_fast` (op_set.rs) — same accumulator, segments cut at every mark
  boundary of the mark index, nulls stripped before `add`: `marksOfFast` (`Model/MarksFast`), which the
  driver uses for exactly those reads.  `C25_marks_fast_eq_slow` proves the two equal whenever no mark op
  of the object is overwritten; when one is, the real code's reads DISAGREE
  (`C25_marks_fast_deleted_begin_refuted`).
-/
namespace AmVerif.Props.C25
open AmVerif AmVerif.Crdt

/-- C25, "marks(), get_marks(i) and spans() report this same marking" — FULL.  For every unit index `i` of
    the text (`i <` total width of the elements, in the units of the encoding `wf`):
    * `marks()`: a pair (name, value) is in `get_marks(i)` exactly when `marks()` reports a range of that
      name and value with `start ≤ i < end` (neither read ever reports a null value);
    * `spans()`: `i` lies in the unit range of an element, and the span that receives that element's text
      carries exactly `get_marks(i)`.
    Supersedes `C25_marks_agree_partial`. -/
theorem C25_marks_agree (wf : Op → Nat) (W : Bytes → Nat) (ops : List Op) (obj : ObjId) (i : Nat)
    (hi : i < itemsWidth wf (items ops obj)) :
    (∀ n v, (n, v) ∈ getMarksAt wf ops obj i ↔
        ∃ r ∈ marksOf wf ops obj, r.name = n ∧ r.value = v ∧ r.start ≤ i ∧ i < r.stop) ∧
    (∀ n, (n, Scalar.null) ∉ getMarksAt wf ops obj i ∧ ∀ r ∈ marksOf wf ops obj, r.value ≠ .null) ∧
    (∃ pre e t post, items ops obj = pre ++ .elem e t :: post ∧
        itemsWidth wf pre ≤ i ∧ i < itemsWidth wf pre + wf t ∧
        (t.isBlock = false → ∃ buf len, ((pre.foldl (SpanWalk.step W) {}).step W (.elem e t)).next
            = some (buf, len, getMarksAt wf ops obj i))) := by
  have hagree : ∀ n v, (n, v) ∈ getMarksAt wf ops obj i ↔
      ∃ r ∈ marksOf wf ops obj, r.name = n ∧ r.value = v ∧ r.start ≤ i ∧ i < r.stop := by
    intro n v
    rw [marksOf_eq]
    exact (marksWalk_agree wf (items ops obj) i hi n v).symm
  have hshape := marksWalk_shape wf (items ops obj)
  refine ⟨hagree, ?_, ?_⟩
  · intro n
    refine ⟨?_, fun r hr => (hshape.2 r (by rw [marksOf_eq] at hr; exact hr)).2.2⟩
    intro hm
    obtain ⟨r, hr, _, h2, _⟩ := (hagree n .null).mp hm
    exact (hshape.2 r (by rw [marksOf_eq] at hr; exact hr)).2.2 h2
  · obtain ⟨pre, e, t, post, h, h1, h2⟩ := unit_in_element wf (items ops obj) i hi
    refine ⟨pre, e, t, post, h, h1, h2, ?_⟩
    intro hb
    have hs := SpanWalk.foldl_msm W pre {} (by simp [SpanWalk.Synced, MarkSet.withoutUnmarks])
    have h0 : getMarksAt wf ops obj i = ((pre.foldl Msm.step {}).current).withoutUnmarks := by
      unfold getMarksAt; rw [h]
      exact getMarksGo_split wf pre e t post {} i 0 (by omega) (by omega)
    have hg : getMarksAt wf ops obj i = (pre.foldl (SpanWalk.step W) {}).marks := by
      rw [h0, hs.2, hs.1]
    simp only [SpanWalk.step, hb, Bool.false_eq_true, if_false]
    rw [hg]
    exact SpanWalk.pushStr_marks W _ _

/-- C25, what `marks()` guarantees about its ranges (the accumulator's merging): the list is sorted by name
    and, within a name, by position; two ranges of one name never overlap; two ranges of one name with the
    SAME value are never even adjacent (`a.stop < b.start`: contiguous segments of equal value were merged
    into one range); every range is non-empty, ends inside the text and carries a non-null value. -/
theorem C25_marks_shape (wf : Op → Nat) (ops : List Op) (obj : ObjId) :
    (marksOf wf ops obj).Pairwise (fun a b =>
      bytesLt a.name b.name = true ∨
      (a.name = b.name ∧ a.stop ≤ b.start ∧ (a.value = b.value → a.stop < b.start))) ∧
    ∀ r ∈ marksOf wf ops obj, r.start < r.stop ∧ r.stop ≤ itemsWidth wf (items ops obj) ∧ r.value ≠ .null := by
  rw [marksOf_eq]
  exact marksWalk_shape wf (items ops obj)

/-- C25, the ranges of `marks()` are MAXIMAL: a reported range cannot be extended by one unit on either side —
    the unit before its start (if any) and the unit at its end (if inside the text) do not carry that
    (name, value) according to `get_marks`. -/
theorem C25_marks_maximal (wf : Op → Nat) (ops : List Op) (obj : ObjId) (r : Mark) (hr : r ∈ marksOf wf ops obj) :
    (∀ i, i < r.start → r.start ≤ i + 1 → (r.name, r.value) ∉ getMarksAt wf ops obj i) ∧
    (r.stop < itemsWidth wf (items ops obj) → (r.name, r.value) ∉ getMarksAt wf ops obj r.stop) := by
  obtain ⟨hpw, hall⟩ := C25_marks_shape wf ops obj
  have hr' := hall r hr
  constructor
  · intro i h1 h2 hm
    have hi : i < itemsWidth wf (items ops obj) := by omega
    obtain ⟨r', hr'm, hn, hv, hs, he⟩ := ((C25_marks_agree wf (fun _ => 0) ops obj i hi).1 r.name r.value).mp hm
    rcases pairwise_mem_cases hpw hr hr'm with heq | hb | hb
    · rw [← heq] at hs; omega
    · rcases hb with hb | ⟨_, hb, _⟩
      · rw [hn, bytesLt_irrefl] at hb; cases hb
      · omega
    · rcases hb with hb | ⟨_, _, hb⟩
      · rw [hn, bytesLt_irrefl] at hb; cases hb
      · have := hb hv; omega
  · intro h1 hm
    obtain ⟨r', hr'm, hn, hv, hs, he⟩ := ((C25_marks_agree wf (fun _ => 0) ops obj r.stop h1).1 r.name r.value).mp hm
    rcases pairwise_mem_cases hpw hr hr'm with heq | hb | hb
    · rw [← heq] at he; omega
    · rcases hb with hb | ⟨_, _, hb⟩
      · rw [hn, bytesLt_irrefl] at hb; cases hb
      · have := hb hv.symm; omega
    · rcases hb with hb | ⟨_, hb, _⟩
      · rw [hn, bytesLt_irrefl] at hb; cases hb
      · omega

/-! #### non-vacuity: one document with everything in it -/

/-- text "éabcd𝄞" (elements 2…7, actor aa), then
    * `bold=true` over "abc" (ops 8/9, expand after) and, with the greater id, `bold=false` over "bcd"
      (ops 10/11, expand before): overlapping marks of one name with different values;
    * `italic=1` over "abcd" (12/13, expand both) with an unmark — `italic=null` — over "c" in the middle (14/15);
    * "b" deleted (op 16), and a mark `u=5` over exactly the deleted "b" (17/18);
    * `x="s"` over the four-byte "𝄞" (19/20). -/
def richDoc : List Op :=
  let A : Bytes := [0xaa]
  let T : ObjId := .id ⟨1, A⟩
  let ch (c after : Nat) (s : Bytes) : Op := ⟨⟨c, A⟩, T, (if after = 0 then .head else .elem ⟨after, A⟩), true, .put (.str s), []⟩
  let mb (c after : Nat) (n : Bytes) (v : Scalar) (ex : Bool) : Op := ⟨⟨c, A⟩, T, .elem ⟨after, A⟩, true, .markBegin n v ex, []⟩
  let me (c after : Nat) (ex : Bool) : Op := ⟨⟨c, A⟩, T, .elem ⟨after, A⟩, true, .markEnd ex, []⟩
  [ ⟨⟨1, A⟩, .root, .map [0x74], false, .make .text, []⟩,
    ch 2 0 [0xC3, 0xA9], ch 3 2 [0x61], ch 4 3 [0x62], ch 5 4 [0x63], ch 6 5 [0x64], ch 7 6 [0xF0, 0x9D, 0x84, 0x9E],
    mb 8 2 [0x62] (.bool true) false, me 9 5 true,
    mb 10 3 [0x62] (.bool false) true, me 11 6 false,
    mb 12 2 [0x69] (.int 1) true, me 13 6 true,
    mb 14 4 [0x69] .null false, me 15 5 false,
    ⟨⟨16, A⟩, T, .elem ⟨4, A⟩, false, .del, [⟨4, A⟩]⟩,
    mb 17 3 [0x75] (.uint 5) false, me 18 4 true,
    mb 19 6 [0x78] (.str [0x73]) true, me 20 7 false ]

/-- document order of the elements and mark ops of `richDoc` (ids) -/
example : (rgaOrder richDoc (.id ⟨1, [0xaa]⟩)).map (·.id.ctr) = [2, 12, 8, 3, 17, 10, 4, 18, 14, 5, 15, 9, 6, 19, 13, 11, 7, 20] := by
  decide

/-- UTF-8 (é = units 0,1; a = 2; c = 3; d = 4; 𝄞 = 5…8; 9 units): `marks()` reports bold true on "a" and ONE
    merged range bold=false on "cd" (two segments: the italic marking changes between c and d), italic on "a"
    and on "d" but not on the unmarked "c", nothing for `u` (only over the deleted element), `x` on the four
    units of "𝄞"; `get_marks(i)` says the same at each of the 9 unit indexes -/
example :
    itemsWidth (ow gOne .utf8 true) (items richDoc (.id ⟨1, [0xaa]⟩)) = 9 ∧
    marksOf (ow gOne .utf8 true) richDoc (.id ⟨1, [0xaa]⟩) =
      [⟨[0x62], 2, 3, .bool true⟩, ⟨[0x62], 3, 5, .bool false⟩, ⟨[0x69], 2, 3, .int 1⟩, ⟨[0x69], 4, 5, .int 1⟩,
       ⟨[0x78], 5, 9, .str [0x73]⟩] ∧
    (List.range 9).map (getMarksAt (ow gOne .utf8 true) richDoc (.id ⟨1, [0xaa]⟩)) =
      [[], [], [([0x62], .bool true), ([0x69], .int 1)], [([0x62], .bool false)],
       [([0x62], .bool false), ([0x69], .int 1)],
       [([0x78], .str [0x73])], [([0x78], .str [0x73])], [([0x78], .str [0x73])], [([0x78], .str [0x73])]] := by
  decide

/-- the same document in UTF-16 units (𝄞 = 2 units) and in code points (𝄞 = 1) -/
example :
    marksOf (ow gOne .utf16 true) richDoc (.id ⟨1, [0xaa]⟩) =
      [⟨[0x62], 1, 2, .bool true⟩, ⟨[0x62], 2, 4, .bool false⟩, ⟨[0x69], 1, 2, .int 1⟩, ⟨[0x69], 3, 4, .int 1⟩,
       ⟨[0x78], 4, 6, .str [0x73]⟩] ∧
    marksOf (ow gOne .cp true) richDoc (.id ⟨1, [0xaa]⟩) =
      [⟨[0x62], 1, 2, .bool true⟩, ⟨[0x62], 2, 4, .bool false⟩, ⟨[0x69], 1, 2, .int 1⟩, ⟨[0x69], 3, 4, .int 1⟩,
       ⟨[0x78], 4, 5, .str [0x73]⟩] := by
  decide

/-- before the deletion of "b" (first 15 ops): bold=false covers "bcd" = units 3…5, italic "ab" and "d" -/
example : marksOf (ow gOne .utf8 true) (richDoc.take 15) (.id ⟨1, [0xaa]⟩) =
    [⟨[0x62], 2, 3, .bool true⟩, ⟨[0x62], 3, 6, .bool false⟩, ⟨[0x69], 2, 4, .int 1⟩, ⟨[0x69], 5, 6, .int 1⟩] := by
  decide

/-- the spans of `richDoc` carry the same sets as `get_marks` over their units -/
example : spansOf (width .utf8) richDoc (.id ⟨1, [0xaa]⟩) =
    [.text [0xC3, 0xA9] [], .text [0x61] [([0x62], .bool true), ([0x69], .int 1)], .text [0x63] [([0x62], .bool false)],
     .text [0x64] [([0x62], .bool false), ([0x69], .int 1)], .text [0xF0, 0x9D, 0x84, 0x9E] [([0x78], .str [0x73])]] := by
  decide

/-- C25 / C06 for `mark`: a failing `mark` / `unmark` appends NOTHING — FULL (supersedes
    `C25_mark_error_appends_nothing_partial`, whose hypothesis `hend` is now a theorem).  Hypotheses: the
    transaction's next op id is greater than every op id of the document (`max_op + 1`), and every op keyed
    on an element is younger than that element (`RefsOlder`: causally closed op set).  Reason: `InsertQuery` succeeds
    exactly when the target does not exceed the total width of the visible elements
    (`insertQuery_ok_iff`), and appending the zero-width begin op never lowers that width
    (`rowsWidth_append_mark`), so the second `query_insert_at(end)` — the only fallible call after the
    begin op was inserted — cannot fail once the first one succeeded. -/
theorem C25_mark_error_appends_nothing (wf : Op → Nat) (ops : List Op) (t : Tx) (obj : ObjId) (start stop : Nat)
    (before after : Bool) (name : Bytes) (value : Scalar) (err : EditErr)
    (hfresh : ∀ x ∈ ops, x.id.lt t.nextId = true)
    (hrefs : RefsOlder ops)
    (h : (localMark wf ops t obj start stop before after name value).2 = .error err) :
    (localMark wf ops t obj start stop before after name value).1 = [] := by
  unfold localMark at h ⊢
  cases hm : objMeta ops obj with
  | error e => simp [hm]
  | ok ty =>
    simp only [hm] at h ⊢
    by_cases hty : (ty != .text) = true
    · simp [hty]
    · simp only [hty, Bool.false_eq_true, if_false] at h ⊢
      by_cases h0 : (start == stop && !before && !after) = true
      · simp [h0]
      · simp only [h0, Bool.false_eq_true, if_false] at h ⊢
        cases hq0 : (if (start != stop) = true then (insertQuery wf ops obj stop).map (fun _ => ()) else Except.ok ()) with
        | error e => simp
        | ok u =>
          simp only [hq0] at h ⊢
          cases hq1 : insertQuery wf ops obj start with
          | error e => simp
          | ok q1 =>
            simp only [hq1] at h ⊢
            by_cases hse : (start == stop) = true
            · simp [hse] at h
            · simp only [hse, Bool.false_eq_true, if_false] at h ⊢
              exfalso
              have hne : start ≠ stop := by simpa using hse
              have hne' : (start != stop) = true := by simp [hne]
              simp only [hne', if_true] at hq0
              cases hq : insertQuery wf ops obj stop with
              | error e => simp [hq, Except.map] at hq0
              | ok q =>
                -- the begin op: fresh id, no predecessors, keyed where the start anchor resolved
                have hb := rowsWidth_append_mark wf (ops := ops)
                  (b := ⟨t.nextId, obj, q1.key, true, .markBegin name value before, []⟩)
                  hfresh hrefs.lt rfl rfl rfl ((insertQuery_ok_iff wf ops obj start).2 q1 hq1)
                have hok1 := (insertQuery_ok_iff wf ops obj stop).1
                have hok2 := (insertQuery_ok_iff wf (ops ++ [⟨t.nextId, obj, q1.key, true, .markBegin name value before, []⟩]) obj stop).1
                rw [hq] at hok1
                have hle : stop ≤ rowsWidth wf (rowVisible ops) (objRows ops obj) := by
                  have : decide (stop ≤ rowsWidth wf (rowVisible ops) (objRows ops obj)) = true := hok1.symm
                  simpa using this
                cases hq2 : insertQuery wf (ops ++ [⟨t.nextId, obj, q1.key, true, .markBegin name value before, []⟩]) obj stop with
                | error e =>
                  rw [hq2] at hok2
                  have : decide (stop ≤ rowsWidth wf
                      (rowVisible (ops ++ [⟨t.nextId, obj, q1.key, true, .markBegin name value before, []⟩]))
                      (objRows (ops ++ [⟨t.nextId, obj, q1.key, true, .markBegin name value before, []⟩]) obj)) = false := hok2.symm
                  have hlt := of_decide_eq_false this
                  exact hlt (Nat.le_trans hle hb)
                | ok q2 =>
                  simp only [hq2] at h
                  by_cases hp : q2.pos > q1.pos <;> simp [hp] at h

/-- the former D5 witness again (`mark(1, 100)` on "éab", transaction of actor aa starting at op 5): the
    hypotheses of `C25_mark_error_appends_nothing` hold, the call fails with `InvalidIndex`, nothing is appended;
    and a `mark(2, 3)` whose end anchor resolves twice (before and after the begin op is in the store) succeeds -/
example :
    (∀ x ∈ d20.take 4, x.id.lt (⟨[0xaa], 5, []⟩ : Tx).nextId = true) ∧
    RefsOlder (d20.take 4) ∧
    (localMark (ow gOne .cp true) (d20.take 4) ⟨[0xaa], 5, []⟩ (.id ⟨1, [0xaa]⟩) 1 100 false true [0x62] (.bool true))
      = ([], .error EditErr.index) ∧
    (localMark (ow gOne .utf8 true) (d20.take 4) ⟨[0xaa], 5, []⟩ (.id ⟨1, [0xaa]⟩) 2 3 false true [0x62] (.bool true)).2
      = .ok () := by
  decide

/-- `InsertQuery` succeeds exactly up to the total width: "éab" has 4 UTF-8 units -/
example : (List.range 7).map (fun i => (insertQuery (ow gOne .utf8 true) d20 (.id ⟨1, [0xaa]⟩) i).isOk)
    = [true, true, true, true, true, false, false] ∧
    rowsWidth (ow gOne .utf8 true) (rowVisible d20) (objRows d20 (.id ⟨1, [0xaa]⟩)) = 4 := by
  decide

/-- C25, "Text inserted at a mark boundary is covered exactly when the mark's expand setting says so" — the
    slot `InsertQuery::resolve` picks, for ANY gap (supersedes `C25_expand_boundary_partial`, which is the
    case `gap = [m]`).  Situation: the scan has reached the visible element `c` at whose end the target
    index lies (state `q`); the rows up to the next visible value `nxt` — numbered from `p` — are the `gap`:
    skipped increment rows, dead value rows (tombstones, overwritten updates) and any number of mark ops,
    visible or not (`GapRow`), with no end op whose begin op is in the gap too (`NoWholePair`: no empty
    mark inside the gap).  Then the query succeeds with the LAST of the candidate slots
    `⟨c, first insert row⟩ :: gapPushes p gap`, where `gapPushes` holds one slot per STICKY mark op (a begin
    with expand-before, an end without expand-after), namely the slot right after that op, keyed on it:
    the new element is keyed on the last sticky mark op of the gap — it lands immediately after it — or,
    when no mark op is sticky, on `c`, in front of the whole gap. -/
theorem C25_expand_boundary (wf : Op → Nat) (ops : List Op) (target : Nat) (q : IQ) (c : Key) (w : Nat)
    (p : Nat) (gap : List Op) (nxt : Op) (rest : List (Nat × Op))
    (hq1 : q.done = false) (hq2 : q.stopped = false) (hq3 : q.candidates = [])
    (hq4 : q.lastVisibleCursor = some c) (hq5 : q.lastWidth = some w) (hq6 : q.index + w ≥ target)
    (hgap : ∀ r ∈ gap, GapRow ops r) (hnw : NoWholePair gap)
    (hn1 : nxt.isMark = false) (hn2 : nxt.isInc = false) (hn3 : rowVisible ops nxt = true)
    (hn4 : nxt.insert = true ∨ ∃ r ∈ gap, r.isInc = false ∧ r.insert = true) :
    ∃ loc, (⟨c, firstInsPos p (gap ++ [nxt]), none⟩ :: gapPushes p gap).getLast? = some loc ∧
      ((enumFrom p (gap ++ [nxt]) ++ rest).foldl (IQ.step wf ops target) q).finish target
        = .ok ⟨loc.cursor, q.index + w, loc.pos⟩ :=
  IQ.gapA wf ops target c w nxt rest hn1 hn2 hn3 gap hnw gap p q ⟨hq1, hq2, hq3, hq4, hq5, hq6⟩ hgap
    (fun _ h => h) hn4

/-- C25, the expand clause decided for every mark op of the gap.  Same situation, `m` a mark op of the gap
    (`gap = g₁ ++ m :: g₂`, so `m` is row `p + g₁.length`): the new element is placed AFTER `m` exactly when
    `m` is sticky or a sticky op follows `m` in the gap.  Reading: the expand setting of the boundary `m` is
    honoured (after `m` ⇔ `m` sticky, i.e. inside a begin with expand-before / outside an end without
    expand-after) iff `m` is sticky or NO sticky op follows it.  All boundaries of a gap are honoured iff no
    non-sticky op precedes a sticky one.  Marks made one after the other on one replica end up in such an
    order in every case tried (their end/begin ops are themselves placed by this query; not proved);
    marks made concurrently need not: see `C25_expand_boundary_refuted`. -/
theorem C25_expand_boundary_iff (wf : Op → Nat) (ops : List Op) (target : Nat) (q : IQ) (c : Key) (w : Nat)
    (p : Nat) (g₁ : List Op) (m : Op) (g₂ : List Op) (nxt : Op) (rest : List (Nat × Op))
    (hq1 : q.done = false) (hq2 : q.stopped = false) (hq3 : q.candidates = [])
    (hq4 : q.lastVisibleCursor = some c) (hq5 : q.lastWidth = some w) (hq6 : q.index + w ≥ target)
    (hgap : ∀ r ∈ g₁ ++ m :: g₂, GapRow ops r) (hnw : NoWholePair (g₁ ++ m :: g₂))
    (hm1 : m.isMark = true) (hm2 : m.insert = true)
    (hn1 : nxt.isMark = false) (hn2 : nxt.isInc = false) (hn3 : rowVisible ops nxt = true) :
    ∃ r, ((enumFrom p ((g₁ ++ m :: g₂) ++ [nxt]) ++ rest).foldl (IQ.step wf ops target) q).finish target = .ok r ∧
      r.index = q.index + w ∧
      ((p + g₁.length < r.pos) ↔ (m.sticky = true ∨ ∃ s ∈ g₂, StickyRow s)) := by
  obtain ⟨loc, hloc, hfin⟩ := C25_expand_boundary wf ops target q c w p (g₁ ++ m :: g₂) nxt rest
    hq1 hq2 hq3 hq4 hq5 hq6 hgap hnw hn1 hn2 hn3
    (Or.inr ⟨m, by simp, isInc_of_mark hm1, hm2⟩)
  exact ⟨_, hfin, rfl, gap_slot_after_iff c p g₁ m g₂ nxt hm1 hm2 hloc⟩

/-- on `d20` ("é", begin 5 without expand-before, "a", end 6 with expand-after, "b"; rows numbered 0…4): the gap
    of one op between "é" and "a" and the one between "a" and "b" — neither op is sticky, the slots are the
    ones in front of the gaps, keyed on "é" resp. "a" (the text goes outside at the start, inside at the end) -/
example :
    GapRow d20 d20[4] ∧ NoWholePair [d20[4]] ∧ (gapPushes 1 [d20[4]]).length = 0 ∧
    GapRow d20 d20[5] ∧ NoWholePair [d20[5]] ∧ (gapPushes 3 [d20[5]]).length = 0 ∧
    (insertQuery (ow gOne .utf8 true) d20 (.id ⟨1, [0xaa]⟩) 2).toOption.map (fun r => (r.key, r.pos)) = some (.elem ⟨2, [0xaa]⟩, 1) ∧
    (insertQuery (ow gOne .utf8 true) d20 (.id ⟨1, [0xaa]⟩) 3).toOption.map (fun r => (r.key, r.pos)) = some (.elem ⟨3, [0xaa]⟩, 3) := by
  refine ⟨Or.inr (Or.inr (by decide)), by decide, by decide, Or.inr (Or.inr (by decide)), by decide, by decide, by decide, by decide⟩

/-- "ab" (ops 2,3 of actor aa); actor aa marks "a" with `A`, expand AFTER (ops 4@aa, 5@aa); concurrently
    actor bb marks "b" with `B`, expand BEFORE (ops 4@bb, 5@bb).  After the merge the ops between "a" and "b"
    are  end-of-A (5@aa, greater id first), begin-of-B (4@bb). -/
def expDoc : List Op :=
  let T : ObjId := .id ⟨1, [0xaa]⟩
  [ ⟨⟨1, [0xaa]⟩, .root, .map [0x74], false, .make .text, []⟩,
    ⟨⟨2, [0xaa]⟩, T, .head, true, .put (.str [0x61]), []⟩,
    ⟨⟨3, [0xaa]⟩, T, .elem ⟨2, [0xaa]⟩, true, .put (.str [0x62]), []⟩,
    ⟨⟨4, [0xaa]⟩, T, .head, true, .markBegin [0x41] (.bool true) false, []⟩,
    ⟨⟨5, [0xaa]⟩, T, .elem ⟨2, [0xaa]⟩, true, .markEnd true, []⟩,
    ⟨⟨4, [0xbb]⟩, T, .elem ⟨2, [0xaa]⟩, true, .markBegin [0x42] (.bool true) true, []⟩,
    ⟨⟨5, [0xbb]⟩, T, .elem ⟨3, [0xaa]⟩, true, .markEnd false, []⟩ ]

/-- the same with both marks made WITHOUT expansion, actor bb having made two more ops before (its mark is
    6@bb, 7@bb): between "a" and "b" lie  begin-of-B (6@bb), end-of-A (5@aa). -/
def expDoc2 : List Op :=
  let T : ObjId := .id ⟨1, [0xaa]⟩
  [ ⟨⟨1, [0xaa]⟩, .root, .map [0x74], false, .make .text, []⟩,
    ⟨⟨2, [0xaa]⟩, T, .head, true, .put (.str [0x61]), []⟩,
    ⟨⟨3, [0xaa]⟩, T, .elem ⟨2, [0xaa]⟩, true, .put (.str [0x62]), []⟩,
    ⟨⟨4, [0xaa]⟩, T, .head, true, .markBegin [0x41] (.bool true) false, []⟩,
    ⟨⟨5, [0xaa]⟩, T, .elem ⟨2, [0xaa]⟩, true, .markEnd false, []⟩,
    ⟨⟨4, [0xbb]⟩, .root, .map [0x78], false, .put (.int 1), []⟩,
    ⟨⟨5, [0xbb]⟩, .root, .map [0x79], false, .put (.int 1), []⟩,
    ⟨⟨6, [0xbb]⟩, T, .elem ⟨2, [0xaa]⟩, true, .markBegin [0x42] (.bool true) false, []⟩,
    ⟨⟨7, [0xbb]⟩, T, .elem ⟨3, [0xaa]⟩, true, .markEnd false, []⟩ ]

/-- C25, the expand clause read literally — "covered EXACTLY when the mark's expand setting says so" — is
    FALSE for marks created concurrently on two replicas (negated form, two witnesses; the real code behaves
    the same: corpus/C25/EXP1-expand-concurrent-adjacent-marks.probe.rs).
    (1) `expDoc`: `A` covers "a" = [0,1) and expands AFTER; `splice_text(1, 0, "X")` inserts at A's end boundary;
        the gap is [end-of-A (not sticky), begin-of-B (sticky)], the new element is keyed on begin-of-B, and
        afterwards `A` is still [0,1): the text inserted at the boundary is NOT covered although expand says so
        (`B`, expanding before, does cover it).  With the two ops in the other id order it is covered by both.
    (2) `expDoc2`: `B` covers "b" = [1,2) and does NOT expand before; the gap is [begin-of-B (not sticky),
        end-of-A (sticky)], the new element is keyed on end-of-A, behind begin-of-B, and afterwards `B` is
        [1,3): the inserted text IS covered although expand says no.
    In both gaps a non-sticky op precedes a sticky one, so by `C25_expand_boundary_iff` no slot honours both. -/
theorem C25_expand_boundary_refuted :
    let T : ObjId := .id ⟨1, [0xaa]⟩
    let wf := ow gOne .cp true
    let X : Bytes := [0x58]
    -- (1)
    marksOf wf expDoc T = [⟨[0x41], 0, 1, .bool true⟩, ⟨[0x42], 1, 2, .bool true⟩] ∧
    localSpliceTextRt wf (width .cp) expDoc ⟨[0xaa], 6, []⟩ T 1 0 [X]
      = .ok [⟨⟨6, [0xaa]⟩, T, .elem ⟨4, [0xbb]⟩, true, .put (.str X), []⟩] ∧
    marksOf wf (expDoc ++ [⟨⟨6, [0xaa]⟩, T, .elem ⟨4, [0xbb]⟩, true, .put (.str X), []⟩]) T
      = [⟨[0x41], 0, 1, .bool true⟩, ⟨[0x42], 1, 3, .bool true⟩] ∧
    ([0x41], Scalar.bool true) ∉ getMarksAt wf (expDoc ++ [⟨⟨6, [0xaa]⟩, T, .elem ⟨4, [0xbb]⟩, true, .put (.str X), []⟩]) T 1 ∧
    -- (2)
    marksOf wf expDoc2 T = [⟨[0x41], 0, 1, .bool true⟩, ⟨[0x42], 1, 2, .bool true⟩] ∧
    localSpliceTextRt wf (width .cp) expDoc2 ⟨[0xaa], 8, []⟩ T 1 0 [X]
      = .ok [⟨⟨8, [0xaa]⟩, T, .elem ⟨5, [0xaa]⟩, true, .put (.str X), []⟩] ∧
    marksOf wf (expDoc2 ++ [⟨⟨8, [0xaa]⟩, T, .elem ⟨5, [0xaa]⟩, true, .put (.str X), []⟩]) T
      = [⟨[0x41], 0, 1, .bool true⟩, ⟨[0x42], 1, 3, .bool true⟩] ∧
    ([0x42], Scalar.bool true) ∈ getMarksAt wf (expDoc2 ++ [⟨⟨8, [0xaa]⟩, T, .elem ⟨5, [0xaa]⟩, true, .put (.str X), []⟩]) T 1 := by
  decide

/-- the gaps of the two witnesses satisfy the hypotheses of `C25_expand_boundary` (mark ops only, no whole
    pair); in `expDoc` only the second op pushes a slot (row 4, after begin-of-B at row 3), in `expDoc2` only
    the second one too (end-of-A) — in both a non-sticky op sits in front of the sticky one; with the id
    order reversed (`expDoc` with begin-of-B first) the single slot lies between the two ops and honours both -/
example :
    (objRows expDoc (.id ⟨1, [0xaa]⟩)).map (·.id) = [⟨4, [0xaa]⟩, ⟨2, [0xaa]⟩, ⟨5, [0xaa]⟩, ⟨4, [0xbb]⟩, ⟨3, [0xaa]⟩, ⟨5, [0xbb]⟩] ∧
    NoWholePair [expDoc[4], expDoc[5]] ∧
    (gapPushes 2 [expDoc[4], expDoc[5]]).map (fun l => (l.cursor, l.pos)) = [(.elem ⟨4, [0xbb]⟩, 4)] ∧
    expDoc[4].sticky = false ∧ StickyRow expDoc[5] ∧
    (gapPushes 2 [expDoc[5], expDoc[4]]).map (fun l => (l.cursor, l.pos)) = [(.elem ⟨4, [0xbb]⟩, 3)] ∧
    (objRows expDoc2 (.id ⟨1, [0xaa]⟩)).map (·.id) = [⟨4, [0xaa]⟩, ⟨2, [0xaa]⟩, ⟨6, [0xbb]⟩, ⟨5, [0xaa]⟩, ⟨3, [0xaa]⟩, ⟨7, [0xbb]⟩] ∧
    (gapPushes 2 [expDoc2[7], expDoc2[4]]).map (fun l => (l.cursor, l.pos)) = [(.elem ⟨5, [0xaa]⟩, 4)] := by
  refine ⟨by decide, by decide, by decide, by decide, ⟨by decide, by decide⟩, by decide, by decide, by decide⟩

/-- C25, `marks()` at present time.  A present-time `marks()` of a text object runs the indexed
    `calculate_marks_fast` (`marksOfFast`: mark index + text index), every other `marks` read the walk
    `calculate_marks_slow` (`marksOf`).  For an op set with distinct ids whose elements reference older
    elements, in which NO MARK OP of the object is overwritten (`mark`/`unmark`/`splice_text`/`update_spans`
    never make such an op; only a hand-built change can), both return the same list — so everything
    `C25_marks_agree`, `C25_marks_shape`, `C25_marks_maximal` say about `marksOf` holds for the present-time
    `marks()` too.  (The design's `fast_eq_slow`; the mark INDEX itself — that it lists exactly the mark ops
    of the object in document order — is tied to the code by the run, finding F3 was there.) -/
theorem C25_marks_fast_eq_slow (wf : Op → Nat) (ops : List Op) (obj : ObjId)
    (hs : StrictIds ops) (hr : RefsSmaller ops)
    (hvis : ∀ e ∈ rgaOrder ops obj, e.isMark = true → overwritten ops e = false) :
    marksOfFast wf ops obj = marksOf wf ops obj := by
  have hnd : (beginIds (itemsAll ops obj)).Nodup :=
    List.Nodup.sublist (beginIds_itemsAll_sublist ops obj) (rgaOrder_ids_nodup hs hr obj)
  unfold marksOfFast
  rw [fastMarks_eq_slow wf _ hnd, itemsAll_eq_items ops obj hvis, marksOf_eq]

/-- `richDoc` meets the hypotheses (no mark op is overwritten — the deleted op 4 is a text element), and the
    indexed read returns the five ranges of the walk -/
example :
    StrictIds richDoc ∧ RefsSmaller richDoc ∧
    (∀ e ∈ rgaOrder richDoc (.id ⟨1, [0xaa]⟩), e.isMark = true → overwritten richDoc e = false) ∧
    marksOfFast (ow gOne .utf8 true) richDoc (.id ⟨1, [0xaa]⟩) =
      [⟨[0x62], 2, 3, .bool true⟩, ⟨[0x62], 3, 5, .bool false⟩, ⟨[0x69], 2, 3, .int 1⟩, ⟨[0x69], 4, 5, .int 1⟩,
       ⟨[0x78], 5, 9, .str [0x73]⟩] := by
  decide

/-- "ab" with `bold=true` over both characters (ops 4@01, 5@01), then a change of actor 02 that DELETES the
    begin op 4@01 (op 6@02: `del`, pred 4@01) — a change no API call produces, but which `apply_changes`, `save`
    and `load` accept. -/
def delDoc : List Op :=
  let T : ObjId := .id ⟨1, [0x01]⟩
  [ ⟨⟨1, [0x01]⟩, .root, .map [0x74], false, .make .text, []⟩,
    ⟨⟨2, [0x01]⟩, T, .head, true, .put (.str [0x61]), []⟩,
    ⟨⟨3, [0x01]⟩, T, .elem ⟨2, [0x01]⟩, true, .put (.str [0x62]), []⟩,
    ⟨⟨4, [0x01]⟩, T, .head, true, .markBegin [0x62] (.bool true) false, []⟩,
    ⟨⟨5, [0x01]⟩, T, .elem ⟨3, [0x01]⟩, true, .markEnd false, []⟩,
    ⟨⟨6, [0x02]⟩, T, .elem ⟨4, [0x01]⟩, false, .del, [⟨4, [0x01]⟩]⟩ ]

/-- C25, "marks(), get_marks(i) and spans() report this same marking" is FALSE on a document in which a mark
    op has been deleted (negated form on the witness `delDoc`; the real code does the same:
    corpus/C25/EXP2-marks-fast-ignores-deleted-mark-op.probe.rs).  The present-time `marks()` still reports
    bold on [0,2) — the mark index lists every mark op, visible or not — while `get_marks(0)`, `get_marks(1)`,
    `spans()` and the walked `marks` (what `marks_at(heads)` runs) report no mark at all.  The hypothesis
    `hvis` of `C25_marks_fast_eq_slow` is exactly what fails. -/
theorem C25_marks_fast_deleted_begin_refuted :
    let T : ObjId := .id ⟨1, [0x01]⟩
    let wf := ow gOne .cp true
    marksOfFast wf delDoc T = [⟨[0x62], 0, 2, .bool true⟩] ∧
    marksOf wf delDoc T = [] ∧
    getMarksAt wf delDoc T 0 = [] ∧ getMarksAt wf delDoc T 1 = [] ∧
    spansOf (width .cp) delDoc T = [.text [0x61, 0x62] []] ∧
    ¬ (∀ e ∈ rgaOrder delDoc T, e.isMark = true → overwritten delDoc e = false) ∧
    -- before the deletion the reads agree
    marksOfFast wf (delDoc.take 5) T = [⟨[0x62], 0, 2, .bool true⟩] ∧
    marksOf wf (delDoc.take 5) T = [⟨[0x62], 0, 2, .bool true⟩] ∧
    getMarksAt wf (delDoc.take 5) T 0 = [([0x62], .bool true)] := by
  decide

end AmVerif.Props.C25
