import AmVerif.Proofs.Spec
/-
  C01 (specification side) — "Convergence: Any two documents that hold the same set of changes
  show identical observable state … however the changes arrived: in any order, duplicated,
  batched".

  The independent reading `AmVerif.Model.Spec` of an operation set is a function of the *set* of
  operations: every observable it defines is unchanged when the operation list is permuted,
  provided ids identify operations (`DistinctIds`; a document holds each change, hence each
  operation, once, and two different operations never share an id).  So if each of two documents
  shows the independent reading of its operations (C02), and they hold the same changes, they show
  the same state.  Property theorems only; helper lemmas are in `AmVerif.Proofs.Spec`.
-/
namespace AmVerif.Props.C01Spec
open AmVerif AmVerif.Crdt

/-- The rendered document depends only on which operations are held, not on their order. -/
theorem C01_interp_perm (ops₁ ops₂ : List Op) (h : ops₁.Perm ops₂) (hd : DistinctIds ops₁) :
    showDoc ops₁ = showDoc ops₂ :=
  showDoc_perm ops₁ ops₂ h hd

/-- The structured content of `C01_interp_perm`: which values are visible, every register (with
    the winner last), every counter value, the key list of every map, the RGA order and the
    visible elements of every sequence, and the type of every object are each unchanged. -/
theorem C01_interp_perm_structured (ops₁ ops₂ : List Op) (h : ops₁.Perm ops₂)
    (hd : DistinctIds ops₁) :
    (∀ o, visible ops₁ o = visible ops₂ o) ∧
    (∀ o init, counterValue ops₁ o init = counterValue ops₂ o init) ∧
    (∀ obj k, mapRegister ops₁ obj k = mapRegister ops₂ obj k) ∧
    (∀ obj e, elemRegister ops₁ obj e = elemRegister ops₂ obj e) ∧
    (∀ obj, mapKeys ops₁ obj = mapKeys ops₂ obj) ∧
    (∀ obj parent, children ops₁ obj parent = children ops₂ obj parent) ∧
    (∀ obj fuel parent, rgaFrom ops₁ obj fuel parent = rgaFrom ops₂ obj fuel parent) ∧
    (∀ obj, rgaOrder ops₁ obj = rgaOrder ops₂ obj) ∧
    (∀ obj, seqElems ops₁ obj = seqElems ops₂ obj) ∧
    (∀ obj, objType ops₁ obj = objType ops₂ obj) ∧
    (∀ fuel obj ty, showObj ops₁ fuel obj ty = showObj ops₂ fuel obj ty) :=
  ⟨visible_perm h, counterValue_perm h, mapRegister_perm h hd, elemRegister_perm h hd,
   mapKeys_perm h, children_perm h hd, rgaFrom_perm h hd, rgaOrder_perm h hd, seqElems_perm h hd,
   objType_perm h hd, showObj_perm h hd⟩

/-- Visibility, counter values and map keys do not even need distinct ids: they depend only on
    the set (for counters: multiset) of operations. -/
theorem C01_interp_perm_unconditional (ops₁ ops₂ : List Op) (h : ops₁.Perm ops₂) :
    (∀ o, visible ops₁ o = visible ops₂ o) ∧
    (∀ o init, counterValue ops₁ o init = counterValue ops₂ o init) ∧
    (∀ obj, mapKeys ops₁ obj = mapKeys ops₂ obj) :=
  ⟨visible_perm h, counterValue_perm h, mapKeys_perm h⟩

/-- Historical reads: restricting both lists to the operations covered by the same set of changes
    keeps them permutations of each other, so reads "as at" a set of heads converge too. -/
theorem C01_interp_perm_restrict (ops₁ ops₂ : List Op) (h : ops₁.Perm ops₂) (hd : DistinctIds ops₁)
    (covered : OpId → Bool) :
    showDoc (restrict ops₁ covered) = showDoc (restrict ops₂ covered) :=
  showDoc_perm _ _ (restrict_perm h covered) (hd.filter _)

/-- The order ids are compared by is a strict total order on ids — this is what makes "sort by
    id" independent of arrival order. -/
theorem C01_id_order_strict_total :
    (∀ a : OpId, a.lt a = false) ∧
    (∀ a b c : OpId, a.lt b = true → b.lt c = true → a.lt c = true) ∧
    (∀ a b : OpId, a ≠ b → a.lt b = true ∨ b.lt a = true) ∧
    (∀ a : Bytes, bytesLt a a = false) ∧
    (∀ a b c : Bytes, bytesLt a b = true → bytesLt b c = true → bytesLt a c = true) ∧
    (∀ a b : Bytes, a ≠ b → bytesLt a b = true ∨ bytesLt b a = true) :=
  ⟨OpId.lt_irrefl, fun _ _ _ => OpId.lt_trans, fun _ _ => OpId.lt_total,
   bytesLt_irrefl, fun _ _ _ => bytesLt_trans, fun _ _ => bytesLt_total⟩

/-! ### non-vacuity: a concrete document with a conflict, a counter and a list -/

def putA1 : Op := ⟨⟨1, [1]⟩, .root, .map [97], false, .put (.int 1), []⟩
def putA2 : Op := ⟨⟨1, [2]⟩, .root, .map [97], false, .put (.int 2), []⟩
def ctr : Op := ⟨⟨2, [1]⟩, .root, .map [99], false, .put (.counter 10), []⟩
def inc3 : Op := ⟨⟨3, [1]⟩, .root, .map [99], false, .inc 3, [⟨2, [1]⟩]⟩
def inc4 : Op := ⟨⟨3, [2]⟩, .root, .map [99], false, .inc 4, [⟨2, [1]⟩]⟩
def mkL : Op := ⟨⟨4, [1]⟩, .root, .map [108], false, .make .list, []⟩
def insX : Op := ⟨⟨5, [1]⟩, .id ⟨4, [1]⟩, .head, true, .put (.str [120]), []⟩
def insY : Op := ⟨⟨6, [1]⟩, .id ⟨4, [1]⟩, .elem ⟨5, [1]⟩, true, .put (.str [121]), []⟩
def insZ : Op := ⟨⟨6, [2]⟩, .id ⟨4, [1]⟩, .elem ⟨5, [1]⟩, true, .put (.str [122]), []⟩

def docA : List Op := [putA1, putA2, ctr, inc3, inc4, mkL, insX, insY, insZ]
def docB : List Op := [insZ, inc4, putA2, mkL, insY, ctr, putA1, insX, inc3]

/-- the hypotheses of `C01_interp_perm` hold of the two arrival orders … -/
example : docA.Perm docB ∧ DistinctIds docA := by decide

/-- … so the theorem applies … -/
example : showDoc docA = showDoc docB := C01_interp_perm docA docB (by decide) (by decide)

/-- … and the common reading is the expected, non-trivial one (evaluated by the kernel). -/
example : showDoc docA = "M{61=1@01:i1|1@02:i2;63=2@01:c17;6c=4@01:L[5@01:s78;6@02:s7a;6@01:s79]}" ∧
    showDoc docB = "M{61=1@01:i1|1@02:i2;63=2@01:c17;6c=4@01:L[5@01:s78;6@02:s7a;6@01:s79]}" := by
  decide

/-- `DistinctIds` cannot be dropped: two *different* operations sharing an id make the reading
    depend on arrival order (the register is sorted by id only). -/
example :
    let clash : Op := ⟨⟨1, [1]⟩, .root, .map [97], false, .put (.int 9), []⟩
    ¬ DistinctIds [putA1, clash] ∧ showDoc [putA1, clash] ≠ showDoc [clash, putA1] := by decide

/-- the structured theorem applied: same registers, keys and list order from both arrival orders,
    and they are the expected non-trivial values -/
example : mapRegister docA .root [97] = mapRegister docB .root [97] ∧
    rgaOrder docA (.id ⟨4, [1]⟩) = rgaOrder docB (.id ⟨4, [1]⟩) :=
  have h := C01_interp_perm_structured docA docB (by decide) (by decide)
  ⟨h.2.2.1 _ _, h.2.2.2.2.2.2.2.1 _⟩
example : mapRegister docB .root [97] = [⟨⟨1, [1]⟩, .scalar (.int 1)⟩, ⟨⟨1, [2]⟩, .scalar (.int 2)⟩] ∧
    mapKeys docB .root = [[97], [99], [108]] ∧
    (rgaOrder docB (.id ⟨4, [1]⟩)).map Op.id = [⟨5, [1]⟩, ⟨6, [2]⟩, ⟨6, [1]⟩] ∧
    objType docB (.id ⟨4, [1]⟩) = some .list ∧
    counterValue docB ctr 10 = 17 := by decide

/-- a historical read (everything with counter ≤ 3) from both arrival orders -/
example : showDoc (restrict docA (fun i => i.ctr ≤ 3)) = showDoc (restrict docB (fun i => i.ctr ≤ 3)) :=
  C01_interp_perm_restrict docA docB (by decide) (by decide) _
example : showDoc (restrict docB (fun i => i.ctr ≤ 3)) = "M{61=1@01:i1|1@02:i2;63=2@01:c17}" := by decide

/-- the id order on concrete ids -/
example : (⟨1, [2]⟩ : OpId).lt ⟨2, [1]⟩ = true ∧ (⟨2, [1]⟩ : OpId).lt ⟨2, [2]⟩ = true ∧
    (⟨2, [2]⟩ : OpId).lt ⟨2, [1]⟩ = false ∧ bytesLt [1] [1, 0] = true := by decide

end AmVerif.Props.C01Spec
