import sys, subprocess
sys.path.insert(0,'/verif')
import importlib.machinery, importlib.util
loader = importlib.machinery.SourceFileLoader("check", "/verif/check")
spec = importlib.util.spec_from_loader("check", loader); m = importlib.util.module_from_spec(spec); loader.exec_module(m)
eng, seed, cases = sys.argv[1], sys.argv[2], sys.argv[3]
hb = sys.argv[4] if len(sys.argv) > 4 else '/verif/.cache/target/debug/amharness'
impl = subprocess.run([hb,'run',eng,'--seed',seed,'--cases',cases],stdout=subprocess.PIPE,text=True).stdout
open('/tmp/impl.txt','w').write(impl)
import os
model = subprocess.run([os.environ.get("VERIF_LEAN","/verif/lean")+"/.lake/build/bin/amdriver"],input=impl,stdout=subprocess.PIPE,text=True).stdout
open('/tmp/model.txt','w').write(model)
ic,st=m.parse_trace(impl); mc,_=m.parse_trace(model)
dis,orc,n=m.compare('X',ic,mc,{})
orc=[dict(case=ci,what=o) for ci,c in enumerate(ic) for it in c['items'] for o in it[2]]
print('outputs',n,'disagreements',len(dis),'oracle',len(orc))
print(st)
for d in dis[:int(sys.argv[5]) if len(sys.argv)>5 else 5]:
    print('case',d['case'],d['input'][:200]); print(' I',str(d['impl'])[:600]); print(' M',str(d['model'])[:600])
for o in orc[:5]: print('ORACLE', o['case'], o['what'][:300])
