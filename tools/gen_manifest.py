#!/usr/bin/env python3
"""Writes MANIFEST.json from tools/registry.py + tools/manifest_meta.py (kept valid at all times)."""
import json, os, sys
ROOT = os.path.join(os.path.dirname(os.path.abspath(__file__)), "..")
sys.path.insert(0, os.path.dirname(os.path.abspath(__file__)))
from registry import PROPS
from manifest_meta import META, NOT_APPLICABLE_REASONS, HOOK_COMMITS

all_ids = [json.loads(l)["id"] for l in open(os.path.join(ROOT, "properties.jsonl"))]
checks = []
for pid in all_ids:
    if pid not in PROPS: continue
    cfg = PROPS[pid]; m = META[pid]
    checks.append(dict(
        property_id=pid,
        quick_cmd=f"./check {pid} --tier quick",
        thorough_cmd=f"./check {pid} --tier thorough",
        evidence_file=f"/verif/evidence/{pid}.json",
        replay_cmd_template=f"./check {pid} --replay {{path}}",
        engine=",".join(e["engine"] for e in cfg["engines"]),
        level_claimed=dict(category=cfg["level"], text=m["text"], design_ref=m.get("design_ref", "DESIGN.md §5 " + pid)),
        level_note=m["note"],
        technique=m.get("technique", "Lean 4 machine-checked proof over a hand-written model + correspondence check (differential run of model and implementation)"),
    ))
na = [dict(property_id=p, reason=NOT_APPLICABLE_REASONS.get(p, "not yet built: no Lean model/theorem for this property has been completed; see DESIGN.md §5 for the plan")) for p in all_ids if p not in PROPS]
man = dict(
    version=1,
    setup_cmd="./setup.sh",
    hooks=dict(guard="automerge_verif", enable="RUSTFLAGS='--cfg automerge_verif' (set in harness/.cargo/config.toml)",
               baseline_off_cmd="cd /repo/rust && cargo test --workspace --no-fail-fast --offline",
               source_commits=HOOK_COMMITS, add_only=True),
    engines=[dict(name="amharness", path="harness/", serves_properties=sorted(PROPS.keys()), kind_free_text="Rust harness linked against /repo/rust/automerge and hexane (path deps): generators, executors, direct oracles"),
             dict(name="amdriver", path="lean/", serves_properties=sorted(PROPS.keys()), kind_free_text="Lean 4 project: executable model (Model/), helper lemmas (Proofs/), property theorems (Props/), line-protocol driver (Driver/)")],
    checks=checks,
    notes="All checks: ./check Cxx. See DESIGN.md. Known findings in known_findings.json.",
    not_applicable=na,
)
json.dump(man, open(os.path.join(ROOT, "MANIFEST.json"), "w"), indent=1)
print(f"MANIFEST.json: {len(checks)} checks, {len(na)} not claimed")
