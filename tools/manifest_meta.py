"""Human-written text for MANIFEST.json entries."""
HOOK_COMMITS = []
NOT_APPLICABLE_REASONS = {}
META = {
    "C23": dict(
        text="Kernel-checked theorems over the Lean transcription of bloom.rs: for every hash list from_hashes never panics and contains every member (C23_no_false_negative), and contains_hash returns a boolean on every filter value, hence on every decoded one (C23_contains_total). The constants BITS_PER_ENTRY/NUM_PROBES are regenerated from bloom.rs each run. The model is tied to the code by running build/parse/query on the same generated inputs (hash sets of 0–3000 hashes, header fields driven to 0/huge, truncated and random bytes) through both and diffing; the harness also checks membership directly on the real filter and after to_bytes/try_from.",
        note="Trusted: Lean kernel; the hand transcription of bloom.rs (validated only by the differential run); u32 overflow for filters ≥ 256 MiB and f64 rounding above 2^53 are outside the model. Encode/decode round trip of the filter is checked by the direct oracle and correspondence, and by theorem once the LEB128 lemmas are in (see Props/C23).",
    ),
}
