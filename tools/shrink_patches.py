#!/usr/bin/env python3
"""Shrink a failing case of the `patches` engine.

usage: shrink_patches.py <trace> <pattern> [out.replay] [harness]
  trace    output of `amharness run patches …`
  pattern  regex the shrunk case's output must still contain (e.g. '! C09 sig=bad-increment')
The case's abstract script (`#s` lines) is delta-debugged by line deletion, each candidate being
re-run with `amharness run patches --script`.  Prints the minimal script; writes the `>` lines of its
run (a replay for `amharness exec`) to out.replay.
"""
import re, subprocess, sys, tempfile, os

trace, pat = sys.argv[1], re.compile(sys.argv[2])
outp = sys.argv[3] if len(sys.argv) > 3 else None
hb = sys.argv[4] if len(sys.argv) > 4 else '/verif/.cache/target-patch/debug/amharness'

cases, cur = [], None
for line in open(trace, errors='replace'):
    if line.startswith('# case'):
        cur = []; cases.append(cur)
    elif cur is not None:
        cur.append(line.rstrip('\n'))
best = None
for c in cases:
    if any(pat.search(l) for l in c):
        script = [l[3:] for l in c if l.startswith('#s ')]
        if best is None or len(script) < len(best): best = script
if best is None:
    print('no case matches'); sys.exit(1)

def run(script):
    with tempfile.NamedTemporaryFile('w', suffix='.script', delete=False) as f:
        f.write('\n'.join(script) + '\n'); name = f.name
    try:
        return subprocess.run([hb, 'run', 'patches', '--script', name, '--cases', '1'], stdout=subprocess.PIPE, text=True, errors='replace').stdout
    finally:
        os.unlink(name)

def fails(script):
    return any(pat.search(l) for l in run(script).splitlines())

assert fails(best), 'script replay does not reproduce'
script = best
n = 2
while len(script) >= 2:
    chunk = max(1, len(script) // n)
    reduced = False
    for i in range(0, len(script), chunk):
        cand = script[:i] + script[i + chunk:]
        if cand and fails(cand):
            script, n, reduced = cand, max(n - 1, 2), True
            break
    if not reduced:
        if chunk == 1: break
        n = min(n * 2, len(script))
# single-line pass until fixpoint
changed = True
while changed:
    changed = False
    for i in range(len(script)):
        cand = script[:i] + script[i + 1:]
        if cand and fails(cand):
            script, changed = cand, True
            break
print('\n'.join(script))
out = run(script)
for l in out.splitlines():
    if l.startswith('!'): print(l[:300])
if outp:
    with open(outp, 'w') as f:
        f.write('#shrunk-script\n' + ''.join('#s ' + l + '\n' for l in script))
        f.write('# case 0 patches replay\n')
        for l in out.splitlines():
            if l.startswith('> '): f.write(l + '\n')
