#!/bin/sh
exec </dev/null   # children (cargo's `rustc -` probe) must not read an inherited stdin
# tools/confirm_seed.sh <ID>: confirm a seeded defect in its scratch worktree /tmp/wt_<ID>:
#   demo fails with the change, existing tests pass with the change, demo passes without it.
# Writes /tmp/seed_<ID>/confirm.log and copies the kept files to /verif/seeded/<ID>/.
ID=$1; WT=/tmp/wt_$ID; SD=/tmp/seed_$ID
export CARGO_TARGET_DIR=$WT/target CARGO_NET_OFFLINE=true
LOG=$SD/confirm.log; : > $LOG
loc=$(python3 -c "import json;print(json.load(open('$SD/meta.json'))['demo_location'])")
cmd=$(python3 -c "import json;print(json.load(open('$SD/meta.json'))['demo_command'])")
cd $WT
git checkout -q -- . 2>/dev/null; git apply $SD/patch.diff || { echo "patch does not apply" >> $LOG; exit 1; }
mkdir -p $(dirname $WT/$loc); cp $SD/demo.rs $WT/$loc
pkg=$(echo $loc | sed 's#rust/\([^/]*\)/.*#\1#'); tst=$(basename $loc .rs)
echo "== demo WITH change" >> $LOG
(cd rust && cargo test --offline -p $pkg --test $tst 2>&1 | grep -E "^test result|panicked" | head -5) >> $LOG
mv $WT/$loc /tmp/seed_$ID/demo.moved
echo "== existing suite WITH change" >> $LOG
(cd rust && cargo test --offline -p automerge -p hexane -p automerge-cli 2>&1 | grep -E "^test result|FAILED" ) >> $LOG
mv /tmp/seed_$ID/demo.moved $WT/$loc
git apply -R $SD/patch.diff
echo "== demo WITHOUT change" >> $LOG
(cd rust && cargo test --offline -p $pkg --test $tst 2>&1 | grep -E "^test result|panicked" | head -5) >> $LOG
git apply $SD/patch.diff
cat $LOG
mkdir -p /verif/seeded/$ID && cp $SD/patch.diff $SD/demo.rs $SD/meta.json $SD/confirm.log /verif/seeded/$ID/
