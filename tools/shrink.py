#!/usr/bin/env python3
"""Delta-debugging shrinker for replay files: tools/shrink.py <replay> <sig-substring> [harness binary]
Removes input lines while `amharness exec` still prints an oracle (`!`) line containing the
signature (or, with sig `panic`, still prints `< panic`). Writes <replay>.min."""
import subprocess, sys
path, sig = sys.argv[1], sys.argv[2]
hb = sys.argv[3] if len(sys.argv) > 3 else '/verif/.cache/target/debug/amharness'
lines = [l for l in open(path).read().splitlines() if l.startswith('> ')]
header = [l for l in open(path).read().splitlines() if l.startswith('# case')][:1]

def fails(ls):
    inp = '\n'.join(header + ls) + '\n'
    try:
        out = subprocess.run([hb, 'exec'], input=inp, stdout=subprocess.PIPE, stderr=subprocess.DEVNULL, text=True, timeout=60).stdout
    except subprocess.TimeoutExpired:
        return False
    if sig.startswith('panic'):
        # `panic` or `panic:<substring of the panic message>`; only a panic on the LAST line counts
        want = sig[6:] if sig.startswith('panic:') else ''
        ls_out = out.splitlines()
        outs = [i for i, l in enumerate(ls_out) if l.startswith('< ')]
        if not outs or ls_out[outs[-1]] != '< panic': return False
        msg = ls_out[outs[-1] + 1] if outs[-1] + 1 < len(ls_out) else ''
        return want in msg
    return any(l.startswith('! ') and sig in l for l in out.splitlines())

assert fails(lines), "does not reproduce"
n = 2
while len(lines) >= 2:
    chunk = max(1, len(lines) // n)
    reduced = False
    for i in range(0, len(lines), chunk):
        cand = lines[:i] + lines[i + chunk:]
        if cand and fails(cand):
            lines = cand; n = max(n - 1, 2); reduced = True; break
    if not reduced:
        if chunk == 1: break
        n = min(n * 2, len(lines))
open(path + '.min', 'w').write('\n'.join(header + lines) + '\n')
print(f"{len(lines)} lines -> {path}.min")
