#!/usr/bin/env python3
"""Regenerates the tables of DESIGN.md §12 that are derived from committed data:
   known_findings.json (fixed / known) and seeded/*/meta.json.  The text between the markers
   <!-- BEGIN GENERATED name --> and <!-- END GENERATED name --> is replaced."""
import json, os, re, glob

ROOT = os.path.dirname(os.path.dirname(os.path.abspath(__file__)))


def cell(s, n=None):
    s = " ".join(str(s).split()).replace("|", "\\|")
    if n and len(s) > n:
        s = s[: n - 1].rsplit(" ", 1)[0] + " …"
    return s


def fixed_table(fs):
    rows = ["| id | commit | property | defect (what failed before the fix) |", "|---|---|---|---|"]
    for f in fs:
        if f["status"] != "fixed":
            continue
        d = re.sub(r"^fixed: property=\S+ \S+ ", "", f["description"])
        rows.append(f"| {f['id']} | {f.get('commit', '')} | {f['property']} | {cell(d, 420)} |")
    return "\n".join(rows)


def known_table(fs):
    rows = ["| id | property | signature (regex on the oracle line) | finding |", "|---|---|---|---|"]
    for f in fs:
        if f["status"] != "known":
            continue
        rows.append(f"| {f['id']} | {f['property']} | `{cell(f.get('signature', ''))}` | {cell(f['description'], 380)} |")
    return "\n".join(rows)


def seeded_table():
    rows = ["| property | files changed | change (as described by its author) | needs, to manifest | result of the check |", "|---|---|---|---|---|"]
    for p in sorted(glob.glob(os.path.join(ROOT, "seeded", "*", "meta.json"))):
        m = json.load(open(p))
        files = ", ".join(os.path.basename(f) for f in m.get("files_changed", []))
        det = m.get("detected_by", [])
        res = "**" + m.get("verdict", "?") + "**" + (": " + cell(det[-1], 420) if det else "")
        if len(det) > 1:
            res += " (first run: " + cell(det[0], 200) + ")"
        rows.append(f"| {m['property']} | {files} | {cell(m.get('what_breaks', ''), 330)} | {cell(m.get('needs_to_manifest', ''), 260)} | {res} |")
    return "\n".join(rows)


def main():
    fs = json.load(open(os.path.join(ROOT, "known_findings.json")))["findings"]
    gen = {"fixed": fixed_table(fs), "known": known_table(fs), "seeded": seeded_table()}
    p = os.path.join(ROOT, "DESIGN.md")
    s = open(p).read()
    for name, text in gen.items():
        a, b = f"<!-- BEGIN GENERATED {name} -->", f"<!-- END GENERATED {name} -->"
        if a in s and b in s:
            s = s[: s.index(a) + len(a)] + "\n" + text + "\n" + s[s.index(b):]
        else:
            print("marker missing:", name)
    open(p, "w").write(s)
    print("DESIGN.md tables:", {k: v.count("\n") - 1 for k, v in gen.items()})


if __name__ == "__main__":
    main()
