"""Per-property configuration of ./check: theorem modules, engines (with case counts per tier),
claimed level, trusted base."""

TB_COMMON = [
    "Lean 4.33.0 kernel; axioms per theorem as printed by #print axioms (⊆ propext, Classical.choice, Quot.sound)",
    "hand-written Lean model of the anchored Rust code; tied to /repo by the correspondence run (differential, bounded by generator quality)",
    "tools/extract_consts.py (regex extraction of literal constants from the Rust source, regenerated every run)",
    "harness/ (generators, catch_unwind, canonicalisation, direct oracles) and the check script",
]

PROPS = {
    "C23": dict(
        modules=["AmVerif.Props.C23"],
        engines=[dict(engine="bloom", quick=150, thorough=4000)],
        level="proof",
        trusted_base=TB_COMMON + [
            "u32 overflow of `8 * bits.len()` / `x + y` is outside the model (filters ≥ 256 MiB)",
            "f64 in bits_capacity modelled as exact integer ceiling (exact below 2^53)"],
        assumptions=["ChangeHash has exactly 32 bytes (type invariant of the Rust code)"],
    ),
    "C02": dict(
        modules=["AmVerif.Props.C02", "AmVerif.Props.C01Spec"],
        engines=[dict(engine="crdt", quick=120, thorough=6000)],
        level="proof",
        rule="one evaluation = one input line (edit, delivery, state read) executed on real replicas and on the model; non-trivial = the line returned something other than a validation error; state reads compare the whole visible document (all conflict sets, list/text order, counters, nested objects)",
        trusted_base=TB_COMMON + [
            "the op set fed to the Lean spec is what Change::decode() of the real change returns (expanded ops), not an independent decoder (M2 change-column decoding is checked separately)"],
        assumptions=["op ids of applied changes are pairwise distinct (DistinctIds) — follows from (actor, seq) uniqueness and startOp discipline, proved in C38/C04"],
    ),
    "C01": dict(
        modules=["AmVerif.Props.C01Spec", "AmVerif.Props.C01Deliver", "AmVerif.Props.C01DeliverState"],
        engines=[dict(engine="crdt", quick=250, thorough=8000), dict(engine="storage", quick=25, thorough=400)],
        level="proof",
        trusted_base=TB_COMMON + ["acyclicity of the dependency relation is a hypothesis of C01_deliver_* (model hashes are opaque; in the code it follows from SHA-256 preimage resistance)",
                                  "the op store of the Rust (op_set2) is not modelled: 'applied set ↦ visible state' is Spec.interp, tied to the code by the differential run"],
        assumptions=["WF universe of changes: distinct hashes, distinct (actor, seq), deps closed and acyclic, seq n>1 depends on seq n-1 (what transaction_args produces)"],
    ),
    "C04": dict(
        modules=["AmVerif.Props.C04Heads"],
        engines=[dict(engine="crdt", quick=250, thorough=8000)],
        level="proof",
        trusted_base=TB_COMMON + ["seq / startOp / deps of a local change are computed by Model/Local.lean (Doc.beginTx, Doc.localDeps) and compared with every real change; isolated transactions are not modelled yet"],
    ),
    "C05": dict(
        modules=["AmVerif.Props.C05"],
        engines=[dict(engine="crdt", quick=250, thorough=8000)],
        level="proof",
        trusted_base=TB_COMMON + ["errors inside BatchApply::apply (op import) are not modelled"],
    ),
    "C06": dict(
        modules=["AmVerif.Props.C06Apply"],
        engines=[dict(engine="crdt", quick=250, thorough=8000), dict(engine="storage", quick=25, thorough=400)],
        level="proof",
        trusted_base=TB_COMMON + ["load_incremental of bad bytes and rejected transaction operations are decided by the direct oracles of the crdt/storage engines (state and pending ops compared before/after every failing call), not by a theorem"],
    ),
    "C12": dict(
        modules=["AmVerif.Props.C12Chunks"],
        engines=[dict(engine="storage", quick=60, thorough=1500)],
        level="proof",
        trusted_base=TB_COMMON + ["chunk bodies (change / document columns) are opaque to the model: `bodyOk` parameter; SHA-256 and inflate are executable model functions used as opaque functions in the theorems"],
    ),
    "C13": dict(
        modules=["AmVerif.Props.C13"],
        engines=[dict(engine="storage", quick=60, thorough=600, opts_thorough={"allcuts": 1})],
        level="proof",
        trusted_base=TB_COMMON + ["chunk bodies are opaque to the model (`bodyOk`); 'never panics' for the body decoders is covered by the run only"],
    ),
    "C14": dict(
        modules=["AmVerif.Props.C14"],
        engines=[dict(engine="storage", quick=60, thorough=400, opts={"flips": 120}, opts_thorough={"flips": 100000})],
        level="proof",
        trusted_base=TB_COMMON + ["no cryptographic assumption: acceptance of a flipped uncompressed chunk is proved to exhibit an explicit 32-bit SHA-256 prefix collision; compressed change chunks (DEFLATE padding bits) are outside the theorem"],
    ),
    "C20": dict(
        modules=["AmVerif.Props.C20"],
        engines=[dict(engine="sync", quick=200, thorough=6000)],
        level="proof",
        trusted_base=TB_COMMON + ["hook: forced Bloom false positives (sync::verif_hooks::FORCE_FP, --cfg automerge_verif)",
                                  "a document is abstracted to its change graph + orphan queue; get_hashes(have) modelled as non-ancestors (equal to the seq-clock computation under the per-actor chain invariant)"],
    ),
    "C21": dict(
        modules=["AmVerif.Props.C21"],
        engines=[dict(engine="sync", quick=200, thorough=6000)],
        level="proof",
        trusted_base=TB_COMMON + ["hook: forced Bloom false positives", "pairwise invariants are proved for two peers across reconnects; the lift to ≥ 3 peers is by the run only"],
    ),
    "C22": dict(
        modules=["AmVerif.Props.C22"],
        engines=[dict(engine="sync", quick=200, thorough=6000)],
        level="proof",
        trusted_base=TB_COMMON + ["hook: forced Bloom false positives"],
    ),
    "C32": dict(
        modules=["AmVerif.Props.C32"],
        engines=[dict(engine="serde", quick=40, thorough=1500)],
        prebuild=[["cargo", "build", "--offline", "-p", "automerge-cli"]],
        level="proof",
        trusted_base=TB_COMMON + ["serde_json and the length-enforcing serializer in the harness", "how conflicts arise is C01–C03's job; the serde model takes winner/loser registers as given"],
    ),
    "C33": dict(
        modules=["AmVerif.Props.C33"],
        engines=[dict(engine="serde", quick=40, thorough=1500)],
        prebuild=[["cargo", "build", "--offline", "-p", "automerge-cli"]],
        level="proof",
        trusted_base=TB_COMMON + ["the CLI binary is built from /repo and driven through stdin/stdout; save/load between import and export is C11's subject",
                                  "JSON text → value parsing (serde_json) is outside the theorem; the model's own parser is used by the driver only"],
    ),
    "C34": dict(
        modules=["AmVerif.Props.C34"],
        engines=[dict(engine="hexane", quick=150, thorough=5000)],
        level="proof",
        panic_is_failure=False,
        trusted_base=TB_COMMON + ["the model is at value-list level: slab byte surgery, B-tree shape, iterator suspend/resume are not modelled — save() bytes and every query result are compared instead"],
    ),
    "C35": dict(
        modules=["AmVerif.Props.C35"],
        engines=[dict(engine="hexane", quick=150, thorough=5000)],
        level="proof",
        panic_is_failure=False,
        trusted_base=TB_COMMON + ["boolean columns and the delta loader's domain checks are covered by the differential run only (no round-trip theorem)"],
    ),
    "C38": dict(
        modules=["AmVerif.Props.C38"],
        engines=[dict(engine="crdt", quick=250, thorough=8000), dict(engine="storage", quick=25, thorough=400)],
        level="proof",
        trusted_base=TB_COMMON + ["seq contiguity per actor (the assert in change_graph.rs add_changes) is an invariant of well-formed histories, not modelled as a panic branch"],
    ),
}
