"""Per-property configuration of ./check: theorem modules, engines (with case counts per tier),
claimed level, trusted base."""

TB_COMMON = [
    "Lean 4.33.0 kernel; axioms per theorem as printed by #print axioms (⊆ propext, Classical.choice, Quot.sound)",
    "hand-written Lean model of the anchored Rust code; tied to /repo by the correspondence run (differential, bounded by generator quality)",
    "tools/extract_consts.py (regex extraction of literal constants from the Rust source, regenerated every run)",
    "harness/ (generators, catch_unwind, canonicalisation, direct oracles) and the check script",
]

PROPS = {
    "C23": dict(
        modules=["AmVerif.Props.C23"],
        engines=[dict(engine="bloom", quick=150, thorough=4000)],
        level="proof",
        trusted_base=TB_COMMON + [
            "u32 overflow of `8 * bits.len()` / `x + y` is outside the model (filters ≥ 256 MiB)",
            "f64 in bits_capacity modelled as exact integer ceiling (exact below 2^53)"],
        assumptions=["ChangeHash has exactly 32 bytes (type invariant of the Rust code)"],
    ),
}
