"""Per-property configuration of ./check: theorem modules, engines (with case counts per tier),
claimed level, trusted base."""

TB_COMMON = [
    "Lean 4.33.0 kernel; axioms per theorem as printed by #print axioms (⊆ propext, Classical.choice, Quot.sound)",
    "hand-written Lean model of the anchored Rust code; tied to /repo by the correspondence run (differential, bounded by generator quality)",
    "tools/extract_consts.py (regex extraction of literal constants from the Rust source, regenerated every run)",
    "harness/ (generators, catch_unwind, canonicalisation, direct oracles) and the check script",
]

PROPS = {
    "C23": dict(
        modules=["AmVerif.Props.C23"],
        engines=[dict(engine="bloom", quick=150, thorough=4000)],
        level="proof",
        trusted_base=TB_COMMON + [
            "u32 overflow of `8 * bits.len()` / `x + y` is outside the model (filters ≥ 256 MiB)",
            "f64 in bits_capacity modelled as exact integer ceiling (exact below 2^53)"],
        assumptions=["ChangeHash has exactly 32 bytes (type invariant of the Rust code)"],
    ),
    "C02": dict(
        modules=["AmVerif.Props.C02", "AmVerif.Props.C01Spec"],
        engines=[dict(engine="crdt", quick=120, thorough=6000)],
        level="proof",
        rule="one evaluation = one input line (edit, delivery, state read) executed on real replicas and on the model; non-trivial = the line returned something other than a validation error; state reads compare the whole visible document (all conflict sets, list/text order, counters, nested objects)",
        trusted_base=TB_COMMON + [
            "the op set fed to the Lean spec is what Change::decode() of the real change returns (expanded ops), not an independent decoder (M2 change-column decoding is checked separately)"],
        assumptions=["op ids of applied changes are pairwise distinct (DistinctIds) — follows from (actor, seq) uniqueness and startOp discipline, proved in C38/C04"],
    ),
}
