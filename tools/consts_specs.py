"""Extra constants for tools/extract_consts.py: (lean name, file, regex with one group, kind)."""
EXTRA_SPECS = [
    ("MAGIC_BYTES", "rust/automerge/src/storage.rs", r"const MAGIC_BYTES: \[u8; 4\] = (\[[^\]]*\]);", "bytes"),
    ("DEFLATE_MIN_SIZE", "rust/automerge/src/storage/change.rs", r"const DEFLATE_MIN_SIZE: usize = (\d+);", "nat"),
    ("HASH_SIZE", "rust/automerge/src/storage/parse.rs", r"const HASH_SIZE: usize = (\d+);", "nat"),
    ("CHUNK_TYPE_DOCUMENT", "rust/automerge/src/storage/chunk.rs", r"ChunkType::Document => (\d+),", "nat"),
    ("CHUNK_TYPE_CHANGE", "rust/automerge/src/storage/chunk.rs", r"ChunkType::Change => (\d+),", "nat"),
    ("CHUNK_TYPE_COMPRESSED", "rust/automerge/src/storage/chunk.rs", r"ChunkType::Compressed => (\d+),", "nat"),
    ("CHUNK_TYPE_BUNDLE", "rust/automerge/src/storage/chunk.rs", r"ChunkType::Bundle => (\d+),", "nat"),
    ("CONCURRENCY_MAGIC_BYTES", "rust/automerge/src/types.rs", r"const CONCURRENCY_MAGIC_BYTES: \[u8; 4\] = (\[[^\]]*\]);", "bytes"),
]
