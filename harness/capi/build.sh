#!/bin/sh
exec </dev/null   # children (cargo's `rustc -` probe) must not read an inherited stdin
# Builds, offline, everything the `capi` engine needs into $OUT (default /verif/.cache/capi):
#   libautomerge_core.a  (cargo build -p automerge-c; `staticlib`)
#   automerge.h          (written by the crate's build.rs through cbindgen when CBINDGEN_TARGET_DIR is
#                         set, then post-processed exactly as /repo/rust/automerge-c/CMakeLists.txt does:
#                         A_M<X>_ -> AM_<X>_ and USIZE_ -> +sizeof(void*))
#   driver               (gcc, /verif/harness/capi/driver.c)
#   driver-asan          (same, -fsanitize=address,undefined; optional, `build.sh asan`)
# cmake / cmocka are NOT used.
set -e
OUT=${AM_CAPI_OUT:-/verif/.cache/capi}
TGT=${AM_CAPI_TARGET:-/verif/.cache/target-capi}
HERE=$(cd "$(dirname "$0")" && pwd)
mkdir -p "$OUT"
REPO=${VERIF_REPO:-/repo}
# always rebuild from the repository's current working tree (a no-op when nothing changed)
(cd $REPO/rust && CBINDGEN_TARGET_DIR="$OUT/raw" CARGO_TARGET_DIR="$TGT" sh -c 'mkdir -p "$CBINDGEN_TARGET_DIR"; cargo build --offline -p automerge-c' >"$OUT/cargo.log" 2>&1) || { tail -20 "$OUT/cargo.log"; exit 1; }
if [ ! -f "$OUT/raw/automerge.h" ]; then
  # build.rs did not run (fresh fingerprint from a build without CBINDGEN_TARGET_DIR): force it once
  (cd $REPO/rust && CBINDGEN_TARGET_DIR="$OUT/raw" CARGO_TARGET_DIR="$TGT" sh -c 'cargo clean --offline -p automerge-c >/dev/null 2>&1; cargo build --offline -p automerge-c' >>"$OUT/cargo.log" 2>&1) || { tail -20 "$OUT/cargo.log"; exit 1; }
fi
sed -E 's/A_M([^_]+)_/AM_\1_/g; s/USIZE_/+8/g' "$OUT/raw/automerge.h" > "$OUT/automerge.h"
CFLAGS="-std=gnu11 -g -O1 -Wall -Wextra -Wno-unused-parameter -I$OUT"
LIBS="$TGT/debug/libautomerge_core.a -lpthread -ldl -lm"
gcc $CFLAGS "$HERE/driver.c" $LIBS -o "$OUT/driver"
cp "$OUT/driver" "$OUT/driver-nodbg" && strip -g "$OUT/driver-nodbg"   # for valgrind: 5x faster start-up
if [ "$1" = "asan" ]; then
  gcc $CFLAGS -fsanitize=address,undefined -fno-omit-frame-pointer "$HERE/driver.c" $LIBS -o "$OUT/driver-asan"
fi
echo "built $OUT/driver"
