#include <stdio.h>
#include <stdint.h>
#include <stddef.h>
#include <string.h>
#include <stdlib.h>
#include "automerge.h"
int main(int argc, char **argv) {
    int which = atoi(argv[1]);
    AMresult *rd = AMcreate(NULL);
    AMdoc *doc; AMitemToDoc(AMresultItem(rd), &doc);
    AMresultFree(AMmapPutInt(doc, AM_ROOT, AMstr("a"), 1));
    AMresultFree(AMmapPutInt(doc, AM_ROOT, AMstr("b"), 2));
    AMresultFree(AMmapPutInt(doc, AM_ROOT, AMstr("c"), 3));
    AMresult *rk = AMkeys(doc, AM_ROOT, NULL);
    AMitems it = AMresultItems(rk);
    AMitem *x;
    switch (which) {
    case 1: x = AMitemsPrev(&it, PTRDIFF_MIN); printf("prev(min)=%p\n", (void*)x); break;
    case 2: x = AMitemsNext(&it, PTRDIFF_MAX); printf("next(max)=%p\n", (void*)x); x = AMitemsNext(&it, 1); printf("next=%p\n", (void*)x); break;
    case 3: x = AMitemsNext(&it, PTRDIFF_MIN); printf("next(min)=%p\n", (void*)x); x = AMitemsNext(&it, 1); printf("next=%p\n", (void*)x); break;
    case 4: { AMitems rev = AMitemsReversed(&it); x = AMitemsNext(&rev, PTRDIFF_MIN); printf("rev next(min)=%p\n", (void*)x); x = AMitemsNext(&rev, 1); printf("next=%p\n",(void*)x); break; }
    case 5: { AMitems rev = AMitemsReversed(&it); AMitemsAdvance(&rev, PTRDIFF_MAX); x = AMitemsNext(&rev, 1); printf("rev adv(max) next=%p\n", (void*)x); x = AMitemsPrev(&rev, 1); printf("prev=%p\n",(void*)x); break; }
    case 6: { AMitemsAdvance(&it, -5); x = AMitemsNext(&it, 1); printf("adv(-5) next=%p\n",(void*)x); x = AMitemsNext(&it, 1); printf("next=%p\n",(void*)x); break; }
    case 7: { /* AMstrCmp with NULL spans */ printf("cmp=%d\n", AMstrCmp(AMbytes(NULL,0), AMstr("a"))); break; }
    case 8: { /* mark with NULL value */ AMresult *rt = AMmapPutObject(doc, AM_ROOT, AMstr("t"), AM_OBJ_TYPE_TEXT); const AMobjId *t = AMitemObjId(AMresultItem(rt)); AMresultFree(AMspliceText(doc, t, 0, 0, AMstr("hello"))); AMresult *rm = AMmarkCreate(doc, t, 0, 2, AM_MARK_EXPAND_NONE, AMstr("b"), NULL); printf("status=%d\n", AMresultStatus(rm)); AMresultFree(rm); AMresultFree(rt); break; }
    case 9: { /* their haves with NULL state */ bool has = true; AMresult *r = AMsyncStateTheirHeads(NULL, &has); printf("status=%d has=%d\n", AMresultStatus(r), has); AMresultFree(r); break; }
    case 10: { /* AMresultCat error+items */ AMresult *e = AMmapIncrement(doc, AM_ROOT, AMstr("a"), 1); AMresult *c = AMresultCat(e, rk); printf("cat status=%d size=%zu\n", AMresultStatus(c), AMresultSize(c)); AMresultFree(c); AMresultFree(e); break; }
    case 11: { /* AMitemResult(NULL) -> NULL; AMresultFree(NULL) ok */ AMresult *r = AMitemResult(NULL); printf("r=%p\n",(void*)r); AMresultFree(r); break; }
    case 12: { /* AMgetChangeByHash short count */ uint8_t h[4]={1,2,3,4}; AMresult *r = AMgetChangeByHash(doc, h, 4); printf("status=%d\n", AMresultStatus(r)); AMresultFree(r); break; }
    }
    AMresultFree(rk);
    AMresultFree(rd);
    return 0;
}
