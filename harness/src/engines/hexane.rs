//! C34 / C35: hexane columns (`Column<T>`, `PrefixColumn<T>`, `DeltaColumn<T>`, `RawColumn`, bool,
//! nullable) under edit programs and load/save of arbitrary bytes.
//!
//! Input lines
//!   `hexane.prog <coltype> <valtype> <tok>…`   coltype ∈ col|pre|delta|raw
//!        edit tokens   s:<i>:<del>:<vals>  i:<i>:<v>  r:<i>  p:<v>  t:<n>  c
//!        query tokens  g:<i>  rg:<a>:<b>  runs  fv:<v>            (all)
//!                      ps:<i> sr:<a>:<b> ip:<target> it:<target>  (pre)
//!                      fr:<lo>:<hi>                               (delta)
//!        -> one `q <tok> <result>` line per query token, then `ok <hex of save()> <values>`
//!   `hexane.load <coltype> <valtype> <hexbytes> [len=<n>] [fill=<v>]`
//!        -> `ok <n> <values> <hex of re-saved bytes | noncanon>` | `ok big <n>` | `err <kind>`
//! Values: `n` null, decimal integers, hex for strings/bytes (`-` empty), `t`/`f` bools; lists are
//! comma separated, `_` is the empty list; lists longer than 64 are printed `#<len>:<fnv1a64>`.
//! `! C34 …` / `! C35 …` lines are direct-oracle failures of the implementation against a `Vec`.
use super::{hx, unhx};
use crate::{exec_line, rng::Rng, Out, Session};
use hexane::{ColumnValueRef, DeltaColumn, LoadOpts, PackError, PrefixColumn, RawColumn};
use std::collections::BTreeMap;
use std::panic::{catch_unwind, AssertUnwindSafe};

type Column<T> = hexane::Column<T>;

const SHOW_MAX: usize = 64;
const BIG: usize = 4096;

// ── value text form ─────────────────────────────────────────────────────────

pub trait HV: Sized + Clone + PartialEq + std::fmt::Debug {
    fn parse(s: &str) -> Self;
    fn show(&self) -> String;
    /// contribution to a prefix sum (independent of hexane's `accumulate`)
    fn weight(&self) -> i128 { 0 }
}

macro_rules! hv_int {
    ($($t:ty),*) => {$(
        impl HV for $t {
            fn parse(s: &str) -> Self { s.parse().expect("int") }
            fn show(&self) -> String { self.to_string() }
            fn weight(&self) -> i128 { *self as i128 }
        }
    )*};
}
hv_int!(u32, u64, i32, i64, usize);

impl HV for String {
    fn parse(s: &str) -> Self { String::from_utf8(unhx(s)).expect("utf8") }
    fn show(&self) -> String { hx(self.as_bytes()) }
}
impl HV for Vec<u8> {
    fn parse(s: &str) -> Self { unhx(s) }
    fn show(&self) -> String { hx(self) }
}
impl HV for bool {
    fn parse(s: &str) -> Self { match s { "t" => true, "f" => false, _ => panic!("bool") } }
    fn show(&self) -> String { if *self { "t".into() } else { "f".into() } }
    fn weight(&self) -> i128 { *self as i128 }
}
impl<T: HV> HV for Option<T> {
    fn parse(s: &str) -> Self { if s == "n" { None } else { Some(T::parse(s)) } }
    fn show(&self) -> String { match self { None => "n".into(), Some(v) => v.show() } }
    fn weight(&self) -> i128 { self.as_ref().map_or(0, |v| v.weight()) }
}

fn parse_list<T: HV>(s: &str) -> Vec<T> {
    if s == "_" { vec![] } else { s.split(',').map(T::parse).collect() }
}

pub fn fnv(s: &str) -> u64 {
    let mut h: u64 = 0xcbf29ce484222325;
    for b in s.bytes() {
        h ^= b as u64;
        h = h.wrapping_mul(0x100000001b3);
    }
    h
}

fn show_strs(items: &[String]) -> String {
    if items.is_empty() { return "_".into(); }
    let joined = items.join(",");
    if items.len() <= SHOW_MAX { joined } else { format!("#{}:{:016x}", items.len(), fnv(&joined)) }
}
fn show_list<T: HV>(xs: &[T]) -> String {
    show_strs(&xs.iter().map(|v| v.show()).collect::<Vec<_>>())
}
fn show_idx(xs: &[usize]) -> String {
    show_strs(&xs.iter().map(|v| v.to_string()).collect::<Vec<_>>())
}
/// maximal runs `count*value`
fn show_runs<T: HV>(xs: &[T]) -> String {
    let mut out: Vec<String> = vec![];
    let mut i = 0;
    while i < xs.len() {
        let mut j = i;
        while j < xs.len() && xs[j] == xs[i] { j += 1; }
        out.push(format!("{}*{}", j - i, xs[i].show()));
        i = j;
    }
    show_strs(&out)
}

fn err_kind(e: &PackError) -> &'static str {
    match e {
        PackError::InvalidNumber(_) => "num",
        PackError::InvalidUtf8 => "utf8",
        PackError::InvalidValue(_) => "value",
        PackError::InvalidLength(_, _) => "length",
        PackError::BadFormat => "format",
        PackError::InvalidResume => "resume",
    }
}

// ── the column abstraction the program interpreter drives ───────────────────

trait Col {
    type V: HV;
    fn new() -> Self;
    fn len(&self) -> usize;
    fn splice(&mut self, i: usize, del: usize, vals: Vec<Self::V>);
    fn insert(&mut self, i: usize, v: Self::V);
    fn remove(&mut self, i: usize);
    fn push(&mut self, v: Self::V);
    fn truncate(&mut self, n: usize);
    fn clear(&mut self);
    fn get(&self, i: usize) -> Option<Self::V>;
    fn to_vec(&self) -> Vec<Self::V>;
    fn range(&self, a: usize, b: usize) -> Vec<Self::V>;
    /// the same window consumed through the `fold` family of iterator methods (count, last, fold):
    /// (count, last element, number of items seen by fold); None = not applicable to this kind
    fn range_folds(&self, _a: usize, _b: usize) -> Option<(usize, Option<Self::V>, usize)> { None }
    /// runs as the iterator reports them, expanded by the caller
    fn runs(&self) -> Vec<(usize, Self::V)>;
    fn find(&self, v: &Self::V) -> Vec<usize>;
    fn save(&self) -> Vec<u8>;
    fn load(b: &[u8]) -> Result<Self, PackError> where Self: Sized;
    fn load_len(b: &[u8], n: usize) -> Result<Self, PackError> where Self: Sized;
    /// load under a slab budget (`LoadOpts::with_max_segments`); kinds without one load plainly
    fn load_seg(b: &[u8], _seg: usize) -> Result<Self, PackError> where Self: Sized { Self::load(b) }
    fn load_fill(_b: &[u8], _n: usize, _v: Self::V) -> Option<Result<Self, PackError>> where Self: Sized { None }
    /// extra query tokens of the specialised column kinds; `None` = not a query of this kind
    fn query(&self, _tok: &[&str]) -> Option<String> { None }
    /// extra direct-oracle checks of the specialised kinds against the Vec
    fn oracle(&self, _vec: &[Self::V], _fails: &mut Vec<String>) {}
}

struct Plain<T: ColumnValueRef>(Column<T>);

impl<T: ColumnValueRef + HV> Col for Plain<T> {
    type V = T;
    fn new() -> Self { Plain(Column::new()) }
    fn len(&self) -> usize { self.0.len() }
    fn splice(&mut self, i: usize, del: usize, vals: Vec<T>) { self.0.splice(i, del, vals) }
    fn insert(&mut self, i: usize, v: T) { self.0.insert(i, v) }
    fn remove(&mut self, i: usize) { self.0.remove(i) }
    fn push(&mut self, v: T) { self.0.push(v) }
    fn truncate(&mut self, n: usize) { self.0.truncate(n) }
    fn clear(&mut self) { self.0.clear() }
    fn get(&self, i: usize) -> Option<T> { self.0.get(i).map(T::to_owned) }
    fn to_vec(&self) -> Vec<T> { self.0.to_vec().into_iter().map(T::to_owned).collect() }
    fn range(&self, a: usize, b: usize) -> Vec<T> { self.0.iter_range(a..b).map(T::to_owned).collect() }
    fn range_folds(&self, a: usize, b: usize) -> Option<(usize, Option<T>, usize)> {
        Some((self.0.iter_range(a..b).count(), self.0.iter_range(a..b).last().map(T::to_owned), self.0.iter_range(a..b).fold(0usize, |n, _| n + 1)))
    }
    fn runs(&self) -> Vec<(usize, T)> { self.0.iter().runs().map(|r| (r.count, T::to_owned(r.value))).collect() }
    fn find(&self, v: &T) -> Vec<usize> {
        let mut it = self.0.iter();
        let mut out = vec![];
        while let Some(p) = it.scan_to_value(v.as_column_ref()) {
            out.push(p);
            if out.len() > 100_000 { break; }
        }
        out
    }
    fn save(&self) -> Vec<u8> { self.0.save() }
    fn load(b: &[u8]) -> Result<Self, PackError> { Column::<T>::load(b).map(Plain) }
    fn load_len(b: &[u8], n: usize) -> Result<Self, PackError> {
        Column::<T>::load_with(b, LoadOpts::new().with_length(n)).map(Plain)
    }
    fn load_seg(b: &[u8], seg: usize) -> Result<Self, PackError> {
        Column::<T>::load_with(b, LoadOpts::new().with_max_segments(seg)).map(Plain)
    }
    fn load_fill(b: &[u8], n: usize, v: T) -> Option<Result<Self, PackError>> {
        // the fill value is borrowed for the duration of the load only
        let r = Column::<T>::load_with(b, LoadOpts::new().with_length(n).with_fill(v.as_column_ref())).map(Plain);
        Some(r)
    }
}

struct Pre<T: hexane::PrefixValue>(PrefixColumn<T>);

trait PreKind: hexane::PrefixValue + HV {
    /// `get_index_for_prefix` / `get_index_for_total` exist only for unsigned prefix types
    fn index_for(_c: &PrefixColumn<Self>, _target: u128, _total: bool) -> Option<usize> { None }
}
macro_rules! pre_unsigned {
    ($($t:ty => $p:ty),*) => {$(
        impl PreKind for $t {
            fn index_for(c: &PrefixColumn<Self>, target: u128, total: bool) -> Option<usize> {
                let t = <$p>::try_from(target).ok()?;
                Some(if total { c.get_index_for_total(t) } else { c.get_index_for_prefix(t) })
            }
        }
    )*};
}
pre_unsigned!(u32 => u64, u64 => u128, Option<u32> => u64, Option<u64> => u128, bool => usize);
impl PreKind for i64 {}
impl PreKind for Option<i64> {}

/// list-level definition: first i with sum(xs[..i]) >= target; 0 for target 0; len+1 if never
fn spec_index_for_prefix<T: HV>(xs: &[T], target: u128) -> usize {
    if target == 0 { return 0; }
    let mut acc: i128 = 0;
    for (i, v) in xs.iter().enumerate() {
        acc += v.weight();
        if acc >= target as i128 { return i + 1; }
    }
    xs.len() + 1
}

impl<T: PreKind> Col for Pre<T> {
    type V = T;
    fn new() -> Self { Pre(PrefixColumn::new()) }
    fn len(&self) -> usize { self.0.len() }
    fn splice(&mut self, i: usize, del: usize, vals: Vec<T>) { self.0.splice(i, del, vals) }
    fn insert(&mut self, i: usize, v: T) { self.0.insert(i, v) }
    fn remove(&mut self, i: usize) { self.0.remove(i) }
    fn push(&mut self, v: T) { self.0.push(v) }
    fn truncate(&mut self, n: usize) { self.0.truncate(n) }
    fn clear(&mut self) { self.0.clear() }
    fn get(&self, i: usize) -> Option<T> { self.0.get(i).map(|pv| T::to_owned(pv.value)) }
    fn to_vec(&self) -> Vec<T> { self.0.to_vec().into_iter().map(T::to_owned).collect() }
    fn range(&self, a: usize, b: usize) -> Vec<T> { self.0.iter_range(a..b).map(|pv| T::to_owned(pv.value)).collect() }
    fn range_folds(&self, a: usize, b: usize) -> Option<(usize, Option<T>, usize)> {
        Some((self.0.values().iter_range(a..b).count(), self.0.values().iter_range(a..b).last().map(T::to_owned), self.0.values().iter_range(a..b).fold(0usize, |n, _| n + 1)))
    }
    fn runs(&self) -> Vec<(usize, T)> { self.0.iter().runs().map(|r| (r.count, T::to_owned(r.value))).collect() }
    fn find(&self, v: &T) -> Vec<usize> {
        let mut it = self.0.values().iter();
        let mut out = vec![];
        while let Some(p) = it.scan_to_value(v.as_column_ref()) {
            out.push(p);
            if out.len() > 100_000 { break; }
        }
        out
    }
    fn save(&self) -> Vec<u8> { self.0.save() }
    fn load(b: &[u8]) -> Result<Self, PackError> { PrefixColumn::<T>::load(b).map(Pre) }
    fn load_len(b: &[u8], n: usize) -> Result<Self, PackError> {
        PrefixColumn::<T>::load_with(b, LoadOpts::new().with_length(n)).map(Pre)
    }
    fn load_seg(b: &[u8], seg: usize) -> Result<Self, PackError> {
        PrefixColumn::<T>::load_with(b, LoadOpts::new().with_max_segments(seg)).map(Pre)
    }
    fn load_fill(b: &[u8], n: usize, v: T) -> Option<Result<Self, PackError>> {
        Some(PrefixColumn::<T>::load_with(b, LoadOpts::new().with_length(n).with_fill(v.as_column_ref())).map(Pre))
    }
    fn query(&self, tok: &[&str]) -> Option<String> {
        match tok[0] {
            "ps" => Some(format!("{:?}", self.0.get_prefix(tok[1].parse().unwrap()))),
            "sr" => Some(format!("{:?}", self.0.sum_range(tok[1].parse().unwrap()..tok[2].parse().unwrap()))),
            "ip" | "it" => Some(match T::index_for(&self.0, tok[1].parse().unwrap(), tok[0] == "it") {
                Some(i) => i.to_string(),
                None => "na".into(),
            }),
            _ => None,
        }
    }
    fn oracle(&self, vec: &[T], fails: &mut Vec<String>) {
        let n = vec.len();
        let mut pre: Vec<i128> = vec![0];
        for v in vec { pre.push(pre.last().unwrap() + v.weight()); }
        for &i in &[0, n / 3, n / 2, n.saturating_sub(1), n, n + 3] {
            let want = pre[i.min(n)];
            let got = format!("{:?}", self.0.get_prefix(i));
            if got != want.to_string() { fails.push(format!("! C34 get_prefix({}) = {} but Vec gives {}", i, got, want)); }
        }
        let (a, b) = (n / 4, (3 * n) / 4 + 1);
        let want = pre[b.min(n)] - pre[a.min(b.min(n))];
        let got = format!("{:?}", self.0.sum_range(a..b));
        if got != want.to_string() { fails.push(format!("! C34 sum_range({}..{}) = {} but Vec gives {}", a, b, got, want)); }
        // prefixed values of the iterator: inclusive totals
        if n <= 600 {
            for (i, pv) in self.0.iter().enumerate() {
                let got = format!("{:?}", pv.total());
                if got != pre[i + 1].to_string() { fails.push(format!("! C34 iter total at {} = {} but Vec gives {}", i, got, pre[i + 1])); break; }
            }
        }
        let total = pre[n];
        if total >= 0 {
            let total = total as u128;
            for &t in &[0u128, 1, total / 2, total.saturating_sub(1), total, total + 1] {
                if let Some(got) = T::index_for(&self.0, t, false) {
                    let want = spec_index_for_prefix(vec, t);
                    if got != want { fails.push(format!("! C34 get_index_for_prefix({}) = {} but Vec gives {}", t, got, want)); }
                }
                if let Some(got) = T::index_for(&self.0, t, true) {
                    let want = spec_index_for_prefix(vec, t).saturating_sub(1);
                    if got != want { fails.push(format!("! C34 get_index_for_total({}) = {} but Vec gives {}", t, got, want)); }
                }
            }
        }
    }
}

struct Delta<T: hexane::DeltaValue>(DeltaColumn<T>);

trait DeltaKind: hexane::DeltaValue + HV {
    /// realised value as i64 (None for null)
    fn real(&self) -> Option<i64>;
}
macro_rules! delta_kind {
    ($($t:ty),*) => {$(
        impl DeltaKind for $t { fn real(&self) -> Option<i64> { Some(*self as i64) } }
        impl DeltaKind for Option<$t> { fn real(&self) -> Option<i64> { self.map(|v| v as i64) } }
    )*};
}
delta_kind!(u32, u64, i32, i64, usize);

impl<T: DeltaKind> Col for Delta<T> {
    type V = T;
    fn new() -> Self { Delta(DeltaColumn::new()) }
    fn len(&self) -> usize { self.0.len() }
    fn splice(&mut self, i: usize, del: usize, vals: Vec<T>) { self.0.splice(i, del, vals) }
    fn insert(&mut self, i: usize, v: T) { self.0.insert(i, v) }
    fn remove(&mut self, i: usize) { self.0.remove(i) }
    fn push(&mut self, v: T) { self.0.push(v) }
    fn truncate(&mut self, n: usize) { self.0.truncate(n) }
    fn clear(&mut self) { self.0.clear() }
    fn get(&self, i: usize) -> Option<T> { self.0.get(i) }
    fn to_vec(&self) -> Vec<T> { self.0.to_vec() }
    fn range(&self, a: usize, b: usize) -> Vec<T> { self.0.iter_range(a..b).collect() }
    fn range_folds(&self, a: usize, b: usize) -> Option<(usize, Option<T>, usize)> {
        Some((self.0.iter_range(a..b).count(), self.0.iter_range(a..b).last(), self.0.iter_range(a..b).fold(0usize, |n, _| n + 1)))
    }
    fn runs(&self) -> Vec<(usize, T)> {
        // DeltaIter::next_run reports runs of equal *deltas*; the value-level view is the iterator
        self.0.iter().map(|v| (1, v)).collect()
    }
    fn find(&self, v: &T) -> Vec<usize> { self.0.find_by_value(*v).take(100_001).collect() }
    fn save(&self) -> Vec<u8> { self.0.save() }
    fn load(b: &[u8]) -> Result<Self, PackError> { DeltaColumn::<T>::load(b).map(Delta) }
    fn load_len(b: &[u8], n: usize) -> Result<Self, PackError> {
        DeltaColumn::<T>::load_with(b, LoadOpts::new().with_length(n)).map(Delta)
    }
    fn load_seg(b: &[u8], seg: usize) -> Result<Self, PackError> {
        DeltaColumn::<T>::load_with(b, LoadOpts::new().with_max_segments(seg)).map(Delta)
    }
    fn query(&self, tok: &[&str]) -> Option<String> {
        match tok[0] {
            "fr" => {
                let lo: i64 = tok[1].parse().unwrap();
                let hi: i64 = tok[2].parse().unwrap();
                Some(show_idx(&self.0.find_by_range(lo..hi).take(100_001).collect::<Vec<_>>()))
            }
            _ => None,
        }
    }
    fn oracle(&self, vec: &[T], fails: &mut Vec<String>) {
        let n = vec.len();
        if n == 0 { return; }
        let reals: Vec<Option<i64>> = vec.iter().map(|v| v.real()).collect();
        for &i in &[0, n / 2, n - 1] {
            let got: Vec<usize> = self.0.find_by_value(vec[i]).collect();
            // a null target finds nothing (find_by_value is over realised values)
            let want: Vec<usize> = match reals[i] {
                None => vec![],
                Some(t) => (0..n).filter(|&j| reals[j] == Some(t)).collect(),
            };
            if got != want { fails.push(format!("! C34 find_by_value({}) = {} but Vec gives {}", vec[i].show(), show_idx(&got), show_idx(&want))); }
            if let (Some(a), Some(b)) = (reals[i], reals[n - 1 - i]) {
                let (lo, hi) = (a.min(b), a.max(b));
                let got: Vec<usize> = self.0.find_by_range(lo..hi).collect();
                let want: Vec<usize> = (0..n).filter(|&j| matches!(reals[j], Some(x) if x >= lo && x < hi)).collect();
                if got != want { fails.push(format!("! C34 find_by_range({}..{}) = {} but Vec gives {}", lo, hi, show_idx(&got), show_idx(&want))); }
            }
        }
    }
}

struct Raw(RawColumn);

/// raw columns are byte vectors; a "value" is one byte, printed as decimal
impl HV for u8 {
    fn parse(s: &str) -> Self { s.parse().expect("u8") }
    fn show(&self) -> String { self.to_string() }
}

impl Col for Raw {
    type V = u8;
    fn new() -> Self { Raw(RawColumn::new()) }
    fn len(&self) -> usize { self.0.len() }
    fn splice(&mut self, i: usize, del: usize, vals: Vec<u8>) { self.0.splice_slice(i, del, &vals) }
    fn insert(&mut self, i: usize, v: u8) { self.0.splice_slice(i, 0, &[v]) }
    fn remove(&mut self, i: usize) { if i < self.0.len() { self.0.splice_slice(i, 1, &[]) } }
    fn push(&mut self, v: u8) { let n = self.0.len(); self.0.splice_slice(n, 0, &[v]) }
    fn truncate(&mut self, n: usize) { let l = self.0.len(); if n < l { self.0.splice_slice(n, l - n, &[]) } }
    fn clear(&mut self) { let l = self.0.len(); self.0.splice_slice(0, l, &[]) }
    fn get(&self, i: usize) -> Option<u8> {
        if i < self.0.len() { Some(self.0.iter_at(i).take(1)[0]) } else { None }
    }
    fn to_vec(&self) -> Vec<u8> {
        // sequential reader; `take(n)` must not cross a slab boundary, so read byte by byte
        let mut it = self.0.iter();
        (0..self.0.len()).map(|_| it.take(1)[0]).collect()
    }
    fn range(&self, a: usize, b: usize) -> Vec<u8> {
        let n = self.0.len();
        let (a, b) = (a.min(n), b.min(n));
        if a >= b { return vec![]; }
        let mut it = self.0.iter_at(a);
        (a..b).map(|_| it.take(1)[0]).collect()
    }
    fn runs(&self) -> Vec<(usize, u8)> { self.to_vec().into_iter().map(|b| (1, b)).collect() }
    fn find(&self, v: &u8) -> Vec<usize> { self.to_vec().iter().enumerate().filter(|(_, b)| *b == v).map(|(i, _)| i).collect() }
    fn save(&self) -> Vec<u8> { self.0.save() }
    fn load(b: &[u8]) -> Result<Self, PackError> { RawColumn::load(b).map(Raw) }
    fn load_len(b: &[u8], n: usize) -> Result<Self, PackError> {
        // RawColumn has no LoadOpts; the length check is the caller's
        let c = RawColumn::load(b)?;
        if c.len() != n { return Err(PackError::InvalidLength(c.len(), n)); }
        Ok(Raw(c))
    }
}

// ── program interpreter + direct oracle ─────────────────────────────────────

fn panic_msg(e: Box<dyn std::any::Any + Send>) -> String {
    let m = if let Some(s) = e.downcast_ref::<String>() { s.clone() } else if let Some(s) = e.downcast_ref::<&str>() { s.to_string() } else { "?".to_string() };
    m.replace('\n', " ")
}

fn check_against_vec<C: Col>(c: &C, vec: &[C::V], after: &str, fails: &mut Vec<String>) {
    let n = vec.len();
    if c.len() != n { fails.push(format!("! C34 after {} len() = {} but Vec has {}", after, c.len(), n)); }
    let got = c.to_vec();
    if got != vec { fails.push(format!("! C34 after {} column differs from Vec: {} vs {}", after, show_list(&got), show_list(vec))); }
    for &i in &[0, n / 2, n.saturating_sub(1), n, n + 7] {
        let want = vec.get(i).cloned();
        if c.get(i) != want { fails.push(format!("! C34 after {} get({}) differs from Vec", after, i)); }
    }
    let (a, b) = (n / 3, (2 * n) / 3 + 1);
    let want: Vec<C::V> = vec[a.min(n)..b.min(n).max(a.min(n))].to_vec();
    if c.range(a, b) != want { fails.push(format!("! C34 after {} iter_range({}..{}) differs from Vec", after, a, b)); }
    // windows that end inside runs, consumed through count / last / fold
    for (a, b) in [(0usize, 3usize), (a, b), (1, n.saturating_sub(1)), (n / 2, n / 2 + 2), (n / 4, n / 4 + 5), (0, n / 2 + 1)] {
        let (a, b) = (a.min(n), b.min(n).max(a.min(n)));
        if let Some((cnt, last, folded)) = c.range_folds(a, b) {
            let w = &vec[a..b];
            if cnt != w.len() || folded != w.len() || last != w.last().cloned() {
                fails.push(format!("! C34 after {} iter_range({}..{}) consumed through count/last/fold gives count {} fold {} (Vec window has {} items) or a different last item", after, a, b, cnt, folded, w.len()));
            }
        }
    }
    let mut expanded: Vec<C::V> = vec![];
    for (k, v) in c.runs() { for _ in 0..k { expanded.push(v.clone()); } }
    if expanded != vec { fails.push(format!("! C34 after {} run iteration differs from Vec", after)); }
    if n > 0 {
        let t = &vec[n / 2];
        let want: Vec<usize> = (0..n).filter(|&j| &vec[j] == t).collect();
        match catch_unwind(AssertUnwindSafe(|| c.find(t))) {
            // delta columns search realised values only: a null target finds nothing
            Ok(got) => if got != want && !(got.is_empty() && t.show() == "n") {
                fails.push(format!("! C34 after {} find({}) = {} but Vec gives {}", after, t.show(), show_idx(&got), show_idx(&want)));
            },
            Err(e) => fails.push(format!("! C34 after {} find({}) panicked: {}", after, t.show(), panic_msg(e))),
        }
    }
    let mut extra = vec![];
    match catch_unwind(AssertUnwindSafe(|| c.oracle(vec, &mut extra))) {
        Ok(()) => fails.extend(extra),
        Err(e) => fails.push(format!("! C34 after {} a value query panicked: {}", after, panic_msg(e))),
    }
}

fn run_prog<C: Col>(toks: &[&str]) -> Vec<String> {
    let mut c = C::new();
    let mut vec: Vec<C::V> = vec![];
    let mut out: Vec<String> = vec![];
    let mut fails: Vec<String> = vec![];
    for tok in toks {
        let p: Vec<&str> = tok.split(':').collect();
        let mut edited = true;
        let is_edit = matches!(p[0], "s" | "i" | "r" | "p" | "t" | "c");
        if is_edit {
            // documented precondition of splice/insert: index + del <= len (the call panics otherwise)
            let in_bounds = match p[0] {
                "s" => p[1].parse::<usize>().unwrap() + p[2].parse::<usize>().unwrap() <= vec.len(),
                "i" => p[1].parse::<usize>().unwrap() <= vec.len(),
                _ => true,
            };
            let r = catch_unwind(AssertUnwindSafe(|| match p[0] {
                "s" => c.splice(p[1].parse().unwrap(), p[2].parse().unwrap(), parse_list(p[3])),
                "i" => c.insert(p[1].parse().unwrap(), C::V::parse(p[2])),
                "r" => c.remove(p[1].parse().unwrap()),
                "p" => c.push(C::V::parse(p[1])),
                "t" => c.truncate(p[1].parse().unwrap()),
                _ => c.clear(),
            }));
            if let Err(e) = r {
                // the column is in an unknown state: the line ends here, like an uncaught panic
                let mut res = vec!["panic".to_string()];
                if in_bounds { res.push(format!("! C34 edit {} panicked on an in-bounds call: {}", tok, panic_msg(e))); }
                return res;
            }
        }
        match p[0] {
            "s" => {
                let (i, del): (usize, usize) = (p[1].parse().unwrap(), p[2].parse().unwrap());
                let vals: Vec<C::V> = parse_list(p[3]);
                vec.splice(i..i + del, vals);
            }
            "i" => { let i: usize = p[1].parse().unwrap(); let v = C::V::parse(p[2]); vec.insert(i, v); }
            "r" => { let i: usize = p[1].parse().unwrap(); if i < vec.len() { vec.remove(i); } }
            "p" => { let v = C::V::parse(p[1]); vec.push(v); }
            "t" => { let n: usize = p[1].parse().unwrap(); vec.truncate(n); }
            "c" => { vec.clear(); }
            _ => {
                edited = false;
                let res = match p[0] {
                    "g" => match c.get(p[1].parse().unwrap()) { Some(v) => v.show(), None => "none".into() },
                    "rg" => show_list(&c.range(p[1].parse().unwrap(), p[2].parse().unwrap())),
                    "runs" => {
                        let mut expanded: Vec<C::V> = vec![];
                        for (k, v) in c.runs() { for _ in 0..k { expanded.push(v.clone()); } }
                        show_runs(&expanded)
                    }
                    "fv" => {
                        let t = C::V::parse(p[1]);
                        match catch_unwind(AssertUnwindSafe(|| c.find(&t))) {
                            Ok(r) => show_idx(&r),
                            Err(e) => { fails.push(format!("! C34 find({}) panicked: {}", p[1], panic_msg(e))); "panic".into() }
                        }
                    }
                    _ => c.query(&p).unwrap_or_else(|| "na".into()),
                };
                out.push(format!("q {} {}", tok, res));
            }
        }
        if edited && fails.len() < 5 { check_against_vec(&c, &vec, tok, &mut fails); }
    }
    let saved = c.save();
    out.push(format!("ok {} {}", hx(&saved), show_list(&c.to_vec())));
    // C35 on the bytes the column itself wrote: they load, into the same values, and re-save identically
    match C::load(&saved) {
        Ok(l) => {
            if l.to_vec() != vec { fails.push("! C35 save() bytes load to different values".into()); }
            if l.save() != saved { fails.push("! C35 load(save()).save() differs from save()".into()); }
        }
        Err(e) => fails.push(format!("! C35 save() bytes do not load: {}", e)),
    }
    // save() is a function of the values: a fresh column built from the Vec saves identically
    let mut fresh = C::new();
    fresh.splice(0, 0, vec.clone());
    if fresh.save() != saved { fails.push("! C34 save() depends on edit history (differs from a fresh column of the same values)".into()); }
    out.extend(fails);
    out
}

fn run_load<C: Col>(bytes: &[u8], opts: &[&str]) -> Vec<String> {
    let mut len: Option<usize> = None;
    let mut fill: Option<C::V> = None;
    // seg=N: the slab budget of the loader; the loaded VALUES and the re-saved bytes must not depend on it
    let mut seg: Option<usize> = None;
    for o in opts {
        if let Some(n) = o.strip_prefix("len=") { len = Some(n.parse().unwrap()); }
        if let Some(v) = o.strip_prefix("fill=") { fill = Some(C::V::parse(v)); }
        if let Some(n) = o.strip_prefix("seg=") { seg = Some(n.parse().unwrap()); }
    }
    let res = catch_unwind(AssertUnwindSafe(|| match (len, fill.clone()) {
        (Some(n), Some(v)) => C::load_fill(bytes, n, v),
        (Some(n), None) => Some(C::load_len(bytes, n)),
        _ => match seg { Some(k) => Some(C::load_seg(bytes, k)), None => Some(C::load(bytes)) },
    }));
    let res = match res {
        Ok(Some(r)) => r,
        Ok(None) => return vec!["na".into()],
        // C35: loading arbitrary bytes must return a column or an error
        Err(e) => return vec!["panic".into(), format!("! C35 load panicked on {}: {}", hx(bytes), panic_msg(e))],
    };
    match res {
        Err(e) => vec![format!("err {}", err_kind(&e))],
        Ok(c) => {
            let n = c.len();
            if n > BIG {
                let mut out = vec![format!("ok big {}", n)];
                let resaved = c.save();
                match C::load(&resaved) {
                    Ok(l) => { if l.len() != n || l.save() != resaved { out.push("! C35 re-saved bytes load to a different column".into()); } }
                    Err(e) => out.push(format!("! C35 re-saved bytes do not load: {}", e)),
                }
                return out;
            }
            let vals = c.to_vec();
            let resaved = c.save();
            let mut fresh = C::new();
            fresh.splice(0, 0, vals.clone());
            let canon = fresh.save();
            let filled = bytes.is_empty() && len.is_some();
            let third = if canon == bytes || filled { hx(&resaved) } else { "noncanon".to_string() };
            let mut out = vec![format!("ok {} {} {}", n, show_list(&vals), third)];
            if c.len() != vals.len() { out.push("! C35 loaded len() differs from the number of values".into()); }
            match C::load(&resaved) {
                Ok(l) => { if l.to_vec() != vals { out.push("! C35 re-saved bytes load to different values".into()); } }
                Err(e) => out.push(format!("! C35 re-saved bytes do not load: {}", e)),
            }
            // C35 direct oracle: the slab budget of the loader changes neither the values nor the re-saved bytes
            if let (Some(k), None) = (seg, len) {
                if let Ok(Ok(p)) = catch_unwind(AssertUnwindSafe(|| C::load(bytes))) {
                    if p.to_vec() != vals { out.push(format!("! C35 sig=slab-budget-values the same bytes loaded with max_segments={} give different values than the default load", k)); }
                    else if p.save() != resaved { out.push(format!("! C35 sig=slab-budget-bytes the same bytes loaded with max_segments={} re-save to different bytes than after the default load", k)); }
                }
            }
            // reads on the loaded column agree with the value list
            let mut fails = vec![];
            check_against_vec(&c, &vals, "load", &mut fails);
            out.extend(fails);
            out
        }
    }
}

macro_rules! dispatch_kind {
    ($f:ident, $ct:expr, $vt:expr, $($arg:expr),*) => {
        match ($ct, $vt) {
            ("col", "u32") => $f::<Plain<u32>>($($arg),*),
            ("col", "u64") => $f::<Plain<u64>>($($arg),*),
            ("col", "i64") => $f::<Plain<i64>>($($arg),*),
            ("col", "usize") => $f::<Plain<usize>>($($arg),*),
            ("col", "str") => $f::<Plain<String>>($($arg),*),
            ("col", "bytes") => $f::<Plain<Vec<u8>>>($($arg),*),
            ("col", "bool") => $f::<Plain<bool>>($($arg),*),
            ("col", "ou32") => $f::<Plain<Option<u32>>>($($arg),*),
            ("col", "ou64") => $f::<Plain<Option<u64>>>($($arg),*),
            ("col", "oi64") => $f::<Plain<Option<i64>>>($($arg),*),
            ("col", "ousize") => $f::<Plain<Option<usize>>>($($arg),*),
            ("col", "ostr") => $f::<Plain<Option<String>>>($($arg),*),
            ("col", "obytes") => $f::<Plain<Option<Vec<u8>>>>($($arg),*),
            ("pre", "u32") => $f::<Pre<u32>>($($arg),*),
            ("pre", "u64") => $f::<Pre<u64>>($($arg),*),
            ("pre", "i64") => $f::<Pre<i64>>($($arg),*),
            ("pre", "ou32") => $f::<Pre<Option<u32>>>($($arg),*),
            ("pre", "ou64") => $f::<Pre<Option<u64>>>($($arg),*),
            ("pre", "oi64") => $f::<Pre<Option<i64>>>($($arg),*),
            ("pre", "bool") => $f::<Pre<bool>>($($arg),*),
            ("delta", "u32") => $f::<Delta<u32>>($($arg),*),
            ("delta", "u64") => $f::<Delta<u64>>($($arg),*),
            ("delta", "i32") => $f::<Delta<i32>>($($arg),*),
            ("delta", "i64") => $f::<Delta<i64>>($($arg),*),
            ("delta", "usize") => $f::<Delta<usize>>($($arg),*),
            ("delta", "ou32") => $f::<Delta<Option<u32>>>($($arg),*),
            ("delta", "ou64") => $f::<Delta<Option<u64>>>($($arg),*),
            ("delta", "oi32") => $f::<Delta<Option<i32>>>($($arg),*),
            ("delta", "oi64") => $f::<Delta<Option<i64>>>($($arg),*),
            ("delta", "ousize") => $f::<Delta<Option<usize>>>($($arg),*),
            ("raw", "u8") => $f::<Raw>($($arg),*),
            _ => vec!["unknown-kind".into()],
        }
    };
}


// ── probes: fixed scenarios of known findings, run on the real code only ──────

/// `hexane.probe <name>` → `done` (+ `! C34 …` when the implementation misbehaves); the model
/// answers `done` too.  These keep the minimal inputs of the findings in every trace.
fn probe(name: &str) -> Vec<String> {
    let mut out = vec!["done".to_string()];
    let mut check = |what: &str, r: std::thread::Result<Result<(), String>>| match r {
        Ok(Ok(())) => {}
        Ok(Err(m)) => out.push(format!("! C34 {}: {}", what, m)),
        Err(e) => out.push(format!("! C34 {} panicked: {}", what, panic_msg(e))),
    };
    match name {
        // find_by_value(i64::MAX) computes `v + 1`
        "delta-find-max" => check("DeltaColumn<u64> [2^63-1] find_by_value(2^63-1)", catch_unwind(|| {
            let c = DeltaColumn::<u64>::from_values(vec![i64::MAX as u64]);
            let got: Vec<usize> = c.find_by_value(i64::MAX as u64).collect();
            if got == vec![0] { Ok(()) } else { Err(format!("found {:?}, expected [0]", got)) }
        })),
        // SlabScan computes `hi - a` / `lo - a` in i64 on a column spanning the documented 2^63-wide window
        "delta-find-window" => check("DeltaColumn<i64> [-2^62, 2^62-1] find_by_value(2^62-1)", catch_unwind(|| {
            let c = DeltaColumn::<i64>::from_values(vec![-(1i64 << 62), (1i64 << 62) - 1]);
            let got: Vec<usize> = c.find_by_value((1i64 << 62) - 1).collect();
            if got == vec![1] { Ok(()) } else { Err(format!("found {:?}, expected [1]", got)) }
        })),
        // an in-domain edit program on DeltaColumn<usize> (values < 2^63) that panics with
        // "delta value overflows i64" inside `compute_slab_agg` (minimised from seed 2)
        "delta-edit-overflow" => check("DeltaColumn<usize> in-domain edit program", catch_unwind(|| {
            let r = run_prog::<Delta<usize>>(&DELTA_EDIT_OVERFLOW.split(' ').collect::<Vec<_>>());
            if r.iter().any(|l| l == "panic") { Err(r.last().cloned().unwrap_or_default()) } else { Ok(()) }
        })),
        _ => out.push("! C34 unknown probe".into()),
    }
    out
}

const DELTA_EDIT_OVERFLOW: &str = "s:0:0:1,9223372036854775807,971,972,27,974,63,128,5437420876846296907,978,33,287,7989202308766754477,64,983,6581483942672925815,674178505913579991,127,128,6068062953369543553,9223372036854775807,2,286,1015,2276432433152327253,7427205563052754395,1,924541592386196537,286,9223372036854775807,1022,1023,64,5333659188971667789,103,1027,86,1,258,1032,1,2,8402035183552984946,5080023621381221114,0,1038,215,63,195,44,1043,1044,273,1046,41904662330894475,9223372036854775807,0,128,227,750390362253122497,0,2450760116214099786 i:15:2 s:0:0:127,127,127,127,127,127,127,127,127,127,127,127,127,127,127,127,127,127,127,127,127,127,127,127,127,127,127,127,127,127,127,127,127,127,127,127,127,127,127,127,127,127,127,127,127,127,127,127,127,127,127,127,127,127,127,127,127,127,127,127,127,127,127,127,127,127,127,127,127,127,127,127,127,127,127,127,127,127,127,127,127,127,127,127,127,127,127,127,127,127,127,127,127,127,127,127,127,127,127,127,127,127,127,127,127,127,127,127,127,127,127,127,127,127,127,127,127,127,127,127,127,127,127,127,127,127,127,127,127,127,127,127,127,127,127,127,127,127,127,127,127,127,127,127,127,127,127,127,127,127,127,127,127,127,127,127,127,127,127,127,127,127,127,127,127,127,127,127,127,127,127,127,127,127,127,127,127,127,127,127,127,127,127,127,127,127,127,127,127,127,127,127,127,127,127,127,127,127,127,127,127,127 s:202:1:_";

pub fn exec(toks: &[&str]) -> Vec<String> {
    match toks[0] {
        "hexane.prog" => dispatch_kind!(run_prog, toks[1], toks[2], &toks[3..]),
        "hexane.load" => {
            let bytes = unhx(toks[3]);
            dispatch_kind!(run_load, toks[1], toks[2], &bytes, &toks[4..])
        }
        "hexane.probe" => probe(toks[1]),
        _ => vec!["unknown-cmd".into()],
    }
}

// ── generator ───────────────────────────────────────────────────────────────

const KINDS: &[(&str, &str)] = &[
    ("col", "u32"), ("col", "u64"), ("col", "i64"), ("col", "usize"), ("col", "str"), ("col", "bytes"), ("col", "bool"),
    ("col", "ou32"), ("col", "ou64"), ("col", "oi64"), ("col", "ousize"), ("col", "ostr"), ("col", "obytes"),
    ("pre", "u32"), ("pre", "u64"), ("pre", "i64"), ("pre", "ou32"), ("pre", "ou64"), ("pre", "oi64"), ("pre", "bool"),
    ("delta", "u32"), ("delta", "u64"), ("delta", "i32"), ("delta", "i64"), ("delta", "usize"),
    ("delta", "ou32"), ("delta", "ou64"), ("delta", "oi32"), ("delta", "oi64"), ("delta", "ousize"),
    ("raw", "u8"),
];

const STRS: &[&str] = &["", "a", "b", "ab", "abc", "é", "𝄞", "hello world", "\u{0}", "zzzzzzzzzzzzzzzzzzzzzzzzzzzzzzzzzzzzzzzzzzzzzzzzzzzzzzzzzzzzzzzzzzzzzzzzzzzzzzzzzzzzzzzzzzzzzzzzzzzzzzzzzzzzzzzzzzzzzzzzzzzzzzzzzzzzzzzzzzzzzzzzzz"];

/// one non-null value of `vt` (base type without the `o` prefix) in text form; `ct` restricts the
/// domain (delta columns: a 2^63-wide window; prefix columns: anything)
fn gen_value(r: &mut Rng, ct: &str, vt: &str, mode: u64, seq: u64) -> String {
    let base = vt.strip_prefix('o').unwrap_or(vt);
    match base {
        "bool" => (if match mode { 0 => seq % 2 == 0, 1 => true, 2 => false, _ => r.chance(1, 2) } { "t" } else { "f" }).into(),
        "u8" => match mode { 0 => (seq % 256).to_string(), 1 => "0".into(), 2 => "255".into(), _ => (r.next() as u8).to_string() },
        "str" => match mode {
            0 => hx(format!("s{}", seq).as_bytes()),
            1 | 2 => hx(STRS[(mode as usize + seq as usize) % 4].as_bytes()),
            _ => hx(r.pick(STRS).as_bytes()),
        },
        "bytes" => match mode {
            0 => hx(&seq.to_le_bytes()[..1 + (seq % 3) as usize]),
            1 | 2 => hx(&[0xffu8, 0xc0, 0x80][..(seq % 4) as usize % 4].to_vec()),
            _ => { let k = r.below(5) as usize; hx(&r.bytes(k)) }
        },
        _ => {
            // integers: (lo, hi) inclusive as i128
            let (lo, hi): (i128, i128) = match (ct, base) {
                (_, "u32") => (0, u32::MAX as i128),
                (_, "i32") => (i32::MIN as i128, i32::MAX as i128),
                ("delta", "u64") | ("delta", "usize") => (0, i64::MAX as i128),
                ("delta", "i64") => (-(1i128 << 61), (1i128 << 61) - 1),   // see finding: SlabScan overflows on the full 2^63-wide window
                (_, "u64") | (_, "usize") => (0, u64::MAX as i128),
                (_, "i64") => (i64::MIN as i128, i64::MAX as i128),
                _ => (0, 100),
            };
            let v: i128 = match mode {
                0 => lo.max(0) + seq as i128,                                // ascending literals
                1 => lo.max(0) + (seq % 3) as i128,                           // tiny alphabet -> runs
                2 => match r.below(8) {                                       // extremes of the domain
                    0 => lo, 1 => hi, 2 => hi - 1, 3 => lo + 1,
                    4 => 63.min(hi), 5 => 64.min(hi), 6 => 127.min(hi), _ => 128.min(hi),
                },
                3 => if lo < 0 { -(r.below(70) as i128) - 1 } else { r.below(300) as i128 },
                _ => { let w = (hi - lo + 1) as u128; lo + ((r.next() as u128 | ((r.next() as u128) << 64)) % w) as i128 }
            };
            v.clamp(lo, hi).to_string()
        }
    }
}

/// a batch of values to insert: runs, literals, alternations, nulls
fn gen_batch(r: &mut Rng, ct: &str, vt: &str, seq: &mut u64) -> Vec<String> {
    let nullable = vt.starts_with('o');
    let n = match r.below(10) {
        0 => 0, 1 | 2 => 1, 3 | 4 => r.range(2, 5), 5 | 6 => r.range(6, 20),
        7 => *r.pick(&[31u64, 32, 33, 63, 64, 65]), 8 => *r.pick(&[127u64, 128, 129, 191, 192, 193]), _ => r.range(20, 300),
    } as usize;
    let shape = r.below(6);
    let mut out = Vec::with_capacity(n);
    let (ma, mb) = (r.below(5), r.below(5));
    let a = gen_value(r, ct, vt, ma, *seq);
    let b = gen_value(r, ct, vt, mb, *seq + 1);
    let mut i = 0;
    while out.len() < n {
        *seq += 1;
        let v = match shape {
            0 => a.clone(),                                                // one long run
            1 => gen_value(r, ct, vt, 0, *seq),                             // all distinct (literal run)
            2 => if i % 2 == 0 { a.clone() } else { b.clone() },            // alternating literals
            3 => if (i / 3) % 2 == 0 { a.clone() } else { b.clone() },      // short runs
            4 => { let m = r.below(5); gen_value(r, ct, vt, m, *seq) }      // mixed
            _ => { let k = r.below(3); gen_value(r, ct, vt, 1, k) }         // tiny alphabet
        };
        let v = if nullable && (match shape { 0 => false, 3 => (i / 3) % 3 == 2, _ => r.chance(1, 4) }) { "n".to_string() } else { v };
        out.push(v);
        i += 1;
    }
    if nullable && shape == 0 && r.chance(1, 3) { for v in out.iter_mut() { *v = "n".into(); } }
    out
}

fn join(vs: &[String]) -> String { if vs.is_empty() { "_".into() } else { vs.join(",") } }

fn gen_prog(r: &mut Rng, ct: &str, vt: &str, out: &mut Out) -> (String, Vec<String>) {
    let mut toks: Vec<String> = vec![];
    let mut model: Vec<String> = vec![];      // the generator's own copy of the values (text form)
    let mut seq = r.below(1000);
    let n_edits = r.range(10, 60);
    let max_len = 2500usize;
    for step in 0..n_edits {
        let len = model.len();
        let k = if step == 0 { 0 } else { r.below(20) };
        match k {
            0..=6 => {
                let i = match r.below(4) { 0 => 0, 1 => len, _ => r.below(len as u64 + 1) as usize };
                let del = match r.below(4) { 0 | 1 => 0, 2 => r.below(4).min((len - i) as u64) as usize, _ => r.below((len - i) as u64 + 1) as usize };
                let mut vals = gen_batch(r, ct, vt, &mut seq);
                if len - del + vals.len() > max_len { vals.truncate(max_len.saturating_sub(len - del)); }
                toks.push(format!("s:{}:{}:{}", i, del, join(&vals)));
                model.splice(i..i + del, vals);
                out.count("edit_splice");
            }
            7 | 8 => {
                if len < max_len {
                    let i = r.below(len as u64 + 1) as usize;
                    // half the time re-insert a neighbour's value (extends a run / splits a literal)
                    let v = if len > 0 && r.chance(1, 2) { model[i.min(len - 1)].clone() } else {
                        let m = r.below(5); let v = gen_value(r, ct, vt, m, seq); seq += 1;
                        if vt.starts_with('o') && r.chance(1, 4) { "n".into() } else { v }
                    };
                    toks.push(format!("i:{}:{}", i, v));
                    model.insert(i, v);
                    out.count("edit_insert");
                }
            }
            9 | 10 => {
                let i = if len == 0 || r.chance(1, 12) { len + r.below(3) as usize } else { r.below(len as u64) as usize };
                toks.push(format!("r:{}", i));
                if i < len { model.remove(i); }
                out.count("edit_remove");
            }
            11 | 12 => {
                if len < max_len {
                    let v = if len > 0 && r.chance(1, 2) { model[len - 1].clone() } else {
                        let m = r.below(5); let v = gen_value(r, ct, vt, m, seq); seq += 1; v };
                    toks.push(format!("p:{}", v));
                    model.push(v);
                    out.count("edit_push");
                }
            }
            13 => {
                let n = if r.chance(1, 6) { len + r.below(3) as usize } else { r.below(len as u64 + 1) as usize };
                toks.push(format!("t:{}", n));
                model.truncate(n);
                out.count("edit_truncate");
            }
            14 => {
                if r.chance(1, 3) { toks.push("c".into()); model.clear(); out.count("edit_clear"); }
            }
            15 => { toks.push(format!("g:{}", r.below(len as u64 + 2))); out.count("query"); }
            16 => { let a = r.below(len as u64 + 2); let b = a + r.below(40); toks.push(format!("rg:{}:{}", a, b)); out.count("query"); }
            17 => {
                if len > 0 { toks.push(format!("fv:{}", model[r.below(len as u64) as usize])); out.count("query"); }
            }
            _ => {
                match ct {
                    "pre" => {
                        match r.below(4) {
                            0 => toks.push(format!("ps:{}", r.below(len as u64 + 2))),
                            1 => { let a = r.below(len as u64 + 2); toks.push(format!("sr:{}:{}", a, a + r.below(len as u64 + 2))); }
                            k => {
                                // targets around achievable prefix sums (unsigned kinds only; others answer `na`)
                                let mut total: u128 = 0;
                                let upto = r.below(len as u64 + 1) as usize;
                                for v in &model[..upto] { if let Ok(x) = v.parse::<u128>() { total += x; } else if v == "t" { total += 1; } }
                                let t = total + r.below(3) as u128 - if total > 0 && r.chance(1, 3) { 1 } else { 0 };
                                toks.push(format!("{}:{}", if k == 2 { "ip" } else { "it" }, t));
                            }
                        }
                        out.count("query");
                    }
                    "delta" => {
                        let ints: Vec<i128> = model.iter().filter_map(|v| v.parse::<i128>().ok()).collect();
                        if !ints.is_empty() {
                            let a = ints[r.below(ints.len() as u64) as usize];
                            let b = ints[r.below(ints.len() as u64) as usize];
                            let (lo, hi) = (a.min(b), a.max(b) + r.below(2) as i128);
                            if lo >= i64::MIN as i128 && hi <= i64::MAX as i128 { toks.push(format!("fr:{}:{}", lo, hi)); out.count("query"); }
                        }
                    }
                    _ => { toks.push("runs".into()); out.count("query"); }
                }
            }
        }
    }
    toks.push("runs".into());
    if ct == "pre" { toks.push(format!("ps:{}", model.len())); }
    out.add("final_len_total", model.len() as u64);
    (format!("hexane.prog {} {} {}", ct, vt, toks.join(" ")), model)
}

fn leb_u(n: u64) -> Vec<u8> { let mut v = vec![]; leb128::write::unsigned(&mut v, n).unwrap(); v }
fn leb_s(n: i64) -> Vec<u8> { let mut v = vec![]; leb128::write::signed(&mut v, n).unwrap(); v }

/// hand-built boundary encodings (non-canonical runs, extreme counts, over-long LEB, bad UTF-8)
fn boundary_inputs() -> Vec<(&'static str, &'static str, Vec<u8>)> {
    let cat = |parts: &[Vec<u8>]| parts.concat();
    vec![
        ("col", "u64", vec![]),
        ("col", "u64", vec![0x01, 0x05]),                                   // repeat count 1
        ("col", "u64", vec![0x02, 0x05, 0x02, 0x05]),                       // adjacent equal repeats
        ("col", "u64", vec![0x02, 0x05, 0x02, 0x07]),                       // fine
        ("col", "u64", vec![0x7f, 0x01, 0x7f, 0x02]),                       // adjacent literals
        ("col", "u64", vec![0x7e, 0x05, 0x05]),                             // equal neighbours in a literal
        ("col", "u64", vec![0x02, 0x05, 0x7f, 0x05]),                       // run/literal boundary equal
        ("col", "u64", vec![0x7f, 0x05, 0x02, 0x05]),                       // literal/run boundary equal
        ("col", "u64", vec![0x00, 0x01]),                                   // null in non-nullable
        ("col", "ou64", vec![0x00, 0x00]),                                  // null count 0
        ("col", "ou64", vec![0x00, 0x01, 0x00, 0x01]),                      // adjacent nulls
        ("col", "ou64", vec![0x00, 0x02, 0x7f, 0x03, 0x00, 0x01]),          // fine
        ("col", "u64", vec![0x7d, 0x01, 0x02]),                             // literal shorter than its header
        ("col", "u64", vec![0x7f]),                                         // literal header only
        ("col", "u64", vec![0x02]),                                         // run header only
        ("col", "u64", vec![0x82, 0x00, 0x05]),                             // over-long count 2
        ("col", "u64", vec![0x02, 0x85, 0x00]),                             // over-long value 5
        ("col", "u64", vec![0xff, 0x00, 0x05]),                             // over-long count 127
        ("col", "ou64", vec![0x80, 0x00, 0x03]),                            // over-long 0 header = null run
        ("col", "u64", cat(&[leb_s(i64::MAX), vec![0x05]])),                // repeat count 2^63-1
        ("col", "u64", cat(&[leb_s(i64::MAX), vec![0x05], leb_s(i64::MAX), vec![0x06]])), // total 2^64-2
        ("col", "u64", cat(&[leb_s(i64::MAX), vec![0x05], leb_s(i64::MAX), vec![0x06], vec![0x02, 0x07]])), // total 2^64
        ("col", "u64", cat(&[leb_s(i64::MAX), vec![0x05], leb_s(i64::MAX), vec![0x06], vec![0x7e, 0x07, 0x08]])),
        ("col", "u64", vec![0x80, 0x80, 0x80, 0x80, 0x80, 0x80, 0x80, 0x80, 0x80, 0x7f]), // header i64::MIN
        ("col", "u64", vec![0x80, 0x80, 0x80, 0x80, 0x80, 0x80, 0x80, 0x80, 0x80, 0x7f, 0x01]),
        ("col", "u64", vec![0x80, 0x80, 0x80, 0x80, 0x80, 0x80, 0x80, 0x80, 0xc0, 0x00]), // header -2^62 in 10 bytes? (sign bit in byte 9)
        ("col", "u64", vec![0xff, 0xff, 0xff, 0xff, 0xff, 0xff, 0xff, 0xff, 0xff, 0x01]), // signed overflow
        ("col", "u64", vec![0x02, 0xff, 0xff, 0xff, 0xff, 0xff, 0xff, 0xff, 0xff, 0xff, 0x01]), // value u64::MAX
        ("col", "u64", vec![0x02, 0xff, 0xff, 0xff, 0xff, 0xff, 0xff, 0xff, 0xff, 0xff, 0x02]), // value overflow
        ("col", "u32", vec![0x02, 0xff, 0xff, 0xff, 0xff, 0x0f]),           // u32::MAX
        ("col", "u32", vec![0x02, 0x80, 0x80, 0x80, 0x80, 0x10]),           // 2^32 in u32
        ("col", "ou64", cat(&[vec![0x00], leb_u(u64::MAX)])),               // null count 2^64-1
        ("col", "ou64", cat(&[vec![0x00], leb_u(u64::MAX), vec![0x7f, 0x01]])), // total 2^64
        ("col", "ou64", cat(&[vec![0x00], leb_u(u64::MAX), vec![0x02, 0x01]])),
        ("pre", "ou64", cat(&[vec![0x00], leb_u(u64::MAX), vec![0x7f, 0x01]])),
        ("pre", "u64", cat(&[leb_s(i64::MAX), vec![0x05], leb_s(i64::MAX), vec![0x06], vec![0x02, 0x07]])),
        ("pre", "u32", cat(&[leb_s(i64::MAX), leb_u(u32::MAX as u64)])),    // prefix sum overflows u64
        ("pre", "u64", cat(&[leb_s(i64::MAX), leb_u(u64::MAX)])),
        ("pre", "bool", cat(&[vec![0x00], leb_u(u64::MAX)])),
        ("delta", "ou64", cat(&[vec![0x00], leb_u(u64::MAX), vec![0x7f, 0x01]])),
        ("delta", "u64", cat(&[leb_s(i64::MAX), vec![0x01]])),               // 2^63-1 items 1,2,3,…
        ("delta", "u64", cat(&[leb_s(i64::MAX), vec![0x02]])),               // overflow of the running sum
        ("delta", "i64", cat(&[vec![0x7e], leb_s(i64::MIN), leb_s(i64::MAX)])),
        ("delta", "i64", cat(&[vec![0x7d], leb_s(i64::MIN), leb_s(i64::MAX), leb_s(i64::MAX)])),
        ("delta", "i64", cat(&[vec![0x7e], leb_s(i64::MAX), leb_s(1)])),
        ("delta", "u64", vec![0x7e, 0x05, 0x7b]),                           // 5, 0
        ("delta", "u64", vec![0x7e, 0x05, 0x7a]),                           // 5, -1: below the domain
        ("delta", "u32", cat(&[vec![0x7f], leb_s(u32::MAX as i64 + 1)])),
        ("delta", "i32", cat(&[vec![0x7f], leb_s(i32::MIN as i64 - 1)])),
        ("col", "str", vec![0x7f, 0x02, 0xc3, 0xa9]),                       // "é"
        ("col", "str", vec![0x7f, 0x02, 0xc3, 0x28]),                       // invalid utf8
        ("col", "str", vec![0x7f, 0x03, 0xed, 0xa0, 0x80]),                 // surrogate
        ("col", "str", vec![0x7f, 0x02, 0xc0, 0x80]),                       // over-long NUL
        ("col", "str", vec![0x7f, 0x04, 0xf4, 0x90, 0x80, 0x80]),           // > U+10FFFF
        ("col", "str", vec![0x7f, 0x05, 0x61]),                             // string longer than the data
        ("col", "str", vec![0x02, 0xff, 0xff, 0xff, 0xff, 0xff, 0xff, 0xff, 0xff, 0xff, 0x01]), // length u64::MAX
        ("col", "bytes", vec![0x7f, 0x02, 0xc3, 0x28]),
        ("col", "ostr", vec![0x00, 0x01, 0x7f, 0x00, 0x00, 0x01]),          // null, "", null
        ("col", "bool", vec![0x00]),                                        // lone zero count
        ("col", "bool", vec![0x00, 0x03]),                                  // ttt
        ("col", "bool", vec![0x02, 0x00, 0x01]),                            // interior zero
        ("col", "bool", vec![0x02, 0x01, 0x00]),                            // trailing zero
        ("col", "bool", vec![0x82, 0x00, 0x01]),                            // over-long count
        ("col", "bool", cat(&[leb_u(u64::MAX), vec![0x01]])),               // total 2^64
        ("col", "bool", cat(&[leb_u(u64::MAX)])),
        ("col", "bool", cat(&[vec![0x01], leb_u(u64::MAX), vec![0x01]])),
        ("col", "bool", vec![0xff, 0xff, 0xff, 0xff, 0xff, 0xff, 0xff, 0xff, 0xff, 0x02]), // count overflow
        ("raw", "u8", vec![]),
        ("raw", "u8", vec![0x00, 0xff, 0x80]),
    ]
}

/// structure-blind mutations of a valid encoding
fn mutate(r: &mut Rng, mut b: Vec<u8>, out: &mut Out) -> Vec<u8> {
    let k = r.below(10);
    out.count(&format!("mutation_{}", match k { 0 => "byte_edge", 1 => "truncate", 2 => "overlong", 3 => "dup_tail", 4 => "insert_hdr", 5 => "bitflip", 6 => "append", 7 => "random", 8 => "huge_count", _ => "none" }));
    match k {
        0 => if !b.is_empty() { let i = r.below(b.len() as u64) as usize; b[i] = *r.pick(&[0u8, 1, 2, 0x3f, 0x40, 0x7e, 0x7f, 0x80, 0xff]); },
        1 => { let n = r.below(b.len() as u64 + 1) as usize; b.truncate(n); }
        2 => if !b.is_empty() {
            // make one single-byte LEB over-long (value-preserving for unsigned fields)
            let i = r.below(b.len() as u64) as usize;
            if b[i] < 0x40 { let v = b[i]; b[i] = v | 0x80; b.insert(i + 1, 0x00); }
        },
        3 => { let n = b.len(); let from = r.below(n as u64 + 1) as usize; let tail = b[from..].to_vec(); b.extend(tail); }
        4 => { let i = r.below(b.len() as u64 + 1) as usize; let h = *r.pick(&[0x00u8, 0x01, 0x02, 0x7f, 0x7e]); b.insert(i, h); }
        5 => if !b.is_empty() { let i = r.below(b.len() as u64) as usize; b[i] ^= 1 << r.below(8); },
        6 => { let extra = match r.below(4) { 0 => vec![0x01, 0x05], 1 => vec![0x00, 0x00], 2 => vec![0x7f, 0x01, 0x7f, 0x02], _ => vec![0x7e, 0x09, 0x09] }; b.extend(extra); }
        7 => { let n = r.below(24) as usize; b = r.bytes(n); }
        8 => {
            let i = r.below(b.len() as u64 + 1) as usize;
            let c = match r.below(4) { 0 => leb_s(i64::MAX), 1 => leb_s(i64::MIN), 2 => leb_u(u64::MAX), _ => leb_s(r.edgy_u64() as i64) };
            let tail = b.split_off(i); b.extend(c); b.extend(tail);
        }
        _ => {}
    }
    b
}

pub fn generate(r: &mut Rng, _opts: &BTreeMap<String, String>, sess: &mut Session, out: &mut Out) {
    // 1. an edit program on a random column kind
    let (ct, vt) = *r.pick(KINDS);
    out.count(&format!("kind_{}_{}", ct, vt));
    let (line, _model) = gen_prog(r, ct, vt, out);
    exec_line(sess, &line, out);

    // 1b. delta columns: sawtooth data — equal-step COUNTDOWNS (repeat runs of one negative delta) separated by
    //     jumps, built through the edit path in pieces so that slab cuts and merges land at and inside
    //     countdowns — then value / range lookups for the heads and the members of the countdowns
    if r.chance(1, 4) {
        let vt = *r.pick(&["u32", "u64", "i32", "i64", "usize", "ou64", "oi64"]);
        out.count("delta_sawtooth");
        let signed = vt.contains("i3") || vt.contains("i6");
        let mut toks: Vec<String> = vec![];
        let mut model: Vec<i128> = vec![];
        let teeth = r.range(8, 60);
        let mut piece: Vec<String> = vec![];
        // overall trend of the heads: random, falling (a slab's first countdown then carries the slab maximum) or rising
        let trend = r.below(3);
        if trend == 1 { out.count("delta_sawtooth_falling"); }
        for t in 0..teeth {
            let step = r.range(1, 3) as i128;
            let k = r.range(2, 7) as i128;
            let head: i128 = match trend {
                1 => (k * step) + (teeth as i128 - t as i128) * 40 + r.below(10) as i128 + if signed { -300 } else { 0 },
                2 => (k * step) + t as i128 * 40 + r.below(10) as i128,
                _ => if signed && r.chance(1, 3) { -(r.below(40) as i128) } else { (k * step) + r.below(5000) as i128 },
            };
            let head = if signed { head } else { head.max(k * step) };
            for j in 0..k { let v = head - j * step; piece.push(v.to_string()); model.push(v); }
            if trend == 0 && r.chance(1, 4) { for _ in 0..r.range(1, 4) { let v = if signed { r.below(200) as i128 - 100 } else { r.below(200) as i128 }; piece.push(v.to_string()); model.push(v); } }
            if vt.starts_with('o') && r.chance(1, 6) { piece.push("n".into()); model.push(i128::MIN); }
            if r.chance(1, 3) || t + 1 == teeth {
                let at = model.len() - piece.len();
                if piece.len() == 1 && r.chance(1, 2) { toks.push(format!("p:{}", piece[0])); } else { toks.push(format!("s:{}:0:{}", at, join(&piece))); }
                piece.clear();
            }
        }
        let present: Vec<i128> = model.iter().cloned().filter(|v| *v != i128::MIN).collect();
        // every distinct value is looked up (a pruned slab hides only the few values above its wrong maximum)
        let mut distinct: Vec<i128> = present.clone(); distinct.sort(); distinct.dedup();
        for (qi, v) in distinct.iter().enumerate() {
            if distinct.len() > 450 && qi % 2 == 1 { continue; }
            toks.push(format!("fv:{}", v));
            if r.chance(1, 8) { toks.push(format!("fr:{}:{}", v, v + r.range(1, 4) as i128)); }
        }
        // an edit in the middle (slab surgery), then the lookups again
        if model.len() > 4 { let i = r.below(model.len() as u64 - 2) as usize; toks.push(format!("r:{}", i)); let rm = model.remove(i); let _ = rm; }
        let present: Vec<i128> = model.iter().cloned().filter(|v| *v != i128::MIN).collect();
        for _ in 0..r.range(4, 10) { if present.is_empty() { break; } toks.push(format!("fv:{}", present[r.below(present.len() as u64) as usize])); }
        exec_line(sess, &format!("hexane.prog delta {} {}", vt, toks.join(" ")), out);
    }

    // 2. load of valid bytes (built by the real encoder from a generated batch), of mutations of
    //    them, and of the same bytes as a different column kind
    let (ct2, vt2) = *r.pick(KINDS);
    let mut seq = r.below(1000);
    let mut vals = gen_batch(r, ct2, vt2, &mut seq);
    vals.extend(gen_batch(r, ct2, vt2, &mut seq));
    let built = exec(&["hexane.prog", ct2, vt2, &format!("s:0:0:{}", join(&vals))]);
    let valid = unhx(built.iter().find(|l| l.starts_with("ok ")).unwrap().split(' ').nth(1).unwrap());
    exec_line(sess, &format!("hexane.load {} {} {}", ct2, vt2, hx(&valid)), out);
    out.count("load_valid");
    // the same valid bytes under two slab budgets (even and odd halves): same values, same re-saved bytes
    for _ in 0..2 {
        let k = r.range(2, 24);
        exec_line(sess, &format!("hexane.load {} {} {} seg={}", ct2, vt2, hx(&valid), k), out);
        out.count("load_valid_slab_budget");
    }
    for _ in 0..4 {
        let m = mutate(r, valid.clone(), out);
        exec_line(sess, &format!("hexane.load {} {} {}", ct2, vt2, hx(&m)), out);
        out.count("load_mutated");
    }
    let (ct3, vt3) = *r.pick(KINDS);
    exec_line(sess, &format!("hexane.load {} {} {}", ct3, vt3, hx(&valid)), out);
    out.count("load_cross_kind");
    // 3. LoadOpts: length check and fill
    let want = if r.chance(1, 2) { vals.len() } else { r.below(vals.len() as u64 + 3) as usize };
    exec_line(sess, &format!("hexane.load {} {} {} len={}", ct2, vt2, hx(&valid), want), out);
    if ct2 == "col" || ct2 == "pre" {
        let fillv = if vals.is_empty() { gen_value(r, ct2, vt2, 3, 1) } else { vals[0].clone() };
        let data = if r.chance(2, 3) { vec![] } else { valid.clone() };
        let n = match r.below(4) { 0 => 0, 1 => r.below(10), 2 => r.below(5000), _ => r.edgy_u64() >> 1 };
        exec_line(sess, &format!("hexane.load {} {} {} len={} fill={}", ct2, vt2, hx(&data), n, fillv), out);
        out.count("load_fill");
    }
    // 4. one hand-built boundary input
    let bi = boundary_inputs();
    let (bc, bv, bb) = &bi[r.below(bi.len() as u64) as usize];
    exec_line(sess, &format!("hexane.load {} {} {}", bc, bv, hx(bb)), out);
    out.count("load_boundary");
    // 5. now and then one of the fixed finding scenarios
    if r.chance(1, 20) {
        let p = *r.pick(&["delta-find-max", "delta-find-window", "delta-edit-overflow"]);
        exec_line(sess, &format!("hexane.probe {}", p), out);
        out.count("probe");
    }
    // 6. random bytes into a random kind
    let n = r.below(16) as usize;
    let raw = r.bytes(n);
    let (ct4, vt4) = *r.pick(KINDS);
    exec_line(sess, &format!("hexane.load {} {} {}", ct4, vt4, hx(&raw)), out);
    out.count("load_random");
}
