//! C20 / C21 / C22: the sync protocol driven over simulated links.
//!
//! One input line carries a whole schedule (`sync.run <peers> <step;step;…>`, step syntax in
//! `lean/Driver/Sync.lean`); one output line per step.  The same `World` executes the steps when the
//! generator builds a schedule (it needs the hashes of the real changes) and when the finished line
//! is executed / replayed.
//!
//! Direct oracles (lines starting with `! C2x`):
//!   * `d` step into a read-only state: `save()` bytes and heads of the receiver unchanged (C22);
//!   * `q` step: a quiet round is reached within the bound; then for every connected pair and
//!     direction whose receiver is not read-only the receiver has every head of the sender, and
//!     if both directions are read-write heads and hydrated state are equal;
//!   * `q` step in a PURE two-peer session (C20's hypotheses: two peers, first connection fresh/fresh,
//!     non-legacy, afterwards only edit / generate / deliver): the number of rounds until both
//!     `generate_sync_message` return None is at most the bound proved in
//!     `lean/AmVerif/Props/C20Progress.lean` (`C20_progress`: missing + 4, for every false-positive
//!     oracle), else `! C20 sig=round-bound-exceeded`; the same with drops (messages in flight lost)
//!     and reconnects with fresh / persisted states in between (`Reachable21`, `C21_progress` of
//!     `Props/C21Progress.lean`), reported as `! C21 sig=round-bound-exceeded`;
//!   * `q` step in a pure session of 3 or more peers: the CONJECTURED
//!     bound 4·(Σ_p |U \ arrived_p| + 1) (`! C21 sig=net-round-bound-exceeded`, validation only — the
//!     n-peer theorem that is proved, `C21_component_converged_partial`, is what the
//!     `quiescent-not-converged` oracle evaluates).
use super::{hx, unhx};
use crate::{exec_line, rng::Rng, Out, Session};
use automerge::sync::{self, Capability, Message, MessageFlags, MessageVersion, State, SyncDoc};
use automerge::transaction::{CommitOptions, Transactable};
use automerge::{hydrate, ActorId, Automerge, Change, ChangeHash, ReadDoc, ROOT};
use std::cell::RefCell;
use std::collections::{BTreeMap, BTreeSet, HashSet, VecDeque};

#[derive(Default)]
pub struct SyncSession {
    pub runs: u64,
}

thread_local! {
    static FPSET: RefCell<HashSet<ChangeHash>> = RefCell::new(HashSet::new());
}

fn fp_hook(h: &ChangeHash) -> bool {
    FPSET.with(|s| s.borrow().contains(h))
}

/// installs the false-positive hook for the lifetime of a `World`
struct HookGuard;
impl HookGuard {
    fn install() -> Self {
        FPSET.with(|s| s.borrow_mut().clear());
        sync::verif_hooks::FORCE_FP.with(|f| f.set(Some(fp_hook)));
        HookGuard
    }
}
impl Drop for HookGuard {
    fn drop(&mut self) {
        sync::verif_hooks::FORCE_FP.with(|f| f.set(None));
        FPSET.with(|s| s.borrow_mut().clear());
    }
}

fn short(h: &ChangeHash) -> String {
    hex::encode(&h.as_ref()[..4])
}
fn hl(hs: &[ChangeHash]) -> String {
    if hs.is_empty() { "-".into() } else { hs.iter().map(short).collect::<Vec<_>>().join(",") }
}
fn ohl(hs: &Option<Vec<ChangeHash>>) -> String {
    match hs { None => "none".into(), Some(v) => hl(v) }
}
fn show_haves(hs: &[sync::Have]) -> String {
    if hs.is_empty() { return "-".into(); }
    hs.iter().map(|h| format!("{}/{}", hl(&h.last_sync), hx(&h.bloom.to_bytes()))).collect::<Vec<_>>().join("|")
}
fn b01(b: bool) -> &'static str { if b { "1" } else { "0" } }

fn show_state(s: &State) -> String {
    let caps = match &s.their_capabilities {
        None => "none".to_string(),
        Some(v) if v.is_empty() => "-".to_string(),
        Some(v) => v.iter().map(|c| match c {
            Capability::MessageV1 => "v1",
            Capability::MessageV2 => "v2",
            Capability::SyncReset => "sr",
        }).collect::<Vec<_>>().join("+"),
    };
    let sent: Vec<ChangeHash> = s.sent_hashes.iter().copied().collect();
    format!(
        "sh={} ls={} th={} tn={} tv={} sent={} if={} hr={} caps={} ro={} pro={} nr={}",
        hl(&s.shared_heads), hl(&s.last_sent_heads), ohl(&s.their_heads), ohl(&s.their_need),
        match &s.their_have { None => "none".into(), Some(h) => show_haves(h) },
        hl(&sent), b01(s.in_flight), b01(s.have_responded), caps,
        b01(s.read_only), b01(s.peer_read_only), b01(s.needs_reset)
    )
}

fn show_doc(d: &Automerge) -> String {
    format!("heads={} n={} miss={}", hl(&d.get_heads()), d.stats().num_changes, hl(&d.get_missing_deps(&[])))
}

const MAGIC: [u8; 4] = [0x85, 0x6f, 0x4a, 0x83];

/// hashes of the changes inside the chunks of a message (chunks may be concatenated)
fn chunk_hashes(bytes: &[u8]) -> Result<Vec<ChangeHash>, String> {
    let mut res = vec![];
    let mut off = 0usize;
    while off < bytes.len() {
        if bytes.len() < off + 9 || bytes[off..off + 4] != MAGIC { return Err("bad chunk header".into()); }
        let ty = bytes[off + 8];
        let mut rd = &bytes[off + 9..];
        let before = rd.len();
        let len = leb128::read::unsigned(&mut rd).map_err(|e| e.to_string())? as usize;
        let hdr = 9 + (before - rd.len());
        let end = off + hdr + len;
        if end > bytes.len() { return Err("chunk too long".into()); }
        let chunk = &bytes[off..end];
        match ty {
            0 => {
                let d = Automerge::load(chunk).map_err(|e| e.to_string())?;
                res.extend(d.get_changes(&[]).iter().map(|c| c.hash()));
            }
            1 | 2 => {
                let c = Change::try_from(chunk).map_err(|e| e.to_string())?;
                res.push(c.hash());
            }
            _ => return Err(format!("chunk type {}", ty)),
        }
        off = end;
    }
    Ok(res)
}

fn flag_bits(f: &Option<MessageFlags>) -> String {
    match f {
        None => "none".into(),
        Some(f) => {
            let mut n = 0u8;
            for b in [MessageFlags::SYNC_RESET, MessageFlags::READ_ONLY, MessageFlags::SUPPORTS_SYNC_RESET] {
                if f.contains(b) { n |= b; }
            }
            n.to_string()
        }
    }
}

fn show_msg(m: &Message) -> String {
    let mut chg = vec![];
    let mut err = String::new();
    for c in m.changes.iter() {
        match chunk_hashes(c) {
            Ok(h) => chg.extend(h),
            Err(e) => err = format!(" chunk-error={}", e.replace(' ', "_")),
        }
    }
    chg.sort();
    chg.dedup();
    format!(
        "v={} heads={} need={} have={} chg={} nch={} flags={}{}",
        match m.version { MessageVersion::V1 => 1, MessageVersion::V2 => 2 },
        hl(&m.heads), hl(&m.need), show_haves(&m.have), hl(&chg), m.changes.len(), flag_bits(&m.flags), err
    )
}

/// canonical text of a hydrated value: map keys sorted, conflicts flagged
fn canon(v: &hydrate::Value, out: &mut String) {
    match v {
        hydrate::Value::Scalar(s) => out.push_str(&format!("{:?}", s)),
        hydrate::Value::Map(m) => {
            let mut ks: Vec<_> = m.iter().collect();
            ks.sort_by(|a, b| a.0.cmp(b.0));
            out.push('{');
            for (k, mv) in ks {
                out.push_str(k);
                if mv.conflict { out.push('!'); }
                out.push(':');
                canon(&mv.value, out);
                out.push(',');
            }
            out.push('}');
        }
        hydrate::Value::List(l) => {
            out.push('[');
            for lv in l.iter() {
                if lv.conflict { out.push('!'); }
                canon(&lv.value, out);
                out.push(',');
            }
            out.push(']');
        }
        hydrate::Value::Text(t) => out.push_str(&format!("{:?}", t)),
    }
}

fn canon_doc(d: &Automerge) -> String {
    let mut s = String::new();
    canon(&d.hydrate(None), &mut s);
    s
}

pub struct World {
    n: usize,
    docs: Vec<Automerge>,
    generation: Vec<u8>,
    st: BTreeMap<(usize, usize), State>,
    link: BTreeMap<(usize, usize), VecDeque<Vec<u8>>>,
    up: BTreeSet<(usize, usize)>,
    legacy: BTreeSet<(usize, usize)>,
    universe: BTreeMap<ChangeHash, Change>,
    /// (a,b) such that a's state for b has been read-only at some point (oracle labelling)
    was_ro: BTreeSet<(usize, usize)>,
    faults: bool,
    /// the session so far is an execution of the two-peer system of C20 (`Reachable` of
    /// `Model/Sync2.lean`): histories built by edits/merges, ONE fresh/fresh non-legacy connection,
    /// then only edit / generate / deliver
    pure: bool,
    connected: bool,
    /// a drop / reconnect / persisted state occurred: the session is one of C21 (`Reachable21`)
    had_reconnect: bool,
    /// some edit was marked as a forced Bloom false positive
    any_fp: bool,
    /// Σ_p |U \ arrived_p| before the last pure n-peer quiesce (statistics)
    pub last_net_lack: Option<u64>,
    pub last_rounds: u64,
    /// `missing + 4` of the last pure quiesce (statistics)
    pub last_bound: Option<u64>,
    _guard: HookGuard,
}

fn actor_for(p: usize, generation: u8) -> ActorId {
    let mut v = vec![0x10 + p as u8, generation];
    v.extend([0xaa; 14]);
    ActorId::from(v)
}

fn parse_hash(s: &str) -> ChangeHash {
    ChangeHash::try_from(unhx(s).as_slice()).expect("hash")
}

impl World {
    pub fn new(n: usize) -> Self {
        let guard = HookGuard::install();
        let mut st = BTreeMap::new();
        let mut link = BTreeMap::new();
        for a in 0..n {
            for b in 0..n {
                if a != b {
                    st.insert((a, b), State::new());
                    link.insert((a, b), VecDeque::new());
                }
            }
        }
        World {
            n,
            docs: (0..n).map(|p| Automerge::new().with_actor(actor_for(p, 0))).collect(),
            generation: vec![0; n],
            st, link,
            up: BTreeSet::new(),
            legacy: BTreeSet::new(),
            universe: BTreeMap::new(),
            was_ro: BTreeSet::new(),
            faults: false,
            pure: true,
            connected: false,
            had_reconnect: false,
            any_fp: false,
            last_net_lack: None,
            last_rounds: 0,
            last_bound: None,
            _guard: guard,
        }
    }

    fn prop(&self) -> &'static str { if self.n == 2 && !self.faults { "C20" } else { "C21" } }

    /// perform the local edit, return (hash, deps) of the new change
    pub fn do_edit(&mut self, p: usize, key: &str, val: &str) -> Option<(ChangeHash, Vec<ChangeHash>)> {
        let d = &mut self.docs[p];
        let r = d.transact_with::<_, _, automerge::AutomergeError, _>(
            |_| CommitOptions::default().with_time(0),
            |tx| {
                if val == "del" { tx.delete(ROOT, key) } else { tx.put(ROOT, key, val.parse::<i64>().unwrap()) }
            },
        );
        match r {
            Ok(s) => {
                let h = s.hash?;
                let c = d.get_change_by_hash(&h)?;
                let deps = c.deps().to_vec();
                self.universe.insert(h, c);
                Some((h, deps))
            }
            Err(_) => None,
        }
    }

    fn do_gen(&mut self, a: usize, b: usize) -> String {
        let st = self.st.get_mut(&(a, b)).unwrap();
        let m = self.docs[a].generate_sync_message(st);
        match m {
            None => format!("g {} {} none {}", a, b, show_state(st)),
            Some(mut m) => {
                if self.legacy.contains(&(a, b)) { m.flags = None; }
                let line = format!("g {} {} msg {} {}", a, b, show_msg(&m), show_state(st));
                self.link.get_mut(&(a, b)).unwrap().push_back(m.encode());
                line
            }
        }
    }

    /// b receives the oldest message of link a→b
    fn do_deliver(&mut self, a: usize, b: usize, res: &mut Vec<String>) -> bool {
        let bytes = match self.link.get_mut(&(a, b)).unwrap().pop_front() {
            None => { res.push(format!("d {} {} empty", a, b)); return false; }
            Some(x) => x,
        };
        let m = match Message::decode(&bytes) {
            Ok(m) => m,
            Err(e) => { res.push(format!("d {} {} undecodable", a, b)); res.push(format!("! {} own message does not decode: {}", self.prop(), e)); return true; }
        };
        let st = self.st.get_mut(&(b, a)).unwrap();
        let ro = st.read_only;
        let before = if ro { Some((self.docs[b].save(), self.docs[b].get_heads())) } else { None };
        let r = self.docs[b].receive_sync_message(st, m);
        match r {
            Ok(()) => res.push(format!("d {} {} {} {}", a, b, show_doc(&self.docs[b]), show_state(st))),
            Err(e) => res.push(format!("d {} {} err {}", a, b, e.to_string().replace(' ', "_"))),
        }
        if let Some((bytes0, heads0)) = before {
            if self.docs[b].get_heads() != heads0 || self.docs[b].save() != bytes0 {
                res.push(format!("! C22 sig=readonly-doc-changed read-only peer {} changed its document on receive from {}", b, a));
            }
        }
        true
    }

    fn drop_link(&mut self, a: usize, b: usize) {
        self.link.get_mut(&(a, b)).unwrap().clear();
        self.link.get_mut(&(b, a)).unwrap().clear();
        self.up.remove(&(a, b));
        self.up.remove(&(b, a));
    }

    fn reconn_state(old: &State, mode: &str) -> State {
        match mode {
            "f" => State::new(),
            "r" => State::new_read_only(),
            "p" => State::decode(&old.encode()).unwrap_or_else(|_| State::new()),
            _ => panic!("conn mode"),
        }
    }

    /// hashes that have arrived at peer `p`: applied, or queued as orphans (`save()` appends the
    /// queued changes after the document chunk)
    fn arrived(&self, p: usize) -> HashSet<ChangeHash> {
        let mut hs: HashSet<ChangeHash> = self.docs[p].get_changes(&[]).iter().map(|c| c.hash()).collect();
        if let Ok(v) = chunk_hashes(&self.docs[p].save()) { hs.extend(v); }
        hs
    }

    /// `Prog.missingDocs` of `Model/SyncBound.lean` on the real documents: changes applied at b that
    /// have not arrived (applied or queued) at a, plus the changes applied at a that have not arrived at b
    fn missing_pair(&self, a: usize, b: usize) -> u64 {
        let (ha, hb) = (self.arrived(a), self.arrived(b));
        let ca = self.docs[a].get_changes(&[]);
        let cb = self.docs[b].get_changes(&[]);
        (cb.iter().filter(|c| !ha.contains(&c.hash())).count() + ca.iter().filter(|c| !hb.contains(&c.hash())).count()) as u64
    }

    fn quiesce(&mut self, bound: u64, res: &mut Vec<String>) {
        // the proved round bound of C20 (`C20_progress`), taken before the first round
        let c20_bound = if self.pure && self.connected && self.n == 2 && self.up.contains(&(0, 1)) { Some(self.missing_pair(0, 1) + 4) } else { None };
        self.last_bound = c20_bound;
        // n >= 3 peers, pure session (edits / merges before the first connection, then only edits,
        // generates, deliveries, drops and fresh / persisted reconnects): there is no PROVED round bound
        // (the n-peer progress half of C21 is open, see Props/C21Progress.lean); the bound that would follow
        // from the missing pair lemma (PairW) is 4·(lack + 1) rounds, lack = Σ_p |U \ arrived_p|.  It is
        // checked as a conjecture, with and without forced false positives (the hook is not consulted for
        // the empty filter of a reset message: `C21_reset_recovers_under_forced_fp`).
        let net_lack = if self.pure && self.connected && self.n >= 3 {
            let arrived: Vec<HashSet<ChangeHash>> = (0..self.n).map(|p| self.arrived(p)).collect();
            let mut u: HashSet<ChangeHash> = HashSet::new();
            for p in 0..self.n { u.extend(self.docs[p].get_changes(&[]).iter().map(|c| c.hash())); }
            Some((0..self.n).map(|p| u.iter().filter(|h| !arrived[p].contains(h)).count() as u64).sum::<u64>())
        } else { None };
        self.last_net_lack = net_lack;
        let mut rounds = 0u64;
        let mut quiet = false;
        while rounds < bound {
            rounds += 1;
            let mut busy = false;
            for a in 0..self.n {
                for b in 0..self.n {
                    if a == b || !self.up.contains(&(a, b)) { continue; }
                    let before = self.link[&(a, b)].len();
                    res.push(self.do_gen(a, b));
                    let queued = self.link[&(a, b)].len();
                    if queued != before || queued != 0 { busy = true; }
                    for _ in 0..queued { self.do_deliver(a, b, res); }
                }
            }
            if !busy { quiet = true; break; }
        }
        self.last_rounds = rounds;
        let heads: Vec<String> = (0..self.n).map(|p| hl(&self.docs[p].get_heads())).collect();
        res.push(format!("q rounds={} quiet={} heads={}", rounds, b01(quiet), heads.join(";")));
        // direct oracles
        if let Some(bd) = c20_bound {
            // the loop counts the quiet round itself: quiescent after k rounds <=> quiet detected in round k+1
            if (!quiet && rounds > bd) || (quiet && rounds > bd + 1) {
                let (prop, thm) = if self.had_reconnect { ("C21", "C21_progress") } else { ("C20", "C20_progress") };
                res.push(format!("! {} sig=round-bound-exceeded rounds={} quiet={} proved-bound={} (missing+4, {})", prop, rounds, b01(quiet), bd, thm));
            }
        }
        if let Some(lack) = net_lack {
            let nb = 4 * (lack + 1);
            if (!quiet && rounds > nb) || (quiet && rounds > nb + 1) {
                res.push(format!("! C21 sig=net-round-bound-exceeded rounds={} quiet={} conjectured-bound={} forced-fp={} (4*(lack+1), lack={}; validation of the open n-peer progress statement, not a proved bound)", rounds, b01(quiet), nb, b01(self.any_fp), lack));
            }
        }
        if !quiet {
            res.push(format!("! {} sig=not-quiet not quiet within {} rounds", self.prop(), bound));
            return;
        }
        for a in 0..self.n {
            for b in 0..self.n {
                if a == b || !self.up.contains(&(a, b)) { continue; }
                let recv_ro = self.st[&(b, a)].read_only;
                let send_ro = self.st[&(a, b)].read_only;
                if recv_ro { continue; }
                let prop = if send_ro || self.was_ro.contains(&(b, a)) || self.was_ro.contains(&(a, b)) { "C22" } else { self.prop() };
                let missing: Vec<ChangeHash> = self.docs[a].get_heads().into_iter()
                    .filter(|h| self.docs[b].get_change_by_hash(h).is_none()).collect();
                if !missing.is_empty() {
                    // classify: the known finding S1 needs (i) the receiving state to have been read-only and
                    // switched back, and (ii) a change b lacks to be a FORCED Bloom false positive
                    let lacking_fp = self.docs[a].get_changes(&[]).iter().map(|c| c.hash())
                        .filter(|h| self.docs[b].get_change_by_hash(h).is_none())
                        .any(|h| FPSET.with(|s| s.borrow().contains(&h)));
                    let sig = if prop == "C22" && self.was_ro.contains(&(b, a)) && lacking_fp { "switch-back-not-live" } else { "quiescent-not-converged" };
                    res.push(format!("! {} sig={} quiescent but peer {} lacks changes of connected peer {} (heads {})", prop, sig, b, a, hl(&missing)));
                } else if !send_ro && a < b {
                    let (ha, hb) = (self.docs[a].get_heads(), self.docs[b].get_heads());
                    if ha == hb && canon_doc(&self.docs[a]) != canon_doc(&self.docs[b]) {
                        res.push(format!("! {} sig=equal-heads-different-state peers {} and {} have equal heads but different state", prop, a, b));
                    }
                }
            }
        }
    }

    /// execute one step token; returns output lines
    pub fn step(&mut self, s: &str) -> Vec<String> {
        let f: Vec<&str> = s.split(':').collect();
        let mut res = vec![];
        let num = |x: &str| x.parse::<usize>().expect("peer");
        match f[0] {
            "e" | "q" | "b" => {}
            // generate / deliver only on a link that is up
            "g" | "d" => { if !self.connected || !self.up.contains(&(num(f[1]), num(f[2]))) { self.pure = false; } }
            "m" => { if self.connected { self.pure = false; } }
            // drop with whatever is in flight: the `Step21.reconnect` of the model happens at the next `c`
            "x" => { self.had_reconnect = true; }
            "c" => {
                // fresh or persisted on either side, non-legacy (`Reconn` of `Model/Sync2.lean`); the first
                // connection additionally needs documents without queued orphans (`Initial`)
                let ok_mode = |m: &str| m == "f" || m == "p";
                if !ok_mode(f[3]) || !ok_mode(f[4]) || f[5] != "0" { self.pure = false; }
                if !self.connected && self.docs.iter().any(|d| !d.get_missing_deps(&[]).is_empty()) { self.pure = false; }
                if self.connected || f[3] == "p" || f[4] == "p" { self.had_reconnect = true; }
                self.connected = true;
            }
            _ => { self.pure = false; }
        }
        match f[0] {
            "e" => {
                let p = num(f[1]);
                let want = parse_hash(f[5]);
                if f[4] == "1" { FPSET.with(|s| s.borrow_mut().insert(want)); self.any_fp = true; }
                match self.do_edit(p, f[2], f[3]) {
                    Some((h, deps)) => {
                        let mut want_deps: Vec<ChangeHash> = if f[6] == "-" { vec![] } else { f[6].split(',').map(parse_hash).collect() };
                        let mut deps = deps; deps.sort(); want_deps.sort();
                        if h == want && deps == want_deps { res.push(format!("e {} ok {}", p, show_doc(&self.docs[p]))); }
                        else { res.push(format!("e {} hash-mismatch got={} deps={}", p, hex::encode(h.as_ref()), if deps.is_empty() { "-".to_string() } else { deps.iter().map(|d| hex::encode(d.as_ref())).collect::<Vec<_>>().join(",") })); }
                    }
                    None => res.push(format!("e {} err", p)),
                }
            }
            "m" => {
                let (a, b) = (num(f[1]), num(f[2]));
                let mut other = self.docs[b].clone();
                match self.docs[a].merge(&mut other) {
                    Ok(_) => res.push(format!("m {} {}", a, show_doc(&self.docs[a]))),
                    Err(e) => res.push(format!("m {} err {}", a, e.to_string().replace(' ', "_"))),
                }
            }
            "a" => {
                let p = num(f[1]);
                let h = parse_hash(f[2]);
                if let Some(c) = self.universe.get(&h).cloned() {
                    if let Err(e) = self.docs[p].apply_changes([c]) {
                        res.push(format!("a {} err {}", p, e.to_string().replace(' ', "_")));
                        return res;
                    }
                }
                res.push(format!("a {} {}", p, show_doc(&self.docs[p])));
            }
            "g" => { let l = self.do_gen(num(f[1]), num(f[2])); res.push(l); }
            "d" => { self.do_deliver(num(f[1]), num(f[2]), &mut res); }
            "x" => {
                let (a, b) = (num(f[1]), num(f[2]));
                self.drop_link(a, b);
                self.faults = true;
                res.push(format!("x {} {}", a, b));
            }
            "c" => {
                let (a, b) = (num(f[1]), num(f[2]));
                self.link.get_mut(&(a, b)).unwrap().clear();
                self.link.get_mut(&(b, a)).unwrap().clear();
                let sa = Self::reconn_state(&self.st[&(a, b)], f[3]);
                let sb = Self::reconn_state(&self.st[&(b, a)], f[4]);
                if f[3] == "r" { self.was_ro.insert((a, b)); }
                if f[4] == "r" { self.was_ro.insert((b, a)); }
                if f[3] == "p" || f[4] == "p" { self.faults = true; }
                self.st.insert((a, b), sa);
                self.st.insert((b, a), sb);
                self.up.insert((a, b));
                self.up.insert((b, a));
                if f[5] == "1" { self.legacy.insert((a, b)); self.legacy.insert((b, a)); }
                else { self.legacy.remove(&(a, b)); self.legacy.remove(&(b, a)); }
                res.push(format!("c {} {} {} / {}", a, b, show_state(&self.st[&(a, b)]), show_state(&self.st[&(b, a)])));
            }
            "r" => {
                let (a, b) = (num(f[1]), num(f[2]));
                let v = f[3] == "1";
                if v { self.was_ro.insert((a, b)); }
                let st = self.st.get_mut(&(a, b)).unwrap();
                st.set_read_only(v);
                res.push(format!("r {} {} {}", a, b, show_state(st)));
            }
            "w" => {
                let p = num(f[1]);
                for q in (0..self.n).rev() { if q != p { self.drop_link(p, q); } }
                self.generation[p] += 1;
                self.docs[p] = Automerge::new().with_actor(actor_for(p, self.generation[p]));
                self.faults = true;
                res.push(format!("w {}", p));
            }
            "q" => { let bound = f[1].parse::<u64>().expect("bound"); self.quiesce(bound, &mut res); }
            "b" => {
                let (a, b) = (num(f[1]), num(f[2]));
                let k = self.missing_pair(a, b);
                res.push(format!("b {} {} missing={} bound={}", a, b, k, k + 4));
            }
            _ => res.push("bad-step".into()),
        }
        res
    }
}

pub fn exec(sess: &mut SyncSession, toks: &[&str]) -> Vec<String> {
    match toks[0] {
        "sync.run" => {
            sess.runs += 1;
            let n: usize = toks[1].parse().expect("peers");
            let mut w = World::new(n);
            let mut res = vec![];
            for s in toks[2].split(';') { res.extend(w.step(s)); }
            res
        }
        _ => vec!["unknown-cmd".into()],
    }
}

/// A PURE two-peer session (the hypotheses of C20): divergent histories with shared ancestors,
/// one fresh connection, then edits / generates / deliveries in any interleaving, then the bound
/// step and the quiesce step.  Forced false positives: 0, 5, 50 or 100 % of the changes.
fn generate_pure(r: &mut Rng, sess: &mut Session, out: &mut Out) {
    let fp_pct = *r.pick(&[0u64, 5, 50, 100]);
    let main_steps = r.range(0, 60);
    // half of the pure sessions have drops (with messages in flight) and reconnects (C21)
    let with_faults = r.chance(1, 2);
    out.count(if with_faults { "cases_pure_c21" } else { "cases_pure_c20" });
    out.count(&format!("pure_fp_pct_{}", fp_pct));
    let mut steps: Vec<String> = vec![];
    {
        let mut w = World::new(2);
        let mut hashes: Vec<ChangeHash> = vec![];
        macro_rules! push { ($s:expr) => {{ let s: String = $s; let o = w.step(&s); steps.push(s); o }}; }
        macro_rules! edit { ($p:expr) => {{
            let p: usize = $p;
            let key = format!("k{}", r.below(4));
            let present = w.docs[p].get(ROOT, key.as_str()).ok().flatten().is_some();
            let val = if present && r.chance(1, 6) { "del".to_string() } else { r.below(1000).to_string() };
            let saved = w.docs[p].clone();
            if let Some((h, deps)) = w.do_edit(p, &key, &val) {
                w.docs[p] = saved;
                w.universe.remove(&h);
                let isfp = r.below(100) < fp_pct;
                let deps_s = if deps.is_empty() { "-".to_string() } else { deps.iter().map(|d| hex::encode(d.as_ref())).collect::<Vec<_>>().join(",") };
                hashes.push(h);
                out.count("steps_edit");
                push!(format!("e:{}:{}:{}:{}:{}:{}", p, key, val, b01(isfp), hex::encode(h.as_ref()), deps_s));
            } else { w.docs[p] = saved; }
        }}; }
        // starting histories: optional shared base, divergent branches (long ones too), merges
        if r.chance(2, 3) {
            for _ in 0..r.below(6) { edit!(0); }
            if r.chance(3, 4) { push!("m:1:0".to_string()); }
        }
        let hist = if r.chance(1, 4) { r.range(15, 40) } else { r.below(14) };
        for _ in 0..hist {
            if r.chance(5, 6) { edit!(r.below(2) as usize); }
            else { let a = r.below(2) as usize; out.count("steps_merge"); push!(format!("m:{}:{}", a, 1 - a)); }
        }
        let mode = |r: &mut Rng| -> &'static str { if r.chance(1, 2) { "p" } else { "f" } };
        if with_faults { let (ma, mb) = (mode(r), mode(r)); push!(format!("c:0:1:{}:{}:0", ma, mb)); }
        else { push!("c:0:1:f:f:0".to_string()); }
        for _ in 0..main_steps {
            let (a, b) = if r.chance(1, 2) { (0usize, 1usize) } else { (1, 0) };
            let is_up = w.up.contains(&(0, 1));
            if with_faults {
                if !is_up {
                    // while the link is down: edits, or come back
                    if r.chance(2, 5) {
                        let (ma, mb) = (mode(r), mode(r));
                        out.count("steps_reconnect");
                        if ma == "p" || mb == "p" { out.count("steps_reconnect_persisted"); }
                        push!(format!("c:0:1:{}:{}:0", ma, mb));
                    } else { edit!(a); }
                    continue;
                }
                if r.chance(7, 100) {
                    out.count("steps_drop");
                    if !w.link[&(0, 1)].is_empty() || !w.link[&(1, 0)].is_empty() { out.count("steps_drop_with_inflight"); }
                    push!("x:0:1".to_string());
                    continue;
                }
            }
            match r.below(100) {
                0..=17 => { edit!(a); }
                18..=54 => { out.count("steps_generate"); push!(format!("g:{}:{}", a, b)); }
                _ => {
                    let busy: Vec<(usize, usize)> = w.link.iter().filter(|(_, q)| !q.is_empty()).map(|(k, _)| *k).collect();
                    if !busy.is_empty() { let &(x, y) = r.pick(&busy); out.count("steps_deliver"); push!(format!("d:{}:{}", x, y)); }
                    else { out.count("steps_generate"); push!(format!("g:{}:{}", a, b)); }
                }
            }
        }
        if !w.up.contains(&(0, 1)) {
            let (ma, mb) = (mode(r), mode(r));
            out.count("steps_reconnect");
            if ma == "p" || mb == "p" { out.count("steps_reconnect_persisted"); }
            push!(format!("c:0:1:{}:{}:0", ma, mb));
        }
        push!("b:0:1".to_string());
        let bound = 2 * hashes.len() as u64 + 16;
        push!(format!("q:{}", bound));
        out.add("pure_quiesce_rounds_total", w.last_rounds);
        if let Some(bd) = w.last_bound {
            out.add("pure_proved_bound_total", bd);
            // slack = (bound + 1) - rounds; the oracle fires when it would be negative
            let slack = (bd + 1).saturating_sub(w.last_rounds);
            let cur = out.stats.get("pure_bound_slack_min").copied().unwrap_or(u64::MAX);
            if slack < cur { out.stats.insert("pure_bound_slack_min".into(), slack); }
        } else { out.count("pure_cases_lost_purity"); }
        let cur = out.stats.get("pure_quiesce_rounds_max").copied().unwrap_or(0);
        if w.last_rounds > cur { out.stats.insert("pure_quiesce_rounds_max".into(), w.last_rounds); }
        out.add("changes_total", hashes.len() as u64);
    }
    exec_line(sess, &format!("sync.run 2 {}", steps.join(";")), out);
}

/// A PURE n-peer session (3 or 4 peers, the steps of `NetStep` in `Proofs/SyncProgress21Net.lean`):
/// histories with shared ancestors, a connected topology, edits / generates / deliveries / drops with
/// messages in flight / fresh or persisted reconnects, then heal and quiesce.
fn generate_pure_net(r: &mut Rng, sess: &mut Session, out: &mut Out) {
    let n = if r.chance(3, 5) { 3usize } else { 4 };
    let fp_pct = *r.pick(&[0u64, 0, 5, 50]);
    let main_steps = r.range(5, 80);
    out.count("cases_pure_net");
    out.count(&format!("net_peers_{}", n));
    out.count(&format!("net_fp_pct_{}", fp_pct));
    let mut steps: Vec<String> = vec![];
    {
        let mut w = World::new(n);
        let mut hashes: Vec<ChangeHash> = vec![];
        macro_rules! push { ($s:expr) => {{ let s: String = $s; let o = w.step(&s); steps.push(s); o }}; }
        macro_rules! edit { ($p:expr) => {{
            let p: usize = $p;
            let key = format!("k{}", r.below(4));
            let present = w.docs[p].get(ROOT, key.as_str()).ok().flatten().is_some();
            let val = if present && r.chance(1, 6) { "del".to_string() } else { r.below(1000).to_string() };
            let saved = w.docs[p].clone();
            if let Some((h, deps)) = w.do_edit(p, &key, &val) {
                w.docs[p] = saved;
                w.universe.remove(&h);
                let isfp = r.below(100) < fp_pct;
                let deps_s = if deps.is_empty() { "-".to_string() } else { deps.iter().map(|d| hex::encode(d.as_ref())).collect::<Vec<_>>().join(",") };
                hashes.push(h);
                out.count("steps_edit");
                push!(format!("e:{}:{}:{}:{}:{}:{}", p, key, val, b01(isfp), hex::encode(h.as_ref()), deps_s));
            } else { w.docs[p] = saved; }
        }}; }
        if r.chance(2, 3) {
            for _ in 0..r.below(6) { edit!(0); }
            for p in 1..n { if r.chance(3, 4) { push!(format!("m:{}:0", p)); } }
        }
        let hist = if r.chance(1, 4) { r.range(15, 40) } else { r.below(16) };
        for _ in 0..hist {
            if r.chance(5, 6) { edit!(r.below(n as u64) as usize); }
            else {
                let a = r.below(n as u64) as usize; let b = (a + 1 + r.below(n as u64 - 1) as usize) % n;
                out.count("steps_merge");
                push!(format!("m:{}:{}", a, b));
            }
        }
        let mut edges: Vec<(usize, usize)> = vec![];
        for b in 1..n { let a = r.below(b as u64) as usize; edges.push((a, b)); }
        for a in 0..n { for b in (a + 1)..n { if !edges.contains(&(a, b)) && r.chance(1, 3) { edges.push((a, b)); } } }
        let mode = |r: &mut Rng| -> &'static str { if r.chance(1, 2) { "p" } else { "f" } };
        for &(a, b) in &edges { let (ma, mb) = (mode(r), mode(r)); push!(format!("c:{}:{}:{}:{}:0", a, b, ma, mb)); }
        for _ in 0..main_steps {
            let &(ea, eb) = r.pick(&edges);
            let (a, b) = if r.chance(1, 2) { (ea, eb) } else { (eb, ea) };
            let is_up = w.up.contains(&(a, b));
            match r.below(100) {
                0..=15 => { edit!(r.below(n as u64) as usize); }
                16..=49 => { if is_up { out.count("steps_generate"); push!(format!("g:{}:{}", a, b)); } }
                50..=87 => {
                    let busy: Vec<(usize, usize)> = w.link.iter().filter(|(_, q)| !q.is_empty()).map(|(k, _)| *k).collect();
                    if !busy.is_empty() { let &(x, y) = r.pick(&busy); out.count("steps_deliver"); push!(format!("d:{}:{}", x, y)); }
                    else if is_up { out.count("steps_generate"); push!(format!("g:{}:{}", a, b)); }
                }
                88..=92 => { if is_up { out.count("steps_drop"); if !w.link[&(a, b)].is_empty() || !w.link[&(b, a)].is_empty() { out.count("steps_drop_with_inflight"); } push!(format!("x:{}:{}", a, b)); } }
                _ => {
                    if !is_up {
                        let (ma, mb) = (mode(r), mode(r));
                        out.count("steps_reconnect");
                        if ma == "p" || mb == "p" { out.count("steps_reconnect_persisted"); }
                        push!(format!("c:{}:{}:{}:{}:0", ea, eb, ma, mb));
                    }
                }
            }
        }
        for &(a, b) in &edges {
            if !w.up.contains(&(a, b)) {
                let (ma, mb) = (mode(r), mode(r));
                out.count("steps_reconnect");
                if ma == "p" || mb == "p" { out.count("steps_reconnect_persisted"); }
                push!(format!("c:{}:{}:{}:{}:0", a, b, ma, mb));
            }
        }
        let bound = 2 * hashes.len() as u64 * (n as u64 - 1) + 6 * n as u64 + 4;
        push!(format!("q:{}", bound));
        out.add("net_quiesce_rounds_total", w.last_rounds);
        let cur = out.stats.get("net_quiesce_rounds_max").copied().unwrap_or(0);
        if w.last_rounds > cur { out.stats.insert("net_quiesce_rounds_max".into(), w.last_rounds); }
        if let Some(lack) = w.last_net_lack {
            out.add("net_lack_total", lack);
            // how far the run stayed below lack + 4 (+1 for the quiet round); saturating
            let slack = (lack + 5).saturating_sub(w.last_rounds);
            let cur = out.stats.get("net_lack_plus4_slack_min").copied().unwrap_or(u64::MAX);
            if slack < cur { out.stats.insert("net_lack_plus4_slack_min".into(), slack); }
        } else { out.count("net_cases_lost_purity"); }
        out.add("changes_total", hashes.len() as u64);
    }
    exec_line(sess, &format!("sync.run {} {}", n, steps.join(";")), out);
}

/// Build a schedule by driving a scratch `World`, then route the finished line through `exec_line`.
pub fn generate(r: &mut Rng, opts: &BTreeMap<String, String>, sess: &mut Session, out: &mut Out) {
    // every fourth case is a pure C20 session (decided by the case index, so the other cases of a
    // seed are exactly what they were before this generator existed)
    let idx = out.stats.get("sync_cases").copied().unwrap_or(0);
    out.count("sync_cases");
    if idx % 8 == 7 { return generate_pure_net(r, sess, out); }
    if idx % 4 == 3 { return generate_pure(r, sess, out); }
    let n = match r.below(10) { 0..=4 => 2usize, 5..=7 => 3, _ => 4 };
    let fp_pct = *r.pick(&[0u64, 5, 50]);
    // losing a document is outside the fault model of C21 (drops, message loss, fresh/persisted
    // reconnects); it is opt-in (`--loss 1`) and reaches the reset-message branch
    let with_loss = r.chance(15, 100) && opts.get("loss").map(|s| s == "1").unwrap_or(false);
    let with_ro = r.chance(40, 100);
    let with_legacy = r.chance(12, 100);
    let main_steps = opts.get("steps").map(|s| s.parse::<u64>().unwrap()).unwrap_or_else(|| r.range(10, 90));
    out.count(&format!("peers_{}", n));
    out.count(&format!("fp_pct_{}", fp_pct));
    if with_loss { out.count("cases_with_data_loss"); }
    if with_ro { out.count("cases_with_read_only"); }
    if with_legacy { out.count("cases_with_legacy_link"); }

    let mut steps: Vec<String> = vec![];
    {
        let mut w = World::new(n);
        let mut hashes: Vec<ChangeHash> = vec![];
        macro_rules! push { ($s:expr) => {{ let s: String = $s; let o = w.step(&s); steps.push(s); o }}; }
        // an edit needs the hash of the change the real code produces: do it on a clone first
        macro_rules! edit { ($p:expr) => {{
            let p: usize = $p;
            let key = format!("k{}", r.below(4));
            let present = w.docs[p].get(ROOT, key.as_str()).ok().flatten().is_some();
            let val = if present && r.chance(1, 6) { "del".to_string() } else { r.below(1000).to_string() };
            let saved = w.docs[p].clone();
            if let Some((h, deps)) = w.do_edit(p, &key, &val) {
                w.docs[p] = saved;
                w.universe.remove(&h);
                let isfp = r.below(100) < fp_pct;
                let deps_s = if deps.is_empty() { "-".to_string() } else { deps.iter().map(|d| hex::encode(d.as_ref())).collect::<Vec<_>>().join(",") };
                hashes.push(h);
                out.count("steps_edit");
                push!(format!("e:{}:{}:{}:{}:{}:{}", p, key, val, b01(isfp), hex::encode(h.as_ref()), deps_s));
            } else { w.docs[p] = saved; }
        }}; }

        // phase 0: starting histories (shared base, divergent branches, merges)
        if r.chance(1, 2) {
            for _ in 0..r.below(5) { edit!(0); }
            for p in 1..n { if r.chance(3, 4) { push!(format!("m:{}:0", p)); } }
        }
        for _ in 0..r.below(14) {
            if r.chance(3, 4) { edit!(r.below(n as u64) as usize); }
            else {
                let a = r.below(n as u64) as usize; let b = (a + 1 + r.below(n as u64 - 1) as usize) % n;
                out.count("steps_merge");
                push!(format!("m:{}:{}", a, b));
            }
        }
        // topology: a random spanning tree plus extra edges
        let mut edges: Vec<(usize, usize)> = vec![];
        for b in 1..n { let a = r.below(b as u64) as usize; edges.push((a, b)); }
        for a in 0..n { for b in (a + 1)..n { if !edges.contains(&(a, b)) && r.chance(1, 3) { edges.push((a, b)); } } }
        let conn_mode = |r: &mut Rng, reconnect: bool| -> &'static str {
            if with_ro && r.chance(1, 5) { "r" } else if reconnect && r.chance(1, 2) { "p" } else { "f" }
        };
        let mut legacy_edge: BTreeSet<(usize, usize)> = BTreeSet::new();
        for &(a, b) in &edges {
            if with_legacy && r.chance(1, 2) { legacy_edge.insert((a, b)); }
            let (ma, mb) = (conn_mode(r, false), conn_mode(r, false));
            push!(format!("c:{}:{}:{}:{}:{}", a, b, ma, mb, b01(legacy_edge.contains(&(a, b)))));
        }
        // phase 1: the main schedule
        for _ in 0..main_steps {
            let &(ea, eb) = r.pick(&edges);
            let (a, b) = if r.chance(1, 2) { (ea, eb) } else { (eb, ea) };
            let is_up = w.up.contains(&(a, b));
            match r.below(100) {
                0..=19 => { edit!(r.below(n as u64) as usize); }
                20..=49 => { if is_up { out.count("steps_generate"); push!(format!("g:{}:{}", a, b)); } }
                50..=79 => {
                    // prefer a link that has something queued
                    let busy: Vec<(usize, usize)> = w.link.iter().filter(|(_, q)| !q.is_empty()).map(|(k, _)| *k).collect();
                    if !busy.is_empty() { let &(x, y) = r.pick(&busy); out.count("steps_deliver"); push!(format!("d:{}:{}", x, y)); }
                    else if is_up { out.count("steps_generate"); push!(format!("g:{}:{}", a, b)); }
                }
                80..=83 => { if is_up { out.count("steps_drop"); if !w.link[&(a, b)].is_empty() || !w.link[&(b, a)].is_empty() { out.count("steps_drop_with_inflight"); } push!(format!("x:{}:{}", a, b)); } }
                84..=89 => {
                    if !is_up {
                        let (ma, mb) = (conn_mode(r, true), conn_mode(r, true));
                        out.count("steps_reconnect");
                        if ma == "p" || mb == "p" { out.count("steps_reconnect_persisted"); }
                        push!(format!("c:{}:{}:{}:{}:{}", ea, eb, if a == ea { ma } else { mb }, if a == ea { mb } else { ma }, b01(legacy_edge.contains(&(ea, eb)))));
                    }
                }
                90..=94 => {
                    if with_ro && is_up {
                        let cur = w.st[&(a, b)].read_only;
                        out.count(if cur { "steps_set_read_write" } else { "steps_set_read_only" });
                        push!(format!("r:{}:{}:{}", a, b, b01(!cur)));
                    }
                }
                95..=96 => { out.count("steps_merge"); push!(format!("m:{}:{}", a, b)); }
                97..=98 => {
                    if !hashes.is_empty() { let h = *r.pick(&hashes); out.count("steps_apply_one"); push!(format!("a:{}:{}", a, hex::encode(h.as_ref()))); }
                }
                _ => { if with_loss { out.count("steps_lose_data"); push!(format!("w:{}", a)); } }
            }
        }
        // phase 2: heal the topology, switch most read-only states back, quiesce
        for &(a, b) in &edges {
            if !w.up.contains(&(a, b)) {
                let (ma, mb) = (conn_mode(r, true), conn_mode(r, true));
                out.count("steps_reconnect");
                if ma == "p" || mb == "p" { out.count("steps_reconnect_persisted"); }
                push!(format!("c:{}:{}:{}:{}:{}", a, b, ma, mb, b01(legacy_edge.contains(&(a, b)))));
            }
        }
        for &(a, b) in &edges {
            for (x, y) in [(a, b), (b, a)] {
                if w.st[&(x, y)].read_only && r.chance(3, 5) {
                    out.count("steps_set_read_write");
                    // sometimes let a few messages flow first so the switch happens mid-session
                    if r.chance(1, 2) { push!(format!("g:{}:{}", x, y)); push!(format!("g:{}:{}", y, x)); }
                    push!(format!("r:{}:{}:0", x, y));
                }
            }
        }
        let bound = 2 * hashes.len() as u64 * (n as u64 - 1) + 6 * n as u64 + 4;
        push!(format!("q:{}", bound));
        out.add("quiesce_rounds_total", w.last_rounds);
        let key = format!("quiesce_rounds_max");
        let cur = out.stats.get(&key).copied().unwrap_or(0);
        if w.last_rounds > cur { out.stats.insert(key, w.last_rounds); }
        out.add("changes_total", hashes.len() as u64);
        if w.docs.iter().any(|d| !d.get_missing_deps(&[]).is_empty()) { out.count("cases_ending_with_orphans_queued"); }
    }
    exec_line(sess, &format!("sync.run {} {}", n, steps.join(";")), out);
}
