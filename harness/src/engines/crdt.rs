#[derive(Default)]
pub struct CrdtSession {}
pub fn exec(_s: &mut CrdtSession, _toks: &[&str]) -> Vec<String> { vec!["todo".into()] }
