//! Engine `crdt`: real replicas (AutoCommit) driven by edit / delivery programs.
//!
//! The model side (Lean `Driver/Crdt.lean`) holds, per replica, the M5 document (applied changes +
//! queue) over the universe of changes announced by `crdt.def`, and reads state as the `Spec`
//! interpretation of the applied op set.
use super::{hx, unhx};
use crate::{exec_line, rng::Rng, Out, Session};
use automerge::{
    legacy, transaction::Transactable, ActorId, AutoCommit, Change, ChangeHash, ExpandedChange, ObjId, ObjType,
    ReadDoc, ScalarValue, TextEncoding, Value, ROOT,
};
use std::collections::BTreeMap;

#[derive(Default)]
pub struct CrdtSession {
    pub replicas: BTreeMap<String, AutoCommit>,
    pub changes: BTreeMap<String, Change>,
    pub enc: Option<TextEncoding>,
    pub files: BTreeMap<String, (Vec<u8>, Vec<(usize, String)>)>,
    pub tx_snapshots: BTreeMap<String, Vec<u8>>,
    pub tx_state_snapshots: BTreeMap<String, String>,
    pub iso_snap: BTreeMap<String, Vec<ChangeHash>>,
    /// hashes offered to (or made by) each replica so far — for the C05 oracle `crdt.expect`
    pub offered: BTreeMap<String, std::collections::BTreeSet<String>>,
    /// two replicas share an actor id (conflicting (actor, seq) pairs possible): C05 oracle off
    pub shared_actor: bool,
    /// text objects that received a mark op (`crdt.rt.mark`): the generators edit them through the
    /// mark-aware `crdt.rt.splice` from then on (the plain `crdt.splice` of the model ignores sticky marks)
    pub marked_texts: std::collections::BTreeSet<String>,
}

/// the marks of every reachable text object, as `marks()` reports them (part of the observable state that
/// a rollback must restore: C28)
pub fn marks_digest(d: &AutoCommit) -> String {
    let mut objs: Vec<(String, ObjType)> = vec![];
    collect_objs(d, &ROOT, ObjType::Map, &mut objs, 0);
    let mut parts = vec![];
    for (o, ty) in objs {
        if ty != ObjType::Text { continue; }
        if let Ok(ms) = d.marks(parse_exid(&o)) {
            if !ms.is_empty() { parts.push(format!("{}:[{}]", o, ms.iter().map(|m| format!("{}:{}:{}:{}", m.name(), m.start, m.end, show_scalar(m.value()))).collect::<Vec<_>>().join(","))); }
        }
    }
    parts.join(";")
}

/// C04 direct oracle on a change just committed by a non-isolated transaction: "its dependencies are the heads
/// at the start of the transaction plus the actor's own previous change" — the own previous change (seq - 1 of
/// the same actor) is among the dependencies, and every dependency is an applied change
pub fn own_previous_change_oracle(d: &mut AutoCommit, h: &ChangeHash, isolated: bool) -> Option<String> {
    if isolated { return None; }
    let c = d.get_change_by_hash(h)?;
    let all = d.get_changes(&[]);
    if c.seq() > 1 {
        let prev = all.iter().find(|x| x.actor_id() == c.actor_id() && x.seq() == c.seq() - 1)?;
        if !c.deps().contains(&prev.hash()) {
            return Some(format!("! C04 sig=own-previous-change-not-a-dep change seq {} of actor {} does not depend on the actor's own previous change {}", c.seq(), show_actor(c.actor_id()), hex::encode(prev.hash().0)));
        }
    }
    None
}

/// signature of a failed delivery that changed the pending queue: a DuplicateSeqNumber error for an
/// (actor, seq) that an APPLIED change holds is the known finding D4; the same error for a slot held
/// only by a QUEUED change (or any other error) is a different violation
fn dupseq_sig<T>(d: &mut AutoCommit, r: &Result<T, automerge::AutomergeError>, other: &'static str) -> &'static str {
    match r {
        Err(automerge::AutomergeError::DuplicateSeqNumber(q, a)) => {
            if d.get_changes(&[]).iter().any(|c| c.actor_id() == a && c.seq() == *q) { "dupseq-error-prunes-queue" } else { "dupseq-queued-collision-prunes-queue" }
        }
        _ => other,
    }
}

// ---------- canonical text forms (shared with Lean `Spec.show*`) ----------

pub fn show_actor(a: &ActorId) -> String { hex::encode(a.to_bytes()) }
pub fn show_legacy_id(id: &legacy::OpId) -> String { format!("{}@{}", id.0, show_actor(&id.1)) }
pub fn show_exid(id: &ObjId) -> String {
    match id {
        ObjId::Root => "_".into(),
        ObjId::Id(c, a, _) => format!("{}@{}", c, show_actor(a)),
    }
}
pub fn parse_exid(s: &str) -> ObjId {
    if s == "_" { return ROOT; }
    let (c, a) = s.split_once('@').expect("objid");
    ObjId::Id(c.parse().expect("ctr"), ActorId::from(hex::decode(a).expect("hex")), 0)
}
pub fn show_scalar(v: &ScalarValue) -> String {
    match v {
        ScalarValue::Null => "n".into(),
        ScalarValue::Boolean(b) => if *b { "b1".into() } else { "b0".into() },
        ScalarValue::Int(i) => format!("i{}", i),
        ScalarValue::Uint(u) => format!("u{}", u),
        ScalarValue::F64(f) => format!("f{}", f.to_bits()),
        ScalarValue::Str(s) => format!("s{}", hex::encode(s.as_bytes())),
        ScalarValue::Bytes(b) => format!("x{}", hex::encode(b)),
        ScalarValue::Counter(c) => format!("c{}", i64::from(c)),
        ScalarValue::Timestamp(t) => format!("t{}", t),
        ScalarValue::Unknown { type_code, bytes } => format!("k{}.{}", type_code, hex::encode(bytes)),
    }
}
pub fn parse_scalar(s: &str) -> ScalarValue {
    let rest = &s[1..];
    match s.as_bytes()[0] {
        b'n' => ScalarValue::Null,
        b'b' => ScalarValue::Boolean(rest == "1"),
        b'i' => ScalarValue::Int(rest.parse().unwrap()),
        b'u' => ScalarValue::Uint(rest.parse().unwrap()),
        b'f' => ScalarValue::F64(f64::from_bits(rest.parse().unwrap())),
        b's' => ScalarValue::Str(String::from_utf8(hex::decode(rest).unwrap()).unwrap().into()),
        b'x' => ScalarValue::Bytes(hex::decode(rest).unwrap()),
        b'c' => ScalarValue::counter(rest.parse().unwrap()),
        b't' => ScalarValue::Timestamp(rest.parse().unwrap()),
        _ => panic!("bad scalar {}", s),
    }
}
fn show_objtype(t: ObjType) -> &'static str {
    match t { ObjType::Map => "M", ObjType::List => "L", ObjType::Text => "T", ObjType::Table => "B" }
}
fn parse_objtype(s: &str) -> ObjType {
    match s { "M" => ObjType::Map, "L" => ObjType::List, "T" => ObjType::Text, "B" => ObjType::Table, _ => panic!("objtype") }
}
pub fn parse_enc(s: &str) -> TextEncoding {
    match s { "cp" => TextEncoding::UnicodeCodePoint, "utf8" => TextEncoding::Utf8CodeUnit, "utf16" => TextEncoding::Utf16CodeUnit, "gc" => TextEncoding::GraphemeCluster, _ => panic!("enc") }
}
pub fn width(enc: TextEncoding, s: &str) -> usize {
    match enc {
        TextEncoding::UnicodeCodePoint => s.chars().count(),
        TextEncoding::Utf8CodeUnit => s.len(),
        TextEncoding::Utf16CodeUnit => s.encode_utf16().count(),
        TextEncoding::GraphemeCluster => unicode_segmentation::UnicodeSegmentation::graphemes(s, true).count(),
    }
}

fn show_op(op: &legacy::Op, id: &legacy::OpId) -> String {
    let obj = match &op.obj { legacy::ObjectId::Root => "_".to_string(), legacy::ObjectId::Id(i) => show_legacy_id(i) };
    let key = match &op.key {
        legacy::Key::Map(k) => format!("m{}", hex::encode(k.as_bytes())),
        legacy::Key::Seq(legacy::ElementId::Head) => "h".to_string(),
        legacy::Key::Seq(legacy::ElementId::Id(i)) => format!("e{}", show_legacy_id(i)),
    };
    let act = match &op.action {
        legacy::OpType::Make(t) => format!("mk{}", show_objtype(*t)),
        legacy::OpType::Delete => "d".to_string(),
        legacy::OpType::Increment(n) => format!("inc{}", n),
        legacy::OpType::Put(v) => format!("p{}", show_scalar(v)),
        legacy::OpType::MarkBegin(m) => format!("mb{}.{}.{}", hex::encode(m.name.as_bytes()), if m.expand { 1 } else { 0 }, show_scalar(&m.value)),
        legacy::OpType::MarkEnd(e) => format!("me{}", if *e { 1 } else { 0 }),
    };
    let preds: Vec<String> = op.pred.iter().map(show_legacy_id).collect();
    format!("{}/{}/{}/{}/{}/{}", show_legacy_id(id), obj, key, if op.insert { 1 } else { 0 }, act,
        if preds.is_empty() { "-".to_string() } else { preds.join(",") })
}

/// `crdt.def` line for a change
pub fn def_line(c: &Change) -> String {
    let e: ExpandedChange = c.decode();
    let mut ops = vec![];
    for (i, op) in e.operations.iter().enumerate() {
        let id = legacy::OpId(e.start_op.get() + i as u64, e.actor_id.clone());
        ops.push(show_op(op, &id));
    }
    let deps: Vec<String> = c.deps().iter().map(|h| hex::encode(h.0)).collect();
    format!("crdt.def {} {} {} {} {} {} {}", hex::encode(c.hash().0), show_actor(c.actor_id()), c.seq(), c.start_op(),
        if deps.is_empty() { "-".to_string() } else { deps.join(",") },
        if ops.is_empty() { "-".to_string() } else { ops.join(";") }, hx(c.raw_bytes()))
}

fn show_value(doc: &AutoCommit, v: &Value<'_>, id: &ObjId, heads: Option<&[ChangeHash]>, enc: TextEncoding, depth: usize) -> String {
    match v {
        Value::Scalar(s) => show_scalar(s),
        Value::Object(t) => show_obj(doc, id, *t, heads, enc, depth + 1),
    }
}

fn show_reg(doc: &AutoCommit, vals: Vec<(Value<'_>, ObjId)>, heads: Option<&[ChangeHash]>, enc: TextEncoding, depth: usize) -> String {
    // canonical: ascending id (get_all returns ascending; sort defensively by (ctr, actor bytes))
    let mut items: Vec<(u64, Vec<u8>, String)> = vals.iter().map(|(v, id)| {
        let (c, a) = match id { ObjId::Id(c, a, _) => (*c, a.to_bytes().to_vec()), ObjId::Root => (0, vec![]) };
        (c, a, format!("{}:{}", show_exid(id), show_value(doc, v, id, heads, enc, depth)))
    }).collect();
    items.sort_by(|a, b| (a.0, &a.1).cmp(&(b.0, &b.1)));
    items.into_iter().map(|x| x.2).collect::<Vec<_>>().join("|")
}

pub fn show_obj(doc: &AutoCommit, obj: &ObjId, ty: ObjType, heads: Option<&[ChangeHash]>, enc: TextEncoding, depth: usize) -> String {
    if depth > 200 { return "?".into(); }
    match ty {
        ObjType::Map | ObjType::Table => {
            let keys: Vec<String> = match heads { Some(h) => doc.keys_at(obj, h).collect(), None => doc.keys(obj).collect() };
            let mut ks = keys; ks.sort_by(|a, b| a.as_bytes().cmp(b.as_bytes()));
            let parts: Vec<String> = ks.iter().map(|k| {
                let vals = match heads { Some(h) => doc.get_all_at(obj, k.as_str(), h), None => doc.get_all(obj, k.as_str()) }.unwrap_or_default();
                format!("{}={}", hex::encode(k.as_bytes()), show_reg(doc, vals, heads, enc, depth))
            }).collect();
            format!("{}{{{}}}", if ty == ObjType::Map { "M" } else { "B" }, parts.join(";"))
        }
        ObjType::List | ObjType::Text => {
            let len = match heads { Some(h) => doc.length_at(obj, h), None => doc.length(obj) };
            let mut parts = vec![];
            let mut i = 0usize;
            while i < len {
                let vals = match heads { Some(h) => doc.get_all_at(obj, i, h), None => doc.get_all(obj, i) }.unwrap_or_default();
                let mut w = 1;
                if ty == ObjType::Text {
                    // the element's width is that of its winning value (last of get_all)
                    if let Some((v, _)) = vals.last() {
                        w = match v { Value::Scalar(s) => match s.as_ref() { ScalarValue::Str(s) => width(enc, s), _ => width(enc, "\u{fffc}") }, _ => width(enc, "\u{fffc}") };
                    }
                    if w == 0 { w = 1; }
                }
                parts.push(show_reg(doc, vals, heads, enc, depth));
                i += w;
            }
            format!("{}[{}]", if ty == ObjType::List { "L" } else { "T" }, parts.join(";"))
        }
    }
}

pub fn show_doc(doc: &AutoCommit, heads: Option<&[ChangeHash]>, enc: TextEncoding) -> String {
    show_obj(doc, &ROOT, ObjType::Map, heads, enc, 0)
}

pub fn state_digest(d: &AutoCommit, enc: TextEncoding) -> String {
    use sha2::Digest;
    let mut d2 = d.clone();
    let text = format!("{} {}", show_doc(d, None, enc), show_hashes(&d2.get_heads()));
    hex::encode(&sha2::Sha256::digest(text.as_bytes())[..8])
}

fn show_hashes(hs: &[ChangeHash]) -> String {
    if hs.is_empty() { return "-".into(); }
    let mut v: Vec<String> = hs.iter().map(|h| hex::encode(h.0)).collect();
    v.sort();
    v.join(",")
}
fn parse_hashes(s: &str) -> Vec<ChangeHash> {
    if s == "-" { return vec![]; }
    s.split(',').map(|h| ChangeHash::try_from(unhx(h).as_slice()).unwrap()).collect()
}

fn summary(d: &mut AutoCommit) -> String {
    let heads = d.get_heads();
    let missing = d.get_missing_deps(&[]);
    let n = d.get_changes(&[]).len();
    format!("heads={} missing={} applied={}", show_hashes(&heads), show_hashes(&missing), n)
}

fn res_str<T>(r: &Result<T, automerge::AutomergeError>) -> String {
    match r {
        Ok(_) => "ok".into(),
        Err(automerge::AutomergeError::DuplicateSeqNumber(s, a)) => format!("err dupseq {} {}", s, show_actor(a)),
        Err(e) => format!("err {}", err_class(e)),
    }
}
pub fn err_class(e: &automerge::AutomergeError) -> &'static str {
    use automerge::AutomergeError as E;
    match e {
        E::InvalidIndex(_) => "index",
        E::InvalidObjId(_) | E::InvalidObjIdFormat(_) | E::NotAnObject => "objid",
        E::InvalidOp(_) => "invalidop",
        E::MissingCounter => "missingcounter",
        E::DuplicateSeqNumber(..) => "dupseq",
        _ => "other",
    }
}

fn prop_of(s: &str) -> automerge::Prop {
    if let Some(k) = s.strip_prefix('m') { automerge::Prop::Map(String::from_utf8(unhx(if k.is_empty() { "-" } else { k })).unwrap()) }
    else if let Some(i) = s.strip_prefix('i') { automerge::Prop::Seq(i.parse().unwrap()) }
    else { panic!("prop") }
}

pub fn exec(s: &mut CrdtSession, toks: &[&str]) -> Vec<String> {
    let enc = s.enc.unwrap_or(TextEncoding::UnicodeCodePoint);
    const EDITS: [&str; 7] = ["crdt.put", "crdt.putobj", "crdt.ins", "crdt.insobj", "crdt.del", "crdt.inc", "crdt.splice"];
    if EDITS.contains(&toks[0]) {
        // C28 snapshot: the saved bytes of the document before its transaction opens
        if let Some(d) = s.replicas.get_mut(toks[1]) {
            if d.pending_ops() == 0 && !s.tx_snapshots.contains_key(toks[1]) {
                let snap = d.clone().save();
                s.tx_snapshots.insert(toks[1].to_string(), snap);
                let st = format!("{} keys={:?} marks={}", show_doc(d, None, enc), d.keys(ROOT).collect::<Vec<_>>(), marks_digest(d));
                s.tx_state_snapshots.insert(toks[1].to_string(), st);
            }
        }
        // C03 direct oracle: a call that returns an error changes nothing
        let before = s.replicas.get(toks[1]).map(|d| (show_doc(d, None, enc), d.pending_ops()));
        let len_before = s.replicas.get(toks[1]).map(|d| d.length(parse_exid(toks[2]))).unwrap_or(0);
        let mut res = exec_inner(s, toks, enc);
        // C03 direct oracles: the documented sequential effect, read back through the public API
        if res.get(0).map(|x| x.starts_with("ok")).unwrap_or(false) {
            if let Some(d) = s.replicas.get(toks[1]) {
                let obj = parse_exid(toks[2]);
                let oty = d.object_type(&obj).ok();
                let scalar_eq = |got: &Value<'_>, want: &ScalarValue| -> bool {
                    match got { Value::Scalar(g) => show_scalar(g.as_ref()) == show_scalar(want), _ => false }
                };
                match toks[0] {
                    "crdt.put" => {
                        let want = parse_scalar(toks[4]);
                        let all = d.get_all(&obj, prop_of(toks[3])).unwrap_or_default();
                        if !(all.len() == 1 && scalar_eq(&all[0].0, &want)) {
                            res.push(format!("! C03 sig=put-postcondition after put({}, {}, {}) the register holds {} value(s) and not exactly the value put", toks[2], toks[3], toks[4], all.len()));
                        }
                    }
                    "crdt.putobj" => {
                        let all = d.get_all(&obj, prop_of(toks[3])).unwrap_or_default();
                        let ok = all.len() == 1 && matches!(all[0].0, Value::Object(t) if t == parse_objtype(toks[4])) && d.length(&all[0].1) == 0;
                        if !ok { res.push(format!("! C03 sig=put_object-postcondition after put_object({}, {}) the register does not hold exactly one new empty {} object", toks[2], toks[3], toks[4])); }
                    }
                    "crdt.ins" if oty == Some(ObjType::List) => {
                        let idx: usize = toks[3].parse().unwrap();
                        let want = parse_scalar(toks[4]);
                        let all = d.get_all(&obj, idx).unwrap_or_default();
                        if d.length(&obj) != len_before + 1 || !(all.len() == 1 && scalar_eq(&all[0].0, &want)) {
                            res.push(format!("! C03 sig=insert-postcondition after insert({}, {}, {}) length went {} -> {} / the element at the index is not the inserted value", toks[2], toks[3], toks[4], len_before, d.length(&obj)));
                        }
                    }
                    "crdt.del" if toks[3].starts_with('m') && matches!(oty, Some(ObjType::Map)) => {
                        if !d.get_all(&obj, prop_of(toks[3])).unwrap_or_default().is_empty() { res.push(format!("! C03 sig=delete-postcondition after delete({}, {}) the key still has a value", toks[2], toks[3])); }
                    }
                    "crdt.del" if toks[3].starts_with('i') && oty == Some(ObjType::List) => {
                        if d.length(&obj) + 1 != len_before { res.push(format!("! C03 sig=delete-postcondition after delete({}, {}) the list length went {} -> {}", toks[2], toks[3], len_before, d.length(&obj))); }
                    }
                    _ => {}
                }
            }
        }
        if res.get(0).map(|x| x.starts_with("err")).unwrap_or(false) {
            let after = s.replicas.get(toks[1]).map(|d| (show_doc(d, None, enc), d.pending_ops()));
            if before != after { res.push(format!("! C03 sig=error-changed-state {} returned {} but changed the document or its pending ops", toks[0], res[0])); }
        }
        return res;
    }
    // C28 / C06 snapshot also when a transaction opens with a block edit (split_block / join_block)
    if toks[0] == "crdt.rt.block" || toks[0] == "crdt.rt.join" {
        if let Some(d) = s.replicas.get_mut(toks[1]) {
            if d.pending_ops() == 0 && !s.tx_snapshots.contains_key(toks[1]) {
                let snap = d.clone().save();
                s.tx_snapshots.insert(toks[1].to_string(), snap);
                let st = format!("{} keys={:?} marks={}", show_doc(d, None, enc), d.keys(ROOT).collect::<Vec<_>>(), marks_digest(d));
                s.tx_state_snapshots.insert(toks[1].to_string(), st);
            }
        }
    }
    exec_inner(s, toks, enc)
}

fn exec_inner(s: &mut CrdtSession, toks: &[&str], enc: TextEncoding) -> Vec<String> {
    match toks[0] {
        "crdt.def" => {
            // crdt.def hash actor seq startop deps ops raw : register the change (from its raw bytes)
            let raw = unhx(toks[7]);
            match Change::from_bytes(raw) {
                Ok(c) => {
                    let mut res = vec!["ok".to_string()];
                    let line = def_line(&c);
                    if line != toks.join(" ") { res.push(format!("! C18 change decoded from its raw bytes differs from the change as created: {}", &line[..line.len().min(200)])); }
                    s.changes.insert(toks[1].to_string(), c);
                    res
                }
                Err(_) => vec!["err".into()],
            }
        }
        "crdt.new" => {
            let e = parse_enc(toks[2]);
            s.enc = Some(e);
            let d = AutoCommit::new_with_encoding(e).with_actor(ActorId::from(unhx(toks[3])));
            if s.replicas.values().any(|x| x.get_actor().to_bytes() == unhx(toks[3]).as_slice()) { s.shared_actor = true; }
            s.replicas.insert(toks[1].to_string(), d);
            s.offered.insert(toks[1].to_string(), Default::default());
            vec!["ok".into()]
        }
        "crdt.fork" => {
            if s.replicas.values().any(|x| x.get_actor().to_bytes() == unhx(toks[3]).as_slice()) { s.shared_actor = true; }
            let f = s.replicas.get_mut(toks[1]).unwrap().fork().with_actor(ActorId::from(unhx(toks[3])));
            s.replicas.insert(toks[2].to_string(), f);
            let o = s.offered.get(toks[1]).cloned().unwrap_or_default();
            s.offered.insert(toks[2].to_string(), o);
            vec!["ok".into()]
        }
        "crdt.apply" => {
            let cs: Vec<Change> = if toks[2] == "-" { vec![] } else { toks[2].split(',').map(|h| s.changes.get(h).expect("unknown change").clone()).collect() };
            if toks[2] != "-" { for h in toks[2].split(',') { s.offered.entry(toks[1].to_string()).or_default().insert(h.to_string()); } }
            let d = s.replicas.get_mut(toks[1]).unwrap();
            let before = (show_doc(d, None, enc), d.get_heads(), d.get_missing_deps(&[]), d.clone().save());
            let r = d.apply_changes(cs);
            let mut res = vec![format!("{} {}", res_str(&r), summary(d))];
            if r.is_err() {
                // C06 direct oracle: a failed call leaves heads, state and pending queue unchanged
                let after = (show_doc(d, None, enc), d.get_heads(), d.get_missing_deps(&[]), d.clone().save());
                if before.0 != after.0 || before.1 != after.1 {
                    res.push("! C06 sig=apply-error-changed-state apply_changes returned an error but changed heads or state".to_string());
                } else if before.2 != after.2 || before.3 != after.3 {
                    res.push(format!("! C06 sig={} apply_changes returned an error but changed the pending queue (get_missing_deps / saved orphans differ)", dupseq_sig(d, &r, "apply-error-changed-queue")));
                }
            }
            res
        }
        "crdt.loadpiece" => {
            let (file, _) = s.files.get(toks[2]).expect("file").clone();
            let (a, b): (usize, usize) = (toks[3].parse().unwrap(), toks[4].parse().unwrap());
            let d = s.replicas.get_mut(toks[1]).unwrap();
            let r = d.load_incremental(&file[a..b]);
            vec![format!("{} {}", match &r { Ok(_) => "ok".to_string(), Err(automerge::AutomergeError::DuplicateSeqNumber(q, a)) => format!("err dupseq {} {}", q, show_actor(a)), Err(_) => "err".to_string() }, summary(d))]
        }
        "crdt.loadinc" => {
            let mut data = vec![];
            if toks[2] != "-" { for h in toks[2].split(',') { data.extend(s.changes.get(h).expect("unknown change").raw_bytes()); s.offered.entry(toks[1].to_string()).or_default().insert(h.to_string()); } }
            let d = s.replicas.get_mut(toks[1]).unwrap();
            let before = (show_doc(d, None, enc), d.get_heads(), d.get_missing_deps(&[]));
            let r = d.load_incremental(&data);
            let mut res = vec![format!("{} {}", match &r { Ok(_) => "ok".to_string(), Err(automerge::AutomergeError::DuplicateSeqNumber(q, a)) => format!("err dupseq {} {}", q, show_actor(a)), Err(_) => "err".to_string() }, summary(d))];
            if r.is_err() {
                let after = (show_doc(d, None, enc), d.get_heads(), d.get_missing_deps(&[]));
                if before.0 != after.0 || before.1 != after.1 { res.push("! C06 sig=loadinc-error-changed-state load_incremental returned an error but changed heads or state".to_string()); }
                else if before.2 != after.2 { res.push(format!("! C06 sig={} load_incremental returned an error but changed the pending queue", dupseq_sig(d, &r, "loadinc-error-changed-queue"))); }
            }
            res
        }
        // crdt.expect r <offered hashes> : C05 direct oracle, computed from the changes' own deps:
        // applied = largest dependency-closed subset of what was offered; missing deps = deps of the
        // held changes that were never offered
        "crdt.expect" => {
            if s.shared_actor { return vec!["ok".to_string()]; }
            let offered: Vec<String> = s.offered.get(toks[1]).map(|x| x.iter().cloned().collect()).unwrap_or_default();
            let mut applied: std::collections::BTreeSet<String> = Default::default();
            loop {
                let mut grew = false;
                for h in &offered {
                    if applied.contains(h) { continue; }
                    let c = s.changes.get(h).expect("unknown change");
                    if c.deps().iter().all(|d| applied.contains(&hex::encode(d.0))) { applied.insert(h.clone()); grew = true; }
                }
                if !grew { break; }
            }
            let mut missing: std::collections::BTreeSet<String> = Default::default();
            for h in &offered {
                if applied.contains(h) { continue; }
                for d in s.changes.get(h).unwrap().deps() { let dh = hex::encode(d.0); if !offered.contains(&dh) { missing.insert(dh); } }
            }
            let d = s.replicas.get_mut(toks[1]).unwrap();
            let have: std::collections::BTreeSet<String> = d.get_changes(&[]).iter().map(|c| hex::encode(c.hash().0)).collect();
            let miss: std::collections::BTreeSet<String> = d.get_missing_deps(&[]).iter().map(|h| hex::encode(h.0)).collect();
            let mut res = vec!["ok".to_string()];
            if have != applied {
                let lost: Vec<&String> = applied.difference(&have).collect();
                let early: Vec<&String> = have.difference(&applied).collect();
                res.push(format!("! C05 sig=held-back-mismatch replica {} applied {} changes, expected {} (causally ready among the {} offered); not applied although ready: {:?}; applied although not ready/offered: {:?}", toks[1], have.len(), applied.len(), offered.len(), lost.iter().take(2).collect::<Vec<_>>(), early.iter().take(2).collect::<Vec<_>>()));
            }
            if miss != missing { res.push(format!("! C05 sig=missing-deps-mismatch get_missing_deps of replica {} reports {} hashes, expected {}", toks[1], miss.len(), missing.len())); }
            res
        }
        "crdt.local" => {
            s.offered.entry(toks[1].to_string()).or_default().insert(toks[2].to_string());
            let d = s.replicas.get_mut(toks[1]).unwrap();
            let hh = ChangeHash::try_from(unhx(toks[2]).as_slice()).unwrap();
            let mut res = vec![format!("ok {}", summary(d))];
            if d.get_change_by_hash(&hh).is_none() { res.push(format!("! C10 sig=replay-hash replayed local change {} is not in the document", toks[2])); }
            res
        }
        "crdt.state" => {
            let d = s.replicas.get_mut(toks[1]).unwrap();
            vec![show_doc(d, None, enc)]
        }
        "crdt.state_at" => {
            let hs = parse_hashes(toks[2]);
            let d = s.replicas.get_mut(toks[1]).unwrap();
            let st = show_doc(d, Some(&hs), enc);
            let mut res = vec![st.clone()];
            // C07 direct oracle: the same read on a document containing exactly those heads' ancestors
            match d.fork_at(&hs) {
                Ok(mut f) => {
                    let fs = show_doc(&f, None, enc);
                    if fs != st { res.push(format!("! C07 sig=at-vs-fork state at heads differs from fork_at(heads) state")); }
                    // the range iterators at heads against the same iterators on the fork (values incl. counter totals)
                    let mut objs: Vec<(String, ObjType)> = vec![("_".into(), ObjType::Map)];
                    collect_objs(&f, &ROOT, ObjType::Map, &mut objs, 0);
                    for (o, ty) in objs.iter().take(12) {
                        let id = parse_exid(o);
                        let (a, b): (Vec<String>, Vec<String>) = match ty {
                            ObjType::Map | ObjType::Table => (
                                d.map_range_at(&id, .., &hs).map(|it| { let v: Value<'static> = it.value.clone().into(); format!("{}={}", it.key, match &v { Value::Scalar(x) => show_scalar(x), Value::Object(t) => format!("{:?}", t) }) }).collect(),
                                f.map_range(&id, ..).map(|it| { let v: Value<'static> = it.value.clone().into(); format!("{}={}", it.key, match &v { Value::Scalar(x) => show_scalar(x), Value::Object(t) => format!("{:?}", t) }) }).collect()),
                            ObjType::List => (
                                d.list_range_at(&id, .., &hs).map(|it| { let v: Value<'static> = it.value.clone().into(); format!("{}={}", it.index, match &v { Value::Scalar(x) => show_scalar(x), Value::Object(t) => format!("{:?}", t) }) }).collect(),
                                f.list_range(&id, ..).map(|it| { let v: Value<'static> = it.value.clone().into(); format!("{}={}", it.index, match &v { Value::Scalar(x) => show_scalar(x), Value::Object(t) => format!("{:?}", t) }) }).collect()),
                            ObjType::Text => (vec![], vec![]),
                        };
                        if a != b { res.push(format!("! C07 sig=range-at-vs-fork map_range_at / list_range_at of {} at heads gives [{}] but the same range on fork_at(heads) gives [{}]", o, a.join(","), b.join(","))); break; }
                    }
                    let mut fh = f.get_heads(); fh.sort();
                    let mut want = hs.clone(); want.sort(); want.dedup();
                    if fh != want { res.push("! C07 sig=fork-heads fork_at(heads) does not have the given heads".to_string()); }
                }
                Err(_) => res.push("! C07 sig=fork-failed fork_at failed for heads of the document's history".to_string()),
            }
            res
        }
        // crdt.changes r <have|->: get_changes(have): sorted hashes; C10 oracles on bytes / order / hash
        "crdt.changes" => {
            use sha2::Digest;
            let have = parse_hashes(toks[2]);
            let d = s.replicas.get_mut(toks[1]).unwrap();
            let cs = d.get_changes(&have);
            let mut res = vec![];
            let mut seen: Vec<ChangeHash> = vec![];
            let all_before: std::collections::BTreeSet<ChangeHash> = d.get_changes(&[]).iter().map(|c| c.hash()).collect();
            for c in &cs {
                let hh = hex::encode(c.hash().0);
                match s.changes.get(&hh) {
                    Some(orig) => if orig.raw_bytes() != c.raw_bytes() { res.push(format!("! C10 sig=bytes-differ change {} retrieved with different bytes than created", hh)); },
                    None => res.push(format!("! C10 sig=unknown-change get_changes returned unknown change {}", hh)),
                }
                // hash = SHA-256 of the chunk contents (type byte, length, body)
                let raw = c.raw_bytes();
                let cb = chunk_bounds(raw);
                if cb.len() != 1 || cb[0].1 != c.hash().0.to_vec() { res.push(format!("! C10 sig=hash change {} hash is not the SHA-256 of its chunk", hh)); }
                let _ = sha2::Sha256::new();
                for dep in c.deps() {
                    if all_before.contains(dep) && !seen.contains(dep) && cs.iter().any(|x| x.hash() == *dep) {
                        res.push(format!("! C10 sig=order change {} returned before its dependency", hh));
                    }
                }
                seen.push(c.hash());
                match d.get_change_by_hash(&c.hash()) {
                    Some(x) => if x.raw_bytes() != c.raw_bytes() { res.push(format!("! C10 sig=by-hash get_change_by_hash({}) differs", hh)); },
                    None => res.push(format!("! C10 sig=by-hash get_change_by_hash({}) is None", hh)),
                }
            }
            let hs: Vec<ChangeHash> = cs.iter().map(|c| c.hash()).collect();
            // exactly the applied changes that are not ancestors of (or equal to) an applied hash in `have`;
            // the ancestor closure is computed here from the deps of the changes as they were created
            {
                let mut anc: std::collections::BTreeSet<ChangeHash> = Default::default();
                let mut stack: Vec<ChangeHash> = have.iter().filter(|h| all_before.contains(*h)).cloned().collect();
                while let Some(h) = stack.pop() {
                    if !anc.insert(h) { continue; }
                    if let Some(c) = s.changes.get(&hex::encode(h.0)) { stack.extend(c.deps().iter().cloned()); }
                }
                let want: std::collections::BTreeSet<ChangeHash> = all_before.difference(&anc).cloned().collect();
                let got: std::collections::BTreeSet<ChangeHash> = hs.iter().cloned().collect();
                if got.len() != hs.len() { res.push("! C10 sig=duplicate get_changes returned a change twice".to_string()); }
                if got != want {
                    let extra = got.difference(&want).count();
                    let lacking = want.difference(&got).count();
                    res.push(format!("! C10 sig=not-exactly-non-ancestors get_changes(have) returned {} change(s) that are ancestors of have and omitted {} that are not", extra, lacking));
                }
            }
            res.insert(0, format!("ok {}", show_hashes(&hs)));
            res
        }
        // crdt.saveload r r2 <deflate 0|1>: r2 := load(save(r)); C11 oracles
        "crdt.saveload" => {
            let d = s.replicas.get_mut(toks[1]).unwrap();
            let deflate = toks[3] == "1";
            let bytes = d.save_with_options(automerge::SaveOptions { deflate, retain_orphans: true });
            let mut res = vec![];
            match AutoCommit::load_with_options(&bytes, automerge::LoadOptions::new().text_encoding(enc)) {
                Ok(mut l) => {
                    let actor = d.get_actor().clone();
                    if show_doc(&l, None, enc) != show_doc(d, None, enc) { res.push("! C11 sig=state loaded document shows a different state".to_string()); }
                    if l.get_heads() != d.get_heads() { res.push("! C11 sig=heads loaded document has different heads".to_string()); }
                    if l.get_missing_deps(&[]) != d.get_missing_deps(&[]) { res.push("! C11 sig=orphans loaded document has different pending changes".to_string()); }
                    let a: Vec<Vec<u8>> = d.get_changes(&[]).iter().map(|c| c.raw_bytes().to_vec()).collect();
                    let b: Vec<Vec<u8>> = l.get_changes(&[]).iter().map(|c| c.raw_bytes().to_vec()).collect();
                    let (mut a2, mut b2) = (a.clone(), b.clone()); a2.sort(); b2.sort();
                    if a2 != b2 { res.push("! C11 sig=change-bytes loaded document returns different change bytes".to_string()); }
                    let again = l.save_with_options(automerge::SaveOptions { deflate, retain_orphans: true });
                    if again != bytes { res.push("! C11 sig=resave saving the loaded document gives different bytes".to_string()); }
                    res.insert(0, format!("ok {}", summary(&mut l)));
                    s.replicas.insert(toks[2].to_string(), l.with_actor(actor));
                    let o = s.offered.get(toks[1]).cloned().unwrap_or_default();
                    s.offered.insert(toks[2].to_string(), o);
                }
                Err(e) => {
                    res.push("err".to_string());
                    res.push(format!("! C11 sig=load-failed load(save(doc)) failed: {}", e));
                    // C06 last sentence / C38: no sequence of calls leaves an unsaveable document
                    res.push(format!("! C06 sig=unsaveable-document load(save(doc)) failed: {}", e));
                    if matches!(e, automerge::AutomergeError::DuplicateSeqNumber(..)) {
                        res.push(format!("! C38 sig=duplicate-seq-in-save the saved document holds two changes with one (actor, seq): {}", e));
                    }
                }
            }
            res
        }
        // ----- storage -----
        "crdt.file" => {
            // crdt.file f <hex> <boundary:digest,…> : digest = sha256 of the writer's state text at that boundary
            let exp: Vec<(usize, String)> = if toks.len() > 3 && toks[3] != "-" {
                toks[3].split(',').map(|x| { let (b, d) = x.split_once(':').unwrap(); (b.parse().unwrap(), d.to_string()) }).collect()
            } else { vec![] };
            s.files.insert(toks[1].to_string(), (unhx(toks[2]), exp));
            vec!["ok".into()]
        }
        "crdt.docchunk" => vec!["ok".into()],
        "crdt.loadcut" | "crdt.loadflip" => {
            let (file, exp) = s.files.get(toks[3]).expect("file").clone();
            let strict = toks[2] == "error";
            let n: usize = toks[4].parse().unwrap();
            let data: Vec<u8> = if toks[0] == "crdt.loadcut" { file[..n.min(file.len())].to_vec() } else {
                let mut d = file.clone(); if n / 8 < d.len() { d[n / 8] ^= 1 << (n % 8); } d };
            let opts = automerge::LoadOptions::new()
                .on_partial_load(if strict { automerge::OnPartialLoad::Error } else { automerge::OnPartialLoad::Ignore })
                .text_encoding(enc);
            let pid = if toks[0] == "crdt.loadcut" { "C13" } else { "C14" };
            match AutoCommit::load_with_options(&data, opts) {
                Ok(mut d) => {
                    let mut res = vec![format!("ok {}", summary(&mut d))];
                    let digest = state_digest(&d, enc);
                    if toks[0] == "crdt.loadcut" {
                        // C13 direct oracle: the document as of the last chunk fully inside the cut
                        let at = exp.iter().filter(|(b, _)| *b <= n).last();
                        match at {
                            Some((b, dg)) => {
                                if *dg != digest { res.push(format!("! C13 sig=wrong-doc cut {} of {} loaded a document different from the writer's at boundary {}", n, file.len(), b)); }
                                if strict && *b != n { res.push(format!("! C13 sig=strict-accepts strict load accepted a cut at {} which is not a chunk boundary", n)); }
                            }
                            None => if n != 0 { res.push(format!("! C13 sig=first-chunk cut {} inside the first chunk loaded successfully", n)); },
                        }
                    } else {
                        let full = exp.last().map(|x| x.1.clone()).unwrap_or_default();
                        if digest != full { res.push(format!("! C14 sig=different-doc bit {} flipped: load succeeded with a DIFFERENT document", n)); }
                        else {
                            // D12: a flipped DEFLATE padding / don't-care bit inside a COMPRESSED change chunk inflates to the same bytes
                            let in_compressed = chunk_bounds(&file).iter().any(|(ty, _, st, en)| *ty == 2 && n / 8 >= *st && n / 8 < *en);
                            res.push(format!("! C14 sig={} bit {} flipped: load succeeded (equal document)", if in_compressed { "accepted-equal-compressed-chunk" } else { "accepted-equal" }, n));
                        }
                    }
                    s.replicas.insert(toks[1].to_string(), d);
                    res
                }
                Err(_) => {
                    let mut res = vec!["err".to_string()];
                    if toks[0] == "crdt.loadcut" {
                        let on_boundary = exp.iter().any(|(b, _)| *b == n) || n == 0;
                        let has_first = exp.first().map(|(b, _)| *b <= n).unwrap_or(false) || n == 0;
                        if strict && on_boundary { res.push(format!("! C13 sig=strict-rejects strict load rejected a cut at chunk boundary {}", n)); }
                        if !strict && has_first { res.push(format!("! C13 sig=partial-rejects partial load rejected cut {} although the first chunk is complete", n)); }
                    }
                    res
                }
            }
        }
        // ----- local edits -----
        "crdt.put" => {
            let d = s.replicas.get_mut(toks[1]).unwrap();
            let r = d.put(parse_exid(toks[2]), prop_of(toks[3]), parse_scalar(toks[4]));
            vec![res_str(&r)]
        }
        "crdt.putobj" => {
            let d = s.replicas.get_mut(toks[1]).unwrap();
            match d.put_object(parse_exid(toks[2]), prop_of(toks[3]), parse_objtype(toks[4])) {
                Ok(id) => vec![format!("ok {}", show_exid(&id))],
                Err(e) => vec![format!("err {}", err_class(&e))],
            }
        }
        "crdt.ins" => {
            let d = s.replicas.get_mut(toks[1]).unwrap();
            let r = d.insert(parse_exid(toks[2]), toks[3].parse::<usize>().unwrap(), parse_scalar(toks[4]));
            vec![res_str(&r)]
        }
        "crdt.insobj" => {
            let d = s.replicas.get_mut(toks[1]).unwrap();
            match d.insert_object(parse_exid(toks[2]), toks[3].parse::<usize>().unwrap(), parse_objtype(toks[4])) {
                Ok(id) => vec![format!("ok {}", show_exid(&id))],
                Err(e) => vec![format!("err {}", err_class(&e))],
            }
        }
        "crdt.del" => {
            let d = s.replicas.get_mut(toks[1]).unwrap();
            let r = d.delete(parse_exid(toks[2]), prop_of(toks[3]));
            vec![res_str(&r)]
        }
        "crdt.inc" => {
            let d = s.replicas.get_mut(toks[1]).unwrap();
            let r = d.increment(parse_exid(toks[2]), prop_of(toks[3]), toks[4].parse::<i64>().unwrap());
            vec![res_str(&r)]
        }
        "crdt.splice" => {
            let d = s.replicas.get_mut(toks[1]).unwrap();
            let text = String::from_utf8(unhx(toks[5])).unwrap();
            let (pos, del) = (toks[3].parse::<usize>().unwrap(), toks[4].parse::<isize>().unwrap());
            let is_text = matches!(d.object_type(parse_exid(toks[2])), Ok(ObjType::Text));
            let r = d.splice_text(parse_exid(toks[2]), pos, del, &text);
            let mut res = vec![res_str(&r)];
            // C03 direct oracle: a backwards delete that reaches before the start of the text is an invalid call
            if is_text && del < 0 && del.unsigned_abs() > pos && r.is_ok() {
                res.push(format!("! C03 sig=negative-del-before-start splice_text({}, {}) deletes before the start of the text but returned Ok", pos, del));
            }
            res
        }
        "crdt.rollback" => {
            let d = s.replicas.get_mut(toks[1]).unwrap();
            let n = d.rollback();
            let mut res = vec![format!("{}", n)];
            // C28 direct oracle: the visible state (all conflict sets, key lists) equals the state before the transaction
            if let Some(before) = s.tx_state_snapshots.remove(toks[1]) {
                let now = format!("{} keys={:?} marks={}", show_doc(d, None, enc), d.keys(ROOT).collect::<Vec<_>>(), marks_digest(d));
                if now != before { res.push("! C28 sig=state-differs the visible state after rollback differs from the state before the transaction".to_string()); }
            }
            // C28 direct oracle: saved bytes equal those before the transaction, and the next change is
            // byte-identical to the one an untouched copy (reloaded from the snapshot) produces
            if let Some(snap) = s.tx_snapshots.remove(toks[1]) {
                let now = d.clone().save();
                if now != snap { res.push("! C28 sig=save-differs save() after rollback differs from save() before the transaction".to_string()); }
                let actor = d.get_actor().clone();
                if let Ok(fresh) = AutoCommit::load_with_options(&snap, automerge::LoadOptions::new().text_encoding(enc)) {
                    let mut fresh = fresh.with_actor(actor);
                    // an isolated replica keeps working at its isolation heads: put the reference in the same mode
                    if let Some(hs) = s.iso_snap.get(toks[1]) { fresh.isolate(hs); }
                    let mut probe = d.clone();
                    let a = fresh.put(ROOT, "__probe", 1i64).and_then(|_| Ok(fresh.commit_with(automerge::transaction::CommitOptions::default().with_time(0))));
                    let b = probe.put(ROOT, "__probe", 1i64).and_then(|_| Ok(probe.commit_with(automerge::transaction::CommitOptions::default().with_time(0))));
                    let ca = fresh.get_last_local_change().map(|c| c.raw_bytes().to_vec());
                    let cb = probe.get_last_local_change().map(|c| c.raw_bytes().to_vec());
                    if a.is_ok() != b.is_ok() || ca != cb { res.push("! C28 sig=next-change-differs the change made after rollback differs from the one an untouched document makes".to_string()); }
                }
            }
            res
        }
        "crdt.commit" => {
            s.tx_snapshots.remove(toks[1]);
            s.tx_state_snapshots.remove(toks[1]);
            let d = s.replicas.get_mut(toks[1]).unwrap();
            let h = d.commit_with(automerge::transaction::CommitOptions::default().with_time(0));
            let isolated = s.iso_snap.contains_key(toks[1]);
            let orc = h.and_then(|h| own_previous_change_oracle(d, &h, isolated));
            // an isolated replica continues from its own commit
            if let (Some(h), true) = (h, isolated) { s.iso_snap.insert(toks[1].to_string(), vec![h]); }
            match h { Some(h) => { let mut v = vec!["ok".to_string(), format!("#hash {}", hex::encode(h.0))]; v.extend(orc); v } None => vec!["none".to_string()] }
        }
        // an EMPTY local change (`AutoCommit::empty_change`, the "merge commit"): it claims the next (actor, seq)
        // of the replica's actor exactly like a commit with ops, through `TransactionInner::empty` → `commit_impl`
        "crdt.emptycommit" => {
            let d = s.replicas.get_mut(toks[1]).unwrap();
            if d.pending_ops() > 0 || s.iso_snap.contains_key(toks[1]) { return vec!["bad-input".into()]; }
            let h = d.empty_change(automerge::transaction::CommitOptions::default().with_time(0));
            let mut v = vec!["ok".to_string(), format!("#hash {}", hex::encode(h.0))];
            v.extend(own_previous_change_oracle(d, &h, false));
            v
        }
        // extension engines sharing this session's replicas (each in its own file)
        #[cfg(feature = "e_richtext")]
        c if c.starts_with("crdt.rt.") => super::richtext::exec(s, toks, enc),
        #[cfg(feature = "e_patches")]
        c if c.starts_with("crdt.patch.") => super::patches::exec(s, toks, enc),
        #[cfg(feature = "e_crdtx")]
        c if c.starts_with("crdt.x.") => super::crdtx::exec(s, toks, enc),
        #[cfg(feature = "e_store")]
        c if c.starts_with("crdt.st.") => super::store::exec(s, toks, enc),
        #[cfg(feature = "e_doccodec")]
        c if c.starts_with("crdt.dc.") => super::doccodec::exec(s, toks, enc),
        _ => vec!["unknown-cmd".into()],
    }
}

// ------------------------------------------------------------------ generator

const KEYS: [&str; 6] = ["a", "b", "k", "é", "list", "t"];

struct Gen<'a> { r: &'a mut Rng, objs: Vec<(String, ObjType)> }

fn rand_scalar(r: &mut Rng) -> String {
    match r.below(10) {
        0 => "n".into(),
        1 => format!("b{}", r.below(2)),
        2 => format!("i{}", (r.below(7) as i64) - 3),
        3 => format!("u{}", r.below(5)),
        4 => format!("f{}", (r.below(4) as f64 * 0.5).to_bits()),
        5 | 6 => format!("s{}", hex::encode(["x", "y", "hello", "é", "🙂"][r.below(5) as usize].as_bytes())),
        7 => { let k = r.below(3) as usize; format!("x{}", hex::encode(r.bytes(k))) }
        8 => format!("c{}", r.below(10)),
        _ => format!("t{}", r.below(1000)),
    }
}

/// record every replica's applied set + state, and the direct C01 oracle: equal applied sets ⇒ equal state
fn observe(sess: &mut Session, out: &mut Out, names: &[String]) {
    let mut seen: BTreeMap<String, (String, String)> = BTreeMap::new();
    for n in names {
        let res = exec_line(sess, &format!("crdt.state {}", n), out);
        let d = sess.crdt.replicas.get_mut(n).unwrap();
        // C38 direct oracle: (actor, seq) pairs of the applied changes are pairwise distinct
        let mut pairs: Vec<(Vec<u8>, u64)> = d.get_changes(&[]).iter().map(|c| (c.actor_id().to_bytes().to_vec(), c.seq())).collect();
        let total = pairs.len(); pairs.sort(); pairs.dedup();
        if pairs.len() != total { out.count("oracle_failures"); out.line(&format!("! C38 sig=duplicate-seq-applied replica {} holds two applied changes with the same (actor, seq)", n)); }
        let mut hs: Vec<String> = d.get_changes(&[]).iter().map(|c| hex::encode(c.hash().0)).collect();
        hs.sort();
        let key = hs.join(",");
        if let Some((other, st)) = seen.get(&key) {
            if *st != res[0] {
                out.count("oracle_failures");
                out.line(&format!("! C01 sig=diverged replicas {} and {} hold the same {} changes but show different state", other, n, hs.len()));
            } else { out.count("c01_equal_set_pairs"); }
        } else { seen.insert(key, (n.clone(), res[0].clone())); }
    }
}

/// focused histories: three replicas fight over ONE map key and ONE list element with counters and
/// non-counters, increments naming conflicted registers, deletes; changes travel in batches
pub fn generate_focus(r: &mut Rng, sess: &mut Session, out: &mut Out) {
    out.count("focus_cases");
    let mut actors: Vec<Vec<u8>> = (0..3).map(|i| vec![0x20 + 0x30 * i as u8 + r.below(8) as u8]).collect();
    if r.chance(1, 2) { actors.reverse(); }
    exec_line(sess, &format!("crdt.new r0 cp {}", hex::encode(&actors[0])), out);
    let res = exec_line(sess, "crdt.putobj r0 _ m6c L", out);
    let list = res[0].strip_prefix("ok ").unwrap_or("_").to_string();
    exec_line(sess, &format!("crdt.ins r0 {} 0 c5", list), out);
    exec_line(sess, &format!("crdt.ins r0 {} 1 s78", list), out);
    exec_line(sess, "crdt.put r0 _ m61 c1", out);
    let mut all: Vec<String> = vec![];
    let mut commit = |sess: &mut Session, out: &mut Out, who: &str, all: &mut Vec<String>| {
        let res = exec_line(sess, &format!("crdt.commit {}", who), out);
        if res[0] == "ok" {
            let hh = ChangeHash::try_from(unhx(res[1].strip_prefix("#hash ").unwrap()).as_slice()).unwrap();
            let c = sess.crdt.replicas.get_mut(who).unwrap().get_change_by_hash(&hh).unwrap();
            exec_line(sess, &def_line(&c), out);
            exec_line(sess, &format!("crdt.local {} {}", who, hex::encode(hh.0)), out);
            all.push(hex::encode(hh.0));
        }
    };
    commit(sess, out, "r0", &mut all);
    exec_line(sess, &format!("crdt.fork r0 r1 {}", hex::encode(&actors[1])), out);
    exec_line(sess, &format!("crdt.fork r0 r2 {}", hex::encode(&actors[2])), out);
    let names = ["r0".to_string(), "r1".to_string(), "r2".to_string()];
    let vals = ["c3", "c7", "i4", "s79", "n", "b1"];
    for _round in 0..r.range(3, 7) {
        // every replica makes one or two edits on the contested registers
        for who in names.iter() {
            if r.chance(1, 4) { continue; }
            for _ in 0..r.range(1, 2) {
                let len = sess.crdt.replicas.get(who).unwrap().length(parse_exid(&list)) as u64;
                let line = match r.below(8) {
                    0 | 1 => format!("crdt.put {} _ m61 {}", who, vals[r.below(6) as usize]),
                    2 | 3 if len > 0 => format!("crdt.put {} {} i{} {}", who, list, r.below(len.min(2)), vals[r.below(6) as usize]),
                    4 => format!("crdt.inc {} _ m61 {}", who, r.range(1, 3)),
                    5 if len > 0 => format!("crdt.inc {} {} i{} {}", who, list, r.below(len.min(2)), r.range(1, 3)),
                    6 => if r.chance(1, 2) || len == 0 { format!("crdt.del {} _ m61", who) } else { format!("crdt.del {} {} i{}", who, list, r.below(len)) },
                    _ => format!("crdt.ins {} {} {} {}", who, list, r.below(len + 1), vals[r.below(6) as usize]),
                };
                exec_line(sess, &line, out);
            }
            if r.chance(1, 5) {
                exec_line(sess, &format!("crdt.rollback {}", who), out);
                exec_line(sess, &format!("crdt.state {}", who), out);
                out.count("focus_rollbacks");
                continue;
            }
            commit(sess, out, who, &mut all);
        }
        // batched deliveries: a replica receives a random multi-change subset in ONE call
        for who in names.iter() {
            if all.is_empty() || r.chance(1, 3) { continue; }
            let mut pick: Vec<String> = all.iter().filter(|_| r.chance(2, 3)).cloned().collect();
            for i in (1..pick.len()).rev() { let j = r.below(i as u64 + 1) as usize; pick.swap(i, j); }
            if pick.is_empty() { continue; }
            let via = if r.chance(1, 4) { "crdt.loadinc" } else { "crdt.apply" };
            exec_line(sess, &format!("{} {} {}", via, who, pick.join(",")), out);
            exec_line(sess, &format!("crdt.state {}", who), out);
        }
    }
    let names_v: Vec<String> = names.to_vec();
    for n in names.iter() { exec_line(sess, &format!("crdt.apply {} {}", n, all.join(",")), out); }
    observe(sess, out, &names_v);
    // scripted tail: two replicas put a COUNTER on the contested registers concurrently, a third one merges
    // both and increments (one increment op with several counter predecessors); that history then reaches one
    // replica through save + load and another through apply_changes
    if r.chance(1, 2) {
        out.count("focus_conflicting_counters_incremented");
        let on_list = r.chance(1, 2) && sess.crdt.replicas.get("r1").unwrap().length(parse_exid(&list)) > 0;
        let (obj, prop) = if on_list { (list.clone(), "i0".to_string()) } else { ("_".to_string(), "m61".to_string()) };
        let n0 = all.len();
        exec_line(sess, &format!("crdt.put r1 {} {} c{}", obj, prop, r.range(1, 9)), out);
        commit(sess, out, "r1", &mut all);
        exec_line(sess, &format!("crdt.put r2 {} {} c{}", obj, prop, r.range(10, 90)), out);
        commit(sess, out, "r2", &mut all);
        if r.chance(1, 3) { exec_line(sess, &format!("crdt.inc r2 {} {} 1", obj, prop), out); commit(sess, out, "r2", &mut all); }
        let batch: Vec<String> = all[n0..].to_vec();
        if !batch.is_empty() {
            exec_line(sess, &format!("crdt.apply r0 {}", batch.join(",")), out);
            exec_line(sess, &format!("crdt.inc r0 {} {} {}", obj, prop, r.range(2, 5)), out);
            commit(sess, out, "r0", &mut all);
            exec_line(sess, "crdt.state r0", out);
            exec_line(sess, &format!("crdt.saveload r0 l {}", r.below(2)), out);
            exec_line(sess, "crdt.state l", out);
            exec_line(sess, &format!("crdt.apply r1 {}", all.join(",")), out);
            exec_line(sess, "crdt.state r1", out);
            return;
        }
    }
    exec_line(sess, "crdt.saveload r1 l 0", out);
    exec_line(sess, "crdt.state l", out);
}

/// scripted history for C38 / C05: a stale copy of a replica keeps the SAME actor id and mints (A, n), (A, n+1) on
/// top of another actor's change; those reach the original replica BEFORE their dependency and sit in its queue;
/// the original then claims (A, n) itself — with an ordinary commit or with an EMPTY change (`empty_change`) —
/// which must discard the queued conflicting branch; the missing dependency arrives afterwards
pub fn generate_reuse(r: &mut Rng, sess: &mut Session, out: &mut Out) {
    out.count("reuse_cases");
    let a = hex::encode([0x30 + r.below(0x60) as u8, r.next() as u8]);
    let b = hex::encode([0x20 + r.below(0x80) as u8, r.next() as u8, 7]);
    exec_line(sess, &format!("crdt.new r0 cp {}", a), out);
    let mut ko: Vec<(String, ObjType)> = vec![("_".into(), ObjType::Map)];
    let mut all: Vec<String> = vec![];
    for _ in 0..r.range(1, 3) { local_tx(r, sess, out, "r0", &mut ko, &mut all); }
    exec_line(sess, &format!("crdt.fork r0 r1 {}", a), out);
    exec_line(sess, &format!("crdt.fork r0 r2 {}", b), out);
    let n0 = all.len();
    for _ in 0..r.range(1, 2) { local_tx(r, sess, out, "r2", &mut ko, &mut all); }
    let theirs: Vec<String> = all[n0..].to_vec();
    if theirs.is_empty() { return; }
    exec_line(sess, &format!("crdt.apply r1 {}", theirs.join(",")), out);
    let n1 = all.len();
    for _ in 0..r.range(1, 3) { local_tx(r, sess, out, "r1", &mut ko, &mut all); }
    let stale: Vec<String> = all[n1..].to_vec();
    if stale.is_empty() { return; }
    // the stale branch arrives first (its dependency on actor B is missing): it is queued
    let mut pick = stale.clone();
    if r.chance(1, 2) { pick.reverse(); }
    if r.chance(1, 3) { pick.truncate(1); }
    exec_line(sess, &format!("crdt.apply r0 {}", pick.join(",")), out);
    // r0 claims the same (actor, seq) locally
    if r.chance(2, 3) {
        out.count("reuse_empty_change");
        let res = exec_line(sess, "crdt.emptycommit r0", out);
        if res[0] == "ok" {
            let hh = ChangeHash::try_from(unhx(res[1].strip_prefix("#hash ").unwrap()).as_slice()).unwrap();
            let c = sess.crdt.replicas.get_mut("r0").unwrap().get_change_by_hash(&hh).unwrap();
            exec_line(sess, &def_line(&c), out);
            exec_line(sess, &format!("crdt.local r0 {}", hex::encode(hh.0)), out);
        }
    } else {
        out.count("reuse_commit_with_ops");
        let mut scratch = vec![];
        local_tx(r, sess, out, "r0", &mut ko, &mut scratch);
    }
    exec_line(sess, "crdt.state r0", out);
    // the missing dependency arrives: nothing of the discarded branch may be released
    for h in theirs.iter() { exec_line(sess, &format!("crdt.apply r0 {}", h), out); }
    exec_line(sess, "crdt.state r0", out);
    exec_line(sess, &format!("crdt.saveload r0 l {}", r.below(2)), out);
    exec_line(sess, "crdt.state l", out);
    // and r0 keeps working
    let mut scratch = vec![];
    local_tx(r, sess, out, "r0", &mut ko, &mut scratch);
    exec_line(sess, "crdt.state r0", out);
}

pub fn generate(r: &mut Rng, _opts: &BTreeMap<String, String>, sess: &mut Session, out: &mut Out) {
    if r.chance(1, 3) { return generate_focus(r, sess, out); }
    if r.chance(1, 8) { return generate_reuse(r, sess, out); }
    let encs = ["cp", "utf8", "utf16"];
    let enc = encs[r.below(3) as usize];
    let nrep = r.range(2, 3) as usize;
    // actor ids: new actors sort before existing ones about half the time
    let mut actors: Vec<Vec<u8>> = (0..8).map(|i| vec![0x10 * (8 - i as u8) + r.below(8) as u8, r.next() as u8]).collect();
    if r.chance(1, 2) { actors.reverse(); }
    let mut names: Vec<String> = vec![];
    exec_line(sess, &format!("crdt.new r0 {} {}", enc, hex::encode(&actors[0])), out);
    names.push("r0".into());
    let mut next_actor = 1;
    // objects known per replica are discovered by reading the real doc (ids are global)
    let mut known_objs: Vec<(String, ObjType)> = vec![("_".into(), ObjType::Map)];
    let mut all_changes: Vec<String> = vec![];       // hashes in creation order
    let mut held: BTreeMap<String, Vec<String>> = BTreeMap::new(); // replica -> hashes it has been offered
    let steps = if r.chance(1, 5) { r.range(30, 70) } else { r.range(8, 30) };
    for _ in 0..steps {
        let who = names[r.below(names.len() as u64) as usize].clone();
        // historical read on this replica at one of its own changes (the clock cache and actor-table
        // changes — forks, rolled-back first transactions — are in play mid-history)
        if r.chance(1, 6) {
            let d = sess.crdt.replicas.get_mut(&who).unwrap();
            if d.pending_ops() == 0 {
                let own: Vec<String> = d.get_changes(&[]).iter().map(|c| hex::encode(c.hash().0)).collect();
                if !own.is_empty() { let h = own[r.below(own.len() as u64) as usize].clone(); exec_line(sess, &format!("crdt.state_at {} {}", who, h), out); out.count("mid_history_state_at"); }
                // and retrieval of the changes a peer at some past heads is missing (one hash, or a pair)
                if !own.is_empty() && r.chance(1, 2) {
                    let h = own[r.below(own.len() as u64) as usize].clone();
                    let h2 = own[r.below(own.len() as u64) as usize].clone();
                    let have = if r.chance(1, 2) || h == h2 { h } else { format!("{},{}", h, h2) };
                    exec_line(sess, &format!("crdt.changes {} {}", who, have), out); out.count("mid_history_get_changes");
                }
            }
        }
        match r.below(10) {
            0 if names.len() < nrep => {
                let n = format!("r{}", names.len());
                // 1 in 6 forks keeps the parent's actor id: two replicas then mint conflicting (actor, seq) pairs
                let parent_actor = sess.crdt.replicas.get(&who).unwrap().get_actor().to_bytes().to_vec();
                let a = if r.chance(1, 6) { out.count("fork_same_actor"); parent_actor } else { next_actor += 1; actors[next_actor - 1].clone() };
                exec_line(sess, &format!("crdt.fork {} {} {}", who, n, hex::encode(&a)), out);
                let h = held.get(&who).cloned().unwrap_or_default();
                held.insert(n.clone(), h);
                names.push(n);
            }
            1 | 2 if all_changes.len() > 0 => {
                // deliver a random subset / order of known changes (possibly causally not ready, duplicated)
                let k = r.range(1, 4.min(all_changes.len() as u64)) as usize;
                let mut pick: Vec<String> = (0..k).map(|_| all_changes[r.below(all_changes.len() as u64) as usize].clone()).collect();
                if r.chance(1, 3) { pick.reverse(); }
                let via = if r.chance(1, 3) { out.count("deliver_via_loadinc"); "crdt.loadinc" } else { "crdt.apply" };
                exec_line(sess, &format!("{} {} {}", via, who, pick.join(",")), out);
                out.count("deliver_subset");
            }
            3 if all_changes.len() > 0 => {
                // deliver everything, in random order
                let mut all = all_changes.clone();
                for i in (1..all.len()).rev() { let j = r.below(i as u64 + 1) as usize; all.swap(i, j); }
                exec_line(sess, &format!("crdt.apply {} {}", who, all.join(",")), out);
                out.count("deliver_all_shuffled");
            }
            _ => {
                local_tx(r, sess, out, &who, &mut known_objs, &mut all_changes);
            }
        }
        if r.chance(1, 3) { observe(sess, out, &names); }
        if r.chance(1, 2) { exec_line(sess, &format!("crdt.expect {}", who), out); }
        if r.chance(1, 5) { exec_line(sess, &format!("crdt.saveload {} scratch {}", who, r.below(2)), out); out.count("mid_history_saveload"); }
    }
    // a late joiner: a fresh replica that receives everything one change at a time in random order,
    // through apply_changes and load_incremental alike (it holds changes back from the first delivery on)
    if !all_changes.is_empty() && r.chance(1, 2) {
        let late_actor = hex::encode(r.bytes(3));
        exec_line(sess, &format!("crdt.new late {} {}", enc, late_actor), out);
        names.push("late".into());
        out.count("late_joiner");
        let mut all = all_changes.clone();
        for i in (1..all.len()).rev() { let j = r.below(i as u64 + 1) as usize; all.swap(i, j); }
        for h in all {
            let via = if r.chance(1, 2) { "crdt.loadinc" } else { "crdt.apply" };
            exec_line(sess, &format!("{} late {}", via, h), out);
            if r.chance(1, 2) { exec_line(sess, "crdt.expect late", out); }
        }
    }
    // final: everybody gets everything, in different orders / batchings -> convergence
    for n in names.clone() {
        let mut all = all_changes.clone();
        for i in (1..all.len()).rev() { let j = r.below(i as u64 + 1) as usize; all.swap(i, j); }
        if r.chance(1, 2) {
            for h in all { exec_line(sess, &format!("crdt.apply {} {}", n, h), out); }
        } else if !all.is_empty() {
            exec_line(sess, &format!("crdt.apply {} {}", n, all.join(",")), out);
        }
    }
    observe(sess, out, &names);
    // C10 / C11: retrieval of history and save→load round trip
    if !all_changes.is_empty() {
        let h = all_changes[r.below(all_changes.len() as u64) as usize].clone();
        exec_line(sess, "crdt.changes r0 -", out);
        exec_line(sess, &format!("crdt.changes r0 {}", h), out);
        let who = names[r.below(names.len() as u64) as usize].clone();
        exec_line(sess, &format!("crdt.saveload {} l {}", who, r.below(2)), out);
        exec_line(sess, "crdt.state l", out);
        exec_line(sess, "crdt.changes l -", out);
    }
    // a late fork whose actor sorts BEFORE every existing actor opens its first transaction and rolls it
    // back (actor inserted into and removed from the actor table of a long history), then reads at past heads
    if all_changes.len() >= 8 && r.chance(1, 2) {
        exec_line(sess, &format!("crdt.fork r0 lf 01{:02x}", r.below(200)), out);
        out.count("late_fork_rollback");
        let mut ko = known_objs.clone();
        let mut scratch = vec![];
        for _ in 0..r.range(1, 3) {
            let res = exec_line(sess, &format!("crdt.put lf _ m{} {}", hex::encode(KEYS[r.below(KEYS.len() as u64) as usize].as_bytes()), rand_scalar(r)), out);
            let _ = res;
        }
        exec_line(sess, "crdt.rollback lf", out);
        let own: Vec<String> = sess.crdt.replicas.get_mut("lf").unwrap().get_changes(&[]).iter().map(|c| hex::encode(c.hash().0)).collect();
        for _ in 0..5 { if own.is_empty() { break; } let h = own[r.below(own.len() as u64) as usize].clone(); exec_line(sess, &format!("crdt.state_at lf {}", h), out); }
        for _ in 0..3 { if own.is_empty() { break; } let h = own[r.below(own.len() as u64) as usize].clone(); exec_line(sess, &format!("crdt.changes lf {}", h), out); }
        // and it keeps working: a committed change after the rollback, read back at its own past
        local_tx(r, sess, out, "lf", &mut ko, &mut scratch);
        for _ in 0..3 { if own.is_empty() { break; } let h = own[r.below(own.len() as u64) as usize].clone(); exec_line(sess, &format!("crdt.state_at lf {}", h), out); }
        for _ in 0..2 { if own.is_empty() { break; } let h = own[r.below(own.len() as u64) as usize].clone(); exec_line(sess, &format!("crdt.changes lf {}", h), out); }
    }
    // historical reads at a few head sets taken from r0's own history (single hashes and pairs)
    let own: Vec<String> = sess.crdt.replicas.get_mut("r0").unwrap().get_changes(&[]).iter().map(|c| hex::encode(c.hash().0)).collect();
    if !own.is_empty() {
        for _ in 0..3 {
            let h = own[r.below(own.len() as u64) as usize].clone();
            if r.chance(1, 2) {
                exec_line(sess, &format!("crdt.state_at r0 {}", h), out);
            } else {
                let h2 = own[r.below(own.len() as u64) as usize].clone();
                // a head SET must be an antichain for fork_at; keep the pair only if neither is an ancestor of the other
                let d = sess.crdt.replicas.get_mut("r0").unwrap();
                let a = ChangeHash::try_from(unhx(&h).as_slice()).unwrap();
                let b = ChangeHash::try_from(unhx(&h2).as_slice()).unwrap();
                let anc_a: Vec<ChangeHash> = d.fork_at(&[a]).map(|mut f| f.get_changes(&[]).iter().map(|c| c.hash()).collect()).unwrap_or_default();
                let anc_b: Vec<ChangeHash> = d.fork_at(&[b]).map(|mut f| f.get_changes(&[]).iter().map(|c| c.hash()).collect()).unwrap_or_default();
                if a != b && !anc_a.contains(&b) && !anc_b.contains(&a) {
                    out.count("state_at_pair");
                    exec_line(sess, &format!("crdt.state_at r0 {},{}", h, h2), out);
                } else {
                    exec_line(sess, &format!("crdt.state_at r0 {}", h), out);
                }
            }
        }
    }
}

/// one local transaction of 1..4 random edits on replica `who`, committed; announces the new change
pub fn local_tx(r: &mut Rng, sess: &mut Session, out: &mut Out, who: &str, known_objs: &mut Vec<(String, ObjType)>, all_changes: &mut Vec<String>) {
    let who = who.to_string();
    // a local transaction of 1..4 edits
    let nedits = r.range(1, 4);
    for _ in 0..nedits {
        // refresh the list of objects this replica can see
        let d = sess.crdt.replicas.get_mut(&who).unwrap();
        let mut objs: Vec<(String, ObjType)> = vec![("_".into(), ObjType::Map)];
        collect_objs(d, &ROOT, ObjType::Map, &mut objs, 0);
        if r.chance(1, 12) && !known_objs.is_empty() {
            // an object id this replica may not contain (invalid-call stream)
            objs.push(known_objs[r.below(known_objs.len() as u64) as usize].clone());
        }
        let (obj, ty) = objs[r.below(objs.len() as u64) as usize].clone();
        let d = sess.crdt.replicas.get_mut(&who).unwrap();
        let len = d.length(parse_exid(&obj)) as u64;
        let line = match ty {
            ObjType::Map | ObjType::Table => {
                let mut k = format!("m{}", hex::encode(KEYS[r.below(KEYS.len() as u64) as usize].as_bytes()));
                    // bias: keys that currently hold a counter (for increments) / an existing value (equal puts)
                    let oid = parse_exid(&obj);
                    let counters: Vec<String> = d.keys(&oid).filter(|key| matches!(d.get(&oid, key.as_str()), Ok(Some((Value::Scalar(v), _))) if matches!(v.as_ref(), ScalarValue::Counter(_)))).collect();
                    let mut same_val: Option<String> = None;
                    if r.chance(1, 5) { if let Ok(Some((Value::Scalar(v), _))) = d.get(&oid, &String::from_utf8(hex::decode(&k[1..]).unwrap()).unwrap()) { same_val = Some(show_scalar(v.as_ref())); } }
                match r.below(10) {
                    0 | 1 => format!("crdt.putobj {} {} {} {}", who, obj, k, ["M", "L", "T"][r.below(3) as usize]),
                    2 => format!("crdt.del {} {} {}", who, obj, k),
                    3 | 4 => { if !counters.is_empty() && r.chance(4, 5) { k = format!("m{}", hex::encode(counters[r.below(counters.len() as u64) as usize].as_bytes())); }
                               format!("crdt.inc {} {} {} {}", who, obj, k, r.below(5) as i64 - 1) }
                    _ => { let v = match same_val { Some(v) => { out.count("put_same_value"); v } None => rand_scalar(r) }; format!("crdt.put {} {} {} {}", who, obj, k, v) }
                }
            }
            ObjType::List => {
                let idx = if r.chance(1, 15) { len + 1 + r.below(3) } else { r.below(len + 1) };
                match r.below(10) {
                    0 => format!("crdt.insobj {} {} {} {}", who, obj, idx.min(len), ["M", "L", "T"][r.below(3) as usize]),
                    1 | 2 if len > 0 => format!("crdt.del {} {} i{}", who, obj, r.below(len)),
                    3 if len > 0 => format!("crdt.inc {} {} i{} {}", who, obj, r.below(len), r.below(5) as i64 - 1),
                    4 | 5 if len > 0 => format!("crdt.put {} {} i{} {}", who, obj, r.below(len), rand_scalar(r)),
                    _ => format!("crdt.ins {} {} {} {}", who, obj, idx, rand_scalar(r)),
                }
            }
            ObjType::Text => {
                let pos = if r.chance(1, 15) { len + 1 } else { r.below(len + 1) };
                let del: i64 = if len > pos && r.chance(1, 3) { r.range(1, (len - pos).min(3)) as i64 }
                    // a negative count deletes backwards from `pos`; one that reaches before the start is an invalid call
                    else if r.chance(1, 10) { out.count("splice_negative_del"); -(r.range(1, pos.min(len) + 2) as i64) } else { 0 };
                let txt = ["a", "bc", "é", "🙂", "xyz", "", "e\u{301}"][r.below(7) as usize];
                #[cfg(feature = "e_richtext")]
                let block_edit: Option<String> = if r.chance(1, 7) {
                    let enc = sess.crdt.enc.unwrap_or(TextEncoding::UnicodeCodePoint);
                    let (starts, blocks) = super::richtext::block_positions(sess.crdt.replicas.get(&who).unwrap(), &parse_exid(&obj), enc);
                    if !blocks.is_empty() && r.chance(2, 3) { out.count("join_block"); Some(format!("crdt.rt.join {} {} {}", who, obj, blocks[r.below(blocks.len() as u64) as usize])) }
                    else { out.count("split_block"); Some(format!("crdt.rt.block {} {} {}", who, obj, starts[r.below(starts.len() as u64) as usize])) }
                } else { None };
                #[cfg(not(feature = "e_richtext"))]
                let block_edit: Option<String> = None;
                if let Some(l) = block_edit { sess.crdt.marked_texts.insert(obj.clone()); l } else
                if cfg!(feature = "e_richtext") && sess.crdt.marked_texts.contains(&obj) { format!("crdt.rt.splice {} {} {} {} {} -", who, obj, pos, del.max(0), hx(txt.as_bytes())) }
                else { format!("crdt.splice {} {} {} {} {}", who, obj, pos, del, hx(txt.as_bytes())) }
            }
        };
        let res = exec_line(sess, &line, out);
        out.count(&format!("edit_{}", line.split(' ').next().unwrap()));
        if res.get(0).map(|s| s.starts_with("err")).unwrap_or(false) { out.count("edit_errors"); }
    }
    if r.chance(1, 12) {
        exec_line(sess, &format!("crdt.rollback {}", who), out);
        exec_line(sess, &format!("crdt.state {}", who), out);
        out.count("rollbacks");
        return;
    }
    // now and then a commit with a message (ASCII and not) and a timestamp
    let res = if cfg!(feature = "e_doccodec") && r.chance(1, 8) {
        out.count("commit_with_message");
        let msg = ["résumé", "提交 ✓", "a–b", "plain ascii", "e\u{301}"][r.below(5) as usize];
        exec_line(sess, &format!("crdt.dc.commit {} {} {}", who, r.below(1000), hx(msg.as_bytes())), out)
    } else { exec_line(sess, &format!("crdt.commit {}", who), out) };
    if res[0] == "ok" {
        let d = sess.crdt.replicas.get_mut(&who).unwrap();
        let hh = ChangeHash::try_from(unhx(res[1].strip_prefix("#hash ").unwrap()).as_slice()).unwrap();
        let c = d.get_change_by_hash(&hh).unwrap();
        let h = hex::encode(c.hash().0);
        exec_line(sess, &def_line(&c), out);
        exec_line(sess, &format!("crdt.local {} {}", who, h), out);
        all_changes.push(h);
        let d = sess.crdt.replicas.get_mut(&who).unwrap();
        let mut objs = vec![];
        collect_objs(d, &ROOT, ObjType::Map, &mut objs, 0);
        for o in objs { if !known_objs.contains(&o) { known_objs.push(o); } }
    }

}

fn collect_objs(d: &AutoCommit, obj: &ObjId, ty: ObjType, out: &mut Vec<(String, ObjType)>, depth: usize) {
    if depth > 6 { return; }
    match ty {
        ObjType::Map | ObjType::Table => {
            for k in d.keys(obj).collect::<Vec<_>>() {
                if let Ok(vals) = d.get_all(obj, k.as_str()) {
                    for (v, id) in vals { if let Value::Object(t) = v { out.push((show_exid(&id), t)); collect_objs(d, &id, t, out, depth + 1); } }
                }
            }
        }
        ObjType::List => {
            for i in 0..d.length(obj) {
                if let Ok(vals) = d.get_all(obj, i) {
                    for (v, id) in vals { if let Value::Object(t) = v { out.push((show_exid(&id), t)); collect_objs(d, &id, t, out, depth + 1); } }
                }
            }
        }
        ObjType::Text => {}
    }
}


// ------------------------------------------------------------------ storage generator (C11 C12 C13 C14)

/// split a byte string made of whole chunks into (type, chunk hash, start, end)
pub fn chunk_bounds(data: &[u8]) -> Vec<(u8, Vec<u8>, usize, usize)> {
    use sha2::Digest;
    let mut res = vec![];
    let mut pos = 0;
    while pos + 9 <= data.len() {
        let ty = data[pos + 8];
        let mut rd = &data[pos + 9..];
        let before = rd.len();
        let len = leb128::read::unsigned(&mut rd).expect("len") as usize;
        let hdr = 9 + (before - rd.len());
        let body = &data[pos + hdr..pos + hdr + len];
        let mut h = sha2::Sha256::new();
        let mut pre = vec![ty];
        leb128::write::unsigned(&mut pre, len as u64).unwrap();
        h.update(&pre); h.update(body);
        res.push((ty, h.finalize().to_vec(), pos, pos + hdr + len));
        pos += hdr + len;
    }
    res
}

pub fn generate_storage(r: &mut Rng, opts: &BTreeMap<String, String>, sess: &mut Session, out: &mut Out) {
    let all_cuts = opts.get("allcuts").map(|s| s == "1").unwrap_or(false);
    let nflips: u64 = opts.get("flips").map(|s| s.parse().unwrap()).unwrap_or(40);
    let enc = ["cp", "utf8", "utf16"][r.below(3) as usize];
    let e = parse_enc(enc);
    exec_line(sess, &format!("crdt.new w {} {}", enc, hex::encode(r.bytes(2))), out);
    let mut known = vec![("_".to_string(), ObjType::Map)];
    let mut all = vec![];
    let mut file: Vec<u8> = vec![];
    let mut exp: Vec<(usize, String)> = vec![];
    let pieces = r.range(2, 5);
    let deflate = r.chance(1, 2);
    for p in 0..pieces {
        let ntx = if p == 0 { r.range(0, 8) } else { r.range(1, 3) };
        for _ in 0..ntx { local_tx(r, sess, out, "w", &mut known, &mut all); }
        // sometimes a big text edit so that the change exceeds DEFLATE_MIN_SIZE and has a compressed form
        if p > 0 && r.chance(1, 2) {
            let res = exec_line(sess, &format!("crdt.putobj w _ m{} T", hex::encode(format!("big{}", p))), out);
            if let Some(id) = res[0].strip_prefix("ok ") {
                let txt: String = (0..r.range(300, 700)).map(|i| (b'a' + ((i * 7 + p * 3) % 26) as u8) as char).collect();
                exec_line(sess, &format!("crdt.splice w {} 0 0 {}", id, hx(txt.as_bytes())), out);
                let res = exec_line(sess, "crdt.commit w", out);
                if res[0] == "ok" {
                    let hh = ChangeHash::try_from(unhx(res[1].strip_prefix("#hash ").unwrap()).as_slice()).unwrap();
                    let c = sess.crdt.replicas.get_mut("w").unwrap().get_change_by_hash(&hh).unwrap();
                    exec_line(sess, &def_line(&c), out);
                    exec_line(sess, &format!("crdt.local w {}", hex::encode(hh.0)), out);
                    all.push(hex::encode(hh.0));
                }
            }
        }
        let d = sess.crdt.replicas.get_mut("w").unwrap();
        let compressed_piece = p > 0 && r.chance(1, 2);
        let bytes = if compressed_piece {
            // the incremental piece written with Change::bytes(): compressed chunks for big changes
            let raw = d.save_incremental();
            let mut outb = vec![];
            for (_, h, _, _) in chunk_bounds(&raw) {
                let hh = ChangeHash::try_from(h.as_slice()).unwrap();
                if let Some(mut c) = d.get_change_by_hash(&hh) { outb.extend(c.bytes().as_ref()); }
            }
            out.count("piece_compressed_form");
            outb
        } else if p == 0 {
            let b = d.save_with_options(automerge::SaveOptions { deflate, retain_orphans: true });
            let _ = d.save_incremental(); // move the incremental cursor to now
            b
        } else { d.save_incremental() };
        if bytes.is_empty() { continue; }
        // announce document chunks (the model cannot open them yet): chunk hash -> changes inside
        let doc_hashes: Vec<String> = d.get_changes(&[]).iter().map(|c| hex::encode(c.hash().0)).collect();
        for (ty, h, _, _) in chunk_bounds(&bytes) {
            if ty == 0 {
                let hs = doc_hashes.clone();
                exec_line(sess, &format!("crdt.docchunk {} {}", hex::encode(&h), if hs.is_empty() { "-".to_string() } else { hs.join(",") }), out);
            }
        }
        let base = file.len();
        let d = sess.crdt.replicas.get_mut("w").unwrap();
        let digest = state_digest(d, e);
        let cb = chunk_bounds(&bytes);
        for (i, (_, _, _, end)) in cb.iter().enumerate() {
            // inside one incremental piece made of several change chunks only the last boundary has a
            // writer snapshot; intermediate boundaries get the digest of loading exactly that prefix
            if i + 1 == cb.len() { exp.push((base + end, digest.clone())); }
        }
        file.extend(&bytes);
        out.count(&format!("piece_{}", if p == 0 { if deflate { "save_deflate" } else { "save_plain" } } else { "incremental" }));
    }
    if file.is_empty() { return; }
    let exps: Vec<String> = exp.iter().map(|(b, d)| format!("{}:{}", b, d)).collect();
    exec_line(sess, &format!("crdt.file f {} {}", hx(&file), exps.join(",")), out);
    out.add("file_bytes", file.len() as u64);
    // cuts
    let mut cuts: Vec<usize> = vec![0, 1, 8, 9, file.len()];
    for (b, _) in &exp { for d in [-3i64, -1, 0, 1, 3] { let k = *b as i64 + d; if k >= 0 && k as usize <= file.len() { cuts.push(k as usize); } } }
    if all_cuts { cuts.extend(0..=file.len()); } else { for _ in 0..20 { cuts.push(r.below(file.len() as u64 + 1) as usize); } }
    cuts.sort(); cuts.dedup();
    // only cuts that fall on a recorded writer boundary or strictly inside a piece are judged by the oracle;
    // pieces with several change chunks have unrecorded inner boundaries: skip those offsets
    let inner: Vec<usize> = chunk_bounds(&file).iter().map(|x| x.3).filter(|b| !exp.iter().any(|(e, _)| e == b)).collect();
    for k in cuts {
        if inner.iter().any(|b| k >= *b && exp.iter().all(|(e, _)| !(*e <= k && *e >= *b))) { continue; }
        exec_line(sess, &format!("crdt.loadcut x ignore f {}", k), out);
        exec_line(sess, &format!("crdt.loadcut y error f {}", k), out);
        out.count("cuts");
        if r.chance(1, 8) && sess.crdt.replicas.contains_key("x") { exec_line(sess, "crdt.state x", out); }
    }
    // C12: a reader equal to the writer at the first boundary is fed every later piece through
    // load_incremental, in shuffled order with repetitions, then everything once more (idempotence)
    if exp.len() >= 2 {
        let rd_actor = hex::encode(r.bytes(3));
        exec_line(sess, &format!("crdt.new rd {} {}", enc, rd_actor), out);
        exec_line(sess, &format!("crdt.loadpiece rd f 0 {}", exp[0].0), out);
        let mut pieces: Vec<(usize, usize)> = exp.windows(2).map(|w| (w[0].0, w[1].0)).collect();
        let extra: Vec<(usize, usize)> = pieces.iter().filter(|_| r.chance(1, 3)).cloned().collect();
        pieces.extend(extra);
        for i in (1..pieces.len()).rev() { let j = r.below(i as u64 + 1) as usize; pieces.swap(i, j); }
        for (a, b) in &pieces { exec_line(sess, &format!("crdt.loadpiece rd f {} {}", a, b), out); }
        let st1 = exec_line(sess, "crdt.state rd", out);
        let stw = exec_line(sess, "crdt.state w", out);
        let hr = sess.crdt.replicas.get_mut("rd").unwrap().get_heads();
        let hw = sess.crdt.replicas.get_mut("w").unwrap().get_heads();
        if st1[0] != stw[0] || hr != hw { out.count("oracle_failures"); out.line("! C12 sig=catch-up-differs a reader fed every later piece through load_incremental (shuffled, repeated) differs from the writer"); }
        for (a, b) in &pieces { exec_line(sess, &format!("crdt.loadpiece rd f {} {}", a, b), out); }
        let st2 = exec_line(sess, "crdt.state rd", out);
        if st2[0] != st1[0] { out.count("oracle_failures"); out.line("! C12 sig=not-idempotent feeding the same pieces again changed the document"); }
        out.count("c12_compositions");
        // whole-file load = writer
        exec_line(sess, &format!("crdt.loadcut wf ignore f {}", file.len()), out);
        let stf = exec_line(sess, "crdt.state wf", out);
        if stf[0] != stw[0] { out.count("oracle_failures"); out.line("! C12 sig=concat-differs loading the whole concatenation differs from the writer's in-memory document"); }
        // OVERLAPPING pieces in one buffer: the file followed by everything after its first boundary once more
        // (every later change occurs twice in the same load / load_incremental call)
        if r.chance(1, 2) {
            let mut g = file.clone();
            g.extend(&file[exp[0].0..]);
            let final_digest = exp.last().map(|x| x.1.clone()).unwrap_or_default();
            exec_line(sess, &format!("crdt.file g {} {}:{}", hx(&g), g.len(), final_digest), out);
            exec_line(sess, &format!("crdt.loadcut wg error g {}", g.len()), out);
            if sess.crdt.replicas.contains_key("wg") {
                let stg = exec_line(sess, "crdt.state wg", out);
                if stg[0] != stw[0] { out.count("oracle_failures"); out.line("! C12 sig=overlap-concat-differs loading a concatenation in which later pieces occur twice differs from the writer's document"); }
            } else { out.count("oracle_failures"); out.line("! C12 sig=overlap-concat-rejected a concatenation in which later pieces occur twice does not load"); }
            exec_line(sess, &format!("crdt.new rd2 {} {}", enc, hex::encode(r.bytes(3))), out);
            exec_line(sess, &format!("crdt.loadpiece rd2 f 0 {}", exp[0].0), out);
            let res = exec_line(sess, &format!("crdt.loadpiece rd2 g {} {}", exp[0].0, g.len()), out);
            let st3 = exec_line(sess, "crdt.state rd2", out);
            if !res[0].starts_with("ok") || st3[0] != stw[0] { out.count("oracle_failures"); out.line("! C12 sig=overlap-catch-up-differs a reader fed ONE buffer holding every later piece twice does not become equal to the writer"); }
            out.count("c12_overlapping_pieces");
        }
    }
    // single-bit flips
    let nbits = file.len() * 8;
    let flips: Vec<usize> = if nflips as usize >= nbits { (0..nbits).collect() } else { (0..nflips).map(|_| r.below(nbits as u64) as usize).collect() };
    for b in flips {
        exec_line(sess, &format!("crdt.loadflip z error f {}", b), out);
        out.count("flips");
    }
}
