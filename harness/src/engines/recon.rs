//! Engine `recon` (C27): reconciliation (`update_text`, `update_object`, `update_spans`) and bulk
//! construction (`batch_create_object`, `init_root_from_hydrate`, `init_from_hydrate`, `splice` with
//! nested values) on real documents.
//!
//! Every command line carries everything needed to rebuild its document, so a trace replays from its
//! `>` lines alone.  The Lean side (`Driver/Recon.lean`) models `recon.update_text` (Myers script +
//! width-indexed splices on the element list) and `recon.update_object` without concurrent puts (value-level
//! `update_map`/`update_list`/`update_value`); it prints `skip` for the other commands, which are decided by the
//! direct oracles here.  Every oracle line is `! C27 sig=<slug> …` or `! C06 sig=<slug> …`; the slugs of the known
//! defect classes are listed where they are emitted, anything else gets a `…-mismatch` / other slug.
use super::crdt::{parse_enc, parse_scalar, show_scalar, width};
use super::{hx, unhx};
use crate::{exec_line, rng::Rng, Out, Session};
use automerge::{
    hydrate, iter::Span, marks::{ExpandMark, Mark, MarkSet, UpdateSpansConfig}, transaction::Transactable, ActorId,
    AutoCommit, Automerge, ObjId, ObjType, PatchAction, PatchLog, Prop, ReadDoc, ScalarValue, TextEncoding, ROOT,
};
use std::collections::{BTreeMap, HashMap};
use std::sync::Arc;
use unicode_segmentation::UnicodeSegmentation;

fn s_of(hexs: &str) -> String { String::from_utf8(unhx(hexs)).expect("utf8") }
fn hs(s: &str) -> String { hx(s.as_bytes()) }
fn hlist(v: &[String]) -> String { if v.is_empty() { "-".into() } else { v.iter().map(|s| hex::encode(s.as_bytes())).collect::<Vec<_>>().join(",") } }
fn unhlist(s: &str) -> Vec<String> { if s == "-" { vec![] } else { s.split(',').map(|h| String::from_utf8(hex::decode(h).unwrap()).unwrap()).collect() } }
fn graphemes(s: &str) -> Vec<String> { s.graphemes(true).map(|g| g.to_string()).collect() }
fn enc_name(e: TextEncoding) -> &'static str {
    match e { TextEncoding::UnicodeCodePoint => "cp", TextEncoding::Utf8CodeUnit => "utf8", TextEncoding::Utf16CodeUnit => "utf16", TextEncoding::GraphemeCluster => "gc" }
}
fn err_name(e: &automerge::AutomergeError) -> &'static str { super::crdt::err_class(e) }

// ---------------------------------------------------------------------------------------------
// hydrate values on the wire:  M{khex=V;…}  L[V;…]  T<hex|->  scalar (crdt::show_scalar)
// ---------------------------------------------------------------------------------------------

pub fn show_hval(v: &hydrate::Value) -> String {
    match v {
        hydrate::Value::Scalar(s) => show_scalar(s),
        hydrate::Value::Map(m) => show_hmap(m),
        hydrate::Value::List(l) => format!("L[{}]", l.iter().map(|x| show_hval(&x.value)).collect::<Vec<_>>().join(";")),
        hydrate::Value::Text(t) => format!("T{}", hs(&t.to_string())),
    }
}
pub fn show_hmap(m: &hydrate::Map) -> String {
    let mut items: Vec<(&String, &hydrate::MapValue)> = m.iter().collect();
    items.sort_by(|a, b| a.0.as_bytes().cmp(b.0.as_bytes()));
    format!("M{{{}}}", items.iter().map(|(k, v)| format!("{}={}", hs(k), show_hval(&v.value))).collect::<Vec<_>>().join(";"))
}

struct P<'a> { b: &'a [u8], i: usize, enc: TextEncoding }
impl<'a> P<'a> {
    fn peek(&self) -> u8 { if self.i < self.b.len() { self.b[self.i] } else { 0 } }
    fn until(&mut self, stops: &[u8]) -> &'a str {
        let st = self.i;
        while self.i < self.b.len() && !stops.contains(&self.b[self.i]) { self.i += 1; }
        std::str::from_utf8(&self.b[st..self.i]).unwrap()
    }
    fn value(&mut self) -> hydrate::Value {
        match self.peek() {
            b'M' => hydrate::Value::Map(self.map()),
            b'L' => {
                self.i += 2; // L[
                let mut items = vec![];
                while self.peek() != b']' { items.push(self.value()); if self.peek() == b';' { self.i += 1; } }
                self.i += 1;
                hydrate::Value::List(hydrate::List::from(items))
            }
            b'T' => { self.i += 1; let h = self.until(b";]}"); hydrate::Value::text(self.enc, &s_of(h)) }
            _ => { let t = self.until(b";]}"); hydrate::Value::Scalar(parse_scalar(t)) }
        }
    }
    fn map(&mut self) -> hydrate::Map {
        self.i += 2; // M{
        let mut items: HashMap<String, hydrate::Value> = HashMap::new();
        while self.peek() != b'}' {
            let k = s_of(self.until(b"="));
            self.i += 1;
            let v = self.value();
            items.insert(k, v);
            if self.peek() == b';' { self.i += 1; }
        }
        self.i += 1;
        hydrate::Map::from(items)
    }
}
pub fn parse_hval(s: &str, enc: TextEncoding) -> hydrate::Value { let mut p = P { b: s.as_bytes(), i: 0, enc }; let v = p.value(); assert!(p.i == s.len(), "trailing input in value"); v }
pub fn parse_hmap(s: &str, enc: TextEncoding) -> hydrate::Map { match parse_hval(s, enc) { hydrate::Value::Map(m) => m, _ => panic!("map expected") } }

fn objtype_of(v: &hydrate::Value) -> Option<ObjType> {
    match v { hydrate::Value::Map(_) => Some(ObjType::Map), hydrate::Value::List(_) => Some(ObjType::List), hydrate::Value::Text(_) => Some(ObjType::Text), _ => None }
}

/// build `v` under `parent` call by call (put / insert / put_object / insert_object / splice_text);
/// `insert` chooses insert vs overwrite for sequence parents.
fn put_stepwise(d: &mut AutoCommit, parent: &ObjId, prop: Prop, v: &hydrate::Value, insert: bool) -> Result<(), automerge::AutomergeError> {
    match (v, objtype_of(v)) {
        (hydrate::Value::Scalar(s), _) => match (&prop, insert) {
            (Prop::Seq(i), true) => d.insert(parent, *i, s.clone()),
            _ => d.put(parent, prop, s.clone()),
        },
        (_, Some(t)) => {
            let id = match (&prop, insert) {
                (Prop::Seq(i), true) => d.insert_object(parent, *i, t)?,
                _ => d.put_object(parent, prop, t)?,
            };
            fill_stepwise(d, &id, v)
        }
        _ => unreachable!(),
    }
}
fn fill_stepwise(d: &mut AutoCommit, id: &ObjId, v: &hydrate::Value) -> Result<(), automerge::AutomergeError> {
    match v {
        hydrate::Value::Map(m) => {
            let mut items: Vec<(&String, &hydrate::MapValue)> = m.iter().collect();
            items.sort_by(|a, b| a.0.cmp(b.0));
            for (k, mv) in items { put_stepwise(d, id, Prop::Map(k.clone()), &mv.value, false)?; }
            Ok(())
        }
        hydrate::Value::List(l) => {
            for (i, lv) in l.iter().enumerate() { put_stepwise(d, id, Prop::Seq(i), &lv.value, true)?; }
            Ok(())
        }
        hydrate::Value::Text(t) => d.splice_text(id, 0, 0, &t.to_string()),
        hydrate::Value::Scalar(_) => Ok(()),
    }
}

fn new_doc(enc: TextEncoding, actor: u8) -> AutoCommit { AutoCommit::new_with_encoding(enc).with_actor(ActorId::from(vec![actor])) }

fn hyd(d: &AutoCommit, obj: &ObjId) -> String { match d.hydrate(obj, None) { Ok(v) => show_hval(&v), Err(_) => "?".into() } }

/// `load(save(d))` hydrates like `d`
fn reload_check(d: &mut AutoCommit, enc: TextEncoding, sig: &str, res: &mut Vec<String>) -> Option<AutoCommit> {
    let bytes = d.save();
    match AutoCommit::load_with_options(&bytes, automerge::LoadOptions::new().text_encoding(enc)) {
        Ok(l) => {
            if hyd(&l, &ROOT) != hyd(d, &ROOT) { res.push(format!("! C27 sig={}-reload load(save(doc)) hydrates differently: {} vs {}", sig, hyd(&l, &ROOT), hyd(d, &ROOT))); }
            Some(l)
        }
        Err(e) => { res.push(format!("! C27 sig={}-reload-fails load(save(doc)) fails: {}", sig, e)); None }
    }
}

// ---------------------------------------------------------------------------------------------
// text documents built from a step list
//   S<r>.<idx>.<del>.<hex>   splice_text on replica r
//   I<r>.<idx>.<hex>         insert(text, idx, Str) : ONE element holding the whole string
//   K<r>.<s>.<e>.<namehex>.<expand 0..3>.<scalar>   mark
//   B<r>.<idx>.<M{…}>        split_block + update_object(block)
//   F                        replica 1 := fork of replica 0 (actor 02)
//   G                        replica 0 merges replica 1
// steps that the implementation rejects are no-ops
// ---------------------------------------------------------------------------------------------

fn expand_of(n: &str) -> ExpandMark { match n { "0" => ExpandMark::None, "1" => ExpandMark::Before, "2" => ExpandMark::After, _ => ExpandMark::Both } }

struct TextDocs { d: Vec<AutoCommit>, obj: ObjId, enc: TextEncoding }

fn text_new(enc: TextEncoding) -> TextDocs {
    let mut d0 = new_doc(enc, 1);
    let obj = d0.put_object(ROOT, "t", ObjType::Text).unwrap();
    d0.commit();
    TextDocs { d: vec![d0], obj, enc }
}
fn text_step(t: &mut TextDocs, step: &str) -> bool {
    let enc = t.enc;
    if step == "F" {
        let f = t.d[0].fork().with_actor(ActorId::from(vec![2u8]));
        if t.d.len() == 1 { t.d.push(f) } else { t.d[1] = f }
        return true;
    }
    if step == "G" {
        if t.d.len() < 2 { return false; }
        let (a, b) = t.d.split_at_mut(1);
        return a[0].merge(&mut b[0]).is_ok();
    }
    let kind = step.as_bytes()[0];
    let parts: Vec<&str> = step[1..].splitn(if kind == b'B' { 3 } else { 6 }, '.').collect();
    let r: usize = parts[0].parse().unwrap();
    if r >= t.d.len() { return false; }
    let obj = t.obj.clone();
    let d = &mut t.d[r];
    let ok = match kind {
        b'S' => d.splice_text(&obj, parts[1].parse().unwrap(), parts[2].parse().unwrap(), &s_of(parts[3])).is_ok(),
        b'I' => d.insert(&obj, parts[1].parse().unwrap(), s_of(parts[2])).is_ok(),
        b'K' => d.mark(&obj, Mark::new(s_of(parts[3]), parse_scalar(parts[5]), parts[1].parse().unwrap(), parts[2].parse().unwrap()), expand_of(parts[4])).is_ok(),
        b'B' => match d.split_block(&obj, parts[1].parse().unwrap()) {
            Ok(b) => d.update_object(&b, &parse_hval(parts[2], enc)).is_ok(),
            Err(_) => false,
        },
        _ => panic!("step"),
    };
    d.commit();
    ok
}
fn text_build(enc: TextEncoding, spec: &str) -> TextDocs {
    let mut t = text_new(enc);
    if spec != "-" { for st in spec.split(',') { text_step(&mut t, st); } }
    t
}
/// the visible elements of a text object, as strings (objects / non-strings read as U+FFFC)
fn text_elems(d: &AutoCommit, obj: &ObjId, enc: TextEncoding) -> Vec<String> {
    let len = d.length(obj);
    let mut out = vec![];
    let mut i = 0;
    while i < len {
        let s = match d.get(obj, i) {
            Ok(Some((automerge::Value::Scalar(s), _))) => match s.as_ref() { ScalarValue::Str(x) => x.to_string(), _ => "\u{fffc}".to_string() },
            _ => "\u{fffc}".to_string(),
        };
        let w = width(enc, &s).max(1);
        out.push(s);
        i += w;
    }
    out
}
fn boundaries(v: &[String]) -> Vec<usize> { let mut acc = 0; let mut b = vec![0]; for s in v { acc += s.len(); b.push(acc); } b }

#[derive(Clone, PartialEq, Debug)]
enum Ed { I(usize, String), D(usize, usize) }
fn norm_edits(enc: TextEncoding, eds: Vec<Ed>) -> String {
    let mut out: Vec<Ed> = vec![];
    for e in eds {
        match (out.last_mut(), &e) {
            (Some(Ed::I(i, s)), Ed::I(j, t)) if *j == *i + width(enc, s) => { s.push_str(t); }
            (Some(Ed::D(i, n)), Ed::D(j, m)) if *i == *j => { *n += *m; }
            _ => out.push(e),
        }
    }
    if out.is_empty() { return "-".into(); }
    out.iter().map(|e| match e { Ed::I(i, s) => format!("I{}.{}", i, hs(s)), Ed::D(i, n) => format!("D{}.{}", i, n) }).collect::<Vec<_>>().join(",")
}

fn exec_update_text(toks: &[&str]) -> Vec<String> {
    // recon.update_text enc build new oldsegs newsegs oldelems elemwidths
    let enc = parse_enc(toks[1]);
    let mut t = text_build(enc, toks[2]);
    let new = s_of(toks[3]);
    let obj = t.obj.clone();
    let d = &mut t.d[0];
    d.commit();
    let old = d.text(&obj).unwrap();
    let segs = graphemes(&old);
    let elems = text_elems(d, &obj, enc);
    let ws: Vec<String> = elems.iter().map(|e| width(enc, e).to_string()).collect();
    let mut res = vec![];
    res.push(format!("built old={} segs={} newsegs={} elems={} widths={}", hs(&old),
        if unhlist(toks[4]) == segs { "ok" } else { "BAD" },
        if unhlist(toks[5]) == graphemes(&new) { "ok" } else { "BAD" },
        if unhlist(toks[6]) == elems { "ok" } else { "BAD" },
        if toks[7] == (if ws.is_empty() { "-".to_string() } else { ws.join(",") }) { "ok" } else { "BAD" }));
    if elems.concat() != old { res.push(format!("! C24 sig=elems-vs-text elements read by index do not concatenate to text(): {:?} vs {:?}", elems, old)); }
    // aligned: every grapheme of the old text is a run of whole elements whose widths add up to the
    // grapheme's width (always true when elements are code points and the encoding is a code-unit one)
    let eb = boundaries(&elems);
    let ew: Vec<usize> = elems.iter().map(|e| width(enc, e)).collect();
    let mut aligned = boundaries(&segs).iter().all(|b| eb.contains(b));
    if aligned {
        let mut k = 0;
        for g in &segs {
            let (mut bytes, mut w) = (0, 0);
            while bytes < g.len() && k < elems.len() { bytes += elems[k].len(); w += ew[k]; k += 1; }
            if w != width(enc, g) { aligned = false; }
        }
    }
    // the update itself, on a plain document with an active patch log (the patches are the width-indexed
    // splice calls of `TxHook`)
    let mut am: Automerge = d.document().clone();
    am.set_actor(ActorId::from(vec![9u8]));
    let mut tx = am.transaction_log_patches(PatchLog::active()).unwrap();
    let r = tx.update_text(&obj, &new);
    let (_h, mut pl) = tx.commit();
    let patches = am.make_patches(&mut pl);
    let got = am.text(&obj).unwrap();
    // (the logged events are compared only for aligned texts: otherwise a delete can hit text inserted by
    // the same call and the patch builder cancels the two against each other)
    let mut eds = vec![];
    for p in patches {
        if p.obj != obj { continue; }
        match p.action {
            PatchAction::SpliceText { index, value, .. } => eds.push(Ed::I(index, value.make_string())),
            PatchAction::DeleteSeq { index, length } => eds.push(Ed::D(index, length)),
            _ => {}
        }
    }
    let (mut ni, mut nd) = (0, 0);
    if let Some(c) = am.get_last_local_change() {
        if c.actor_id() == &ActorId::from(vec![9u8]) {
            for op in c.decode().operations.iter() {
                if op.insert { ni += 1 } else if matches!(op.action, automerge::legacy::OpType::Delete) { nd += 1 }
            }
        }
    }
    if let Err(e) = &r {
        res.push(format!("err {}", err_name(e)));
        if got != old { res.push(format!("! C06 sig=update_text-failed-changed{} enc={} update_text({:?}) on {:?} (elements {:?}) fails with {} and leaves {:?}", if aligned { "" } else { "-misaligned" }, enc_name(enc), new, old, elems, err_name(e), got)); }
        return res;
    }
    res.push(format!("{} text={} script={} ops=i{}d{}", "ok", hs(&got), if aligned { norm_edits(enc, eds) } else { "~".to_string() }, ni, nd));
    // defect classes: a grapheme cluster spelled by several elements under the grapheme-cluster encoding
    // (known limitation D6), an element holding several characters (created by `insert`, not `splice_text`);
    // anything else is an unclassified mismatch
    let cls = if aligned { "mismatch" } else if enc == TextEncoding::GraphemeCluster { "gc-cross-element" } else { "multichar-element" };
    if r.is_ok() && got != new {
        res.push(format!("! C27 sig=update_text-{} enc={} update_text({:?}) on {:?} (elements {:?}) leaves {:?}", cls, enc_name(enc), new, old, elems, got));
    }
    // same call through AutoCommit, and reload
    let r2 = d.update_text(&obj, &new);
    d.commit();
    let got2 = d.text(&obj).unwrap();
    if r2.is_ok() != r.is_ok() || got2 != got { res.push(format!("! C27 sig=update_text-autocommit AutoCommit::update_text gives {:?}, Transaction::update_text {:?}", got2, got)); }
    match AutoCommit::load_with_options(&d.save(), automerge::LoadOptions::new().text_encoding(enc)) {
        Ok(l) => { let t3 = l.text(&obj).unwrap_or_default(); if t3 != got2 { res.push(format!("! C27 sig=update_text-reload text after reload {:?} vs {:?}", t3, got2)); } }
        Err(e) => res.push(format!("! C27 sig=update_text-reload-fails {}", e)),
    }
    res
}

// ---------------------------------------------------------------------------------------------
// update_object
// ---------------------------------------------------------------------------------------------

/// does reconciling `old` into `new` shrink a list somewhere (positionally matched, as the code walks)?
fn shrinks_list(old: &hydrate::Value, new: &hydrate::Value) -> bool {
    match (old, new) {
        (hydrate::Value::Map(a), hydrate::Value::Map(b)) => a.iter().any(|(k, v)| b.get(k).map(|w| shrinks_list(&v.value, w)).unwrap_or(false)),
        (hydrate::Value::List(a), hydrate::Value::List(b)) => a.len() > b.len() || a.iter().zip(b.iter()).any(|(x, y)| shrinks_list(&x.value, &y.value)),
        _ => false,
    }
}

fn exec_update_object(toks: &[&str]) -> Vec<String> {
    // recon.update_object enc old new path concurrent   (old,new: M{…}; path: "_" or key hex of a root entry;
    //   concurrent: "-" or M{…} of puts made by a fork and merged before the update)
    let enc = parse_enc(toks[1]);
    let oldv = parse_hval(toks[2], enc);
    let newv = parse_hval(toks[3], enc);
    let mut d = new_doc(enc, 1);
    let mut res = vec![];
    if fill_stepwise(&mut d, &ROOT, &oldv).is_err() { return vec!["err build".into()]; }
    d.commit();
    if toks[5] != "-" {
        let mut f = d.fork().with_actor(ActorId::from(vec![2u8]));
        let _ = fill_stepwise(&mut f, &ROOT, &parse_hval(toks[5], enc));
        f.commit();
        // a local edit too, so that the registers written by both sides are conflicted
        let _ = fill_stepwise(&mut d, &ROOT, &oldv);
        d.commit();
        let _ = d.merge(&mut f);
    }
    let (target, oldt): (ObjId, hydrate::Value) = if toks[4] == "_" { (ROOT, d.hydrate(&ROOT, None).unwrap()) } else {
        match d.get(&ROOT, s_of(toks[4])) {
            Ok(Some((automerge::Value::Object(_), id))) => { let h = d.hydrate(&id, None).unwrap(); (id, h) }
            _ => return vec!["err path".into()],
        }
    };
    let before = hyd(&d, &ROOT);
    let r = d.update_object(&target, &newv);
    d.commit();
    match &r {
        Ok(()) => {
            let got = hyd(&d, &target);
            res.push(format!("ok {}", got));
            let want = show_hval(&newv);
            if got != want {
                let cls = if shrinks_list(&oldt, &newv) { "list-shrink" } else { "mismatch" };
                res.push(format!("! C27 sig=update_object-{} update_object({}) on {} gives {}", cls, want, show_hval(&oldt), got));
            }
        }
        Err(e) => {
            res.push(format!("err {}", match e { automerge::error::UpdateObjectError::ChangeType => "changetype".to_string(), automerge::error::UpdateObjectError::Automerge(e) => err_name(e).to_string() }));
            if hyd(&d, &ROOT) != before { res.push("! C06 sig=update_object-failed-changed failed update_object changed the document".into()); }
        }
    }
    reload_check(&mut d, enc, "update_object", &mut res);
    res
}

// ---------------------------------------------------------------------------------------------
// batch_create_object / splice with nested values / init_*_from_hydrate
// ---------------------------------------------------------------------------------------------

fn exec_batch(toks: &[&str]) -> Vec<String> {
    // recon.batch enc mode prior value [idx [del]]
    //   mode mapput   : batch_create_object(ROOT,"k",value,false)           vs put_object + fill   (prior root: M{…})
    //   mode listins  : batch_create_object(list,idx,value,true)            vs insert_object + fill (prior list: L[…])
    //   mode listput  : batch_create_object(list,idx,value,false)           vs put_object(list,idx) + fill
    //   mode textins  : batch_create_object(text,idx,value,true) (a block)  vs split_block-free reference: none (result only)
    //   mode splice   : splice(list, idx, del, values of the L[…] value)    vs delete × del then insert one by one
    let enc = parse_enc(toks[1]);
    let mode = toks[2];
    let prior = parse_hval(toks[3], enc);
    let value = parse_hval(toks[4], enc);
    let idx: usize = toks.get(5).map(|x| x.parse().unwrap()).unwrap_or(0);
    let del: usize = toks.get(6).map(|x| x.parse().unwrap()).unwrap_or(0);
    let mut res = vec![];
    let mk = |res: &mut Vec<String>| -> Option<(AutoCommit, ObjId)> {
        let mut d = new_doc(enc, 1);
        let parent = if mode == "mapput" { if fill_stepwise(&mut d, &ROOT, &prior).is_err() { res.push("err build".into()); return None; } ROOT } else {
            match put_stepwise(&mut d, &ROOT, Prop::Map("p".into()), &prior, false) { Ok(()) => {}, Err(_) => { res.push("err build".into()); return None; } }
            match d.get(&ROOT, "p") { Ok(Some((_, id))) => id, _ => { res.push("err build".into()); return None; } }
        };
        d.commit();
        Some((d, parent))
    };
    let Some((mut a, pa)) = mk(&mut res) else { return res };
    let Some((mut b, pb)) = mk(&mut res) else { return res };
    let ra: Result<(), automerge::AutomergeError>;
    let rb: Result<(), automerge::AutomergeError>;
    let mut expect: Option<String> = None;
    match mode {
        "mapput" => {
            ra = a.batch_create_object(&pa, "k", &value, false).map(|_| ());
            rb = if objtype_of(&value).is_none() { Err(automerge::AutomergeError::NotAnObject) } else { put_stepwise(&mut b, &pb, Prop::Map("k".into()), &value, false) };
        }
        "listins" | "listput" | "textins" => {
            let ins = mode != "listput";
            ra = a.batch_create_object(&pa, idx, &value, ins).map(|_| ());
            rb = if objtype_of(&value).is_none() { Err(automerge::AutomergeError::NotAnObject) } else if mode == "textins" {
                b.insert_object(&pb, idx, objtype_of(&value).unwrap()).and_then(|id| fill_stepwise(&mut b, &id, &value))
            } else { put_stepwise(&mut b, &pb, Prop::Seq(idx), &value, ins) };
        }
        "splice" => {
            let vals: Vec<hydrate::Value> = match &value { hydrate::Value::List(l) => l.iter().map(|x| x.value.clone()).collect(), _ => panic!("splice needs L[…]") };
            ra = a.splice(&pa, idx, del as isize, vals.clone());
            rb = (|| { for _ in 0..del { if b.length(&pb) > idx { b.delete(&pb, idx)?; } } for (i, v) in vals.iter().enumerate() { put_stepwise(&mut b, &pb, Prop::Seq(idx + i), v, true)?; } Ok(()) })();
            if let hydrate::Value::List(p) = &prior {
                let mut items: Vec<String> = p.iter().map(|x| show_hval(&x.value)).collect();
                if idx <= items.len() {
                    let end = (idx + del).min(items.len());
                    items.splice(idx..end, vals.iter().map(show_hval));
                    expect = Some(format!("L[{}]", items.join(";")));
                }
            }
        }
        _ => return vec!["unknown-mode".into()],
    }
    a.commit(); b.commit();
    let (ha, hb) = (hyd(&a, &ROOT), hyd(&b, &ROOT));
    res.push(match &ra { Ok(()) => format!("ok {}", ha), Err(e) => format!("err {}", err_name(e)) });
    if ra.is_ok() != rb.is_ok() { res.push(format!("! C27 sig=batch-{}-result bulk call {} but call-by-call {}", mode, if ra.is_ok() { "succeeds" } else { "fails" }, if rb.is_ok() { "succeeds" } else { "fails" })); }
    if ra.is_ok() && rb.is_ok() {
        if ha != hb { res.push(format!("! C27 sig=batch-{}-state bulk {} vs call-by-call {}", mode, ha, hb)); }
        // exactly the given value at the place it was put
        let at = match mode { "mapput" => a.get(&pa, "k"), _ => a.get(&pa, idx) };
        if mode != "splice" {
            match at {
                Ok(Some((_, id))) => { let g = hyd(&a, &id); if g != show_hval(&value) { res.push(format!("! C27 sig=batch-{}-value created {} for {}", mode, g, show_hval(&value))); } }
                _ => res.push(format!("! C27 sig=batch-{}-value nothing readable at the target", mode)),
            }
        } else if let Some(e) = expect {
            let g = hyd(&a, &pa);
            if g != e { res.push(format!("! C27 sig=batch-splice-value list is {} expected {}", g, e)); }
        }
        let la = reload_check(&mut a, enc, &format!("batch-{}", mode), &mut res);
        let lb = reload_check(&mut b, enc, &format!("stepwise-{}", mode), &mut res);
        if let (Some(la), Some(lb)) = (la, lb) { if hyd(&la, &ROOT) != hyd(&lb, &ROOT) { res.push(format!("! C27 sig=batch-{}-reload-state reloads differ", mode)); } }
    } else if ra.is_err() {
        // a failed bulk call leaves the document as it was
        let Some((c, _)) = mk(&mut res) else { return res };
        if hyd(&c, &ROOT) != ha { res.push(format!("! C06 sig=batch-{}-failed-changed failed bulk call changed the document: {}", mode, ha)); }
    }
    res
}

fn exec_init(toks: &[&str]) -> Vec<String> {
    // recon.init enc which prior value    which = root (AutoCommit::init_root_from_hydrate) | doc (Automerge::init_from_hydrate)
    let enc = parse_enc(toks[1]);
    let prior = parse_hval(toks[3], enc);
    let value = parse_hmap(toks[4], enc);
    let mut res = vec![];
    let mut a = new_doc(enc, 1);
    let mut b = new_doc(enc, 1);
    for d in [&mut a, &mut b] { if fill_stepwise(d, &ROOT, &prior).is_err() { return vec!["err build".into()]; } d.commit(); }
    let ra = if toks[2] == "root" { let r = a.init_root_from_hydrate(&value); a.commit(); r } else {
        let mut am: Automerge = a.document().clone();
        am.set_actor(ActorId::from(vec![1u8]));
        let r = am.init_from_hydrate(&value);
        a = AutoCommit::load_with_options(&am.save(), automerge::LoadOptions::new().text_encoding(enc)).expect("reload").with_actor(ActorId::from(vec![1u8]));
        // compare the live document too
        let live = show_hval(&am.hydrate(None));
        if live != hyd(&a, &ROOT) { res.push(format!("! C27 sig=init-from-hydrate-live-vs-reload live {} vs reloaded {}", live, hyd(&a, &ROOT))); }
        r
    };
    let rb = fill_stepwise(&mut b, &ROOT, &hydrate::Value::Map(value.clone()));
    b.commit();
    let (ha, hb) = (hyd(&a, &ROOT), hyd(&b, &ROOT));
    res.insert(0, match &ra { Ok(()) => format!("ok {}", ha), Err(e) => format!("err {}", err_name(e)) });
    let cls = if matches!(&prior, hydrate::Value::Map(m) if m.iter().next().is_none()) { "empty-doc" } else { "nonempty-doc" };
    // defect class: the bulk path used on a document that already has ops (fixed in /repo 23ec14d23)
    let slug = if cls == "nonempty-doc" { "init-from-hydrate-nonempty-loses-keys" } else { "init-from-hydrate-mismatch" };
    if ra.is_ok() && rb.is_ok() {
        if ha != hb { res.push(format!("! C27 sig={} which={} bulk {} vs call-by-call {}", slug, toks[2], ha, hb)); }
        let la = reload_check(&mut a, enc, "init-from-hydrate", &mut res);
        let lb = reload_check(&mut b, enc, "stepwise-init", &mut res);
        if let (Some(la), Some(lb)) = (la, lb) { if hyd(&la, &ROOT) != hyd(&lb, &ROOT) { res.push(format!("! C27 sig={} which={} after reload: {} vs {}", slug, toks[2], hyd(&la, &ROOT), hyd(&lb, &ROOT))); } }
    } else if ra.is_ok() != rb.is_ok() {
        res.push(format!("! C27 sig=init-from-hydrate-result which={} {} bulk ok={} call-by-call ok={}", toks[2], cls, ra.is_ok(), rb.is_ok()));
    }
    res
}

// ---------------------------------------------------------------------------------------------
// update_spans
//   spans on the wire: `;`-separated   t<texthex>/<name hex>:<scalar>,…|-     b<M{…}>     (`-` = no spans)
// ---------------------------------------------------------------------------------------------

#[derive(Clone, PartialEq, Debug)]
enum NSpan { T(String, Vec<(String, String)>), B(String) }

fn parse_spans(s: &str, enc: TextEncoding) -> Vec<Span> {
    if s == "-" { return vec![]; }
    split_top(s).into_iter().map(|p| {
        if let Some(m) = p.strip_prefix('b') { Span::Block(parse_hmap(m, enc)) } else {
            let (t, marks) = p[1..].split_once('/').unwrap();
            let ms: Option<Arc<MarkSet>> = if marks == "-" { None } else {
                Some(Arc::new(marks.split(',').map(|kv| { let (k, v) = kv.split_once(':').unwrap(); (s_of(k), parse_scalar(v)) }).collect::<MarkSet>()))
            };
            Span::Text { text: s_of(t), marks: ms }
        }
    }).collect()
}
/// split at `;` outside brackets
fn split_top(s: &str) -> Vec<&str> {
    let (mut depth, mut st, mut out) = (0i32, 0usize, vec![]);
    for (i, c) in s.bytes().enumerate() {
        match c { b'{' | b'[' => depth += 1, b'}' | b']' => depth -= 1, b';' if depth == 0 => { out.push(&s[st..i]); st = i + 1; } _ => {} }
    }
    out.push(&s[st..]);
    out
}
fn norm_spans<I: IntoIterator<Item = Span>>(spans: I) -> Vec<NSpan> {
    let mut out: Vec<NSpan> = vec![];
    for s in spans {
        match s {
            Span::Block(m) => out.push(NSpan::B(show_hmap(&m))),
            Span::Text { text, marks } => {
                if text.is_empty() { continue; }
                let ms: Vec<(String, String)> = marks.map(|m| m.iter().filter(|(_, v)| !matches!(v, ScalarValue::Null)).map(|(k, v)| (k.to_string(), show_scalar(v))).collect()).unwrap_or_default();
                match out.last_mut() { Some(NSpan::T(t, m)) if *m == ms => t.push_str(&text), _ => out.push(NSpan::T(text, ms)) }
            }
        }
    }
    out
}
fn show_nspans(v: &[NSpan]) -> String {
    if v.is_empty() { return "-".into(); }
    v.iter().map(|s| match s {
        NSpan::B(m) => format!("b{}", m),
        NSpan::T(t, ms) => format!("t{}/{}", hs(t), if ms.is_empty() { "-".to_string() } else { ms.iter().map(|(k, v)| format!("{}:{}", hs(k), v)).collect::<Vec<_>>().join(",") }),
    }).collect::<Vec<_>>().join(";")
}

fn exec_update_spans(toks: &[&str]) -> Vec<String> {
    // recon.update_spans enc build spans expand
    let enc = parse_enc(toks[1]);
    let mut t = text_build(enc, toks[2]);
    let obj = t.obj.clone();
    let d = &mut t.d[0];
    d.commit();
    let spans = parse_spans(toks[3], enc);
    let want = norm_spans(spans.clone());
    let before = norm_spans(d.spans(&obj).unwrap());
    let has_blocks = before.iter().chain(want.iter()).any(|s| matches!(s, NSpan::B(_)));
    let has_marks = before.iter().chain(want.iter()).any(|s| matches!(s, NSpan::T(_, m) if !m.is_empty()));
    // does some grapheme of the old text, or of a target span, consist of more than one text element?
    let nelem = |g: &str| if enc == TextEncoding::GraphemeCluster { 1 } else { g.chars().count() };
    let old_text = d.text(&obj).unwrap();
    let elems = text_elems(d, &obj, enc);
    let multi = graphemes(&old_text).len() != elems.len()
        || want.iter().any(|s| matches!(s, NSpan::T(t, _) if graphemes(t).iter().any(|g| nelem(g) > 1)))
        || graphemes(&want.iter().map(|s| match s { NSpan::T(t, _) => t.clone(), NSpan::B(_) => "\u{fffc}".to_string() }).collect::<String>()).len()
            != want.iter().map(|s| match s { NSpan::T(t, _) => graphemes(t).len(), NSpan::B(_) => 1 }).sum::<usize>();
    let r = d.update_spans(&obj, UpdateSpansConfig::default().with_default_expand(expand_of(toks[4])), spans);
    d.commit();
    let got = norm_spans(d.spans(&obj).unwrap());
    let mut res = vec![match &r { Ok(()) => format!("ok {}", show_nspans(&got)), Err(e) => format!("err {} {}", err_name(e), show_nspans(&got)) }];
    let detail = format!("enc={} {}{}", enc_name(enc), if has_blocks { "blocks" } else { "text" }, if has_marks { "+marks" } else { "" });
    // defect classes: grapheme clusters spelled by several elements under the grapheme-cluster encoding (D6, known
    // limitation); under a code-unit encoding (fixed in /repo 2c4964131); blocks under UTF-8 (fixed in /repo 51ce52dee)
    let cls = if enc == TextEncoding::GraphemeCluster && multi { "gc-cross-element" }
        else if enc != TextEncoding::GraphemeCluster && multi { "multi-element-grapheme" }
        else if enc == TextEncoding::Utf8CodeUnit && has_blocks { "block-width-utf8" }
        else { "mismatch" };
    if r.is_ok() && got != want {
        res.push(format!("! C27 sig=update_spans-{} {} from {} to {} gives {}", cls, detail, show_nspans(&before), show_nspans(&want), show_nspans(&got)));
    }
    if r.is_err() { res.push(format!("! C27 sig=update_spans-error-{} {} update_spans fails on a valid target: from {} to {}", cls, detail, show_nspans(&before), show_nspans(&want))); }
    match AutoCommit::load_with_options(&d.save(), automerge::LoadOptions::new().text_encoding(enc)) {
        Ok(l) => { let g2 = norm_spans(l.spans(&obj).unwrap()); if g2 != got { res.push(format!("! C27 sig=update_spans-reload spans after reload {} vs {}", show_nspans(&g2), show_nspans(&got))); } }
        Err(e) => res.push(format!("! C27 sig=update_spans-reload-fails {}", e)),
    }
    res
}

pub fn exec(toks: &[&str]) -> Vec<String> {
    match toks[0] {
        "recon.update_text" => exec_update_text(toks),
        "recon.update_object" => exec_update_object(toks),
        "recon.batch" => exec_batch(toks),
        "recon.init" => exec_init(toks),
        "recon.update_spans" => exec_update_spans(toks),
        _ => vec!["unknown-cmd".into()],
    }
}

// ---------------------------------------------------------------------------------------------
// generators
// ---------------------------------------------------------------------------------------------

const ASCII: &[&str] = &["a", "b", "c", "d", "e", " ", "x", "y", "1", "\n"];
const ACCENT: &[&str] = &["é", "ü", "ñ", "ß", "Ω", "ж"];
const COMBINING: &[&str] = &["\u{301}", "\u{308}", "\u{323}", "\u{20dd}"];
const ASTRAL: &[&str] = &["😀", "𝄞", "🎉", "𐍈"];
const CLUSTERS: &[&str] = &["👩\u{200d}👩\u{200d}👧", "🇩🇪", "🇫🇷", "e\u{301}", "👍🏽", "\r\n", "각", "\u{1100}\u{1161}", "❤\u{fe0f}"];
const PARTS: &[&str] = &["\u{200d}", "🇩", "🇪", "\u{fe0f}", "🏽", "\r", "\u{1161}"];

/// when set, texts are drawn from single-code-point graphemes only (ASCII, precomposed accents, astral)
static SIMPLE: std::sync::atomic::AtomicBool = std::sync::atomic::AtomicBool::new(false);
fn rand_piece(r: &mut Rng, rich: u64) -> &'static str {
    if SIMPLE.load(std::sync::atomic::Ordering::Relaxed) {
        return match r.below(10) { 0..=6 => *r.pick(&ASCII[..9]), 7 | 8 => *r.pick(ACCENT), _ => *r.pick(ASTRAL) };
    }
    match r.below(10 + rich) {
        0..=5 => *r.pick(ASCII),
        6 | 7 => *r.pick(ACCENT),
        8 => *r.pick(ASTRAL),
        9 => *r.pick(CLUSTERS),
        10 | 11 => *r.pick(COMBINING),
        12 => *r.pick(PARTS),
        _ => *r.pick(CLUSTERS),
    }
}
fn rand_text(r: &mut Rng, max: u64, rich: u64) -> String {
    let n = match r.below(8) { 0 => 0, 1 => 1, 2 | 3 => r.range(2, 5), _ => r.range(3, max.max(3)) };
    (0..n).map(|_| rand_piece(r, rich)).collect()
}
/// an edit-like mutation at code-point level (so graphemes can be cut apart) or grapheme level
fn mutate_text(r: &mut Rng, old: &str, rich: u64) -> String {
    let mut units: Vec<String> = if r.chance(1, 2) { old.chars().map(|c| c.to_string()).collect() } else { graphemes(old) };
    for _ in 0..r.range(1, 4) {
        let n = units.len();
        match r.below(5) {
            0 | 1 => { let i = r.below(n as u64 + 1) as usize; let t = rand_text(r, 4, rich); units.insert(i, t); }
            2 => if n > 0 { let i = r.below(n as u64) as usize; let k = (r.range(1, 4) as usize).min(n - i); units.drain(i..i + k); },
            3 => if n > 0 { let i = r.below(n as u64) as usize; let k = (r.range(1, 3) as usize).min(n - i); units.splice(i..i + k, [rand_text(r, 3, rich)]); },
            _ => if n > 1 { let i = r.below(n as u64) as usize; let j = r.below(n as u64) as usize; units.swap(i, j); },
        }
    }
    units.concat()
}
fn char_boundary_width(r: &mut Rng, enc: TextEncoding, text: &str) -> usize {
    // a valid index: the width of a prefix cut at a grapheme boundary (gc) or a code point boundary
    let units: Vec<String> = if enc == TextEncoding::GraphemeCluster { graphemes(text) } else { text.chars().map(|c| c.to_string()).collect() };
    let k = r.below(units.len() as u64 + 1) as usize;
    width(enc, &units[..k].concat())
}

fn rand_enc(r: &mut Rng) -> TextEncoding { *r.pick(&[TextEncoding::UnicodeCodePoint, TextEncoding::Utf8CodeUnit, TextEncoding::Utf16CodeUnit, TextEncoding::GraphemeCluster]) }

fn gen_text_build(r: &mut Rng, enc: TextEncoding, out: &mut Out, allow_blocks: bool, allow_multichar: bool) -> (Vec<String>, TextDocs) {
    let mut t = text_new(enc);
    let mut steps: Vec<String> = vec![];
    let rich = if r.chance(1, 3) { 0 } else { 4 };
    let mut push = |t: &mut TextDocs, steps: &mut Vec<String>, st: String| { if text_step(t, &st) { steps.push(st); true } else { false } };
    let first = rand_text(r, 24, rich);
    if !first.is_empty() { push(&mut t, &mut steps, format!("S0.0.0.{}", hs(&first))); }
    let flavor = r.below(20);
    let extra = r.below(4);
    for _ in 0..extra {
        let cur = t.d[0].text(&t.obj).unwrap();
        let idx = char_boundary_width(r, enc, &cur);
        let ins = rand_text(r, 5, rich);
        let del = if r.chance(1, 3) { r.below(3) } else { 0 };
        push(&mut t, &mut steps, format!("S0.{}.{}.{}", idx, del, hs(&ins)));
    }
    if flavor < 4 {
        out.count("text_concurrent");
        push(&mut t, &mut steps, "F".into());
        for rep in 0..2 {
            for _ in 0..r.range(1, 2) {
                let cur = t.d[rep].text(&t.obj).unwrap();
                let idx = char_boundary_width(r, enc, &cur);
                push(&mut t, &mut steps, format!("S{}.{}.{}.{}", rep, idx, r.below(2), hs(&rand_text(r, 4, rich))));
            }
        }
        push(&mut t, &mut steps, "G".into());
    } else if flavor < 7 {
        out.count("text_marks");
        for _ in 0..r.range(1, 3) {
            let cur = t.d[0].text(&t.obj).unwrap();
            let a = char_boundary_width(r, enc, &cur);
            let b = char_boundary_width(r, enc, &cur);
            let (a, b) = (a.min(b), a.max(b));
            push(&mut t, &mut steps, format!("K0.{}.{}.{}.{}.{}", a, b, hs(*r.pick(&["bold", "em", "link"])), r.below(4), r.pick(&["b1", "i7", "s61"])));
        }
    } else if flavor < 9 && enc == TextEncoding::GraphemeCluster {
        // a combining mark spliced separately after its base: one grapheme, two elements (D6)
        out.count("text_gc_cross_element");
        let cur = t.d[0].text(&t.obj).unwrap();
        let idx = char_boundary_width(r, enc, &cur);
        if push(&mut t, &mut steps, format!("S0.{}.0.{}", idx, hs(*r.pick(&["e", "a", "🇩", "👩"])))) {
            let tail = *r.pick(&["\u{301}", "\u{308}", "🇪", "\u{200d}👧"]);
            push(&mut t, &mut steps, format!("S0.{}.0.{}", idx + 1, hs(tail)));
        }
    } else if flavor < 10 && allow_multichar {
        out.count("text_multichar_element");
        let cur = t.d[0].text(&t.obj).unwrap();
        let idx = char_boundary_width(r, enc, &cur);
        push(&mut t, &mut steps, format!("I0.{}.{}", idx, hs(*r.pick(&["ab", "xyz", "é!", "😀😀"]))));
    } else if flavor < 14 && allow_blocks {
        out.count("text_blocks");
        for _ in 0..r.range(1, 2) {
            let cur = t.d[0].text(&t.obj).unwrap();
            let idx = char_boundary_width(r, enc, &cur);
            let m = gen_block(r);
            push(&mut t, &mut steps, format!("B0.{}.{}", idx, m));
        }
    } else {
        out.count("text_plain");
    }
    (steps, t)
}

fn gen_update_text(r: &mut Rng, sess: &mut Session, out: &mut Out) {
    let enc = rand_enc(r);
    out.count(&format!("enc_{}", enc_name(enc)));
    let (steps, mut t) = gen_text_build(r, enc, out, false, true);
    let obj = t.obj.clone();
    let d = &mut t.d[0];
    d.commit();
    let old = d.text(&obj).unwrap();
    let rich = 4;
    let new = match r.below(20) {
        0 => { out.count("pair_identical"); old.clone() }
        1 => { out.count("pair_empty_new"); String::new() }
        2..=4 => { out.count("pair_unrelated"); rand_text(r, 20, rich) }
        5 => { out.count("pair_prefix_shared"); let g = graphemes(&old); let k = r.below(g.len() as u64 + 1) as usize; format!("{}{}", g[..k].concat(), rand_text(r, 8, rich)) }
        6 => { out.count("pair_suffix_shared"); let g = graphemes(&old); let k = r.below(g.len() as u64 + 1) as usize; format!("{}{}", rand_text(r, 8, rich), g[k..].concat()) }
        _ => { out.count("pair_mutated"); mutate_text(r, &old, rich) }
    };
    let elems = text_elems(d, &obj, enc);
    let ws: Vec<String> = elems.iter().map(|e| width(enc, e).to_string()).collect();
    out.add("old_graphemes", graphemes(&old).len() as u64);
    out.add("new_graphemes", graphemes(&new).len() as u64);
    let line = format!("recon.update_text {} {} {} {} {} {} {}", enc_name(enc), if steps.is_empty() { "-".to_string() } else { steps.join(",") }, hs(&new),
        hlist(&graphemes(&old)), hlist(&graphemes(&new)), hlist(&elems), if ws.is_empty() { "-".to_string() } else { ws.join(",") });
    exec_line(sess, &line, out);
}

fn gen_scalar(r: &mut Rng) -> String {
    match r.below(12) {
        0 => "n".into(),
        1 => format!("b{}", r.below(2)),
        2 | 3 => format!("i{}", r.below(20) as i64 - 5),
        4 => format!("u{}", r.below(1000)),
        5 => format!("f{}", (r.below(100) as f64 / 4.0).to_bits()),
        6 | 7 => format!("s{}", hex::encode(rand_text(r, 4, 2).as_bytes())),
        8 => { let k = r.below(4) as usize; format!("x{}", hex::encode(r.bytes(k))) }
        9 => format!("c{}", r.below(50)),
        10 => format!("t{}", r.below(100000)),
        _ => "s".into(),
    }
}
const KEYS: &[&str] = &["a", "b", "c", "k", "key", "é", "z", "list", "m"];
fn gen_value(r: &mut Rng, depth: u32) -> String {
    let k = if depth == 0 { r.below(5) } else { r.below(10) };
    match k {
        0..=4 => gen_scalar(r),
        5 | 6 => gen_map(r, depth - 1),
        7 | 8 => { let n = r.below(5); format!("L[{}]", (0..n).map(|_| gen_value(r, depth - 1)).collect::<Vec<_>>().join(";")) }
        _ => format!("T{}", hs(&rand_text(r, 8, 2))),
    }
}
fn gen_map(r: &mut Rng, depth: u32) -> String {
    let n = r.below(5);
    let mut m: BTreeMap<String, String> = BTreeMap::new();
    for _ in 0..n { m.insert(hs(*r.pick(KEYS)), gen_value(r, depth)); }
    format!("M{{{}}}", m.iter().map(|(k, v)| format!("{}={}", k, v)).collect::<Vec<_>>().join(";"))
}
fn gen_object(r: &mut Rng, depth: u32) -> String {
    match r.below(5) { 0 | 1 => gen_map(r, depth), 2 | 3 => { let n = r.below(5); format!("L[{}]", (0..n).map(|_| gen_value(r, depth)).collect::<Vec<_>>().join(";")) }, _ => format!("T{}", hs(&rand_text(r, 8, 2))) }
}
fn gen_block(r: &mut Rng) -> String {
    match r.below(3) {
        0 => "M{}".into(),
        1 => format!("M{{{}=s{}}}", hs("type"), hex::encode(r.pick(&["p", "h1", "li"]).as_bytes())),
        _ => format!("M{{{}=L[s{}];{}=s{}}}", hs("parents"), hex::encode("ul"), hs("type"), hex::encode(r.pick(&["p", "li"]).as_bytes())),
    }
}
/// a variation of a value: same shape with some leaves / lengths changed (so that reconciliation recurses)
fn vary_value(r: &mut Rng, v: &hydrate::Value, depth: u32) -> String {
    if r.chance(1, 8) { return if depth == 0 { gen_scalar(r) } else { gen_value(r, depth) }; }
    match v {
        hydrate::Value::Scalar(s) => if r.chance(1, 3) { gen_scalar(r) } else { show_scalar(s) },
        hydrate::Value::Text(t) => format!("T{}", hs(&mutate_text(r, &t.to_string(), 2))),
        hydrate::Value::List(l) => {
            let mut items: Vec<String> = l.iter().map(|x| vary_value(r, &x.value, depth.saturating_sub(1))).collect();
            match r.below(4) {
                0 => { let k = r.below(items.len() as u64 + 1) as usize; items.truncate(k); }
                1 => for _ in 0..r.range(1, 2) { items.push(gen_value(r, depth.saturating_sub(1))); },
                2 => if !items.is_empty() { let i = r.below(items.len() as u64) as usize; items.remove(i); },
                _ => {}
            }
            format!("L[{}]", items.join(";"))
        }
        hydrate::Value::Map(m) => {
            let mut items: BTreeMap<String, String> = BTreeMap::new();
            for (k, mv) in m.iter() { if !r.chance(1, 4) { items.insert(hs(k), vary_value(r, &mv.value, depth.saturating_sub(1))); } }
            for _ in 0..r.below(3) { items.insert(hs(*r.pick(KEYS)), gen_value(r, depth.saturating_sub(1))); }
            format!("M{{{}}}", items.iter().map(|(k, v)| format!("{}={}", k, v)).collect::<Vec<_>>().join(";"))
        }
    }
}

fn gen_update_object(r: &mut Rng, sess: &mut Session, out: &mut Out) {
    let enc = rand_enc(r);
    let old = gen_map(r, 3);
    let oldv = parse_hval(&old, enc);
    let (path, new) = if r.chance(1, 3) {
        // a nested object of the root as target
        let cands: Vec<(String, hydrate::Value)> = match &oldv { hydrate::Value::Map(m) => m.iter().filter(|(_, v)| objtype_of(&v.value).is_some()).map(|(k, v)| (k.clone(), v.value.clone())).collect(), _ => vec![] };
        if cands.is_empty() { ("_".to_string(), vary_value(r, &oldv, 3)) } else {
            let mut cs = cands; cs.sort_by(|a, b| a.0.cmp(&b.0));
            let (k, v) = cs[r.below(cs.len() as u64) as usize].clone();
            let mut nv = vary_value(r, &v, 2);
            if objtype_of(&parse_hval(&nv, enc)) != objtype_of(&v) && !r.chance(1, 4) { nv = show_hval(&v); }
            (hs(&k), nv)
        }
    } else if r.chance(1, 5) { ("_".to_string(), gen_map(r, 3)) } else { ("_".to_string(), vary_value(r, &oldv, 3)) };
    let new = if path == "_" && !new.starts_with('M') { gen_map(r, 2) } else { new };
    let conc = if r.chance(1, 4) { out.count("uo_concurrent"); gen_map(r, 1) } else { "-".to_string() };
    out.count(if path == "_" { "uo_root" } else { "uo_nested" });
    if shrinks_list(&oldv, &parse_hval(&new, enc)) { out.count("uo_list_shrinks"); }
    exec_line(sess, &format!("recon.update_object {} {} {} {} {}", enc_name(enc), old, new, path, conc), out);
}

fn gen_batch(r: &mut Rng, sess: &mut Session, out: &mut Out) {
    let enc = rand_enc(r);
    let mode = *r.pick(&["mapput", "mapput", "listins", "listins", "listput", "splice", "splice", "textins"]);
    out.count(&format!("batch_{}", mode));
    let value = if r.chance(1, 12) { gen_scalar(r) } else { gen_object(r, 2) };
    let line = match mode {
        "mapput" => format!("recon.batch {} mapput {} {}", enc_name(enc), if r.chance(1, 2) { "M{}".to_string() } else { gen_map(r, 2) }, value),
        "textins" => { let t = rand_text(r, 6, 0); let i = char_boundary_width(r, enc, &t); format!("recon.batch {} textins T{} {} {}", enc_name(enc), hs(&t), gen_block(r), i) }
        "splice" => {
            let n = r.below(5);
            let prior = format!("L[{}]", (0..n).map(|_| gen_value(r, 1)).collect::<Vec<_>>().join(";"));
            let k = r.below(4);
            let vals = format!("L[{}]", (0..k).map(|_| gen_value(r, 2)).collect::<Vec<_>>().join(";"));
            let idx = r.below(n + 1);
            let del = if r.chance(1, 10) { r.below(n + 2) } else { r.below(n - idx + 1) };
            format!("recon.batch {} splice {} {} {} {}", enc_name(enc), prior, vals, idx, del)
        }
        _ => {
            let n = r.below(5);
            let prior = format!("L[{}]", (0..n).map(|_| gen_value(r, 1)).collect::<Vec<_>>().join(";"));
            let over = if r.chance(1, 10) { 2 } else { 0 };
            let idx = if mode == "listins" { r.below(n + 1 + over) } else if n == 0 { 0 } else { r.below(n) };
            format!("recon.batch {} {} {} {} {}", enc_name(enc), mode, prior, value, idx)
        }
    };
    exec_line(sess, &line, out);
}

fn gen_init(r: &mut Rng, sess: &mut Session, out: &mut Out) {
    let enc = rand_enc(r);
    let which = *r.pick(&["root", "doc"]);
    let prior = if r.chance(2, 3) { "M{}".to_string() } else { gen_map(r, 2) };
    out.count(&format!("init_{}_{}", which, if prior == "M{}" { "empty" } else { "nonempty" }));
    exec_line(sess, &format!("recon.init {} {} {} {}", enc_name(enc), which, prior, gen_map(r, 3)), out);
}

fn gen_update_spans(r: &mut Rng, sess: &mut Session, out: &mut Out) {
    let simple = r.chance(1, 2);
    SIMPLE.store(simple, std::sync::atomic::Ordering::Relaxed);
    out.count(if simple { "spans_simple_alphabet" } else { "spans_rich_alphabet" });
    gen_update_spans2(r, sess, out);
    SIMPLE.store(false, std::sync::atomic::Ordering::Relaxed);
}
fn gen_update_spans2(r: &mut Rng, sess: &mut Session, out: &mut Out) {
    let enc = rand_enc(r);
    let (steps, mut t) = gen_text_build(r, enc, out, true, false);
    let obj = t.obj.clone();
    let d = &mut t.d[0];
    d.commit();
    // target: the current spans, varied
    let cur = norm_spans(d.spans(&obj).unwrap());
    let mut tgt: Vec<NSpan> = vec![];
    let mode = r.below(10);
    if mode == 0 { out.count("spans_identical"); tgt = cur.clone(); }
    else if mode == 1 { out.count("spans_unrelated"); }
    else {
        out.count("spans_varied");
        for s in &cur {
            if r.chance(1, 6) { continue; }
            match s {
                NSpan::T(t, m) => { let nt = if r.chance(1, 2) { mutate_text(r, t, 2) } else { t.clone() }; let nm = if r.chance(1, 4) { vec![] } else { m.clone() }; tgt.push(NSpan::T(nt, nm)); }
                NSpan::B(b) => tgt.push(NSpan::B(if r.chance(1, 3) { gen_block(r) } else { b.clone() })),
            }
        }
    }
    for _ in 0..(if mode == 1 { r.range(1, 4) } else { r.below(2) }) {
        let at = r.below(tgt.len() as u64 + 1) as usize;
        let s = match r.below(3) {
            0 => NSpan::B(gen_block(r)),
            1 => NSpan::T(rand_text(r, 6, 2), vec![(r.pick(&["bold", "em"]).to_string(), r.pick(&["b1", "i7"]).to_string())]),
            _ => NSpan::T(rand_text(r, 6, 2), vec![]),
        };
        tgt.insert(at, s);
    }
    let line = format!("recon.update_spans {} {} {} {}", enc_name(enc), if steps.is_empty() { "-".to_string() } else { steps.join(",") }, show_nspans(&tgt), r.below(4));
    exec_line(sess, &line, out);
}

pub fn generate(r: &mut Rng, opts: &BTreeMap<String, String>, sess: &mut Session, out: &mut Out) {
    let only = opts.get("only").map(|s| s.as_str());
    let pick = match only {
        Some("update_text") => 0, Some("update_object") => 10, Some("batch") => 13, Some("init") => 16, Some("update_spans") => 18,
        _ => r.below(20),
    };
    match pick {
        0..=9 => { for _ in 0..3 { gen_update_text(r, sess, out); } }
        10..=12 => { for _ in 0..2 { gen_update_object(r, sess, out); } }
        13..=15 => { for _ in 0..2 { gen_batch(r, sess, out); } }
        16 | 17 => gen_init(r, sess, out),
        _ => gen_update_spans(r, sess, out),
    }
}
