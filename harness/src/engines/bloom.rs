//! C23 (and the Bloom part of C15/C17): `sync::BloomFilter` build / encode / parse / query.
use super::{hx, unhx};
use crate::{exec_line, rng::Rng, Out, Session};
use automerge::sync::BloomFilter;
use automerge::ChangeHash;
use std::collections::BTreeMap;

fn hashes_of(s: &str) -> Vec<ChangeHash> {
    if s == "-" { return vec![]; }
    s.split(',').map(|h| ChangeHash::try_from(unhx(h).as_slice()).expect("hash")).collect()
}

pub fn exec(toks: &[&str]) -> Vec<String> {
    match toks[0] {
        // bloom.build <h,h,…>  -> bytes of from_hashes, and (direct oracle) every member is contained,
        // also after a to_bytes/try_from round trip
        "bloom.build" => {
            let hs = hashes_of(toks[1]);
            let f = BloomFilter::from_hashes(hs.iter());
            let bytes = f.to_bytes();
            let mut res = vec![format!("ok {}", hx(&bytes))];
            let g = BloomFilter::try_from(bytes.as_slice());
            match g {
                Ok(g) => {
                    if g != f { res.push("! C23 filter differs after to_bytes/try_from".into()); }
                    for h in &hs {
                        if !f.contains_hash(h) { res.push(format!("! C23 false negative for {}", h)); }
                        if !g.contains_hash(h) { res.push(format!("! C23 false negative after round trip for {}", h)); }
                    }
                }
                Err(_) => res.push("! C23 own bytes do not parse".into()),
            }
            res
        }
        // bloom.query <filterbytes> <hash>  -> ok true|false / err (filter does not parse)
        "bloom.query" => {
            let bytes = unhx(toks[1]);
            let h = ChangeHash::try_from(unhx(toks[2]).as_slice()).expect("hash");
            // C17 direct oracle: decoding a filter of n bytes and querying it must take time bounded by n
            let t0 = std::time::Instant::now();
            let r = match BloomFilter::try_from(bytes.as_slice()) {
                Ok(f) => vec![format!("ok {}", f.contains_hash(&h))],
                Err(_) => vec!["err".into()],
            };
            let mut r = r;
            let ms = t0.elapsed().as_millis();
            if ms > 250 + bytes.len() as u128 { r.push(format!("! C17 sig=slow-bloom-query a {}-byte filter took {} ms to decode and query once", bytes.len(), ms)); }
            r
        }
        // bloom.parse <bytes> -> ok <re-encoded bytes> / err
        "bloom.parse" => {
            let bytes = unhx(toks[1]);
            match BloomFilter::try_from(bytes.as_slice()) {
                Ok(f) => vec![format!("ok {}", hx(&f.to_bytes()))],
                Err(_) => vec!["err".into()],
            }
        }
        _ => vec!["unknown-cmd".into()],
    }
}

fn leb(n: u64) -> Vec<u8> {
    let mut v = vec![];
    leb128::write::unsigned(&mut v, n).unwrap();
    v
}

pub fn generate(r: &mut Rng, _opts: &BTreeMap<String, String>, sess: &mut Session, out: &mut Out) {
    // 1. a hash set of a size class, built, then members and non-members queried through the bytes
    let n = match r.below(6) { 0 => 0, 1 => 1, 2 => r.range(2, 8), 3 => r.range(9, 64), 4 => r.range(65, 400), _ => r.range(401, 3000) } as usize;
    out.add(&format!("size_class_{}", if n == 0 {"0"} else if n == 1 {"1"} else if n <= 8 {"2-8"} else if n <= 64 {"9-64"} else if n <= 400 {"65-400"} else {">400"}), 1);
    let hs: Vec<Vec<u8>> = (0..n).map(|_| r.bytes(32)).collect();
    let list = if hs.is_empty() { "-".to_string() } else { hs.iter().map(|h| hx(h)).collect::<Vec<_>>().join(",") };
    exec_line(sess, &format!("bloom.build {}", list), out);
    let f = BloomFilter::from_hashes(hs.iter().map(|h| ChangeHash::try_from(h.as_slice()).unwrap()));
    let fb = f.to_bytes();
    for _ in 0..4 {
        let h = if !hs.is_empty() && r.chance(1, 2) { hs[r.below(hs.len() as u64) as usize].clone() } else { r.bytes(32) };
        exec_line(sess, &format!("bloom.query {} {}", hx(&fb), hx(&h)), out);
    }
    // 2. malformed / adversarial filters: header fields driven to extremes, bits random
    for _ in 0..6 {
        let ne = match r.below(5) { 0 => 0, 1 => 1, 2 => r.below(40), 3 => r.edgy_u64(), _ => r.below(5) };
        let bpe = match r.below(5) { 0 => 0, 1 => 10, 2 => r.below(40), 3 => r.edgy_u64(), _ => 8 };
        let np = match r.below(6) { 0 => 0, 1 => 7, 2 => r.below(40), 3 => r.below(2000), 4 => r.edgy_u64(), _ => 1 };
        let want = ((ne as u128 * bpe as u128) + 7) / 8;
        let nbits = if want <= 4096 && r.chance(4, 5) { want as usize } else { r.below(64) as usize };
        let mut bytes = vec![];
        bytes.extend(leb(ne)); bytes.extend(leb(bpe)); bytes.extend(leb(np));
        let fill = r.below(3);
        bytes.extend((0..nbits).map(|_| match fill { 0 => 0xff, 1 => 0, _ => r.next() as u8 }));
        if r.chance(1, 10) { let k = r.below(bytes.len() as u64 + 1) as usize; bytes.truncate(k); }
        out.count(if bpe == 0 || ne == 0 { "malformed_zero_field" } else if want > 4096 { "malformed_huge" } else { "malformed_other" });
        exec_line(sess, &format!("bloom.parse {}", hx(&bytes)), out);
        exec_line(sess, &format!("bloom.query {} {}", hx(&bytes), hx(&r.bytes(32))), out);
    }
    // 3. raw random bytes
    let k = r.below(24) as usize;
    let raw = r.bytes(k);
    exec_line(sess, &format!("bloom.query {} {}", hx(&raw), hx(&r.bytes(32))), out);
}
