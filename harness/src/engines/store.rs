//! Extension of the `crdt` engine: commands `crdt.st.*` (concrete op store, M4) on the replicas of `CrdtSession`.
use super::crdt::CrdtSession;
use crate::{rng::Rng, Out, Session};
use automerge::TextEncoding;
use std::collections::BTreeMap;

pub fn exec(_s: &mut CrdtSession, _toks: &[&str], _enc: TextEncoding) -> Vec<String> {
    vec!["unknown-cmd".into()]
}

#[allow(dead_code)]
pub fn generate(_r: &mut Rng, _opts: &BTreeMap<String, String>, _sess: &mut Session, _out: &mut Out) {}
