//! Extension of the `crdt` engine: commands `crdt.st.*` (concrete op store, M4) on the replicas of `CrdtSession`.
//!
//! `crdt.st.dump r`  — the rows of the real op store (`Automerge::verif_dump_ops`, hook behind
//!                     `--cfg automerge_verif`): id/obj/key/insert/successors(+inc)/visible,top/width,
//!                     compared with the Lean model store (`insertRemote` folded over the applied ops).
//! `crdt.st.state r` — the document as the public API shows it, compared with the Lean reading of the
//!                     MODEL STORE rows (`storeShowDoc`).
//! Direct oracles (implementation alone): the store of `load(save(doc))` (index columns rebuilt from
//! scratch by `IndexBuilder`) equals the incrementally maintained one; two replicas holding the same
//! changes hold the same rows in the same order.
use super::crdt::{def_line, local_tx, parse_exid, show_doc, CrdtSession};
use super::unhx;
use crate::{exec_line, rng::Rng, Out, Session};
use automerge::{transaction::Transactable, AutoCommit, ChangeHash, ObjType, ReadDoc, TextEncoding};
use std::collections::BTreeMap;

static SNAPS: std::sync::Mutex<BTreeMap<String, String>> = std::sync::Mutex::new(BTreeMap::new());

fn dump_doc(d: &AutoCommit) -> String {
    // `document()` closes the open (empty) transaction: work on a copy
    let mut c = d.clone();
    let rows = c.document().verif_dump_ops();
    if rows.is_empty() { return "-".into(); }
    rows.iter().map(|(id, obj, key, insert, succ, vis, top, width)| {
        let key = match key.strip_prefix('m') { Some(k) => format!("m{}", super::hx(k.as_bytes())), None => key.clone() };
        let succ = if succ.is_empty() { "-".to_string() } else {
            succ.iter().map(|(i, inc)| match inc { Some(n) => format!("{}+{}", i, n), None => i.clone() }).collect::<Vec<_>>().join(",")
        };
        format!("{}/{}/{}/{}/{}/{}{}/{}", id, obj, key, if *insert { 1 } else { 0 }, succ,
            if *vis { 1 } else { 0 }, if *top { 1 } else { 0 }, match width { Some(w) => w.to_string(), None => "-".into() })
    }).collect::<Vec<_>>().join(";")
}

pub fn exec(s: &mut CrdtSession, toks: &[&str], enc: TextEncoding) -> Vec<String> {
    match toks[0] {
        "crdt.st.dump" => {
            let d = s.replicas.get(toks[1]).expect("replica");
            let text = dump_doc(d);
            // inside an open transaction the model also reports local = remote and undo = identity
            let tail = if d.pending_ops() > 0 { " lr=ok rb=ok lp=ok" } else { "" };
            let mut res = vec![format!("{} idx=ok{}", text, tail)];
            // direct oracle: the index columns rebuilt from scratch by load() equal the maintained ones
            let bytes = d.clone().save_with_options(automerge::SaveOptions { deflate: false, retain_orphans: false });
            match AutoCommit::load_with_options(&bytes, automerge::LoadOptions::new().text_encoding(enc)) {
                Ok(l) => {
                    let lt = dump_doc(&l);
                    if lt != text {
                        let (a, b): (Vec<&str>, Vec<&str>) = (text.split(';').collect(), lt.split(';').collect());
                        let at = a.iter().zip(b.iter()).position(|(x, y)| x != y).unwrap_or(a.len().min(b.len()));
                        res.push(format!("! C02 sig=store-rebuild-differs the op store of load(save(doc)) differs from the incrementally maintained one at row {}: {} vs {}",
                            at, a.get(at).unwrap_or(&"<none>"), b.get(at).unwrap_or(&"<none>")));
                    }
                }
                Err(e) => res.push(format!("! C11 sig=load-failed load(save(doc)) failed: {}", e)),
            }
            res
        }
        "crdt.st.state" => {
            let d = s.replicas.get(toks[1]).expect("replica");
            vec![show_doc(d, None, enc)]
        }
        // C28 direct oracle: the op store (rows, successor lists, index columns) after a rollback is the
        // one from before the transaction
        "crdt.st.snap" => {
            let d = s.replicas.get(toks[1]).expect("replica");
            SNAPS.lock().unwrap().insert(toks[1].to_string(), dump_doc(d));
            vec!["ok".into()]
        }
        "crdt.st.rbcheck" => {
            let d = s.replicas.get(toks[1]).expect("replica");
            let now = dump_doc(d);
            let mut res = vec!["ok".to_string()];
            if let Some(before) = SNAPS.lock().unwrap().get(toks[1]) {
                if *before != now {
                    let (a, b): (Vec<&str>, Vec<&str>) = (before.split(';').collect(), now.split(';').collect());
                    let at = a.iter().zip(b.iter()).position(|(x, y)| x != y).unwrap_or(a.len().min(b.len()));
                    res.push(format!("! C28 sig=store-differs-after-rollback the op store after rollback differs from the one before the transaction at row {}: {} vs {}",
                        at, a.get(at).unwrap_or(&"<none>"), b.get(at).unwrap_or(&"<none>")));
                }
            }
            res
        }
        // the model side evaluates the hypotheses of the refinement theorems on the replica's op list
        "crdt.st.adm" => vec!["adm=ok preds=ok".into()],
        _ => vec!["unknown-cmd".into()],
    }
}

// ------------------------------------------------------------------ generator

/// dump (and sometimes read) the store of the named replicas; direct oracle: equal change sets ⇒ equal rows
fn dump_all(r: &mut Rng, sess: &mut Session, out: &mut Out, names: &[String]) {
    let mut seen: BTreeMap<String, (String, String)> = BTreeMap::new();
    for n in names {
        if !sess.crdt.replicas.contains_key(n) { continue; }
        let res = exec_line(sess, &format!("crdt.st.dump {}", n), out);
        out.count("dumps");
        out.add("rows_dumped", res[0].split(';').count() as u64);
        if r.chance(1, 3) { exec_line(sess, &format!("crdt.st.state {}", n), out); }
        if r.chance(1, 2) { exec_line(sess, &format!("crdt.st.adm {}", n), out); out.count("hypothesis_checks"); }
        let d = sess.crdt.replicas.get_mut(n).unwrap();
        let mut hs: Vec<String> = d.get_changes(&[]).iter().map(|c| hex::encode(c.hash().0)).collect();
        hs.sort();
        let key = hs.join(",");
        if let Some((other, st)) = seen.get(&key) {
            if *st != res[0] {
                out.count("oracle_failures");
                out.line(&format!("! C01 sig=store-diverged replicas {} and {} hold the same {} changes but different op store rows", other, n, hs.len()));
            } else { out.count("c01_equal_store_pairs"); }
        } else { seen.insert(key, (n.clone(), res[0].clone())); }
    }
}

fn commit(sess: &mut Session, out: &mut Out, who: &str, all: &mut Vec<String>) {
    let res = exec_line(sess, &format!("crdt.commit {}", who), out);
    if res[0] == "ok" {
        let hh = ChangeHash::try_from(unhx(res[1].strip_prefix("#hash ").unwrap()).as_slice()).unwrap();
        let c = sess.crdt.replicas.get_mut(who).unwrap().get_change_by_hash(&hh).unwrap();
        exec_line(sess, &def_line(&c), out);
        exec_line(sess, &format!("crdt.local {} {}", who, hex::encode(hh.0)), out);
        all.push(hex::encode(hh.0));
    }
}

fn shuffle(r: &mut Rng, v: &mut Vec<String>) {
    for i in (1..v.len()).rev() { let j = r.below(i as u64 + 1) as usize; v.swap(i, j); }
}

/// three replicas edit ONE list or text concurrently (inserts at the same positions, updates, deletes,
/// counters with increments), changes travel in shuffled batches: the RGA skip and the element blocks
fn generate_seq(r: &mut Rng, sess: &mut Session, out: &mut Out) {
    out.count("seq_cases");
    let enc = ["cp", "utf8", "utf16"][r.below(3) as usize];
    let mut actors: Vec<Vec<u8>> = (0..3).map(|i| vec![0x20 + 0x30 * i as u8 + r.below(8) as u8]).collect();
    if r.chance(1, 2) { actors.reverse(); }
    if r.chance(1, 3) { actors.swap(0, 1); }
    exec_line(sess, &format!("crdt.new r0 {} {}", enc, hex::encode(&actors[0])), out);
    let is_text = r.chance(1, 2);
    let res = exec_line(sess, &format!("crdt.putobj r0 _ m6c {}", if is_text { "T" } else { "L" }), out);
    let seq = res[0].strip_prefix("ok ").unwrap_or("_").to_string();
    let mut all: Vec<String> = vec![];
    let vals = ["c3", "i4", "s79", "n", "s61", "c0", "se29892", "sf09f9982"];
    let txts = ["a", "bc", "é", "🙂", "xyz"];
    for i in 0..r.range(0, 3) {
        if is_text { exec_line(sess, &format!("crdt.splice r0 {} {} 0 {}", seq, i, hex::encode(txts[r.below(5) as usize])), out); }
        else { exec_line(sess, &format!("crdt.ins r0 {} {} {}", seq, i, vals[r.below(8) as usize]), out); }
    }
    commit(sess, out, "r0", &mut all);
    exec_line(sess, &format!("crdt.fork r0 r1 {}", hex::encode(&actors[1])), out);
    exec_line(sess, &format!("crdt.fork r0 r2 {}", hex::encode(&actors[2])), out);
    let names = ["r0".to_string(), "r1".to_string(), "r2".to_string()];
    for _round in 0..r.range(2, 6) {
        for who in names.iter() {
            if r.chance(1, 4) { continue; }
            for _ in 0..r.range(1, 3) {
                let len = sess.crdt.replicas.get(who).unwrap().length(parse_exid(&seq)) as u64;
                let line = if is_text && enc == "cp" && len > 0 && r.chance(1, 4) {
                    // values other than characters inside a text: counters, conflicts, increments
                    // (code points only: there every element is one unit wide, so that the C03
                    // read-back oracle of `crdt.put`, which re-reads the same index, applies)
                    if r.chance(1, 3) { format!("crdt.inc {} {} i{} {}", who, seq, r.below(len), r.range(1, 3)) }
                    else { format!("crdt.put {} {} i{} {}", who, seq, r.below(len.min(2)), vals[r.below(8) as usize]) }
                } else if is_text {
                    let pos = r.below(len + 1);
                    let del = if len > pos && r.chance(1, 3) { r.range(1, (len - pos).min(2)) } else { 0 };
                    format!("crdt.splice {} {} {} {} {}", who, seq, pos, del, hex::encode(txts[r.below(5) as usize]))
                } else {
                    match r.below(10) {
                        0 | 1 if len > 0 => format!("crdt.put {} {} i{} {}", who, seq, r.below(len), vals[r.below(8) as usize]),
                        2 if len > 0 => format!("crdt.inc {} {} i{} {}", who, seq, r.below(len), r.range(1, 3)),
                        3 if len > 0 => format!("crdt.del {} {} i{}", who, seq, r.below(len)),
                        // the front and one fixed position are contested by everybody
                        4 | 5 => format!("crdt.ins {} {} {} {}", who, seq, 0, vals[r.below(8) as usize]),
                        6 => format!("crdt.ins {} {} {} {}", who, seq, len.min(1), vals[r.below(8) as usize]),
                        _ => format!("crdt.ins {} {} {} {}", who, seq, r.below(len + 1), vals[r.below(8) as usize]),
                    }
                };
                exec_line(sess, &line, out);
            }
            commit(sess, out, who, &mut all);
            exec_line(sess, &format!("crdt.st.dump {}", who), out);
            out.count("dumps");
        }
        for who in names.iter() {
            if all.is_empty() || r.chance(1, 3) { continue; }
            let mut pick: Vec<String> = all.iter().filter(|_| r.chance(2, 3)).cloned().collect();
            shuffle(r, &mut pick);
            if pick.is_empty() { continue; }
            if r.chance(1, 3) {
                // one by one: every change is its own batch
                for h in pick { exec_line(sess, &format!("crdt.apply {} {}", who, h), out); }
            } else {
                let via = if r.chance(1, 4) { "crdt.loadinc" } else { "crdt.apply" };
                exec_line(sess, &format!("{} {} {}", via, who, pick.join(",")), out);
            }
            exec_line(sess, &format!("crdt.st.dump {}", who), out);
            out.count("dumps");
            if r.chance(1, 2) { exec_line(sess, &format!("crdt.st.state {}", who), out); }
        }
    }
    for n in names.iter() { exec_line(sess, &format!("crdt.apply {} {}", n, all.join(",")), out); }
    dump_all(r, sess, out, &names.to_vec());
    exec_line(sess, "crdt.saveload r1 l 0", out);
    dump_all(r, sess, out, &["l".to_string()]);
}

/// `crdt::generate_focus` with a dump after every commit and delivery
fn generate_focus(r: &mut Rng, sess: &mut Session, out: &mut Out) {
    out.count("focus_cases");
    let mut actors: Vec<Vec<u8>> = (0..3).map(|i| vec![0x20 + 0x30 * i as u8 + r.below(8) as u8]).collect();
    if r.chance(1, 2) { actors.reverse(); }
    exec_line(sess, &format!("crdt.new r0 cp {}", hex::encode(&actors[0])), out);
    let res = exec_line(sess, "crdt.putobj r0 _ m6c L", out);
    let list = res[0].strip_prefix("ok ").unwrap_or("_").to_string();
    exec_line(sess, &format!("crdt.ins r0 {} 0 c5", list), out);
    exec_line(sess, &format!("crdt.ins r0 {} 1 s78", list), out);
    exec_line(sess, "crdt.put r0 _ m61 c1", out);
    let mut all: Vec<String> = vec![];
    commit(sess, out, "r0", &mut all);
    exec_line(sess, &format!("crdt.fork r0 r1 {}", hex::encode(&actors[1])), out);
    exec_line(sess, &format!("crdt.fork r0 r2 {}", hex::encode(&actors[2])), out);
    let names = ["r0".to_string(), "r1".to_string(), "r2".to_string()];
    let vals = ["c3", "c7", "i4", "s79", "n", "b1"];
    for _round in 0..r.range(3, 7) {
        for who in names.iter() {
            if r.chance(1, 4) { continue; }
            for _ in 0..r.range(1, 2) {
                let len = sess.crdt.replicas.get(who).unwrap().length(parse_exid(&list)) as u64;
                let line = match r.below(8) {
                    0 | 1 => format!("crdt.put {} _ m61 {}", who, vals[r.below(6) as usize]),
                    2 | 3 if len > 0 => format!("crdt.put {} {} i{} {}", who, list, r.below(len.min(2)), vals[r.below(6) as usize]),
                    4 => format!("crdt.inc {} _ m61 {}", who, r.range(1, 3)),
                    5 if len > 0 => format!("crdt.inc {} {} i{} {}", who, list, r.below(len.min(2)), r.range(1, 3)),
                    6 => if r.chance(1, 2) || len == 0 { format!("crdt.del {} _ m61", who) } else { format!("crdt.del {} {} i{}", who, list, r.below(len)) },
                    _ => format!("crdt.ins {} {} {} {}", who, list, r.below(len + 1), vals[r.below(6) as usize]),
                };
                exec_line(sess, &line, out);
            }
            commit(sess, out, who, &mut all);
            exec_line(sess, &format!("crdt.st.dump {}", who), out);
            out.count("dumps");
        }
        for who in names.iter() {
            if all.is_empty() || r.chance(1, 3) { continue; }
            let mut pick: Vec<String> = all.iter().filter(|_| r.chance(2, 3)).cloned().collect();
            shuffle(r, &mut pick);
            if pick.is_empty() { continue; }
            let via = if r.chance(1, 4) { "crdt.loadinc" } else { "crdt.apply" };
            exec_line(sess, &format!("{} {} {}", via, who, pick.join(",")), out);
            exec_line(sess, &format!("crdt.st.dump {}", who), out);
            out.count("dumps");
            if r.chance(1, 2) { exec_line(sess, &format!("crdt.st.state {}", who), out); }
        }
    }
    for n in names.iter() { exec_line(sess, &format!("crdt.apply {} {}", n, all.join(",")), out); }
    dump_all(r, sess, out, &names.to_vec());
    exec_line(sess, "crdt.saveload r1 l 0", out);
    dump_all(r, sess, out, &["l".to_string()]);
}

/// `crdt::generate` (random replicas, forks, partial / shuffled / duplicated deliveries, late joiner,
/// random local transactions over maps, lists, texts, nested objects) with a dump after every step
/// the two histories behind the fixed defects 5d9ce8aa7 / b970c7728 (regression corpus C02)
fn generate_scenario(which: &str, sess: &mut Session, out: &mut Out) {
    let mut all: Vec<String> = vec![];
    exec_line(sess, "crdt.new r0 cp 01", out);
    let res = exec_line(sess, "crdt.putobj r0 _ m74 T", out);
    let t = res[0].strip_prefix("ok ").unwrap_or("_").to_string();
    exec_line(sess, &format!("crdt.splice r0 {} 0 0 6162", t), out);
    if which == "f2" {
        // a counter with an increment inside a text element: get / get_all panicked
        exec_line(sess, &format!("crdt.put r0 {} i0 c5", t), out);
        exec_line(sess, &format!("crdt.inc r0 {} i0 2", t), out);
        commit(sess, out, "r0", &mut all);
    } else {
        // a local increment on a text element holding [counter, string]: the exposed counter had no width
        commit(sess, out, "r0", &mut all);
        exec_line(sess, "crdt.fork r0 r1 02", out);
        exec_line(sess, &format!("crdt.put r0 {} i0 c5", t), out);
        commit(sess, out, "r0", &mut all);
        exec_line(sess, &format!("crdt.put r1 {} i0 s78", t), out);
        commit(sess, out, "r1", &mut all);
        exec_line(sess, &format!("crdt.apply r0 {}", all.join(",")), out);
        exec_line(sess, "crdt.st.dump r0", out);
        exec_line(sess, &format!("crdt.inc r0 {} i0 2", t), out);
        commit(sess, out, "r0", &mut all);
        exec_line(sess, &format!("crdt.apply r1 {}", all.join(",")), out);
    }
    for n in ["r0", "r1"] {
        if !sess.crdt.replicas.contains_key(n) { continue; }
        exec_line(sess, &format!("crdt.st.dump {}", n), out);
        exec_line(sess, &format!("crdt.st.state {}", n), out);
        exec_line(sess, &format!("crdt.state {}", n), out);
    }
}

/// transactions on contested registers, dumped after EVERY local op, then committed or rolled back:
/// increments on [counter, non-counter] conflicts in both winner orders, deletes and overwrites of
/// conflicted values, list / text inserts and deletes, first transactions of a new low-sorting actor
fn generate_tx(r: &mut Rng, sess: &mut Session, out: &mut Out) {
    out.count("tx_cases");
    let enc = ["cp", "utf8", "utf16"][r.below(3) as usize];
    let mut actors: Vec<Vec<u8>> = (0..3).map(|i| vec![0x40 + 0x30 * i as u8 + r.below(8) as u8]).collect();
    if r.chance(1, 2) { actors.reverse(); }
    if r.chance(1, 3) { actors.swap(0, 2); }
    exec_line(sess, &format!("crdt.new r0 {} {}", enc, hex::encode(&actors[0])), out);
    let res = exec_line(sess, "crdt.putobj r0 _ m6c L", out);
    let list = res[0].strip_prefix("ok ").unwrap_or("_").to_string();
    let res = exec_line(sess, "crdt.putobj r0 _ m74 T", out);
    let text = res[0].strip_prefix("ok ").unwrap_or("_").to_string();
    exec_line(sess, &format!("crdt.ins r0 {} 0 c5", list), out);
    exec_line(sess, &format!("crdt.ins r0 {} 1 s78", list), out);
    exec_line(sess, &format!("crdt.splice r0 {} 0 0 {}", text, hex::encode("abc")), out);
    exec_line(sess, "crdt.put r0 _ m61 c1", out);
    let mut all: Vec<String> = vec![];
    commit(sess, out, "r0", &mut all);
    exec_line(sess, &format!("crdt.fork r0 r1 {}", hex::encode(&actors[1])), out);
    exec_line(sess, &format!("crdt.fork r0 r2 {}", hex::encode(&actors[2])), out);
    let mut names = vec!["r0".to_string(), "r1".to_string(), "r2".to_string()];
    let vals = ["c3", "c7", "i4", "s79", "n", "c0"];
    let txts = ["a", "bc", "é", "🙂"];
    let mut low = 0u8;
    for _round in 0..r.range(2, 5) {
        // concurrent single edits make the conflicts: counters against plain values on one map key and
        // one list element, whichever actor sorts higher
        for who in names.clone().iter() {
            if r.chance(1, 3) { continue; }
            let len = sess.crdt.replicas.get(who).unwrap().length(parse_exid(&list)) as u64;
            let line = match r.below(4) {
                0 | 1 => format!("crdt.put {} _ m61 {}", who, vals[r.below(6) as usize]),
                2 if len > 0 => format!("crdt.put {} {} i{} {}", who, list, r.below(len.min(2)), vals[r.below(6) as usize]),
                _ => format!("crdt.ins {} {} {} {}", who, list, r.below(len + 1), vals[r.below(6) as usize]),
            };
            exec_line(sess, &line, out);
            commit(sess, out, who, &mut all);
        }
        for who in names.clone().iter() {
            if r.chance(1, 4) { continue; }
            exec_line(sess, &format!("crdt.apply {} {}", who, all.join(",")), out);
        }
        // sometimes a brand new actor that sorts before every other one makes its first transaction
        if r.chance(1, 3) && low < 3 {
            low += 1;
            let n = format!("n{}", low);
            let src = names[r.below(names.len() as u64) as usize].clone();
            exec_line(sess, &format!("crdt.fork {} {} {}", src, n, hex::encode([0x10 - low])), out);
            names.push(n);
            out.count("tx_new_low_actor");
        }
        // one transaction of several local ops, dumped after every op
        let who = names[r.below(names.len() as u64) as usize].clone();
        exec_line(sess, &format!("crdt.st.snap {}", who), out);
        exec_line(sess, &format!("crdt.st.dump {}", who), out);
        let nops = r.range(1, 5);
        for _ in 0..nops {
            let d = sess.crdt.replicas.get(&who).unwrap();
            let len = d.length(parse_exid(&list)) as u64;
            let tlen = d.length(parse_exid(&text)) as u64;
            let line = match r.below(12) {
                0 | 1 => format!("crdt.inc {} _ m61 {}", who, r.range(1, 3)),
                2 if len > 0 => format!("crdt.inc {} {} i{} {}", who, list, r.below(len.min(2)), r.range(1, 3)),
                3 => format!("crdt.del {} _ m61", who),
                4 if len > 0 => format!("crdt.del {} {} i{}", who, list, r.below(len)),
                5 => format!("crdt.put {} _ m61 {}", who, vals[r.below(6) as usize]),
                6 if len > 0 => format!("crdt.put {} {} i{} {}", who, list, r.below(len.min(2)), vals[r.below(6) as usize]),
                7 | 8 => format!("crdt.ins {} {} {} {}", who, list, r.below(len + 1), vals[r.below(6) as usize]),
                9 => { let pos = r.below(tlen + 1); let del = if tlen > pos && r.chance(1, 2) { r.range(1, (tlen - pos).min(2)) } else { 0 };
                       format!("crdt.splice {} {} {} {} {}", who, text, pos, del, hex::encode(txts[r.below(4) as usize])) }
                10 => format!("crdt.putobj {} _ m6f {}", who, ["M", "L", "T"][r.below(3) as usize]),
                _ => format!("crdt.put {} _ m{} {}", who, hex::encode(["b", "k", "z"][r.below(3) as usize]), vals[r.below(6) as usize]),
            };
            let res = exec_line(sess, &line, out);
            out.count(&format!("tx_{}", line.split(' ').next().unwrap()));
            if res.get(0).map(|s| s.starts_with("err")).unwrap_or(false) { out.count("tx_edit_errors"); }
            exec_line(sess, &format!("crdt.st.dump {}", who), out);
            out.count("dumps_in_tx");
            if r.chance(1, 4) { exec_line(sess, &format!("crdt.st.state {}", who), out); }
        }
        if r.chance(1, 2) {
            exec_line(sess, &format!("crdt.rollback {}", who), out);
            exec_line(sess, &format!("crdt.st.rbcheck {}", who), out);
            exec_line(sess, &format!("crdt.st.dump {}", who), out);
            exec_line(sess, &format!("crdt.st.state {}", who), out);
            out.count("tx_rollbacks");
        } else {
            commit(sess, out, &who, &mut all);
            exec_line(sess, &format!("crdt.st.dump {}", who), out);
            out.count("tx_commits");
        }
    }
    for n in names.iter() { exec_line(sess, &format!("crdt.apply {} {}", n, all.join(",")), out); }
    dump_all(r, sess, out, &names);
}

pub fn generate(r: &mut Rng, opts: &BTreeMap<String, String>, sess: &mut Session, out: &mut Out) {
    if let Some(which) = opts.get("scenario") { return generate_scenario(which, sess, out); }
    match r.below(6) {
        0 => return generate_focus(r, sess, out),
        1 => return generate_seq(r, sess, out),
        2 | 3 => return generate_tx(r, sess, out),
        _ => {}
    }
    out.count("general_cases");
    let enc = ["cp", "utf8", "utf16"][r.below(3) as usize];
    let nrep = r.range(2, 3) as usize;
    let mut actors: Vec<Vec<u8>> = (0..8).map(|i| vec![0x10 * (8 - i as u8) + r.below(8) as u8, r.next() as u8]).collect();
    if r.chance(1, 2) { actors.reverse(); }
    let mut names: Vec<String> = vec!["r0".into()];
    exec_line(sess, &format!("crdt.new r0 {} {}", enc, hex::encode(&actors[0])), out);
    let mut next_actor = 1;
    let mut known_objs: Vec<(String, ObjType)> = vec![("_".into(), ObjType::Map)];
    let mut all_changes: Vec<String> = vec![];
    let steps = r.range(8, 30);
    for _ in 0..steps {
        let who = names[r.below(names.len() as u64) as usize].clone();
        match r.below(10) {
            0 if names.len() < nrep => {
                let n = format!("r{}", names.len());
                next_actor += 1;
                exec_line(sess, &format!("crdt.fork {} {} {}", who, n, hex::encode(&actors[next_actor - 1])), out);
                names.push(n);
            }
            1 | 2 if !all_changes.is_empty() => {
                let k = r.range(1, 4.min(all_changes.len() as u64)) as usize;
                let mut pick: Vec<String> = (0..k).map(|_| all_changes[r.below(all_changes.len() as u64) as usize].clone()).collect();
                if r.chance(1, 3) { pick.reverse(); }
                let via = if r.chance(1, 3) { "crdt.loadinc" } else { "crdt.apply" };
                exec_line(sess, &format!("{} {} {}", via, who, pick.join(",")), out);
                out.count("deliver_subset");
            }
            3 if !all_changes.is_empty() => {
                let mut all = all_changes.clone();
                shuffle(r, &mut all);
                exec_line(sess, &format!("crdt.apply {} {}", who, all.join(",")), out);
                out.count("deliver_all_shuffled");
            }
            _ => { local_tx(r, sess, out, &who, &mut known_objs, &mut all_changes); }
        }
        // a rolled-back / failed transaction leaves no pending ops; an open one answers `pending`
        exec_line(sess, &format!("crdt.st.dump {}", who), out);
        out.count("dumps");
        if r.chance(1, 4) { exec_line(sess, &format!("crdt.st.state {}", who), out); }
        if r.chance(1, 6) { exec_line(sess, &format!("crdt.saveload {} scratch {}", who, r.below(2)), out); exec_line(sess, "crdt.st.dump scratch", out); }
    }
    if !all_changes.is_empty() && r.chance(1, 2) {
        let late_actor = hex::encode(r.bytes(3));
        exec_line(sess, &format!("crdt.new late {} {}", enc, late_actor), out);
        names.push("late".into());
        out.count("late_joiner");
        let mut all = all_changes.clone();
        shuffle(r, &mut all);
        for h in all {
            let via = if r.chance(1, 2) { "crdt.loadinc" } else { "crdt.apply" };
            exec_line(sess, &format!("{} late {}", via, h), out);
            if r.chance(1, 2) { exec_line(sess, "crdt.st.dump late", out); out.count("dumps"); }
        }
    }
    for n in names.clone() {
        let mut all = all_changes.clone();
        shuffle(r, &mut all);
        if r.chance(1, 2) {
            for h in all { exec_line(sess, &format!("crdt.apply {} {}", n, h), out); }
        } else if !all.is_empty() {
            exec_line(sess, &format!("crdt.apply {} {}", n, all.join(",")), out);
        }
    }
    dump_all(r, sess, out, &names);
    if !all_changes.is_empty() {
        let who = names[r.below(names.len() as u64) as usize].clone();
        exec_line(sess, &format!("crdt.saveload {} l {}", who, r.below(2)), out);
        dump_all(r, sess, out, &["l".to_string()]);
    }
}
