//! Extension of the `crdt` engine: commands `crdt.patch.*` operate on the replicas of `CrdtSession`.
//!
//! Properties C08 (diff(H1,H2) transforms state(H1) into state(H2)), C09 (incremental patches keep a
//! materialised view equal to the document) and the `apply_patches` clause of C37.
//!
//! * `crdt.patch.diff r H1 H2 [obj rec]`   real `diff`/`diff_obj` patches in canonical text; direct oracle C08/C37
//! * `crdt.patch.apply r Cxx H1 H2 obj P`  the patches P (input) applied to the state at H1, compared with H2
//!                                         (three observable lines + verdict; the Lean driver prints the same
//!                                         from its `hview` and its kernel-checked `applyPatch`)
//! * `crdt.patch.track r p actor`          p := fork of r whose internal patch log is followed by a view
//! * `crdt.patch.incr p`                   `diff_incremental()` → view; direct oracle C09/C37
//! * `crdt.patch.merge|loadinc|sync p q`, `crdt.patch.isolate p H`, `crdt.patch.integrate p`,
//!   `crdt.patch.loadlog r`, `crdt.patch.mark …`, `crdt.patch.put …` (text put), `crdt.patch.local p h`
use super::crdt::{parse_enc, parse_exid, parse_scalar, show_exid, show_scalar, CrdtSession};
use super::{hx, unhx};
use crate::{exec_line, rng::Rng, Out, Session};
use automerge::{
    hydrate, marks::{ExpandMark, Mark}, sync::SyncDoc, transaction::Transactable, ActorId, AutoCommit, ChangeHash,
    ConcreteTextValue, ObjId, ObjType, Patch, PatchAction, PatchLog, Prop, ReadDoc, ScalarValue, SequenceTree,
    TextEncoding, Value, ROOT,
};
use std::cell::RefCell;
use std::collections::BTreeMap;
use std::panic::{catch_unwind, AssertUnwindSafe};

thread_local! {
    /// materialised views of the tracked replicas: name ↦ (view, diff cursor at the last synchronisation)
    static VIEWS: RefCell<BTreeMap<String, (hydrate::Value, Vec<ChangeHash>)>> = RefCell::new(BTreeMap::new());
}

// ------------------------------------------------------------------ canonical text

fn show_hashes(hs: &[ChangeHash]) -> String {
    if hs.is_empty() { return "-".into(); }
    let mut v: Vec<String> = hs.iter().map(|h| hex::encode(h.0)).collect();
    v.sort();
    v.join(",")
}
fn parse_hashes(s: &str) -> Vec<ChangeHash> {
    if s == "-" { return vec![]; }
    s.split(',').map(|h| ChangeHash::try_from(unhx(h).as_slice()).unwrap()).collect()
}

/// hydrated value: maps `M{key=flag:value;…}` (keys sorted), lists `L[flag:value;…]`, text `T<hex>`,
/// scalars as `show_scalar` (counters by current value)
pub fn show_hval(v: &hydrate::Value) -> String {
    match v {
        hydrate::Value::Scalar(s) => show_scalar(s),
        hydrate::Value::Map(m) => {
            let mut items: Vec<(&String, &hydrate::MapValue)> = m.iter().collect();
            items.sort_by(|a, b| a.0.as_bytes().cmp(b.0.as_bytes()));
            let parts: Vec<String> = items.iter().map(|(k, mv)| format!("{}={}:{}", hx(k.as_bytes()), if mv.conflict { 1 } else { 0 }, show_hval(&mv.value))).collect();
            format!("M{{{}}}", parts.join(";"))
        }
        hydrate::Value::List(l) => {
            let parts: Vec<String> = l.iter().map(|lv| format!("{}:{}", if lv.conflict { 1 } else { 0 }, show_hval(&lv.value))).collect();
            format!("L[{}]", parts.join(";"))
        }
        hydrate::Value::Text(t) => format!("T{}", hx(String::from(t).as_bytes())),
    }
}

fn show_prop(p: &Prop) -> String {
    match p { Prop::Map(k) => format!("m{}", hx(k.as_bytes())), Prop::Seq(i) => format!("i{}", i) }
}
fn parse_prop(s: &str) -> Prop {
    if let Some(k) = s.strip_prefix('m') { Prop::Map(String::from_utf8(unhx(k)).unwrap()) }
    else if let Some(i) = s.strip_prefix('i') { Prop::Seq(i.parse().unwrap()) }
    else { panic!("prop {}", s) }
}
fn show_val(v: &Value<'_>) -> String {
    match v {
        Value::Scalar(s) => show_scalar(s),
        Value::Object(ObjType::Map) => "oM".into(),
        Value::Object(ObjType::List) => "oL".into(),
        Value::Object(ObjType::Text) => "oT".into(),
        Value::Object(ObjType::Table) => "oB".into(),
    }
}
fn parse_val(s: &str) -> Value<'static> {
    match s {
        "oM" => Value::Object(ObjType::Map),
        "oL" => Value::Object(ObjType::List),
        "oT" => Value::Object(ObjType::Text),
        "oB" => Value::Object(ObjType::Table),
        _ => Value::Scalar(std::borrow::Cow::Owned(parse_scalar(s))),
    }
}
fn b(x: bool) -> &'static str { if x { "1" } else { "0" } }

fn show_action(a: &PatchAction) -> String {
    match a {
        PatchAction::PutMap { key, value, conflict } => format!("pm:{}:{}:{}:{}", hx(key.as_bytes()), show_val(&value.0), show_exid(&value.1), b(*conflict)),
        PatchAction::PutSeq { index, value, conflict } => format!("ps:{}:{}:{}:{}", index, show_val(&value.0), show_exid(&value.1), b(*conflict)),
        PatchAction::Insert { index, values } => {
            let vs: Vec<String> = values.iter().map(|(v, id, c)| format!("{},{},{}", show_val(v), show_exid(id), b(*c))).collect();
            format!("in:{}:{}", index, vs.join("|"))
        }
        PatchAction::SpliceText { index, value, marks } => {
            let ms = match marks {
                None => "-".to_string(),
                Some(m) => { let v: Vec<String> = m.iter().map(|(n, v)| format!("{}={}", hx(n.as_bytes()), show_scalar(v))).collect(); format!("+{}", v.join("|")) }
            };
            format!("sp:{}:{}:{}", index, hx(value.make_string().as_bytes()), ms)
        }
        PatchAction::Increment { prop, value } => format!("inc:{}:{}", show_prop(prop), value),
        PatchAction::Conflict { prop } => format!("cf:{}", show_prop(prop)),
        PatchAction::DeleteMap { key } => format!("dm:{}", hx(key.as_bytes())),
        PatchAction::DeleteSeq { index, length } => format!("ds:{}:{}", index, length),
        PatchAction::Mark { marks } => {
            let ms: Vec<String> = marks.iter().map(|m| format!("{},{},{},{}", hx(m.name().as_bytes()), show_scalar(m.value()), m.start, m.end)).collect();
            format!("mk:{}", ms.join("|"))
        }
    }
}

fn parse_action(s: &str, enc: TextEncoding) -> PatchAction {
    let f: Vec<&str> = s.split(':').collect();
    match f[0] {
        "pm" => PatchAction::PutMap { key: String::from_utf8(unhx(f[1])).unwrap(), value: (parse_val(f[2]), parse_exid(f[3])), conflict: f[4] == "1" },
        "ps" => PatchAction::PutSeq { index: f[1].parse().unwrap(), value: (parse_val(f[2]), parse_exid(f[3])), conflict: f[4] == "1" },
        "in" => {
            let mut values = SequenceTree::new();
            for item in f[2].split('|') {
                let p: Vec<&str> = item.split(',').collect();
                values.push((parse_val(p[0]), parse_exid(p[1]), p[2] == "1"));
            }
            PatchAction::Insert { index: f[1].parse().unwrap(), values }
        }
        "sp" => {
            let text = String::from_utf8(unhx(f[2])).unwrap();
            let marks = if f[3] == "-" { None } else {
                let body = &f[3][1..];
                let items: Vec<(String, ScalarValue)> = if body.is_empty() { vec![] } else {
                    body.split('|').map(|kv| { let (k, v) = kv.split_once('=').unwrap(); (String::from_utf8(unhx(k)).unwrap(), parse_scalar(v)) }).collect() };
                Some(items.into_iter().collect())
            };
            PatchAction::SpliceText { index: f[1].parse().unwrap(), value: ConcreteTextValue::new(&text, enc), marks }
        }
        "inc" => PatchAction::Increment { prop: parse_prop(f[1]), value: f[2].parse().unwrap() },
        "cf" => PatchAction::Conflict { prop: parse_prop(f[1]) },
        "dm" => PatchAction::DeleteMap { key: String::from_utf8(unhx(f[1])).unwrap() },
        "ds" => PatchAction::DeleteSeq { index: f[1].parse().unwrap(), length: f[2].parse().unwrap() },
        "mk" => {
            let marks: Vec<Mark> = if f[1].is_empty() { vec![] } else {
                f[1].split('|').map(|m| { let p: Vec<&str> = m.split(',').collect();
                    Mark::new(String::from_utf8(unhx(p[0])).unwrap(), parse_scalar(p[1]), p[2].parse().unwrap(), p[3].parse().unwrap()) }).collect() };
            PatchAction::Mark { marks }
        }
        _ => panic!("patch action {}", s),
    }
}

/// `<obj>/<parent^prop,…|->/<action>` joined by `;` (`-` = no patches)
pub fn show_patches(ps: &[Patch]) -> String {
    if ps.is_empty() { return "-".into(); }
    ps.iter().map(|p| {
        let path: Vec<String> = p.path.iter().map(|(o, pr)| format!("{}^{}", show_exid(o), show_prop(pr))).collect();
        format!("{}/{}/{}", show_exid(&p.obj), if path.is_empty() { "-".to_string() } else { path.join(",") }, show_action(&p.action))
    }).collect::<Vec<_>>().join(";")
}
pub fn parse_patches(s: &str, enc: TextEncoding) -> Vec<Patch> {
    if s == "-" { return vec![]; }
    s.split(';').map(|p| {
        let f: Vec<&str> = p.splitn(3, '/').collect();
        let path: Vec<(ObjId, Prop)> = if f[1] == "-" { vec![] } else {
            f[1].split(',').map(|e| { let (o, pr) = e.split_once('^').unwrap(); (parse_exid(o), parse_prop(pr)) }).collect() };
        Patch { obj: parse_exid(f[0]), path, action: parse_action(f[2], enc) }
    }).collect()
}

/// the patches as seen from the sub-view rooted at `obj`: patches outside `obj`'s subtree are dropped, the
/// path prefix down to `obj` is removed
fn rebase(ps: Vec<Patch>, obj: &ObjId) -> Vec<Patch> {
    if *obj == ROOT { return ps; }
    ps.into_iter().filter_map(|mut p| {
        if p.obj == *obj { p.path.clear(); return Some(p); }
        let i = p.path.iter().position(|(o, _)| o == obj)?;
        p.path.drain(..i);
        Some(p)
    }).collect()
}

// ------------------------------------------------------------------ the real applier under observation

fn hydrate_err(e: &automerge::error::HydrateError) -> &'static str {
    use automerge::error::HydrateError as H;
    match e {
        H::Fail => "fail", H::InvalidIndex(_) => "index", H::InvalidKey(_) => "key", H::BadIncrement => "badincrement",
        H::InvalidMapOp => "mapop", H::InvalidListOp => "listop", H::InvalidTextOp(_) => "textop",
        H::ApplyInvalidProp(_) => "prop", H::InvalidEncoding => "encoding",
    }
}

/// `hydrate::Value::apply_patches` under `catch_unwind`: `ok`, `err <class>` or `panic <class>`
fn apply_real(view: &mut hydrate::Value, enc: TextEncoding, ps: Vec<Patch>) -> String {
    let r = catch_unwind(AssertUnwindSafe(|| view.apply_patches(enc, ps)));
    match r {
        Ok(Ok(())) => "ok".into(),
        Ok(Err(e)) => format!("err {}", hydrate_err(&e)),
        Err(e) => {
            let msg = if let Some(s) = e.downcast_ref::<String>() { s.clone() } else if let Some(s) = e.downcast_ref::<&str>() { s.to_string() } else { "?".into() };
            if msg.contains("not yet implemented") { "panic todo".into() } else { "panic other".into() }
        }
    }
}

/// where two views first differ and what the patches did to that place → stable signature slug
fn classify(got: &hydrate::Value, want: &hydrate::Value, ps: &[Patch], path: &mut Vec<Prop>) -> Option<String> {
    use hydrate::Value as V;
    let touch = |path: &Vec<Prop>, prop: Option<&Prop>| -> &'static str {
        // the last patch addressed to this container (and property)
        let mut res = "none";
        for p in ps {
            let ppath: Vec<&Prop> = p.path.iter().map(|x| &x.1).collect();
            if ppath.len() != path.len() || !ppath.iter().zip(path.iter()).all(|(a, b)| **a == *b) { continue; }
            let (kind, at): (&'static str, Option<Prop>) = match &p.action {
                PatchAction::PutMap { key, .. } => ("put", Some(Prop::Map(key.clone()))),
                PatchAction::PutSeq { index, .. } => ("put", Some(Prop::Seq(*index))),
                PatchAction::Increment { prop, .. } => ("inc", Some(prop.clone())),
                PatchAction::Conflict { prop } => ("conflict", Some(prop.clone())),
                PatchAction::DeleteMap { key } => ("del", Some(Prop::Map(key.clone()))),
                PatchAction::DeleteSeq { .. } => ("delseq", None),
                PatchAction::Insert { .. } => ("insert", None),
                PatchAction::SpliceText { .. } => ("splice", None),
                PatchAction::Mark { .. } => ("mark", None),
            };
            match (prop, &at) {
                (Some(a), Some(b)) => if a == b { res = kind; },
                (None, _) => res = kind,
                (Some(_), None) => {}
            }
        }
        res
    };
    let entry = |gv: &V, gc: bool, wv: &V, wc: bool, prop: Prop, path: &mut Vec<Prop>| -> Option<String> {
        let same_shallow = match (gv, wv) { (V::Scalar(a), V::Scalar(b)) => show_scalar(a) == show_scalar(b), (V::Map(_), V::Map(_)) | (V::List(_), V::List(_)) | (V::Text(_), V::Text(_)) => true, _ => false };
        let is_counter = matches!(wv, V::Scalar(ScalarValue::Counter(_))) || matches!(gv, V::Scalar(ScalarValue::Counter(_)));
        let t = touch(path, Some(&prop));
        if !same_shallow {
            return Some(if is_counter { format!("counter-value-after-{}", t) } else { format!("value-after-{}", t) });
        }
        if gc != wc {
            let dir = if wc { "missing" } else { "stale" };
            return Some(if is_counter { format!("counter-conflict-flag-{}-after-{}", dir, t) } else { format!("conflict-flag-{}-after-{}", dir, t) });
        }
        path.push(prop);
        let r = classify(gv, wv, ps, path);
        path.pop();
        r
    };
    match (got, want) {
        (V::Scalar(_), V::Scalar(_)) => None,
        (V::Map(g), V::Map(w)) => {
            let mut keys: Vec<&String> = g.iter().map(|x| x.0).chain(w.iter().map(|x| x.0)).collect();
            keys.sort(); keys.dedup();
            for k in keys {
                match (g.iter().find(|x| x.0 == k), w.iter().find(|x| x.0 == k)) {
                    (Some((_, gv)), Some((_, wv))) => { if let Some(s) = entry(&gv.value, gv.conflict, &wv.value, wv.conflict, Prop::Map(k.clone()), path) { return Some(s); } }
                    (None, Some(_)) => return Some(format!("missing-key-after-{}", touch(path, Some(&Prop::Map(k.clone()))))),
                    (Some(_), None) => return Some(format!("extra-key-after-{}", touch(path, Some(&Prop::Map(k.clone()))))),
                    _ => {}
                }
            }
            None
        }
        (V::List(g), V::List(w)) => {
            if g.len() != w.len() { return Some(format!("list-length-after-{}", touch(path, None))); }
            for (i, (gv, wv)) in g.iter().zip(w.iter()).enumerate() {
                if let Some(s) = entry(&gv.value, gv.conflict, &wv.value, wv.conflict, Prop::Seq(i), path) { return Some(s); }
            }
            None
        }
        (V::Text(g), V::Text(w)) => if String::from(g) != String::from(w) { Some(format!("text-after-{}", touch(path, None))) } else { None },
        _ => Some("type".into()),
    }
}

/// apply `ps` to `from`, compare with `want`; returns (applied line, oracle lines)
fn judge(pid: &str, from: &hydrate::Value, want: &hydrate::Value, enc: TextEncoding, ps: &[Patch], what: &str) -> (String, Vec<String>) {
    let mut view = from.clone();
    let res = apply_real(&mut view, enc, ps.to_vec());
    let mut orc = vec![];
    let applied;
    if res == "ok" {
        applied = show_hval(&view);
        if applied != show_hval(want) {
            let sig = classify(&view, want, ps, &mut vec![]).unwrap_or_else(|| "unclassified".into());
            orc.push(format!("! {} sig={} {}: the patches applied to the previous state do not give the new state", pid, sig, what));
        }
    } else {
        applied = res.clone();
        let sig = match res.as_str() { "err badincrement" => "bad-increment".to_string(), "panic todo" => "mark-todo".to_string(), r => format!("apply-{}", r.replace(' ', "-")) };
        orc.push(format!("! C37 sig=apply-patches-rejects-own-{} {}: apply_patches returned `{}` on patches the library produced", sig, what, res));
        // the view is then not the new state either
        orc.push(format!("! {} sig={} {}: the patches cannot be applied ({})", pid, sig, what, res));
    }
    (applied, orc)
}

fn hyd(d: &AutoCommit, obj: &ObjId, heads: Option<&[ChangeHash]>) -> Option<hydrate::Value> { d.hydrate(obj, heads).ok() }

fn closed(d: &AutoCommit) -> bool { d.pending_ops() == 0 }

// ------------------------------------------------------------------ commands

pub fn exec(s: &mut CrdtSession, toks: &[&str], enc: TextEncoding) -> Vec<String> {
    match toks[0] {
        // crdt.patch.diff r H1 H2 [obj rec]
        "crdt.patch.diff" => {
            let (h1, h2) = (parse_hashes(toks[2]), parse_hashes(toks[3]));
            let obj = if toks.len() > 4 { parse_exid(toks[4]) } else { ROOT };
            let rec = toks.len() <= 5 || toks[5] == "1";
            let d = s.replicas.get_mut(toks[1]).unwrap();
            if !closed(d) { return vec!["err open-tx".into()]; }
            let ps = if toks.len() > 4 { match d.diff_obj(&obj, &h1, &h2, rec) { Ok(p) => p, Err(_) => return vec!["err objid".into()] } } else { d.diff(&h1, &h2) };
            // non-recursive: the patches of the object's own level, without their path (what the Lean
            // transcription of `MapDiff` predicts)
            let ps = if rec { ps } else { rebase(ps.into_iter().filter(|p| p.obj == obj).collect(), &obj) };
            let text = show_patches(&ps);
            let mut res = vec![format!("patches {}", text)];
            // the canonical text is lossless for the applier: re-parsing gives patches that print the same
            if show_patches(&parse_patches(&text, enc)) != text { res.push("! C08 sig=harness-patch-text patch text does not round-trip".into()); }
            // direct oracle (a)
            if rec {
                if let (Some(a), Some(b2)) = (hyd(d, &obj, Some(&h1)), hyd(d, &obj, Some(&h2))) {
                    let (_, orc) = judge("C08", &a, &b2, enc, &rebase(ps, &obj), &format!("diff({},{}) obj {}", toks[2], toks[3], show_exid(&obj)));
                    res.extend(orc);
                }
            }
            res
        }
        // crdt.patch.apply r Cxx H1 H2 obj <patches>
        "crdt.patch.apply" => {
            let pid = toks[2];
            let (h1, h2) = (parse_hashes(toks[3]), parse_hashes(toks[4]));
            let obj = parse_exid(toks[5]);
            let ps = rebase(parse_patches(toks[6], enc), &obj);
            let d = s.replicas.get_mut(toks[1]).unwrap();
            if !closed(d) { return vec!["err open-tx".into()]; }
            let (a, b2) = match (hyd(d, &obj, Some(&h1)), hyd(d, &obj, Some(&h2))) { (Some(a), Some(b2)) => (a, b2), _ => return vec!["err objid".into()] };
            // (the direct oracle of the property is on `crdt.patch.diff` / `crdt.patch.incr`; this line is the
            // correspondence with the Lean applier, which prints the same four lines from its own definitions)
            let (applied, _) = judge(pid, &a, &b2, enc, &ps, "");
            let to = show_hval(&b2);
            vec![format!("from {}", show_hval(&a)), format!("applied {}", applied), format!("to {}", to), format!("verdict {}", if applied == to { "same" } else { "differs" })]
        }
        // crdt.patch.track r p actor : p := r.fork() with actor; its patch log is followed from the empty view
        "crdt.patch.track" => {
            let src = s.replicas.get_mut(toks[1]).unwrap();
            if !closed(src) { return vec!["err open-tx".into()]; }
            let f = src.fork().with_actor(ActorId::from(unhx(toks[3])));
            s.replicas.insert(toks[2].to_string(), f);
            VIEWS.with(|v| v.borrow_mut().insert(toks[2].to_string(), (hydrate::Value::map(), vec![])));
            vec!["ok".into()]
        }
        // crdt.patch.incr p : patches since the last call; C09 oracle on the persistent view
        "crdt.patch.incr" => {
            let d = s.replicas.get_mut(toks[1]).unwrap();
            if !closed(d) { return vec!["err open-tx".into()]; }
            let entry = VIEWS.with(|v| v.borrow().get(toks[1]).cloned());
            let (view, cursor) = match entry { Some(e) if e.1 == d.diff_cursor() => e, _ => return vec!["err untracked".into()] };
            let before = d.diff_cursor();
            let ps = d.diff_incremental();
            let after = d.get_heads();
            // (`get_heads` is the isolation point while isolated; a read at the current heads is unscoped)
            let now = d.hydrate(&ROOT, Some(&after)).unwrap();
            let via = if toks.len() > 2 { toks[2] } else { "unknown" };
            let what = format!("incremental({},{}) via {}", show_hashes(&before), show_hashes(&after), via);
            let (_, orc) = judge("C09", &view, &now, enc, &ps, &what);
            let orc: Vec<String> = orc.into_iter().map(|l| { let mut f: Vec<String> = l.splitn(4, ' ').map(|x| x.to_string()).collect(); f[2] = format!("{}-via-{}", f[2], via); f.join(" ") }).collect();
            let _ = cursor;
            // resynchronise: the next step is judged from the true state
            VIEWS.with(|v| v.borrow_mut().insert(toks[1].to_string(), (now, d.diff_cursor())));
            let mut res = vec![format!("patches {} {} {}", show_hashes(&before), show_hashes(&after), show_patches(&ps))];
            res.extend(orc);
            res
        }
        // crdt.patch.merge p q
        "crdt.patch.merge" => {
            let mut other = s.replicas.get(toks[2]).unwrap().clone();
            let d = s.replicas.get_mut(toks[1]).unwrap();
            if !closed(d) || !closed(&other) { return vec!["err open-tx".into()]; }
            match d.merge(&mut other) { Ok(_) => vec![format!("ok heads={}", show_hashes(&d.get_heads()))], Err(_) => vec!["err".into()] }
        }
        // crdt.patch.loadinc p q <after|-> : p.load_incremental(q.save_after(after)) (whole save when `-`)
        "crdt.patch.loadinc" => {
            let mut other = s.replicas.get(toks[2]).unwrap().clone();
            let d = s.replicas.get_mut(toks[1]).unwrap();
            if !closed(d) || !closed(&other) { return vec!["err open-tx".into()]; }
            let bytes = if toks[3] == "-" { other.save() } else { other.save_after(&parse_hashes(toks[3])) };
            match d.load_incremental(&bytes) { Ok(_) => vec![format!("ok heads={}", show_hashes(&d.get_heads()))], Err(_) => vec!["err".into()] }
        }
        // crdt.patch.sync p q : run the sync protocol from q to p until quiet (q unchanged)
        "crdt.patch.sync" => {
            let mut other = s.replicas.get(toks[2]).unwrap().clone();
            let d = s.replicas.get_mut(toks[1]).unwrap();
            if !closed(d) || !closed(&other) { return vec!["err open-tx".into()]; }
            let (mut sp, mut sq) = (automerge::sync::State::new(), automerge::sync::State::new());
            for _ in 0..20 {
                let mut quiet = true;
                if let Some(m) = d.sync().generate_sync_message(&mut sp) { quiet = false; other.sync().receive_sync_message(&mut sq, m).unwrap(); }
                if let Some(m) = other.sync().generate_sync_message(&mut sq) { quiet = false; d.sync().receive_sync_message(&mut sp, m).unwrap(); }
                if quiet { break; }
            }
            vec![format!("ok heads={}", show_hashes(&d.get_heads()))]
        }
        "crdt.patch.isolate" => {
            let d = s.replicas.get_mut(toks[1]).unwrap();
            if !closed(d) { return vec!["err open-tx".into()]; }
            d.isolate(&parse_hashes(toks[2]));
            let hs = d.get_heads();
            s.iso_snap.insert(toks[1].to_string(), hs.clone());
            vec![format!("ok heads={}", show_hashes(&hs))]
        }
        "crdt.patch.integrate" => {
            let d = s.replicas.get_mut(toks[1]).unwrap();
            if !closed(d) { return vec!["err open-tx".into()]; }
            d.integrate();
            s.iso_snap.remove(toks[1]);
            vec![format!("ok heads={}", show_hashes(&d.get_heads()))]
        }
        // crdt.patch.loadlog r : load(save(r)) with a patch log → patches from the empty document
        "crdt.patch.loadlog" => {
            let d = s.replicas.get_mut(toks[1]).unwrap();
            if !closed(d) { return vec!["err open-tx".into()]; }
            let bytes = d.save();
            let heads = d.get_heads();
            let mut log = PatchLog::active();
            match automerge::Automerge::load_with_options(&bytes, automerge::LoadOptions::new().text_encoding(enc).patch_log(&mut log)) {
                Ok(l) => {
                    let ps = l.make_patches(&mut log);
                    let (_, orc) = judge("C09", &hydrate::Value::map(), &l.hydrate(None), enc, &ps, "load with patch log");
                    let mut res = vec![format!("patches - {} {}", show_hashes(&heads), show_patches(&ps))];
                    res.extend(orc);
                    res
                }
                Err(_) => vec!["err".into()],
            }
        }
        // crdt.patch.mark r obj start end namehex value expand : one committed transaction holding one mark
        "crdt.patch.mark" => {
            let d = s.replicas.get_mut(toks[1]).unwrap();
            if !closed(d) { return vec!["err open-tx".into()]; }
            let ex = match toks[7] { "before" => ExpandMark::Before, "after" => ExpandMark::After, "both" => ExpandMark::Both, _ => ExpandMark::None };
            let m = Mark::new(String::from_utf8(unhx(toks[5])).unwrap(), parse_scalar(toks[6]), toks[3].parse().unwrap(), toks[4].parse().unwrap());
            match d.mark(parse_exid(toks[2]), m, ex) {
                Ok(()) => match d.commit_with(automerge::transaction::CommitOptions::default().with_time(0)) { Some(_) => vec!["ok".into()], None => vec!["none".into()] },
                Err(_) => { d.rollback(); vec!["err".into()] }
            }
        }
        // crdt.patch.put r obj i<n> value : `put` on a text index (one committed transaction)
        "crdt.patch.put" => {
            let d = s.replicas.get_mut(toks[1]).unwrap();
            if !closed(d) { return vec!["err open-tx".into()]; }
            match d.put(parse_exid(toks[2]), parse_prop(toks[3]), parse_scalar(toks[4])) {
                Ok(()) => match d.commit_with(automerge::transaction::CommitOptions::default().with_time(0)) { Some(_) => vec!["ok".into()], None => vec!["none".into()] },
                Err(_) => { d.rollback(); vec!["err".into()] }
            }
        }
        // crdt.patch.local r h : the model learns that r made change h (no prediction)
        "crdt.patch.local" => {
            let d = s.replicas.get_mut(toks[1]).unwrap();
            vec![format!("ok heads={}", show_hashes(&d.get_heads()))]
        }
        _ => vec!["unknown-cmd".into()],
    }
}

// ------------------------------------------------------------------ generator
//
// The generator works on an *abstract script* (printed as `#s …` lines, ignored by every parser): edit
// lines verbatim, and hash-free forms of the lines that carry hashes (`deliver r i,j` = changes by creation
// index, `diff r hs1 hs2 [obj]`, `incr p`, …).  `amharness run patches --script FILE --cases 1` replays a
// script, so that a failing case can be shrunk by deleting script lines (tools/shrink_patches.py).

const KEYS: [&str; 6] = ["a", "b", "k", "é", "list", "t"];

#[derive(Default)]
struct Ctx { all_changes: Vec<String>, since: BTreeMap<String, std::collections::BTreeSet<&'static str>> }

/// objects reachable through winning values at `heads`
fn reachable(d: &AutoCommit, obj: &ObjId, ty: ObjType, heads: &[ChangeHash], out: &mut Vec<(ObjId, ObjType)>, depth: usize) {
    if depth > 6 { return; }
    let visit = |v: Value<'_>, id: ObjId, out: &mut Vec<(ObjId, ObjType)>| {
        if let Value::Object(t) = v { out.push((id.clone(), t)); reachable(d, &id, t, heads, out, depth + 1); }
    };
    match ty {
        ObjType::Map | ObjType::Table => for k in d.keys_at(obj, heads).collect::<Vec<_>>() {
            if let Ok(Some((v, id))) = d.get_at(obj, k.as_str(), heads) { visit(v, id, out); }
        },
        ObjType::List => for i in 0..d.length_at(obj, heads) {
            if let Ok(Some((v, id))) = d.get_at(obj, i, heads) { visit(v, id, out); }
        },
        ObjType::Text => {}
    }
}

fn cur_heads(d: &AutoCommit) -> Vec<ChangeHash> { let mut c = d.clone(); c.get_heads() }

/// after a step on the tracked replica: incremental patches, then the same patches through `crdt.patch.apply`
fn follow(sess: &mut Session, out: &mut Out, p: &str, ctx: &mut Ctx) {
    let via: Vec<&str> = ctx.since.remove(p).unwrap_or_default().into_iter().collect();
    let res = exec_line(sess, &format!("crdt.patch.incr {} {}", p, if via.is_empty() { "nothing".to_string() } else { via.join("+") }), out);
    if let Some(rest) = res.get(0).and_then(|l| l.strip_prefix("patches ")) {
        let f: Vec<&str> = rest.split(' ').collect();
        out.count("incr_steps");
        if f[2] != "-" { out.count("incr_nonempty"); }
        exec_line(sess, &format!("crdt.patch.apply {} C09 {} {} _ {}", p, f[0], f[1], f[2]), out);
    }
}

fn announce_last(sess: &mut Session, out: &mut Out, who: &str, ctx: &mut Ctx, predicted: bool) {
    let Some(d) = sess.crdt.replicas.get_mut(who) else { return };
    if let Some(c) = d.get_last_local_change() {
        let h = hex::encode(c.hash().0);
        if !ctx.all_changes.contains(&h) {
            exec_line(sess, &super::crdt::def_line(&c), out);
            exec_line(sess, &format!("{} {} {}", if predicted { "crdt.local" } else { "crdt.patch.local" }, who, h), out);
            ctx.all_changes.push(h);
        }
    }
}

fn head_set(spec: &str, d: &AutoCommit, ctx: &Ctx) -> Option<String> {
    match spec {
        "-" => Some("-".into()),
        "cur" => Some(show_hashes(&cur_heads(d))),
        _ => {
            let mut hs = vec![];
            for i in spec.split(',') { hs.push(ctx.all_changes.get(i.parse::<usize>().ok()?)?.clone()); }
            hs.sort(); hs.dedup();
            Some(hs.join(","))
        }
    }
}

/// execute one abstract script command (recorded as `#s cmd`)
fn run_cmd(cmd: &str, sess: &mut Session, out: &mut Out, ctx: &mut Ctx) {
    out.line(&format!("#s {}", cmd));
    let t: Vec<&str> = cmd.split(' ').collect();
    let has = |sess: &Session, n: &str| sess.crdt.replicas.contains_key(n);
    // every command other than an edit works on committed replicas: an open transaction is committed (and
    // announced) first, as the library would do implicitly — but with the fixed timestamp
    const EDITS: [&str; 9] = ["crdt.put", "crdt.putobj", "crdt.ins", "crdt.insobj", "crdt.del", "crdt.inc", "crdt.splice", "crdt.commit", "crdt.rollback"];
    if !EDITS.contains(&t[0]) && t[0] != "crdt.new" {
        for n in t.iter().skip(1).take(2) {
            if let Some(d) = sess.crdt.replicas.get(*n) {
                if d.pending_ops() > 0 {
                    let res = exec_line(sess, &format!("crdt.commit {}", n), out);
                    if res[0] == "ok" { announce_last(sess, out, n, ctx, true); ctx.since.entry(n.to_string()).or_default().insert("local"); }
                }
            }
        }
    }
    let label: Option<&'static str> = match t[0] {
        "deliver" => Some("apply"), "loadinc" => Some("loadinc"), "isolate" => Some("isolate"), "crdt.commit" | "crdt.patch.mark" | "crdt.patch.put" => Some("local"),
        "crdt.patch.merge" => Some("merge"), "crdt.patch.sync" => Some("sync"), "crdt.patch.integrate" => Some("integrate"), "crdt.rollback" => Some("rollback"), _ => None };
    if let Some(l) = label { ctx.since.entry(t[1].to_string()).or_default().insert(l); }
    if t[0] == "crdt.patch.track" && t.len() > 2 { ctx.since.entry(t[2].to_string()).or_default().insert("init"); }
    match t[0] {
        "deliver" => {
            if !has(sess, t[1]) { return; }
            let hs: Vec<String> = t[2].split(',').filter_map(|i| i.parse::<usize>().ok().and_then(|i| ctx.all_changes.get(i).cloned())).collect();
            if hs.is_empty() { return; }
            exec_line(sess, &format!("crdt.apply {} {}", t[1], hs.join(",")), out);
        }
        "loadinc" => {
            if !has(sess, t[1]) || !has(sess, t[2]) { return; }
            let after = if t[3] == "-" { "-".to_string() } else { show_hashes(&cur_heads(sess.crdt.replicas.get(t[1]).unwrap())) };
            exec_line(sess, &format!("crdt.patch.loadinc {} {} {}", t[1], t[2], after), out);
        }
        "isolate" => {
            if !has(sess, t[1]) { return; }
            if let Some(h) = t[2].parse::<usize>().ok().and_then(|i| ctx.all_changes.get(i).cloned()) {
                // only heads the replica has
                let d = sess.crdt.replicas.get_mut(t[1]).unwrap();
                if d.get_changes(&[]).iter().any(|c| hex::encode(c.hash().0) == h) { exec_line(sess, &format!("crdt.patch.isolate {} {}", t[1], h), out); }
            }
        }
        "incr" => { if has(sess, t[1]) { follow(sess, out, t[1], ctx); } }
        "diff0" => {
            if !has(sess, t[1]) { return; }
            let d = sess.crdt.replicas.get(t[1]).unwrap();
            let (Some(s1), Some(s2)) = (head_set(t[2], d, ctx), head_set(t[3], d, ctx)) else { return };
            let d = sess.crdt.replicas.get_mut(t[1]).unwrap();
            let own: Vec<String> = d.get_changes(&[]).iter().map(|c| hex::encode(c.hash().0)).collect();
            for hs in [&s1, &s2] { if hs != "-" && !hs.split(',').all(|h| own.iter().any(|o| o == h)) { return; } }
            exec_line(sess, &format!("crdt.patch.diff {} {} {} {} 0", t[1], s1, s2, t[4]), out);
        }
        "diff" => {
            if !has(sess, t[1]) { return; }
            let d = sess.crdt.replicas.get(t[1]).unwrap();
            let (Some(s1), Some(s2)) = (head_set(t[2], d, ctx), head_set(t[3], d, ctx)) else { return };
            // head sets must lie in the replica's history
            let d = sess.crdt.replicas.get_mut(t[1]).unwrap();
            let own: Vec<String> = d.get_changes(&[]).iter().map(|c| hex::encode(c.hash().0)).collect();
            for hs in [&s1, &s2] { if hs != "-" && !hs.split(',').all(|h| own.iter().any(|o| o == h)) { return; } }
            let obj = if t.len() > 4 { t[4] } else { "_" };
            let line = if obj == "_" { format!("crdt.patch.diff {} {} {}", t[1], s1, s2) } else { format!("crdt.patch.diff {} {} {} {} 1", t[1], s1, s2, obj) };
            let res = exec_line(sess, &line, out);
            if let Some(p) = res.get(0).and_then(|l| l.strip_prefix("patches ")) {
                if p != "-" { out.count("diff_nonempty"); }
                exec_line(sess, &format!("crdt.patch.apply {} C08 {} {} {} {}", t[1], s1, s2, obj, p), out);
            }
        }
        "crdt.commit" => {
            if !has(sess, t[1]) { return; }
            let res = exec_line(sess, cmd, out);
            if res[0] == "ok" { out.count("local_tx_committed"); announce_last(sess, out, t[1], ctx, true); }
        }
        "crdt.patch.mark" | "crdt.patch.put" => {
            if !has(sess, t[1]) { return; }
            let res = exec_line(sess, cmd, out);
            if res[0] == "ok" { announce_last(sess, out, t[1], ctx, false); }
        }
        "crdt.new" => { exec_line(sess, cmd, out); }
        "crdt.fork" | "crdt.patch.track" => { if has(sess, t[1]) { exec_line(sess, cmd, out); } }
        "crdt.patch.merge" | "crdt.patch.sync" => { if has(sess, t[1]) && has(sess, t[2]) { exec_line(sess, cmd, out); } }
        _ => { if t.len() > 1 && has(sess, t[1]) { let res = exec_line(sess, cmd, out); if res.get(0).map(|s| s.starts_with("err")).unwrap_or(false) { out.count("edit_errors"); } } }
    }
}

fn rand_scalar(r: &mut Rng) -> String {
    match r.below(10) {
        0 => "n".into(),
        1 => format!("b{}", r.below(2)),
        2 => format!("i{}", (r.below(7) as i64) - 3),
        3 => format!("u{}", r.below(5)),
        4 => format!("f{}", (r.below(4) as f64 * 0.5).to_bits()),
        5 | 6 => format!("s{}", hex::encode(["x", "y", "hello", "é", "🙂"][r.below(5) as usize].as_bytes())),
        7 => { let k = r.below(3) as usize; format!("x{}", hex::encode(r.bytes(k))) }
        8 => format!("c{}", r.below(10)),
        _ => format!("t{}", r.below(1000)),
    }
}

/// the lines of one local transaction over every kind of object (as `crdt::local_tx`)
fn general_edit(r: &mut Rng, d: &AutoCommit, who: &str) -> String {
    let mut objs: Vec<(ObjId, ObjType)> = vec![(ROOT, ObjType::Map)];
    reachable(d, &ROOT, ObjType::Map, &cur_heads(d), &mut objs, 0);
    let (o, ty) = objs[r.below(objs.len() as u64) as usize].clone();
    let obj = show_exid(&o);
    let len = d.length(&o) as u64;
    match ty {
        ObjType::Map | ObjType::Table => {
            let key = KEYS[r.below(KEYS.len() as u64) as usize];
            let mut k = format!("m{}", hex::encode(key.as_bytes()));
            let counters: Vec<String> = d.keys(&o).filter(|key| matches!(d.get(&o, key.as_str()), Ok(Some((Value::Scalar(v), _))) if matches!(v.as_ref(), ScalarValue::Counter(_)))).collect();
            let mut same_val: Option<String> = None;
            if r.chance(1, 5) { if let Ok(Some((Value::Scalar(v), _))) = d.get(&o, key) { same_val = Some(show_scalar(v.as_ref())); } }
            match r.below(10) {
                0 | 1 => format!("crdt.putobj {} {} {} {}", who, obj, k, ["M", "L", "T"][r.below(3) as usize]),
                2 => format!("crdt.del {} {} {}", who, obj, k),
                3 | 4 => { if !counters.is_empty() && r.chance(4, 5) { k = format!("m{}", hex::encode(counters[r.below(counters.len() as u64) as usize].as_bytes())); }
                           format!("crdt.inc {} {} {} {}", who, obj, k, r.below(5) as i64 - 1) }
                _ => { let v = match same_val { Some(v) => v, None => rand_scalar(r) }; format!("crdt.put {} {} {} {}", who, obj, k, v) }
            }
        }
        ObjType::List => {
            let idx = if r.chance(1, 15) { len + 1 + r.below(3) } else { r.below(len + 1) };
            match r.below(10) {
                0 => format!("crdt.insobj {} {} {} {}", who, obj, idx.min(len), ["M", "L", "T"][r.below(3) as usize]),
                1 | 2 if len > 0 => format!("crdt.del {} {} i{}", who, obj, r.below(len)),
                3 if len > 0 => format!("crdt.inc {} {} i{} {}", who, obj, r.below(len), r.below(5) as i64 - 1),
                4 | 5 if len > 0 => format!("crdt.put {} {} i{} {}", who, obj, r.below(len), rand_scalar(r)),
                _ => format!("crdt.ins {} {} {} {}", who, obj, idx, rand_scalar(r)),
            }
        }
        ObjType::Text => {
            let pos = if r.chance(1, 15) { len + 1 } else { r.below(len + 1) };
            let del = if len > pos && r.chance(1, 3) { r.range(1, (len - pos).min(3)) } else { 0 };
            let txt = ["a", "bc", "é", "🙂", "xyz", "", "e\u{301}"][r.below(7) as usize];
            format!("crdt.splice {} {} {} {} {}", who, obj, pos, del, hx(txt.as_bytes()))
        }
    }
}

/// an edit concentrated on few registers holding mostly counters: two root keys and the elements of one
/// list, so that concurrent puts / increments / deletes of the same register are frequent
fn focused_edit(r: &mut Rng, d: &AutoCommit, who: &str) -> String {
    let list = match d.get(&ROOT, "list") { Ok(Some((Value::Object(ObjType::List), id))) => Some(id), _ => None };
    let val = |r: &mut Rng| -> String { if r.chance(3, 5) { format!("c{}", r.below(3)) } else { ["i1", "i2", "s78", "n"][r.below(4) as usize].to_string() } };
    match (&list, r.below(10)) {
        (None, 0..=1) => format!("crdt.putobj {} _ m{} L", who, hex::encode("list")),
        (Some(l), 0..=4) => {
            let len = d.length(l) as u64;
            let lo = show_exid(l);
            match r.below(8) {
                0 | 1 => format!("crdt.ins {} {} {} {}", who, lo, r.below(len + 1), val(r)),
                2 if len > 0 => format!("crdt.del {} {} i{}", who, lo, r.below(len)),
                3 | 4 if len > 0 => format!("crdt.put {} {} i{} {}", who, lo, r.below(len), val(r)),
                _ if len > 0 => format!("crdt.inc {} {} i{} {}", who, lo, r.below(len), r.range(1, 3)),
                _ => format!("crdt.ins {} {} 0 {}", who, lo, val(r)),
            }
        }
        (_, k) => {
            let kn = ["a", "b"][r.below(2) as usize];
            let key = hex::encode(kn);
            match k % 5 {
                0 | 1 => format!("crdt.put {} _ m{} {}", who, key, val(r)),
                2 | 3 => format!("crdt.inc {} _ m{} {}", who, key, r.range(1, 3)),
                _ => if r.chance(1, 2) { format!("crdt.del {} _ m{}", who, key) } else {
                    // the current winner's value again (resolves a conflict without changing the value)
                    match d.get(&ROOT, kn) { Ok(Some((Value::Scalar(v), _))) => format!("crdt.put {} _ m{} {}", who, key, show_scalar(v.as_ref())), _ => format!("crdt.put {} _ m{} {}", who, key, val(r)) }
                }
            }
        }
    }
}

fn local_tx(r: &mut Rng, sess: &mut Session, out: &mut Out, ctx: &mut Ctx, who: &str, focused: bool) {
    let n = if focused { r.range(1, 3) } else { r.range(1, 4) };
    for _ in 0..n {
        let d = sess.crdt.replicas.get(who).unwrap();
        let line = if focused { focused_edit(r, d, who) } else { general_edit(r, d, who) };
        out.count(&format!("edit_{}", line.split(' ').next().unwrap()));
        run_cmd(&line, sess, out, ctx);
    }
    if r.chance(1, 12) { run_cmd(&format!("crdt.rollback {}", who), sess, out, ctx); out.count("rollbacks"); }
    else { run_cmd(&format!("crdt.commit {}", who), sess, out, ctx); }
}

/// scripted family: ONE batch reaches the tracked replica that (a) removes / overwrites / increments the
/// value it currently shows for a register and (b) carries a concurrent older op for the same register
/// (written by a replica that forked before that value existed, so its op id is smaller), for map keys
/// and list elements, counters and non-counters, in both orders inside the batch
fn scripted_batch(r: &mut Rng, sess: &mut Session, out: &mut Out, ctx: &mut Ctx) {
    out.count("cases_scripted_batch");
    let mut a: Vec<Vec<u8>> = vec![vec![0x30, r.next() as u8], vec![0x50, r.next() as u8], vec![0x70, r.next() as u8]];
    if r.chance(1, 2) { a.reverse(); }
    run_cmd(&format!("crdt.new r0 cp {}", hex::encode(&a[0])), sess, out, ctx);
    let on_list = r.chance(1, 3);
    let vals = ["c3", "c7", "i4", "s79", "n"];
    let mut target = "_".to_string();
    let mut prop = "m61".to_string();
    if on_list {
        let res = exec_line(sess, "crdt.putobj r0 _ m6c L", out);
        target = res[0].strip_prefix("ok ").unwrap_or("_").to_string();
        run_cmd(&format!("crdt.ins r0 {} 0 i1", target), sess, out, ctx);
        prop = "i0".to_string();
    }
    run_cmd("crdt.commit r0", sess, out, ctx);
    // the old writer forks NOW (its counter stays small), the tracked replica too
    run_cmd(&format!("crdt.fork r0 rs {}", hex::encode(&a[1])), sess, out, ctx);
    run_cmd(&format!("crdt.patch.track r0 p0 {}", hex::encode(&a[2])), sess, out, ctx);
    run_cmd("incr p0", sess, out, ctx);
    // r0 advances its op counter, then sets the contested register; p0 receives all of that
    for i in 0..r.range(2, 5) { run_cmd(&format!("crdt.put r0 _ m7a{:02x} i{}", i, i), sess, out, ctx); run_cmd("crdt.commit r0", sess, out, ctx); }
    run_cmd(&format!("crdt.put r0 {} {} {}", target, prop, vals[r.below(5) as usize]), sess, out, ctx);
    run_cmd("crdt.commit r0", sess, out, ctx);
    let n0 = ctx.all_changes.len();
    run_cmd(&format!("deliver p0 {}", (0..n0).map(|x| x.to_string()).collect::<Vec<_>>().join(",")), sess, out, ctx);
    run_cmd("incr p0", sess, out, ctx);
    // the old writer writes the register (small op id); r0 removes / overwrites / increments its own value
    match r.below(3) { 0 => run_cmd(&format!("crdt.put rs {} {} {}", target, prop, vals[r.below(5) as usize]), sess, out, ctx),
                        1 => run_cmd(&format!("crdt.inc rs {} {} 2", target, prop), sess, out, ctx),
                        _ => run_cmd(&format!("crdt.del rs {} {}", target, prop), sess, out, ctx) }
    run_cmd("crdt.commit rs", sess, out, ctx);
    match r.below(4) { 0 | 1 => run_cmd(&format!("crdt.del r0 {} {}", target, prop), sess, out, ctx),
                        2 => run_cmd(&format!("crdt.put r0 {} {} {}", target, prop, vals[r.below(5) as usize]), sess, out, ctx),
                        _ => run_cmd(&format!("crdt.inc r0 {} {} 1", target, prop), sess, out, ctx) }
    run_cmd("crdt.commit r0", sess, out, ctx);
    if r.chance(1, 3) { run_cmd(&format!("crdt.put r0 {} {} {}", target, prop, vals[r.below(5) as usize]), sess, out, ctx); run_cmd("crdt.commit r0", sess, out, ctx); }
    let n1 = ctx.all_changes.len();
    let mut batch: Vec<usize> = (n0..n1).collect();
    if r.chance(1, 2) { batch.reverse(); }
    run_cmd(&format!("deliver p0 {}", batch.iter().map(|x| x.to_string()).collect::<Vec<_>>().join(",")), sess, out, ctx);
    run_cmd("incr p0", sess, out, ctx);
    // and the same through merge into a second tracked flow: everybody converges
    run_cmd(&format!("deliver r0 {}", (0..n1).map(|x| x.to_string()).collect::<Vec<_>>().join(",")), sess, out, ctx);
    run_cmd("diff p0 - cur", sess, out, ctx);
}

/// scripted family: block markers in a text object under every encoding (a marker is U+FFFC wide: 3 units
/// in UTF-8).  (a) ONE remote batch brings new blocks together with later edits of the same text to the
/// tracked replica (incremental patch indexes); (b) a block — leading, adjacent to another block, or
/// interior — is removed and the text after it edited, then diffed in both directions, whole-document and
/// per object.
fn scripted_blocks(r: &mut Rng, sess: &mut Session, out: &mut Out, ctx: &mut Ctx) {
    out.count("cases_scripted_blocks");
    let enc = ["cp", "utf8", "utf16"][r.below(3) as usize];
    out.count(&format!("blocks_enc_{}", enc));
    let a: Vec<Vec<u8>> = vec![vec![0x30, r.next() as u8], vec![0x50, r.next() as u8]];
    run_cmd(&format!("crdt.new r0 {} {}", enc, hex::encode(&a[0])), sess, out, ctx);
    let res = exec_line(sess, "crdt.putobj r0 _ m74 T", out);
    let t = res[0].strip_prefix("ok ").unwrap_or("_").to_string();
    run_cmd(&format!("crdt.splice r0 {} 0 0 {}", t, hex::encode("héllo wörld")), sess, out, ctx);
    run_cmd("crdt.commit r0", sess, out, ctx);
    let tlen = |sess: &Session| -> usize { sess.crdt.replicas.get("r0").unwrap().length(parse_exid(&t)) };
    // index (in units) of every block marker of r0's text
    let blocks = |sess: &Session| -> Vec<usize> {
        let d = sess.crdt.replicas.get("r0").unwrap();
        let o = parse_exid(&t);
        let mut res = vec![]; let mut last: Option<ObjId> = None;
        for i in 0..d.length(&o) {
            match d.get(&o, i) { Ok(Some((Value::Object(ObjType::Map), id))) => { if last.as_ref() != Some(&id) { res.push(i); } last = Some(id); } _ => { last = None; } }
        }
        res
    };
    let texts = ["x", "ÿz", "🙂", "ab"];
    for _ in 0..r.below(3) { run_cmd(&format!("crdt.rt.block r0 {} 0", t), sess, out, ctx); run_cmd("crdt.commit r0", sess, out, ctx); }
    run_cmd(&format!("crdt.patch.track r0 p0 {}", hex::encode(&a[1])), sess, out, ctx);
    run_cmd("incr p0", sess, out, ctx);
    // (a) one batch: blocks and later edits
    let n0 = ctx.all_changes.len();
    for _ in 0..r.range(1, 3) {
        let len = tlen(sess);
        let pos = if r.chance(1, 3) { 0 } else { r.below(len as u64 + 1) as usize };
        run_cmd(&format!("crdt.rt.block r0 {} {}", t, pos), sess, out, ctx);
        let len = tlen(sess);
        let p2 = r.below(len as u64 + 1) as usize;
        run_cmd(&format!("crdt.rt.splice r0 {} {} 0 {} -", t, p2, hex::encode(texts[r.below(4) as usize])), sess, out, ctx);
        run_cmd("crdt.commit r0", sess, out, ctx);
    }
    let n1 = ctx.all_changes.len();
    run_cmd(&format!("deliver p0 {}", (n0..n1).map(|x| x.to_string()).collect::<Vec<_>>().join(",")), sess, out, ctx);
    run_cmd("incr p0", sess, out, ctx);
    // (b) a block goes away, the text after it is edited; diff both ways
    if n1 == 0 { return; }
    let h1 = n1 - 1;
    let bs = blocks(sess);
    if !bs.is_empty() {
        // prefer a leading block or one directly after another block
        let lead: Vec<usize> = bs.iter().cloned().filter(|b| *b == 0 || bs.iter().any(|c| c < b && bs.iter().filter(|x| **x > *c && **x < *b).count() == 0 && {
            let d = sess.crdt.replicas.get("r0").unwrap(); let o = parse_exid(&t);
            (*c + 1..*b).all(|i| matches!(d.get(&o, i), Ok(Some((Value::Object(ObjType::Map), _))))) })).collect();
        let b = if !lead.is_empty() && r.chance(2, 3) { out.count("blocks_removed_leading_or_adjacent"); lead[r.below(lead.len() as u64) as usize] } else { bs[r.below(bs.len() as u64) as usize] };
        run_cmd(&format!("crdt.del r0 {} i{}", t, b), sess, out, ctx);
        let len = tlen(sess);
        if len > b { let p2 = b + r.below((len - b) as u64 + 1) as usize; run_cmd(&format!("crdt.rt.splice r0 {} {} 0 {} -", t, p2, hex::encode(texts[r.below(4) as usize])), sess, out, ctx); }
        if len > b + 1 && r.chance(1, 2) { let p3 = b + r.below((len - b) as u64) as usize; run_cmd(&format!("crdt.rt.splice r0 {} {} 1 - -", t, p3), sess, out, ctx); }
        run_cmd("crdt.commit r0", sess, out, ctx);
        run_cmd(&format!("diff r0 {} cur", h1), sess, out, ctx);
        run_cmd(&format!("diff r0 cur {}", h1), sess, out, ctx);
        run_cmd(&format!("diff r0 {} cur {}", h1, t), sess, out, ctx);
        run_cmd(&format!("diff r0 cur {} {}", h1, t), sess, out, ctx);
    }
    let n2 = ctx.all_changes.len();
    if n2 > n1 { run_cmd(&format!("deliver p0 {}", (n1..n2).map(|x| x.to_string()).collect::<Vec<_>>().join(",")), sess, out, ctx); run_cmd("incr p0", sess, out, ctx); }
    run_cmd("diff p0 - cur", sess, out, ctx);
}

/// scripted family: the patch log is kept across two mutating calls; the first EXPOSES a hidden object (an
/// object and a winning scalar conflict on one key, and a replica that only knew the scalar deletes it), the
/// second brings in a change of a NEW actor that sorts before / between / after the existing ones (the actor
/// table shifts under the pending log)
fn scripted_expose_then_new_actor(r: &mut Rng, sess: &mut Session, out: &mut Out, ctx: &mut Ctx) {
    out.count("cases_scripted_expose_new_actor");
    let creator = vec![0x70u8, r.next() as u8];
    let other = vec![0x60u8, r.next() as u8];
    let tracked = vec![0x50u8, r.next() as u8];
    let newcomer = vec![[0x10u8, 0x65, 0x75, 0x90][r.below(4) as usize], r.next() as u8];
    run_cmd(&format!("crdt.new r0 cp {}", hex::encode(&creator)), sess, out, ctx);
    run_cmd("crdt.put r0 _ m62 i0", sess, out, ctx);
    run_cmd("crdt.commit r0", sess, out, ctx);
    run_cmd(&format!("crdt.fork r0 rb {}", hex::encode(&other)), sess, out, ctx);
    run_cmd(&format!("crdt.fork r0 rn {}", hex::encode(&newcomer)), sess, out, ctx);
    run_cmd(&format!("crdt.patch.track r0 p0 {}", hex::encode(&tracked)), sess, out, ctx);
    run_cmd("incr p0", sess, out, ctx);
    // the object (creator) and, concurrently, a scalar with a greater op counter (rb)
    let res = exec_line(sess, "crdt.putobj r0 _ m6b M", out);
    let o = res[0].strip_prefix("ok ").unwrap_or("_").to_string();
    run_cmd(&format!("crdt.put r0 {} m78 i1", o), sess, out, ctx);
    run_cmd(&format!("crdt.put r0 {} m79 s68656c6c6f", o), sess, out, ctx);
    if r.chance(1, 2) { let res = exec_line(sess, &format!("crdt.putobj r0 {} m7a L", o), out); if let Some(l) = res[0].strip_prefix("ok ") { let l = l.to_string(); run_cmd(&format!("crdt.ins r0 {} 0 i7", l), sess, out, ctx); } }
    run_cmd("crdt.commit r0", sess, out, ctx);
    for i in 0..r.range(3, 6) { run_cmd(&format!("crdt.put rb _ m7a{:02x} i{}", i, i), sess, out, ctx); }
    run_cmd("crdt.put rb _ m6b s77696e6e6572", sess, out, ctx);
    run_cmd("crdt.commit rb", sess, out, ctx);
    let n1 = ctx.all_changes.len();
    run_cmd(&format!("deliver p0 {}", (1..n1).map(|x| x.to_string()).collect::<Vec<_>>().join(",")), sess, out, ctx);
    run_cmd("incr p0", sess, out, ctx);
    // rb, who only knows its scalar, deletes the key: the hidden object becomes visible
    run_cmd("crdt.del rb _ m6b", sess, out, ctx);
    run_cmd("crdt.commit rb", sess, out, ctx);
    run_cmd("crdt.put rn _ m6e i5", sess, out, ctx);
    run_cmd("crdt.commit rn", sess, out, ctx);
    let n2 = ctx.all_changes.len();
    if n2 >= n1 + 2 {
        run_cmd(&format!("deliver p0 {}", n1), sess, out, ctx);          // exposes the object: log kept
        run_cmd(&format!("deliver p0 {}", n1 + 1), sess, out, ctx);      // the newcomer's change: actor table shifts
        run_cmd("incr p0", sess, out, ctx);
    }
    run_cmd("diff p0 - cur", sess, out, ctx);
}

/// scripted family: SEVERAL objects are exposed by one diff (three or four sibling objects overwritten or their
/// parent deleted in one change, after an edit inside one of them; or outer/middle/inner nesting with an edit in
/// the innermost), diffed forwards and backwards between all the recorded points
fn scripted_many_exposed(r: &mut Rng, sess: &mut Session, out: &mut Out, ctx: &mut Ctx) {
    out.count("cases_scripted_many_exposed");
    run_cmd(&format!("crdt.new r0 cp {}", hex::encode([0x33u8, r.next() as u8])), sess, out, ctx);
    let nested = r.chance(1, 3);
    let mut inner: Vec<(String, bool)> = vec![];   // (object id, is list)
    let mut parent = "_".to_string();
    if nested {
        for k in ["6f", "6d", "69"] {
            let res = exec_line(sess, &format!("crdt.putobj r0 {} m{} {}", parent, k, if k == "69" { "L" } else { "M" }), out);
            parent = res[0].strip_prefix("ok ").unwrap_or("_").to_string();
        }
        inner.push((parent.clone(), true));
        run_cmd(&format!("crdt.ins r0 {} 0 s78", parent), sess, out, ctx);
    } else {
        let n = r.range(3, 5);
        for k in 0..n {
            let is_list = r.chance(2, 3);
            let res = exec_line(sess, &format!("crdt.putobj r0 _ m6{} {}", k + 1, if is_list { "L" } else { "M" }), out);
            let o = res[0].strip_prefix("ok ").unwrap_or("_").to_string();
            if is_list { run_cmd(&format!("crdt.ins r0 {} 0 s78", o), sess, out, ctx); } else { run_cmd(&format!("crdt.put r0 {} m6b i{}", o, k), sess, out, ctx); }
            inner.push((o, is_list));
        }
    }
    run_cmd("crdt.commit r0", sess, out, ctx);                       // change 0
    // an edit inside one (often the last) of them, sometimes in two
    let pick = if r.chance(2, 3) { inner.len() - 1 } else { r.below(inner.len() as u64) as usize };
    let (o, is_list) = inner[pick].clone();
    if is_list { run_cmd(&format!("crdt.ins r0 {} 1 s79", o), sess, out, ctx); } else { run_cmd(&format!("crdt.put r0 {} m6e c3", o), sess, out, ctx); }
    if inner.len() > 1 && r.chance(1, 3) { let (o2, l2) = inner[0].clone(); if l2 { run_cmd(&format!("crdt.ins r0 {} 0 s7a", o2), sess, out, ctx); } else { run_cmd(&format!("crdt.inc r0 {} m6b 2", o2), sess, out, ctx); } }
    run_cmd("crdt.commit r0", sess, out, ctx);                       // change 1
    // everything is overwritten / the parent deleted in ONE change
    if nested { run_cmd("crdt.del r0 _ m6f", sess, out, ctx); }
    else { for k in 0..inner.len() { if r.chance(1, 4) { run_cmd(&format!("crdt.del r0 _ m6{}", k + 1), sess, out, ctx); } else { run_cmd(&format!("crdt.put r0 _ m6{} i{}", k + 1, k), sess, out, ctx); } } }
    run_cmd("crdt.commit r0", sess, out, ctx);                       // change 2
    for (a, b) in [("2", "0"), ("2", "1"), ("0", "2"), ("1", "2"), ("1", "0"), ("-", "1")] {
        run_cmd(&format!("diff r0 {} {}", a, b), sess, out, ctx);
    }
}

fn idxs(r: &mut Rng, n: usize, k: usize) -> String {
    (0..k).map(|_| r.below(n as u64).to_string()).collect::<Vec<_>>().join(",")
}

pub fn generate(r: &mut Rng, opts: &BTreeMap<String, String>, sess: &mut Session, out: &mut Out) {
    let mut ctx = Ctx::default();
    if let Some(path) = opts.get("script") {
        let text = std::fs::read_to_string(path).expect("script file");
        for line in text.lines() {
            let line = line.strip_prefix("#s ").unwrap_or(line).trim();
            if line.is_empty() || line.starts_with('#') { continue; }
            run_cmd(line, sess, out, &mut ctx);
        }
        return;
    }
    if r.chance(1, 5) { return scripted_batch(r, sess, out, &mut ctx); }
    if r.chance(1, 10) { return scripted_expose_then_new_actor(r, sess, out, &mut ctx); }
    if r.chance(1, 10) { return scripted_many_exposed(r, sess, out, &mut ctx); }
    if cfg!(feature = "e_richtext") && r.chance(1, 6) { return scripted_blocks(r, sess, out, &mut ctx); }
    let enc = ["cp", "utf8", "utf16"][r.below(3) as usize];
    let mut actors: Vec<Vec<u8>> = (0..10).map(|i| vec![0x10 * (10 - i as u8) + r.below(8) as u8, r.next() as u8]).collect();
    if r.chance(1, 2) { actors.reverse(); }
    let mut next_actor = 1;
    run_cmd(&format!("crdt.new r0 {} {}", enc, hex::encode(&actors[0])), sess, out, &mut ctx);
    let mut names: Vec<String> = vec!["r0".into()];
    let mut tracked: Option<String> = None;
    let with_marks = r.chance(1, 4);
    let focused = r.chance(1, 2);
    if focused { out.count("cases_focused"); }
    let steps = r.range(8, 28);
    let track_at = r.below(steps / 2 + 1);
    // a "sleeper": forked at the very start, silent while the others advance their op counters, it
    // writes to the contested registers late — its ops then have SMALLER ids than the values the
    // others hold — and everything outstanding reaches the tracked replica in ONE batch
    let sleeper = focused && r.chance(1, 2);
    let wake = steps * 2 / 3 + 1;
    if sleeper {
        next_actor += 1;
        run_cmd(&format!("crdt.fork r0 rs {}", hex::encode(&actors[next_actor - 1])), sess, out, &mut ctx);
        out.count("sleeper_cases");
    }
    for step in 0..steps {
        if sleeper && step == wake && tracked.is_some() {
            for _ in 0..r.range(1, 3) { local_tx(r, sess, out, &mut ctx, "rs", true); }
            let nch = ctx.all_changes.len();
            if nch > 0 {
                let mut all: Vec<usize> = (0..nch).collect();
                for i in (1..all.len()).rev() { let j = r.below(i as u64 + 1) as usize; all.swap(i, j); }
                run_cmd(&format!("deliver p0 {}", all.iter().map(|x| x.to_string()).collect::<Vec<_>>().join(",")), sess, out, &mut ctx);
                run_cmd("incr p0", sess, out, &mut ctx);
            }
            continue;
        }
        if step == track_at {
            let src = names[r.below(names.len() as u64) as usize].clone();
            next_actor += 1;
            run_cmd(&format!("crdt.patch.track {} p0 {}", src, hex::encode(&actors[next_actor - 1])), sess, out, &mut ctx);
            names.push("p0".into());
            tracked = Some("p0".into());
            run_cmd("incr p0", sess, out, &mut ctx);
            continue;
        }
        // the tracked replica acts in about half of the steps
        let who = match &tracked { Some(p) if r.chance(1, 2) => p.clone(), _ => names[r.below(names.len() as u64) as usize].clone() };
        let is_tracked = Some(&who) == tracked.as_ref();
        let nch = ctx.all_changes.len();
        match r.below(12) {
            0 if names.len() < 4 => {
                let n = format!("r{}", names.iter().filter(|n| n.starts_with('r')).count());
                next_actor += 1;
                run_cmd(&format!("crdt.fork {} {} {}", who, n, hex::encode(&actors[next_actor - 1])), sess, out, &mut ctx);
                names.push(n);
            }
            1 | 2 if nch > 0 => {
                let k = r.range(1, 4.min(nch as u64)) as usize;
                run_cmd(&format!("deliver {} {}", who, idxs(r, nch, k)), sess, out, &mut ctx);
                out.count("deliver_subset");
            }
            3 if nch > 0 => {
                let mut all: Vec<usize> = (0..nch).collect();
                for i in (1..all.len()).rev() { let j = r.below(i as u64 + 1) as usize; all.swap(i, j); }
                run_cmd(&format!("deliver {} {}", who, all.iter().map(|x| x.to_string()).collect::<Vec<_>>().join(",")), sess, out, &mut ctx);
                out.count("deliver_all_shuffled");
            }
            4 if names.len() > 1 => {
                let other = loop { let o = names[r.below(names.len() as u64) as usize].clone(); if o != who { break o; } };
                match r.below(3) {
                    0 => { run_cmd(&format!("crdt.patch.merge {} {}", who, other), sess, out, &mut ctx); out.count("merge"); }
                    1 => { run_cmd(&format!("loadinc {} {} {}", who, other, if r.chance(1, 2) { "-" } else { "own" }), sess, out, &mut ctx); out.count("load_incremental"); }
                    _ => { run_cmd(&format!("crdt.patch.sync {} {}", who, other), sess, out, &mut ctx); out.count("sync"); }
                }
            }
            _ => { let f = focused && r.chance(4, 5); local_tx(r, sess, out, &mut ctx, &who, f) }
        }
        // (one time in four the patch log is left to accumulate over the next mutating call as well)
        if is_tracked && !r.chance(1, 4) { run_cmd(&format!("incr {}", who), sess, out, &mut ctx); } else if is_tracked { out.count("incr_deferred"); }
    }
    // rich text at the end of the history: marks and puts on text indexes (own transactions)
    if with_marks {
        for _ in 0..r.range(1, 3) {
            let who = names[r.below(names.len() as u64) as usize].clone();
            let d = sess.crdt.replicas.get(&who).unwrap();
            let mut objs = vec![];
            reachable(d, &ROOT, ObjType::Map, &cur_heads(d), &mut objs, 0);
            let texts: Vec<(ObjId, usize)> = objs.into_iter().filter(|(_, t)| *t == ObjType::Text).map(|(o, _)| { let l = d.length(&o); (o, l) }).filter(|x| x.1 > 0).collect();
            if texts.is_empty() { continue; }
            let (o, len) = texts[r.below(texts.len() as u64) as usize].clone();
            let a = r.below(len as u64) as usize;
            let e = a + 1 + r.below((len - a) as u64) as usize;
            let name = ["bold", "link"][r.below(2) as usize];
            let val = if r.chance(1, 5) { "n".to_string() } else { ["b1", "s78"][r.below(2) as usize].to_string() };
            let ex = ["none", "before", "after", "both"][r.below(4) as usize];
            if r.chance(3, 4) {
                out.count("marks");
                run_cmd(&format!("crdt.patch.mark {} {} {} {} {} {} {}", who, show_exid(&o), a, e, hex::encode(name), val, ex), sess, out, &mut ctx);
            } else {
                out.count("text_puts");
                run_cmd(&format!("crdt.patch.put {} {} i{} {}", who, show_exid(&o), a, ["s7a", "sc3a9", "i5"][r.below(3) as usize]), sess, out, &mut ctx);
            }
            if Some(&who) == tracked.as_ref() { run_cmd(&format!("incr {}", who), sess, out, &mut ctx); }
        }
    }
    // everybody gets everything
    let nch = ctx.all_changes.len();
    if nch > 0 {
        for n in names.clone() {
            let mut all: Vec<usize> = (0..nch).collect();
            for i in (1..all.len()).rev() { let j = r.below(i as u64 + 1) as usize; all.swap(i, j); }
            run_cmd(&format!("deliver {} {}", n, all.iter().map(|x| x.to_string()).collect::<Vec<_>>().join(",")), sess, out, &mut ctx);
            if Some(&n) == tracked.as_ref() { run_cmd(&format!("incr {}", n), sess, out, &mut ctx); }
        }
    }
    if r.chance(1, 3) { run_cmd("crdt.patch.loadlog r0", sess, out, &mut ctx); out.count("loadlog"); }
    // isolate / integrate on the tracked replica
    if let Some(p) = &tracked {
        if r.chance(1, 2) && nch > 0 {
            run_cmd(&format!("isolate {} {}", p, r.below(nch as u64)), sess, out, &mut ctx);
            run_cmd(&format!("incr {}", p), sess, out, &mut ctx);
            run_cmd(&format!("crdt.patch.integrate {}", p), sess, out, &mut ctx);
            run_cmd(&format!("incr {}", p), sess, out, &mut ctx);
            out.count("isolate_integrate");
        }
    }
    // C08: ordered pairs of head sets of r0's history (single changes, antichain pairs, current, empty)
    if nch == 0 { return; }
    let d = sess.crdt.replicas.get_mut("r0").unwrap();
    let anc = |d: &mut AutoCommit, h: &str| -> Vec<String> { d.fork_at(&parse_hashes(h)).map(|mut f| f.get_changes(&[]).iter().map(|c| hex::encode(c.hash().0)).collect()).unwrap_or_default() };
    let mut head_sets: Vec<String> = vec!["-".into(), "cur".into()];
    for _ in 0..6 {
        let a = r.below(nch as u64) as usize;
        if r.chance(1, 3) {
            let b2 = r.below(nch as u64) as usize;
            let (ha, hb) = (ctx.all_changes[a].clone(), ctx.all_changes[b2].clone());
            let (aa, ab) = (anc(d, &ha), anc(d, &hb));
            if a != b2 && !aa.contains(&hb) && !ab.contains(&ha) { out.count("head_pairs"); head_sets.push(format!("{},{}", a, b2)); continue; }
        }
        head_sets.push(a.to_string());
    }
    let npairs = r.range(4, 10);
    for _ in 0..npairs {
        let h1 = head_sets[r.below(head_sets.len() as u64) as usize].clone();
        let h2 = head_sets[r.below(head_sets.len() as u64) as usize].clone();
        // whole document, or one object reachable at H2
        let d = sess.crdt.replicas.get("r0").unwrap();
        let mut objs = vec![];
        if let Some(s2) = head_set(&h2, d, &ctx) { reachable(d, &ROOT, ObjType::Map, &parse_hashes(&s2), &mut objs, 0); }
        if !objs.is_empty() && r.chance(1, 3) {
            let (o, _) = objs[r.below(objs.len() as u64) as usize].clone();
            out.count("diff_obj");
            run_cmd(&format!("diff r0 {} {} {}", h1, h2, show_exid(&o)), sess, out, &mut ctx);
        } else { out.count("diff_root"); run_cmd(&format!("diff r0 {} {}", h1, h2), sess, out, &mut ctx); }
        // the own level of one map object (root or nested), non-recursive: compared with the Lean `mapDiff`
        let maps: Vec<ObjId> = std::iter::once(ROOT).chain(objs.iter().filter(|(_, t)| *t == ObjType::Map).map(|(o, _)| o.clone())).collect();
        let m = maps[r.below(maps.len() as u64) as usize].clone();
        out.count("diff_map_level");
        run_cmd(&format!("diff0 r0 {} {} {}", h1, h2, show_exid(&m)), sess, out, &mut ctx);
        // … and of one list object: compared with the Lean `listDiff` + index accounting + `PatchBuilder` merging
        let lists: Vec<ObjId> = objs.iter().filter(|(_, t)| *t == ObjType::List).map(|(o, _)| o.clone()).collect();
        if !lists.is_empty() {
            let l = lists[r.below(lists.len() as u64) as usize].clone();
            out.count("diff_list_level");
            run_cmd(&format!("diff0 r0 {} {} {}", h1, h2, show_exid(&l)), sess, out, &mut ctx);
        }
    }
    let _ = parse_enc;
}
