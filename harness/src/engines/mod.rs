pub mod bloom;
pub mod crdt;
pub mod hexane;
pub mod serde_cli;
pub mod sync;

use crate::{rng::Rng, Out, Session};
use std::collections::BTreeMap;

pub fn hx(b: &[u8]) -> String { if b.is_empty() { "-".to_string() } else { hex::encode(b) } }
pub fn unhx(s: &str) -> Vec<u8> { if s == "-" { vec![] } else { hex::decode(s).expect("hex") } }

/// execute one tokenised input line on the implementation
pub fn dispatch(sess: &mut Session, toks: &[&str]) -> Vec<String> {
    let cmd = toks[0];
    let engine = cmd.split('.').next().unwrap();
    match engine {
        "bloom" => bloom::exec(toks),
        "hexane" => hexane::exec(toks),
        "serde" => serde_cli::exec(toks),
        "crdt" => crdt::exec(&mut sess.crdt, toks),
        "sync" => sync::exec(&mut sess.sync, toks),
        _ => vec![format!("unknown-engine {}", engine)],
    }
}

pub fn generate(engine: &str, r: &mut Rng, opts: &BTreeMap<String, String>, sess: &mut Session, out: &mut Out) {
    match engine {
        "bloom" => bloom::generate(r, opts, sess, out),
        "hexane" => hexane::generate(r, opts, sess, out),
        "serde" => serde_cli::generate(r, opts, sess, out),
        "crdt" => crdt::generate(r, opts, sess, out),
        "storage" => crdt::generate_storage(r, opts, sess, out),
        "sync" => sync::generate(r, opts, sess, out),
        _ => panic!("unknown engine {}", engine),
    }
}
