pub mod bloom;
pub mod crdt;
#[cfg(feature = "e_capi")]
pub mod capi;
#[cfg(feature = "e_richtext")]
pub mod richtext;
#[cfg(feature = "e_patches")]
pub mod patches;
#[cfg(feature = "e_crdtx")]
pub mod crdtx;
#[cfg(feature = "e_store")]
pub mod store;
#[cfg(feature = "e_anon")]
pub mod anon;
#[cfg(feature = "e_hexane")]
pub mod hexane;
#[cfg(feature = "e_ids")]
pub mod ids;
#[cfg(feature = "e_recon")]
pub mod recon;
#[cfg(feature = "e_serde")]
pub mod serde_cli;
#[cfg(feature = "e_sync")]
pub mod sync;
#[cfg(feature = "e_codec")]
pub mod codec;
#[cfg(feature = "e_doccodec")]
pub mod doccodec;

use crate::{rng::Rng, Out, Session};
use std::collections::BTreeMap;

pub fn hx(b: &[u8]) -> String { if b.is_empty() { "-".to_string() } else { hex::encode(b) } }
pub fn unhx(s: &str) -> Vec<u8> { if s == "-" { vec![] } else { hex::decode(s).expect("hex") } }

/// execute one tokenised input line on the implementation
pub fn dispatch(sess: &mut Session, toks: &[&str]) -> Vec<String> {
    let cmd = toks[0];
    let engine = cmd.split('.').next().unwrap();
    match engine {
        "bloom" => bloom::exec(toks),
        #[cfg(feature = "e_hexane")]
        "hexane" => hexane::exec(toks),
        #[cfg(feature = "e_ids")]
        "ids" => ids::exec(toks),
        #[cfg(feature = "e_recon")]
        "recon" => recon::exec(toks),
        #[cfg(feature = "e_serde")]
        "serde" => serde_cli::exec(toks),
        "crdt" => crdt::exec(&mut sess.crdt, toks),
        #[cfg(feature = "e_capi")]
        "capi" => capi::exec(sess, toks),
        #[cfg(feature = "e_codec")]
        "codec" => codec::exec(toks),
        #[cfg(feature = "e_anon")]
        "anon" => anon::exec(&mut sess.crdt, toks),
        #[cfg(feature = "e_sync")]
        "sync" => sync::exec(&mut sess.sync, toks),
        _ => vec![format!("unknown-engine {}", engine)],
    }
}

pub fn generate(engine: &str, r: &mut Rng, opts: &BTreeMap<String, String>, sess: &mut Session, out: &mut Out) {
    match engine {
        "bloom" => bloom::generate(r, opts, sess, out),
        #[cfg(feature = "e_hexane")]
        "hexane" => hexane::generate(r, opts, sess, out),
        #[cfg(feature = "e_ids")]
        "ids" => ids::generate(r, opts, sess, out),
        #[cfg(feature = "e_recon")]
        "recon" => recon::generate(r, opts, sess, out),
        #[cfg(feature = "e_serde")]
        "serde" => serde_cli::generate(r, opts, sess, out),
        "crdt" => crdt::generate(r, opts, sess, out),
        #[cfg(feature = "e_capi")]
        "capi" => capi::generate(r, opts, sess, out),
        #[cfg(feature = "e_codec")]
        "codec" => codec::generate(r, opts, sess, out),
        "storage" => crdt::generate_storage(r, opts, sess, out),
        #[cfg(feature = "e_anon")]
        "anon" => anon::generate(r, opts, sess, out),
        #[cfg(feature = "e_richtext")]
        "richtext" => richtext::generate(r, opts, sess, out),
        #[cfg(feature = "e_patches")]
        "patches" => patches::generate(r, opts, sess, out),
        #[cfg(feature = "e_crdtx")]
        "crdtx" => crdtx::generate(r, opts, sess, out),
        #[cfg(feature = "e_store")]
        "store" => store::generate(r, opts, sess, out),
        #[cfg(feature = "e_doccodec")]
        "doccodec" => doccodec::generate(r, opts, sess, out),
        #[cfg(feature = "e_sync")]
        "sync" => sync::generate(r, opts, sess, out),
        _ => panic!("unknown engine {}", engine),
    }
}
