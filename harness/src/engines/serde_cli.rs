//! C32 / C33: `AutoSerde` through serde_json and through a length-enforcing serializer; the CLI
//! binary's `import | export` round trip.
//!
//! `serde.doc <spec>`  build a document whose current state is `<spec>` (grammar below) with the
//!                     real API — conflicts are produced by forked actors writing the same register
//!                     and merging, deleted registers by put/insert + delete —, then
//!                     `< json …`      serde_json::to_value(AutoSerde) in canonical form
//!                     `< events …`    the `serde::Serializer` calls AutoSerde made
//!                     `< lens ok|bad` did every announced `len` equal the entries that followed
//!                     `< conflicts n` registers on the winners' path holding more than one value
//! `serde.cli <hex>`   JSON text (hex) → `automerge import` → `automerge export` → canonical form
//!                     (`< ok …` | `< import-error` | `< parse-error`)
//!
//! `amharness run serde … --floats safe` keeps the float literals of the CLI stream inside the
//! class every decimal → f64 algorithm converts identically; without it the stream also contains
//! literals on which the CLI binary (serde_json WITHOUT `float_roundtrip`) is off by one ulp or
//! overflows — oracle lines `! C33 [float-text-parse] …`, a finding, not a harness artefact.
//!
//! spec grammar (no spaces):
//!   val   := N | T | F | I<int>; | U<nat>; | D<16 hex>; | C<int>,<int>; | Z<int>;
//!          | S<hex>; | B<hex>; | X<hex>; | '{' entry* '}' | '[' elem* ']'
//!   entry := K<hex>; reg | k<hex>;       elem := reg | ~       reg := val ('|' val)*
//! canonical JSON: N T F i<int> u<nat> d<16 hex> s<hex> [v,v] {<hex key>:v,…} (keys in map order)
use crate::{exec_line, rng::Rng, Out, Session};
use automerge::transaction::Transactable;
use automerge::{ActorId, AutoCommit, AutoSerde, ObjId, ObjType, ReadDoc, ScalarValue, Value, ROOT};
use serde::ser::{self, Serialize};
use std::collections::BTreeMap;
use std::io::Write;
use std::process::{Command, Stdio};

// ------------------------------------------------------------------------------------------
// spec

#[derive(Clone, Debug)]
enum V {
    Null,
    Bool(bool),
    Int(i64),
    Uint(u64),
    F64(u64),
    Counter(i64, i64),
    Ts(i64),
    Str(String),
    Bytes(Vec<u8>),
    Text(String),
    Map(Vec<(String, R)>),
    List(Vec<R>),
}

#[derive(Clone, Debug)]
enum R {
    Live(V, Vec<V>),
    Dead,
}

fn render_v(v: &V, o: &mut String) {
    match v {
        V::Null => o.push('N'),
        V::Bool(true) => o.push('T'),
        V::Bool(false) => o.push('F'),
        V::Int(i) => o.push_str(&format!("I{};", i)),
        V::Uint(u) => o.push_str(&format!("U{};", u)),
        V::F64(b) => o.push_str(&format!("D{:016x};", b)),
        V::Counter(s, i) => o.push_str(&format!("C{},{};", s, i)),
        V::Ts(i) => o.push_str(&format!("Z{};", i)),
        V::Str(s) => o.push_str(&format!("S{};", hex::encode(s.as_bytes()))),
        V::Bytes(b) => o.push_str(&format!("B{};", hex::encode(b))),
        V::Text(s) => o.push_str(&format!("X{};", hex::encode(s.as_bytes()))),
        V::Map(es) => {
            o.push('{');
            for (k, r) in es {
                match r {
                    R::Dead => o.push_str(&format!("k{};", hex::encode(k.as_bytes()))),
                    R::Live(w, ls) => {
                        o.push_str(&format!("K{};", hex::encode(k.as_bytes())));
                        render_reg(w, ls, o);
                    }
                }
            }
            o.push('}');
        }
        V::List(rs) => {
            o.push('[');
            for r in rs {
                match r {
                    R::Dead => o.push('~'),
                    R::Live(w, ls) => render_reg(w, ls, o),
                }
            }
            o.push(']');
        }
    }
}

fn render_reg(w: &V, ls: &[V], o: &mut String) {
    render_v(w, o);
    for l in ls {
        o.push('|');
        render_v(l, o);
    }
}

struct P<'a> {
    s: &'a [u8],
    i: usize,
}

impl<'a> P<'a> {
    fn peek(&self) -> Option<u8> { self.s.get(self.i).copied() }
    fn until(&mut self, stop: u8) -> &'a str {
        let st = self.i;
        while self.s[self.i] != stop { self.i += 1; }
        let r = std::str::from_utf8(&self.s[st..self.i]).unwrap();
        self.i += 1;
        r
    }
    fn hexstr(&mut self) -> String { String::from_utf8(hex::decode(self.until(b';')).expect("hex")).expect("utf8") }
    fn val(&mut self) -> V {
        let c = self.peek().expect("val");
        self.i += 1;
        match c {
            b'N' => V::Null,
            b'T' => V::Bool(true),
            b'F' => V::Bool(false),
            b'I' => V::Int(self.until(b';').parse().unwrap()),
            b'U' => V::Uint(self.until(b';').parse().unwrap()),
            b'D' => V::F64(u64::from_str_radix(self.until(b';'), 16).unwrap()),
            b'Z' => V::Ts(self.until(b';').parse().unwrap()),
            b'C' => { let s = self.until(b',').parse().unwrap(); let i = self.until(b';').parse().unwrap(); V::Counter(s, i) }
            b'S' => V::Str(self.hexstr()),
            b'B' => V::Bytes(hex::decode(self.until(b';')).expect("hex")),
            b'X' => V::Text(self.hexstr()),
            b'{' => {
                let mut es = vec![];
                loop {
                    match self.peek().expect("entry") {
                        b'}' => { self.i += 1; break; }
                        b'K' => { self.i += 1; let k = self.hexstr(); let r = self.reg(); es.push((k, r)); }
                        b'k' => { self.i += 1; let k = self.hexstr(); es.push((k, R::Dead)); }
                        _ => panic!("bad spec"),
                    }
                }
                V::Map(es)
            }
            b'[' => {
                let mut rs = vec![];
                loop {
                    match self.peek().expect("elem") {
                        b']' => { self.i += 1; break; }
                        b'~' => { self.i += 1; rs.push(R::Dead); }
                        _ => { let r = self.reg(); rs.push(r); }
                    }
                }
                V::List(rs)
            }
            _ => panic!("bad spec"),
        }
    }
    fn reg(&mut self) -> R {
        let w = self.val();
        let mut ls = vec![];
        while self.peek() == Some(b'|') { self.i += 1; ls.push(self.val()); }
        R::Live(w, ls)
    }
}

fn parse_spec(s: &str) -> V {
    let mut p = P { s: s.as_bytes(), i: 0 };
    let v = p.val();
    assert!(p.i == s.len(), "trailing spec");
    v
}

// ------------------------------------------------------------------------------------------
// building the document with the real API

#[derive(Clone)]
enum Pr { K(String), I(usize) }

struct Builder { next_actor: u32 }

const PLACEHOLDER: &str = "\u{1}placeholder";

impl Builder {
    /// actors of forks sort below the actor of the document they were forked from, so that with
    /// equal op counters the forked-from document's value wins
    fn fork_actor(&mut self, depth: u8) -> ActorId {
        self.next_actor += 1;
        ActorId::from(vec![0x80 - depth, (self.next_actor >> 8) as u8, self.next_actor as u8])
    }

    fn put_scalar(doc: &mut AutoCommit, obj: &ObjId, p: &Pr, insert: bool, sv: ScalarValue) {
        match (p, insert) {
            (Pr::K(k), _) => doc.put(obj, k.as_str(), sv).unwrap(),
            (Pr::I(i), true) => doc.insert(obj, *i, sv).unwrap(),
            (Pr::I(i), false) => doc.put(obj, *i, sv).unwrap(),
        }
    }

    fn put_obj(doc: &mut AutoCommit, obj: &ObjId, p: &Pr, insert: bool, t: ObjType) -> ObjId {
        match (p, insert) {
            (Pr::K(k), _) => doc.put_object(obj, k.as_str(), t).unwrap(),
            (Pr::I(i), true) => doc.insert_object(obj, *i, t).unwrap(),
            (Pr::I(i), false) => doc.put_object(obj, *i, t).unwrap(),
        }
    }

    fn put_val(&mut self, doc: &mut AutoCommit, depth: u8, obj: &ObjId, p: &Pr, insert: bool, v: &V) {
        match v {
            V::Null => Self::put_scalar(doc, obj, p, insert, ScalarValue::Null),
            V::Bool(b) => Self::put_scalar(doc, obj, p, insert, ScalarValue::Boolean(*b)),
            V::Int(i) => Self::put_scalar(doc, obj, p, insert, ScalarValue::Int(*i)),
            V::Uint(u) => Self::put_scalar(doc, obj, p, insert, ScalarValue::Uint(*u)),
            V::F64(b) => Self::put_scalar(doc, obj, p, insert, ScalarValue::F64(f64::from_bits(*b))),
            V::Ts(i) => Self::put_scalar(doc, obj, p, insert, ScalarValue::Timestamp(*i)),
            V::Str(s) => Self::put_scalar(doc, obj, p, insert, ScalarValue::Str(s.as_str().into())),
            V::Bytes(b) => Self::put_scalar(doc, obj, p, insert, ScalarValue::Bytes(b.clone())),
            V::Counter(s, i) => {
                Self::put_scalar(doc, obj, p, insert, ScalarValue::counter(*s));
                if *i != 0 {
                    match p {
                        Pr::K(k) => doc.increment(obj, k.as_str(), *i).unwrap(),
                        Pr::I(n) => doc.increment(obj, *n, *i).unwrap(),
                    }
                }
            }
            V::Text(s) => {
                let id = Self::put_obj(doc, obj, p, insert, ObjType::Text);
                doc.splice_text(&id, 0, 0, s).unwrap();
            }
            V::Map(es) => {
                let id = Self::put_obj(doc, obj, p, insert, ObjType::Map);
                self.fill_map(doc, depth, &id, es);
            }
            V::List(rs) => {
                let id = Self::put_obj(doc, obj, p, insert, ObjType::List);
                self.fill_list(doc, depth, &id, rs);
            }
        }
    }

    /// write `winner` into a register that exists in `doc` (map: any key; list: an element that is
    /// already there) concurrently with each loser written by a forked actor, then merge
    fn conflict(&mut self, doc: &mut AutoCommit, depth: u8, obj: &ObjId, p: &Pr, w: &V, losers: &[V]) {
        doc.commit();
        let mut forks = vec![];
        for l in losers {
            let actor = self.fork_actor(depth + 1);
            let mut f = doc.fork().with_actor(actor);
            self.put_val(&mut f, depth + 1, obj, p, false, l);
            f.commit();
            forks.push(f);
        }
        self.put_val(doc, depth, obj, p, false, w);
        doc.commit();
        for mut f in forks {
            doc.merge(&mut f).unwrap();
        }
    }

    fn fill_map(&mut self, doc: &mut AutoCommit, depth: u8, id: &ObjId, es: &[(String, R)]) {
        for (k, r) in es {
            let p = Pr::K(k.clone());
            match r {
                R::Dead => {
                    doc.put(id, k.as_str(), 1i64).unwrap();
                    doc.delete(id, k.as_str()).unwrap();
                }
                R::Live(w, ls) if ls.is_empty() => self.put_val(doc, depth, id, &p, false, w),
                R::Live(w, ls) => self.conflict(doc, depth, id, &p, w, ls),
            }
        }
    }

    fn fill_list(&mut self, doc: &mut AutoCommit, depth: u8, id: &ObjId, rs: &[R]) {
        let mut idx = 0usize;
        for r in rs {
            let p = Pr::I(idx);
            match r {
                R::Dead => {
                    doc.insert(id, idx, 1i64).unwrap();
                    doc.delete(id, idx).unwrap();
                }
                R::Live(w, ls) if ls.is_empty() => { self.put_val(doc, depth, id, &p, true, w); idx += 1; }
                R::Live(w, ls) => {
                    doc.insert(id, idx, PLACEHOLDER).unwrap();
                    self.conflict(doc, depth, id, &p, w, ls);
                    idx += 1;
                }
            }
        }
    }
}

fn build_doc(spec: &V) -> AutoCommit {
    let mut doc = AutoCommit::new().with_actor(ActorId::from(vec![0xff]));
    let mut b = Builder { next_actor: 0 };
    match spec {
        V::Map(es) => b.fill_map(&mut doc, 0, &ROOT, es),
        _ => panic!("root must be a map"),
    }
    doc.commit();
    doc
}

/// registers reachable through winners that hold more than one value
fn count_conflicts<D: ReadDoc>(doc: &D, obj: &ObjId, typ: ObjType) -> usize {
    let mut n = 0;
    let visit = |vals: Vec<(Value<'_>, ObjId)>, win: Option<(Value<'_>, ObjId)>, n: &mut usize| {
        if vals.len() > 1 { *n += 1; }
        if let Some((Value::Object(t), id)) = win {
            if t != ObjType::Text { *n += count_conflicts(doc, &id, t); }
        }
    };
    match typ {
        ObjType::Map | ObjType::Table => {
            for k in doc.keys(obj) {
                let all = doc.get_all(obj, k.as_str()).unwrap();
                let win = doc.get(obj, k.as_str()).unwrap();
                visit(all, win, &mut n);
            }
        }
        ObjType::List => {
            for i in 0..doc.length(obj) {
                let all = doc.get_all(obj, i).unwrap();
                let win = doc.get(obj, i).unwrap();
                visit(all, win, &mut n);
            }
        }
        ObjType::Text => {}
    }
    n
}

/// the winners-only state the spec describes, as serde_json would hold it (direct oracle for C32)
fn expected_json(v: &V) -> serde_json::Value {
    use serde_json::Value as J;
    match v {
        V::Null => J::Null,
        V::Bool(b) => J::Bool(*b),
        V::Int(i) => J::from(*i),
        V::Uint(u) => J::from(*u),
        V::F64(b) => J::from(f64::from_bits(*b)),
        V::Counter(s, i) => J::from(s + i),
        V::Ts(i) => J::from(*i),
        V::Str(s) | V::Text(s) => J::String(s.clone()),
        V::Bytes(b) => J::Array(b.iter().map(|x| J::from(*x)).collect()),
        V::Map(es) => {
            let mut m = serde_json::Map::new();
            for (k, r) in es {
                if let R::Live(w, _) = r { m.insert(k.clone(), expected_json(w)); }
            }
            J::Object(m)
        }
        V::List(rs) => J::Array(rs.iter().filter_map(|r| if let R::Live(w, _) = r { Some(expected_json(w)) } else { None }).collect()),
    }
}

// ------------------------------------------------------------------------------------------
// canonical JSON

fn canon(v: &serde_json::Value, o: &mut String) {
    use serde_json::Value as J;
    match v {
        J::Null => o.push('N'),
        J::Bool(true) => o.push('T'),
        J::Bool(false) => o.push('F'),
        J::Number(n) => {
            if let Some(i) = n.as_i64() { o.push_str(&format!("i{}", i)); }
            else if let Some(u) = n.as_u64() { o.push_str(&format!("u{}", u)); }
            else { o.push_str(&format!("d{:016x}", n.as_f64().unwrap().to_bits())); }
        }
        J::String(s) => { o.push('s'); o.push_str(&hex::encode(s.as_bytes())); }
        J::Array(xs) => {
            o.push('[');
            for (i, x) in xs.iter().enumerate() { if i > 0 { o.push(','); } canon(x, o); }
            o.push(']');
        }
        J::Object(m) => {
            o.push('{');
            for (i, (k, x)) in m.iter().enumerate() {
                if i > 0 { o.push(','); }
                o.push_str(&hex::encode(k.as_bytes()));
                o.push(':');
                canon(x, o);
            }
            o.push('}');
        }
    }
}

fn canon_s(v: &serde_json::Value) -> String { let mut s = String::new(); canon(v, &mut s); s }

// ------------------------------------------------------------------------------------------
// a recording, optionally length-enforcing serde::Serializer

#[derive(Debug)]
struct SerErr(String);
impl std::fmt::Display for SerErr {
    fn fmt(&self, f: &mut std::fmt::Formatter<'_>) -> std::fmt::Result { write!(f, "{}", self.0) }
}
impl std::error::Error for SerErr {}
impl ser::Error for SerErr {
    fn custom<T: std::fmt::Display>(msg: T) -> Self { SerErr(msg.to_string()) }
}

struct Rec {
    events: Vec<String>,
    /// fail (like a length-prefixed binary format must) when `end` is reached with a number of
    /// entries different from the announced `len`
    strict: bool,
    mismatches: Vec<String>,
}

struct Compound<'a> { rec: &'a mut Rec, ann: Option<usize>, count: usize, is_map: bool }

fn len_s(l: Option<usize>) -> String { l.map(|n| n.to_string()).unwrap_or_else(|| "-".into()) }

impl<'a> Compound<'a> {
    fn finish(self) -> Result<(), SerErr> {
        self.rec.events.push(if self.is_map { "m".into() } else { "q".into() });
        if let Some(n) = self.ann {
            if n != self.count {
                let msg = format!("announced length {} but {} {} followed (nesting event #{})", n, self.count,
                    if self.is_map { "entries" } else { "elements" }, self.rec.events.len());
                self.rec.mismatches.push(msg.clone());
                if self.strict_mode() { return Err(SerErr(msg)); }
            }
        }
        Ok(())
    }
    fn strict_mode(&self) -> bool { self.rec.strict }
}

impl<'a> ser::SerializeSeq for Compound<'a> {
    type Ok = ();
    type Error = SerErr;
    fn serialize_element<T: ?Sized + Serialize>(&mut self, value: &T) -> Result<(), SerErr> {
        self.count += 1;
        value.serialize(&mut *self.rec)
    }
    fn end(self) -> Result<(), SerErr> { self.finish() }
}

impl<'a> ser::SerializeMap for Compound<'a> {
    type Ok = ();
    type Error = SerErr;
    fn serialize_key<T: ?Sized + Serialize>(&mut self, key: &T) -> Result<(), SerErr> {
        // keys of AutoSerde are `String`s: record them as `K<hex>`
        let mut k = Rec { events: vec![], strict: false, mismatches: vec![] };
        key.serialize(&mut k)?;
        match k.events.as_slice() {
            [one] if one.starts_with('s') => self.rec.events.push(format!("K{}", &one[1..])),
            _ => return Err(SerErr("non-string key".into())),
        }
        Ok(())
    }
    fn serialize_value<T: ?Sized + Serialize>(&mut self, value: &T) -> Result<(), SerErr> {
        self.count += 1;
        value.serialize(&mut *self.rec)
    }
    fn end(self) -> Result<(), SerErr> { self.finish() }
}

macro_rules! unsupported {
    ($($name:ident($($arg:ty),*);)*) => {
        $(fn $name(self $(, _: $arg)*) -> Result<(), SerErr> { Err(SerErr(concat!("unsupported ", stringify!($name)).into())) })*
    };
}

impl<'a> ser::Serializer for &'a mut Rec {
    type Ok = ();
    type Error = SerErr;
    type SerializeSeq = Compound<'a>;
    type SerializeTuple = ser::Impossible<(), SerErr>;
    type SerializeTupleStruct = ser::Impossible<(), SerErr>;
    type SerializeTupleVariant = ser::Impossible<(), SerErr>;
    type SerializeMap = Compound<'a>;
    type SerializeStruct = ser::Impossible<(), SerErr>;
    type SerializeStructVariant = ser::Impossible<(), SerErr>;

    fn serialize_bool(self, v: bool) -> Result<(), SerErr> { self.events.push(if v { "T".into() } else { "F".into() }); Ok(()) }
    fn serialize_i64(self, v: i64) -> Result<(), SerErr> { self.events.push(format!("i{}", v)); Ok(()) }
    fn serialize_u64(self, v: u64) -> Result<(), SerErr> { self.events.push(format!("u{}", v)); Ok(()) }
    fn serialize_u8(self, v: u8) -> Result<(), SerErr> { self.events.push(format!("b{}", v)); Ok(()) }
    fn serialize_f64(self, v: f64) -> Result<(), SerErr> { self.events.push(format!("d{:016x}", v.to_bits())); Ok(()) }
    fn serialize_str(self, v: &str) -> Result<(), SerErr> { self.events.push(format!("s{}", hex::encode(v.as_bytes()))); Ok(()) }
    fn serialize_unit(self) -> Result<(), SerErr> { self.events.push("N".into()); Ok(()) }
    fn serialize_seq(self, len: Option<usize>) -> Result<Compound<'a>, SerErr> {
        self.events.push(format!("Q{}", len_s(len)));
        Ok(Compound { rec: self, ann: len, count: 0, is_map: false })
    }
    fn serialize_map(self, len: Option<usize>) -> Result<Compound<'a>, SerErr> {
        self.events.push(format!("M{}", len_s(len)));
        Ok(Compound { rec: self, ann: len, count: 0, is_map: true })
    }

    unsupported! {
        serialize_i8(i8); serialize_i16(i16); serialize_i32(i32);
        serialize_u16(u16); serialize_u32(u32); serialize_f32(f32); serialize_char(char);
        serialize_bytes(&[u8]); serialize_none(); serialize_unit_struct(&'static str);
        serialize_unit_variant(&'static str, u32, &'static str);
    }
    fn serialize_some<T: ?Sized + Serialize>(self, _: &T) -> Result<(), SerErr> { Err(SerErr("unsupported some".into())) }
    fn serialize_newtype_struct<T: ?Sized + Serialize>(self, _: &'static str, _: &T) -> Result<(), SerErr> { Err(SerErr("unsupported newtype".into())) }
    fn serialize_newtype_variant<T: ?Sized + Serialize>(self, _: &'static str, _: u32, _: &'static str, _: &T) -> Result<(), SerErr> { Err(SerErr("unsupported newtype variant".into())) }
    fn serialize_tuple(self, _: usize) -> Result<Self::SerializeTuple, SerErr> { Err(SerErr("unsupported tuple".into())) }
    fn serialize_tuple_struct(self, _: &'static str, _: usize) -> Result<Self::SerializeTupleStruct, SerErr> { Err(SerErr("unsupported tuple struct".into())) }
    fn serialize_tuple_variant(self, _: &'static str, _: u32, _: &'static str, _: usize) -> Result<Self::SerializeTupleVariant, SerErr> { Err(SerErr("unsupported tuple variant".into())) }
    fn serialize_struct(self, _: &'static str, _: usize) -> Result<Self::SerializeStruct, SerErr> { Err(SerErr("unsupported struct".into())) }
    fn serialize_struct_variant(self, _: &'static str, _: u32, _: &'static str, _: usize) -> Result<Self::SerializeStructVariant, SerErr> { Err(SerErr("unsupported struct variant".into())) }
}

// ------------------------------------------------------------------------------------------
// the CLI binary

fn cli_bin() -> String {
    std::env::var("AM_CLI_BIN").unwrap_or_else(|_| "/verif/.cache/target-cli/debug/automerge".to_string())
}

/// run `automerge <sub>` with `input` on stdin; Ok(stdout) when it exits 0
fn run_cli(sub: &str, input: &[u8]) -> Result<Vec<u8>, String> {
    let mut child = Command::new(cli_bin())
        .arg(sub)
        .env("RUST_BACKTRACE", "0")
        .env_remove("RUST_LOG")
        .stdin(Stdio::piped())
        .stdout(Stdio::piped())
        .stderr(Stdio::piped())
        .spawn()
        .unwrap_or_else(|e| panic!("cannot run CLI binary {}: {}", cli_bin(), e));
    let mut stdin = child.stdin.take().unwrap();
    let data = input.to_vec();
    let writer = std::thread::spawn(move || { let _ = stdin.write_all(&data); });
    let out = child.wait_with_output().expect("wait");
    let _ = writer.join();
    if out.status.success() {
        Ok(out.stdout)
    } else {
        let err = String::from_utf8_lossy(&out.stderr);
        Err(err.lines().next().unwrap_or("").to_string())
    }
}

/// do two values differ only in float leaves (same shape, keys, strings, integer numbers)?
fn differs_only_in_floats(a: &serde_json::Value, b: &serde_json::Value) -> bool {
    use serde_json::Value as J;
    match (a, b) {
        (J::Number(x), J::Number(y)) => (x.is_f64() && y.is_f64()) || x == y,
        (J::Array(x), J::Array(y)) => x.len() == y.len() && x.iter().zip(y).all(|(p, q)| differs_only_in_floats(p, q)),
        (J::Object(x), J::Object(y)) => x.len() == y.len() && x.iter().zip(y).all(|((k, p), (l, q))| k == l && differs_only_in_floats(p, q)),
        _ => a == b,
    }
}

fn has_empty_key(v: &serde_json::Value) -> bool {
    match v {
        serde_json::Value::Array(xs) => xs.iter().any(has_empty_key),
        serde_json::Value::Object(m) => m.iter().any(|(k, x)| k.is_empty() || has_empty_key(x)),
        _ => false,
    }
}

// ------------------------------------------------------------------------------------------

pub fn exec(toks: &[&str]) -> Vec<String> {
    match toks[0] {
        "serde.doc" => {
            let spec = parse_spec(toks[1]);
            let doc = build_doc(&spec);
            let mut res = vec![];
            // 1. JSON
            let json = serde_json::to_value(AutoSerde::from(&doc)).expect("to_value");
            res.push(format!("json {}", canon_s(&json)));
            let want = expected_json(&spec);
            if canon_s(&want) != canon_s(&json) {
                res.push(format!("! C32 export is not the winners-only current state: want {} got {}", canon_s(&want), canon_s(&json)));
            }
            // the same after save/load (what the CLI exports)
            let mut d2 = doc.clone();
            let loaded = automerge::Automerge::load(&d2.save()).expect("load own save");
            let json2 = serde_json::to_value(AutoSerde::from(&loaded)).expect("to_value");
            if canon_s(&json2) != canon_s(&json) {
                res.push(format!("! C32 export differs after save/load: {} vs {}", canon_s(&json), canon_s(&json2)));
            }
            // 2. call sequence (lenient recorder), 3. length-enforcing serializer
            let mut rec = Rec { events: vec![], strict: false, mismatches: vec![] };
            match AutoSerde::from(&doc).serialize(&mut rec) {
                Ok(()) => res.push(format!("events {}", rec.events.join(" "))),
                Err(e) => res.push(format!("events-error {}", e)),
            }
            let mut strict = Rec { events: vec![], strict: true, mismatches: vec![] };
            match AutoSerde::from(&doc).serialize(&mut strict) {
                Ok(()) => res.push("lens ok".into()),
                Err(e) => {
                    res.push("lens bad".into());
                    res.push(format!("! C32 length-enforcing serializer failed: {}", e));
                }
            }
            res.push(format!("conflicts {}", count_conflicts(&doc, &ROOT, ObjType::Map)));
            res
        }
        "serde.cli" => {
            let text = super::unhx(toks[1]);
            let parsed: Option<serde_json::Value> = std::str::from_utf8(&text).ok().and_then(|s| serde_json::from_str(s).ok());
            let imported = run_cli("import", &text);
            let Some(input) = parsed else {
                return match imported {
                    Err(_) => vec!["parse-error".into()],
                    Ok(_) => vec!["parse-error".into(), "! C33 import accepted text that is not JSON".into()],
                };
            };
            let bytes = match imported {
                Ok(b) => b,
                Err(msg) => {
                    let mut res = vec!["import-error".to_string()];
                    if input.is_object() {
                        // serde_json without `float_roundtrip` overflows on literals just above f64::MAX
                        // that correctly round to f64::MAX (e.g. 1.7976931348623158e308)
                        let class = if msg.contains("number out of range") { "[float-text-parse] " } else { "" };
                        res.push(format!("! C33 {}import rejected a JSON object (empty_key={}): {}", class, has_empty_key(&input), msg));
                    }
                    return res;
                }
            };
            let exported = match run_cli("export", &bytes) {
                Ok(b) => b,
                Err(msg) => return vec!["export-error".into(), format!("! C33 export failed on the import's output: {}", msg)],
            };
            let out: serde_json::Value = match std::str::from_utf8(&exported).ok().and_then(|s| serde_json::from_str(s).ok()) {
                Some(v) => v,
                None => return vec!["export-error".into(), "! C33 export printed something that is not JSON".into()],
            };
            let mut res = vec![format!("ok {}", canon_s(&out))];
            if canon_s(&out) != canon_s(&input) {
                // [float-text-parse]: only float leaves moved (the CLI's serde_json is built without
                // `float_roundtrip`, so its decimal → f64 conversion is not correctly rounded)
                let class = if differs_only_in_floats(&input, &out) { "[float-text-parse] " } else { "" };
                res.push(format!("! C33 {}round trip changed the value: in {} out {}", class, canon_s(&input), canon_s(&out)));
            }
            res
        }
        _ => vec!["unknown-cmd".into()],
    }
}

// ------------------------------------------------------------------------------------------
// generators

const KEY_POOL: &[&str] = &[
    "a", "b", "k", "key", "id", "x y", "A", "é", "ключ", "日本", "\u{ffff}", "\u{e000}", "\u{10000}", "𝄞", "😀",
    "a\"b", "a\\b", "\n", "\u{0}", "\u{7f}", "a/b", "0", "10", "9", "~", "{", "}", "ä", "a\u{301}",
];

const STR_POOL: &[&str] = &[
    "", "a", "hello world", "line\nbreak\ttab", "quote\"back\\slash/", "\u{0}\u{1}\u{1f}", "é", "e\u{301}", "日本語", "𝄞𝄞", "😀 👩‍👩‍👧",
    "\u{ffff}\u{10000}", "\u{d7ff}\u{e000}", "\u{2028}\u{2029}", "null", "1", "{}", "\u{feff}bom", "\u{10ffff}",
];

fn gen_key(r: &mut Rng, allow_empty: bool) -> String {
    match r.below(10) {
        0 if allow_empty => String::new(),
        1 | 2 => format!("k{}", r.below(1000)),
        3 => { let a = *r.pick(KEY_POOL); let b = *r.pick(KEY_POOL); format!("{}{}", a, b) }
        _ => r.pick(KEY_POOL).to_string(),
    }
}

fn gen_string(r: &mut Rng) -> String {
    match r.below(6) {
        0 => { let a = *r.pick(STR_POOL); let b = *r.pick(STR_POOL); format!("{}{}", a, b) }
        1 => {
            // random scalar values from all planes
            let n = r.below(6);
            (0..n).filter_map(|_| {
                let c = match r.below(4) { 0 => r.below(0x80), 1 => r.below(0x800), 2 => r.below(0x10000), _ => 0x10000 + r.below(0x100000) } as u32;
                char::from_u32(c)
            }).collect()
        }
        _ => r.pick(STR_POOL).to_string(),
    }
}

fn edgy_i64(r: &mut Rng) -> i64 {
    match r.below(10) {
        0 => 0, 1 => 1, 2 => -1, 3 => i64::MAX, 4 => i64::MIN, 5 => i64::MAX - 1, 6 => i64::MIN + 1,
        7 => r.below(256) as i64 - 128,
        8 => (1i64 << r.range(1, 62)) - (r.below(3) as i64),
        _ => r.next() as i64,
    }
}

fn edgy_u64(r: &mut Rng) -> u64 {
    match r.below(8) {
        0 => 0, 1 => u64::MAX, 2 => i64::MAX as u64 + 1, 3 => i64::MAX as u64, 4 => u64::MAX - 1,
        5 => r.below(1000),
        6 => (1u64 << 63) + r.below(1000),
        _ => r.next(),
    }
}

fn edgy_f64_bits(r: &mut Rng, finite_only: bool) -> u64 {
    let b = match r.below(16) {
        0 => 0u64,                                // 0.0
        1 => 1u64 << 63,                          // -0.0
        2 => 1,                                   // smallest subnormal
        3 => 0x000f_ffff_ffff_ffff,               // largest subnormal
        4 => 0x0010_0000_0000_0000,               // smallest normal
        5 => 0x7fef_ffff_ffff_ffff,               // f64::MAX
        6 => 1e308f64.to_bits(),
        7 => 1.0f64.to_bits(),
        8 => (r.below(2000) as f64 - 1000.0).to_bits(),  // integers written as floats
        9 => 0.1f64.to_bits(),
        10 => (r.below(1 << 20) as f64 / 1024.0).to_bits(),
        11 => 9007199254740992f64.to_bits(),      // 2^53
        12 => 0x7ff0_0000_0000_0000,              // +inf
        13 => 0x7ff8_0000_0000_0001,              // a NaN
        14 => r.below(1 << 52),                   // random subnormal
        _ => r.next(),
    };
    if finite_only && (b >> 52) & 0x7ff == 0x7ff { b & !(1u64 << 62) } else { b }
}

// ---- document specs

fn gen_scalar(r: &mut Rng, out: &mut Out) -> V {
    let k = r.below(11);
    out.count(match k { 0 => "doc_null", 1 => "doc_bool", 2 => "doc_int", 3 => "doc_uint", 4 => "doc_f64", 5 => "doc_counter", 6 => "doc_timestamp", 7 | 8 => "doc_str", 9 => "doc_bytes", _ => "doc_text" });
    match k {
        0 => V::Null,
        1 => V::Bool(r.chance(1, 2)),
        2 => V::Int(edgy_i64(r)),
        3 => V::Uint(edgy_u64(r)),
        4 => V::F64(edgy_f64_bits(r, false)),
        5 => { let s = r.below(2001) as i64 - 1000; let i = if r.chance(1, 3) { 0 } else { r.below(201) as i64 - 100 }; V::Counter(s, i) }
        6 => V::Ts(if r.chance(1, 2) { edgy_i64(r) } else { 1_700_000_000_000 + r.below(1_000_000) as i64 }),
        7 | 8 => V::Str(gen_string(r)),
        9 => { let n = match r.below(4) { 0 => 0, 1 => 1, _ => r.below(12) as usize }; V::Bytes(r.bytes(n)) }
        _ => V::Text(gen_string(r)),
    }
}

fn gen_val(r: &mut Rng, depth: u32, out: &mut Out) -> V {
    let container = depth < 4 && r.chance(if depth == 0 { 1 } else { 2 }, if depth == 0 { 1 } else { 5 });
    if !container { return gen_scalar(r, out); }
    if depth == 0 || r.chance(3, 5) {
        out.count("doc_map");
        let n = match r.below(6) { 0 => 0, 1 => 1, _ => r.range(2, 5) } as usize;
        let mut keys: Vec<String> = (0..n).map(|_| gen_key(r, true)).collect();
        keys.sort();           // `String` order = UTF-8 byte order: the order the model assumes `keys()` has
        keys.dedup();
        let es = keys.into_iter().map(|k| (k, gen_reg(r, depth + 1, out))).collect();
        V::Map(es)
    } else {
        out.count("doc_list");
        let n = match r.below(6) { 0 => 0, 1 => 1, _ => r.range(2, 5) } as usize;
        V::List((0..n).map(|_| gen_reg(r, depth + 1, out)).collect())
    }
}

fn gen_reg(r: &mut Rng, depth: u32, out: &mut Out) -> R {
    match r.below(20) {
        0 | 1 => { out.count("doc_dead_register"); R::Dead }
        2..=6 => { out.count("doc_conflict_1_loser"); R::Live(gen_val(r, depth, out), vec![gen_val(r, depth.max(2), out)]) }
        7 | 8 => { out.count("doc_conflict_2_losers"); R::Live(gen_val(r, depth, out), vec![gen_val(r, depth.max(3), out), gen_val(r, depth.max(3), out)]) }
        _ => R::Live(gen_val(r, depth, out), vec![]),
    }
}

// ---- JSON texts

#[derive(Clone, Debug)]
enum JT { Lit(String), Str(String), Arr(Vec<JT>), Obj(Vec<(String, JT)>) }

/// `safe`: only float literals every decimal → f64 algorithm converts exactly the same way
/// (≤ 15 significant digits, |effective exponent| ≤ 22: one exactly-rounded multiplication or division)
fn gen_number_literal(r: &mut Rng, out: &mut Out, safe: bool) -> String {
    let mut k = r.below(14);
    if safe && matches!(k, 5..=10 | 13) {
        out.count("num_float_safe");
        let m = match r.below(3) { 0 => r.below(1000), 1 => r.below(1_000_000_000), _ => r.below(100_000_000_000_000) };
        let e = r.below(41) as i64 - 20;   // `.0` below costs one more digit and one more power of ten
        let sign = if r.chance(1, 3) { "-" } else { "" };
        return match r.below(4) {
            0 => format!("{}{}e{}", sign, m, e),
            1 => format!("{}{}.0E{}", sign, m, e),
            2 => format!("{}{}.{:03}", sign, m % 1_000_000_000_000, r.below(1000)),
            _ => format!("{}{}e+{}", sign, m, e.abs()),
        };
    }
    if safe && k == 12 { k = 11; }
    out.count(match k { 0..=2 => "num_i64", 3 | 4 => "num_u64", 5 => "num_bigint", 6..=9 => "num_float_shortest", 10 => "num_float_notation", 11 => "num_negzero", 12 => "num_int_as_float", _ => "num_long_decimal" });
    match k {
        0..=2 => edgy_i64(r).to_string(),
        3 | 4 => edgy_u64(r).to_string(),
        5 => match r.below(4) { 0 => "18446744073709551616".into(), 1 => "-9223372036854775809".into(), 2 => format!("{}{}", r.range(1, 9), "0".repeat(r.range(20, 40) as usize)), _ => format!("-{}{}", r.next(), r.next()) },
        6..=9 => {
            let f = f64::from_bits(edgy_f64_bits(r, true));
            let mut s = String::new();
            // shortest round-trip decimal, as serde_json prints it
            s.push_str(&serde_json::to_string(&f).unwrap());
            s
        }
        10 => {
            let f = f64::from_bits(edgy_f64_bits(r, true));
            match r.below(4) { 0 => format!("{:e}", f), 1 => format!("{:E}", f).replace("E", "E+").replace("E+-", "E-"), 2 => format!("{:.3e}", f), _ => format!("{:.20e}", f) }
        }
        11 => (*r.pick(&["-0", "-0.0", "-0e0", "0.0", "0e0", "0E-5", "-0.000"])).to_string(),
        12 => match r.below(4) { 0 => "1.0".into(), 1 => format!("{}.0", edgy_i64(r)), 2 => format!("{}e0", r.below(100)), _ => format!("{}.000e2", r.below(100)) },
        _ => {
            // many digits: exercises correct rounding (halfway cases around 2^53 and subnormals)
            (*r.pick(&["9007199254740993", "9007199254740993.0", "9007199254740992.5", "0.1000000000000000055511151231257827021181583404541015625",
                "2.2250738585072011e-308", "4.9406564584124654e-324", "2.4703282292062327e-324", "2.4703282292062328e-324", "1.7976931348623157e308",
                "1.7976931348623158e308", "123456789012345678901234567890.123456789e-10", "0.000000000000000000000000000000000001e36", "1e-400", "1e22", "1e23", "8.41e21", "5e-324", "3e-324"])).to_string()
        }
    }
}

fn gen_jt(r: &mut Rng, depth: u32, out: &mut Out, safe: bool) -> JT {
    let container = depth < 4 && r.chance(if depth == 0 { 1 } else { 3 }, if depth == 0 { 1 } else { 8 });
    if !container {
        return match r.below(10) {
            0 => { out.count("json_null"); JT::Lit("null".into()) }
            1 => { out.count("json_bool"); JT::Lit(if r.chance(1, 2) { "true".into() } else { "false".into() }) }
            2..=4 => { out.count("json_string"); JT::Str(gen_string(r)) }
            _ => JT::Lit(gen_number_literal(r, out, safe)),
        };
    }
    let n = match r.below(6) { 0 => 0, 1 => 1, _ => r.range(2, 5) } as usize;
    if n == 0 { out.count("json_empty_container"); }
    if depth == 0 || r.chance(1, 2) {
        out.count("json_object");
        let mut kvs: Vec<(String, JT)> = (0..n).map(|_| { let k = gen_key(r, true); if k.is_empty() { out.count("json_empty_key"); } (k, gen_jt(r, depth + 1, out, safe)) }).collect();
        if n > 0 && r.chance(1, 12) { out.count("json_duplicate_key"); let k = kvs[0].0.clone(); kvs.push((k, gen_jt(r, depth + 1, out, safe))); }
        JT::Obj(kvs)
    } else {
        out.count("json_array");
        JT::Arr((0..n).map(|_| gen_jt(r, depth + 1, out, safe)).collect())
    }
}

fn render_string(r: &mut Rng, s: &str, o: &mut String) {
    o.push('"');
    for c in s.chars() {
        let cp = c as u32;
        match c {
            '"' => o.push_str("\\\""),
            '\\' => o.push_str("\\\\"),
            '\n' if r.chance(1, 2) => o.push_str("\\n"),
            '\t' if r.chance(1, 2) => o.push_str("\\t"),
            '\r' => o.push_str("\\r"),
            '\u{8}' if r.chance(1, 2) => o.push_str("\\b"),
            '\u{c}' if r.chance(1, 2) => o.push_str("\\f"),
            '/' if r.chance(1, 2) => o.push_str("\\/"),
            _ if cp < 0x20 => o.push_str(&format!("\\u{:04x}", cp)),
            _ if r.chance(1, 6) => {
                // \u escape, surrogate pair for astral characters, random hex digit case
                let mut units = [0u16; 2];
                for u in c.encode_utf16(&mut units) {
                    if r.chance(1, 2) { o.push_str(&format!("\\u{:04x}", u)); } else { o.push_str(&format!("\\u{:04X}", u)); }
                }
            }
            _ => o.push(c),
        }
    }
    o.push('"');
}

fn ws(r: &mut Rng, o: &mut String) {
    if r.chance(1, 5) { o.push_str(*r.pick(&[" ", "\n", "\t", "  ", "\r\n"])); }
}

fn render_jt(r: &mut Rng, j: &JT, o: &mut String) {
    match j {
        JT::Lit(s) => o.push_str(s),
        JT::Str(s) => render_string(r, s, o),
        JT::Arr(xs) => {
            o.push('['); ws(r, o);
            for (i, x) in xs.iter().enumerate() { if i > 0 { o.push(','); ws(r, o); } render_jt(r, x, o); ws(r, o); }
            o.push(']');
        }
        JT::Obj(kvs) => {
            o.push('{'); ws(r, o);
            for (i, (k, x)) in kvs.iter().enumerate() {
                if i > 0 { o.push(','); ws(r, o); }
                render_string(r, k, o); ws(r, o); o.push(':'); ws(r, o);
                render_jt(r, x, o); ws(r, o);
            }
            o.push('}');
        }
    }
}

/// options: `--floats safe` restricts float literals of the CLI stream to the class that does not
/// depend on serde_json's `float_roundtrip` feature (see the `[float-text-parse]` finding)
pub fn generate(r: &mut Rng, opts: &BTreeMap<String, String>, sess: &mut Session, out: &mut Out) {
    let safe = opts.get("floats").map(|s| s == "safe").unwrap_or(false);
    // 1. two documents: current state with conflicts, deleted registers, every scalar kind
    for _ in 0..2 {
        let spec = gen_val(r, 0, out);
        let mut s = String::new();
        render_v(&spec, &mut s);
        out.count("doc_cases");
        exec_line(sess, &format!("serde.doc {}", s), out);
    }
    // 2. three JSON texts through the CLI binary
    for _ in 0..3 {
        let kind = r.below(100);
        let j = if kind < 8 {
            // invalid stream: the top level is not an object
            out.count("cli_top_level_not_object");
            match r.below(4) {
                0 => JT::Arr(vec![gen_jt(r, 3, out, safe)]),
                1 => JT::Lit(gen_number_literal(r, out, safe)),
                2 => JT::Str(gen_string(r)),
                _ => JT::Lit("null".into()),
            }
        } else {
            gen_jt(r, 0, out, safe)
        };
        let mut text = String::new();
        ws(r, &mut text);
        render_jt(r, &j, &mut text);
        ws(r, &mut text);
        if kind >= 97 {
            // invalid stream: truncated text
            out.count("cli_truncated_text");
            let last = text.rfind('}').unwrap_or(0);
            let mut cut = r.below(last as u64 + 1) as usize;
            while !text.is_char_boundary(cut) { cut -= 1; }
            text.truncate(cut);
        } else if kind >= 8 {
            out.count("cli_object");
        }
        out.count("cli_cases");
        exec_line(sess, &format!("serde.cli {}", super::hx(text.as_bytes())), out);
    }
}
